import Snowflake.Generated.Broker
import Snowflake.Base.Skel
import Snowflake.Base.SkelStack
/-!
Tie obligations for the broker rendezvous model (C02, C03, C04): the synchronisation skeletons
regenerated from `/repo/broker/{broker.go, ipc.go, snowflake-heap.go}` are the ones the hand-written
LTS `Snowflake.Model.Broker` was written against.  Each `expected_*` list is annotated with the labels
of the model it justifies.  A change of lock scope, channel capacity, select arm, `delete`/`close`
site, pool choice or heap order changes a regenerated list and breaks the corresponding obligation.
-/
namespace Snowflake.Tie.Broker
open Snowflake.Gen

/-- waiter goroutine: select between the offer and the proxy timeout; timeout arm takes the lock, and if the snowflake was already popped (index == -1) releases it, receives the offer and forwards it (labels wCrit → wLate → wFwd); otherwise heap.Remove + delete + close under the deferred unlock (label wCrit). No blocking operation while the lock is held. -/
def expected_Broker : List String := [
  "range ctx.proxyPolls{",
  "go{",
  "select{",
  "case:",
  "recv snowflake.offerChannel",
  "do:",
  "send request.offerChannel",
  "case:",
  "recv time.After(time.Second * ProxyTimeout)",
  "call time.After(time.Second * ProxyTimeout)",
  "do:",
  "call ctx.snowflakeLock.Lock()",
  "if snowflake.index == -1{",
  "call ctx.snowflakeLock.Unlock()",
  "recv snowflake.offerChannel",
  "send request.offerChannel",
  "return",
  "}",
  "defer ctx.snowflakeLock.Unlock()",
  "if snowflake.index != -1{",
  "if request.natType == NATUnrestricted{",
  "call heap.Remove(ctx.snowflakes, snowflake.index)",
  "}else{",
  "call heap.Remove(ctx.restrictedSnowflakes, snowflake.index)",
  "}",
  "call delete(ctx.idToSnowflake, snowflake.id)",
  "call close(request.offerChannel)",
  "}",
  "}",
  "}",
  "}"
]

theorem skel_Broker_tie : Broker.skel_Broker = expected_Broker := by decide +kernel

/-- poll handler: unbuffered request.offerChannel; send on proxyPolls (label add), then receive (labels wFwd / hIdle). -/
def expected_RequestOffer : List String := [
  "makechan cap=0",
  "send ctx.proxyPolls",
  "recv request.offerChannel",
  "return"
]

theorem skel_RequestOffer_tie : Broker.skel_RequestOffer = expected_RequestOffer := by decide +kernel

/-- offerChannel unbuffered, answerChannel capacity 1; push on the heap chosen by `natType == NATUnrestricted` and map insertion in one critical section (label add; `pushU`). -/
def expected_AddSnowflake : List String := [
  "makechan cap=0",
  "makechan cap=1",
  "call ctx.snowflakeLock.Lock()",
  "if natType == NATUnrestricted{",
  "call heap.Push(ctx.snowflakes, snowflake)",
  "}else{",
  "call heap.Push(ctx.restrictedSnowflakes, snowflake)",
  "}",
  "assign ctx.idToSnowflake[id] = snowflake",
  "call ctx.snowflakeLock.Unlock()",
  "return"
]

theorem skel_AddSnowflake_tie : Broker.skel_AddSnowflake = expected_AddSnowflake := by decide +kernel

/-- pool choice: unrestricted clients are served from restrictedSnowflakes, all others from snowflakes (`wantU`); pop under the lock, nil when empty (labels cMatch / cDeny). -/
def expected_matchSnowflake : List String := [
  "if natType == NATUnrestricted{",
  "assign snowflakeHeap = i.ctx.restrictedSnowflakes",
  "}else{",
  "assign snowflakeHeap = i.ctx.snowflakes",
  "}",
  "call i.ctx.snowflakeLock.Lock()",
  "defer i.ctx.snowflakeLock.Unlock()",
  "if snowflakeHeap.Len() > 0{",
  "call heap.Pop(snowflakeHeap)",
  "return heap.Pop(snowflakeHeap).(*Snowflake)",
  "}else{",
  "return nil",
  "}"
]

theorem skel_matchSnowflake_tie : Broker.skel_matchSnowflake = expected_matchSnowflake := by decide +kernel

/-- bridge lookup before matching (cReject); send on snowflake.offerChannel (wOffer / wLate) or denial (cDeny); select between answer and client timeout (cRecv / cTimer); clean-up critical section (cFin). -/
def expected_ClientOffers : List String := [
  "if err != nil{",
  "call sendClientResponse(&messages.ClientPollResponse{Error: err.Error()}, response)",
  "return",
  "}",
  "if err != nil{",
  "call sendClientResponse(&messages.ClientPollResponse{Error: err.Error()}, response)",
  "return",
  "}",
  "if err != nil{",
  "call sendClientResponse(&messages.ClientPollResponse{Error: err.Error()}, response)",
  "return",
  "}",
  "call i.ctx.GetBridgeInfo(BridgeFingerprint)",
  "if err != nil{",
  "return",
  "}",
  "call i.matchSnowflake(offer.natType)",
  "if snowflake != nil{",
  "send snowflake.offerChannel",
  "}else{",
  "call i.ctx.metrics.lock.Lock()",
  "call i.ctx.metrics.lock.Unlock()",
  "call sendClientResponse(resp, response)",
  "return",
  "}",
  "select{",
  "case:",
  "recv snowflake.answerChannel",
  "do:",
  "call i.ctx.metrics.lock.Lock()",
  "call i.ctx.metrics.lock.Unlock()",
  "call sendClientResponse(resp, response)",
  "call i.ctx.metrics.lock.Lock()",
  "call i.ctx.metrics.lock.Unlock()",
  "case:",
  "recv time.After(time.Second * ClientTimeout)",
  "call time.After(time.Second * ClientTimeout)",
  "do:",
  "call sendClientResponse(resp, response)",
  "}",
  "call i.ctx.snowflakeLock.Lock()",
  "call delete(i.ctx.idToSnowflake, snowflake.id)",
  "call i.ctx.snowflakeLock.Unlock()",
  "return"
]

theorem skel_ClientOffers_tie : Broker.skel_ClientOffers = expected_ClientOffers := by decide +kernel

/-- lookup under the lock (aLookup), then a non-blocking send into the answer channel (aSend). -/
def expected_ProxyAnswers : List String := [
  "if err != nil || answer == \"\"{",
  "return",
  "}",
  "call i.ctx.snowflakeLock.Lock()",
  "assign snowflake, ok := i.ctx.idToSnowflake[id]",
  "call i.ctx.snowflakeLock.Unlock()",
  "if !ok || snowflake == nil{",
  "assign success = false",
  "}",
  "if err != nil{",
  "return",
  "}",
  "if success{",
  "select{",
  "case:",
  "send snowflake.answerChannel",
  "do:",
  "default:",
  "do:",
  "}",
  "}",
  "return"
]

theorem skel_ProxyAnswers_tie : Broker.skel_ProxyAnswers = expected_ProxyAnswers := by decide +kernel

/-- after RequestOffer: nil ⇒ idle reply; otherwise bridge lookup by the offer's fingerprint and reply with its relay URL (hRespond). -/
def expected_ProxyPollsTail : List String := [
  "if err != nil{",
  "return",
  "}",
  "if !relayPatternSupported{",
  "call i.ctx.metrics.lock.Lock()",
  "call i.ctx.metrics.lock.Unlock()",
  "}else{",
  "call i.ctx.metrics.lock.Lock()",
  "call i.ctx.metrics.lock.Unlock()",
  "}",
  "if !i.ctx.CheckProxyRelayPattern(relayPattern, !relayPatternSupported){",
  "call i.ctx.metrics.lock.Lock()",
  "call i.ctx.metrics.lock.Unlock()",
  "call messages.EncodePollResponseWithRelayURL(\"\", false, \"\", \"\", \"incorrect relay pattern\")",
  "if err != nil{",
  "return",
  "}",
  "return",
  "}",
  "if err != nil{",
  "}else{",
  "call i.ctx.metrics.lock.Lock()",
  "call i.ctx.metrics.lock.Unlock()",
  "}",
  "call i.ctx.RequestOffer(sid, proxyType, natType, clients)",
  "if offer == nil{",
  "call i.ctx.metrics.lock.Lock()",
  "call i.ctx.metrics.lock.Unlock()",
  "call messages.EncodePollResponse(\"\", false, \"\")",
  "if err != nil{",
  "return",
  "}",
  "return",
  "}",
  "if err != nil{",
  "return",
  "}",
  "call i.ctx.bridgeList.GetBridgeInfo(bridgeFingerprint)",
  "if err != nil{",
  "return",
  "}",
  "call messages.EncodePollResponseWithRelayURL(string(offer.sdp), true, offer.natType, relayURL, \"\")",
  "if err != nil{",
  "return",
  "}",
  "return"
]

theorem skel_ProxyPollsTail_tie : Broker.skel_ProxyPollsTail = expected_ProxyPollsTail := by decide +kernel

/-- heap order: fewer self-reported clients first (cMatch guard: clients-minimal). -/
def expected_heap_Less : List String := [
  "return sh[i].clients < sh[j].clients"
]

theorem skel_heap_Less_tie : Broker.skel_heap_Less = expected_heap_Less := by decide +kernel

/-- index bookkeeping on swap. -/
def expected_heap_Swap : List String := [
  "assign sh[i], sh[j] = sh[j], sh[i]",
  "assign sh[i].index = i",
  "assign sh[j].index = j"
]

theorem skel_heap_Swap_tie : Broker.skel_heap_Swap = expected_heap_Swap := by decide +kernel

/-- index = position on push. -/
def expected_heap_Push : List String := [
  "assign n := len(*sh)",
  "assign snowflake := s.(*Snowflake)",
  "assign snowflake.index = n",
  "assign *sh = append(*sh, snowflake)"
]

theorem skel_heap_Push_tie : Broker.skel_heap_Push = expected_heap_Push := by decide +kernel

/-- index = -1 on pop (the waiter's `snowflake.index == -1` test means "popped or removed"). -/
def expected_heap_Pop : List String := [
  "assign flakes := *sh",
  "assign n := len(flakes)",
  "assign snowflake := flakes[n-1]",
  "assign snowflake.index = -1",
  "assign *sh = flakes[0 : n-1]",
  "return snowflake"
]

theorem skel_heap_Pop_tie : Broker.skel_heap_Pop = expected_heap_Pop := by decide +kernel

/-- The two protocol waits are positive constants (their value is used by the harness only). -/
theorem timeouts_positive : Broker.ClientTimeout > 0 ∧ Broker.ProxyTimeout > 0 := by decide

/-- The three NAT names are pairwise distinct, so the `==` tests of the source separate them as the
model's `NatT` does. -/
theorem nat_names_distinct :
    Broker.NATUnknown ≠ Broker.NATRestricted ∧ Broker.NATUnknown ≠ Broker.NATUnrestricted
    ∧ Broker.NATRestricted ≠ Broker.NATUnrestricted := by decide

/-! ## Registration accounting sites (events of `Model/BrokerReg.lean`)

Each event of the registration model is one critical section of the source that contains exactly the listed
effects: `add` = one heap push (per branch), one gauge `Inc`, one id-map store; `timeout` = heap remove, one gauge
`Dec`, one id-map delete, only when the poll is still queued; `cleanup` = one gauge `Dec` and one id-map delete at
the end of `ClientOffers`, reached on both arms of the answer/timeout `select`; nothing else touches the gauge or
the id map (`ProxyAnswers` only reads it). -/

def anyGauge (l : String) : Bool := Snowflake.Skel.contains "AvailableProxies" l
def isGauge (op : String) (l : String) : Bool :=
  l.startsWith "call " && anyGauge l && l.endsWith ("." ++ op ++ "()")
def mapWrite (l : String) : Bool :=
  (l.startsWith "assign " && Snowflake.Skel.contains "idToSnowflake[" l && !(l.startsWith "assign snowflake, ok")) ||
  (l.startsWith "call delete(" && Snowflake.Skel.contains "idToSnowflake" l)

open Snowflake.Skel in
theorem registration_sites :
    -- add
    count Broker.reg_AddSnowflake anyGauge = 1 ∧ count Broker.reg_AddSnowflake (isGauge "Inc") = 1
    ∧ count Broker.reg_AddSnowflake mapWrite = 1
    ∧ Broker.reg_AddSnowflake.contains "assign ctx.idToSnowflake[id] = snowflake" = true
    ∧ count Broker.reg_AddSnowflake (pre "call heap.Push(") = 2
    ∧ before Broker.reg_AddSnowflake (· == "call ctx.snowflakeLock.Lock()") (pre "call heap.Push(") = true
    ∧ before Broker.reg_AddSnowflake mapWrite (· == "call ctx.snowflakeLock.Unlock()") = true
    ∧ before Broker.reg_AddSnowflake (isGauge "Inc") (· == "call ctx.snowflakeLock.Unlock()") = true
    -- timeout
    ∧ count Broker.reg_Broker anyGauge = 1 ∧ count Broker.reg_Broker (isGauge "Dec") = 1
    ∧ count Broker.reg_Broker mapWrite = 1
    ∧ blockOf Broker.reg_Broker (· == "if snowflake.index != -1{") = some [
        "if request.natType == NATUnrestricted{",
        "call heap.Remove(ctx.snowflakes, snowflake.index)",
        "}else{",
        "call heap.Remove(ctx.restrictedSnowflakes, snowflake.index)",
        "}",
        "call ctx.metrics.promMetrics.AvailableProxies.With(prometheus.Labels{\"nat\": request.natType, \"type\": request.proxyType}).Dec()",
        "call delete(ctx.idToSnowflake, snowflake.id)",
        "call close(request.offerChannel)"]
    -- cleanup: after the select, at the top level of ClientOffers
    ∧ count Broker.reg_ClientOffers anyGauge = 1 ∧ count Broker.reg_ClientOffers (isGauge "Dec") = 1
    ∧ count Broker.reg_ClientOffers mapWrite = 1
    ∧ Broker.reg_ClientOffers.reverse.take 5 = [
        "return",
        "call i.ctx.snowflakeLock.Unlock()",
        "call delete(i.ctx.idToSnowflake, snowflake.id)",
        "call i.ctx.metrics.promMetrics.AvailableProxies.With(prometheus.Labels{\"nat\": snowflake.natType, \"type\": snowflake.proxyType}).Dec()",
        "call i.ctx.snowflakeLock.Lock()"]
    ∧ blockOf Broker.reg_ClientOffers (· == "select{") = some [
        "case:", "recv snowflake.answerChannel", "do:",
        "call i.ctx.metrics.lock.Lock()", "call i.ctx.metrics.lock.Unlock()",
        "call i.ctx.metrics.lock.Lock()", "call i.ctx.metrics.lock.Unlock()",
        "case:", "recv time.After(time.Second * ClientTimeout)", "call time.After(time.Second * ClientTimeout)", "do:"]
    -- nothing else
    ∧ count Broker.reg_ProxyAnswers anyGauge = 0 ∧ count Broker.reg_ProxyAnswers mapWrite = 0 := by
  decide +kernel

end Snowflake.Tie.Broker
