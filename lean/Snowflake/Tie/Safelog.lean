import Snowflake.Generated.Safelog
import Snowflake.Model.Safelog
import Snowflake.Base.Skel
/-!
Tie obligations for C07: facts about the expressions and skeletons regenerated from
`common/safelog/log.go` that the theorems of `Props/C07.lean` rest on.  All are closed evaluations of
structural analyses (`decide +kernel`), so they survive edits of the address patterns that keep the
analysed facts true, and fail when a fact is lost.
-/
namespace Snowflake.Tie.Safelog
open Snowflake.Rx Snowflake.Safelog
set_option maxRecDepth 100000

/-- The compiled variables use the two named constants, and there is exactly one scrubber pattern. -/
theorem compiled_patterns :
    Gen.Safelog.scrubberPattern0_count = 1 ∧ Gen.Safelog.scrubberPattern0 = Gen.Safelog.fullAddrPattern
    ∧ Gen.Safelog.addressRegexp_count = 1 ∧ Gen.Safelog.addressRegexp = Gen.Safelog.addressPattern := by
  decide +kernel

/-- `fullAddrPattern` is `(^|\s|[^\w:])` · `addressPattern` · `(\s|(:\s)|[^\w:]|$)` (up to captures and the
bracketing of the concatenation). -/
theorem full_is_delim_addr_delim :
    factors Gen.Safelog.fullAddrPattern = delimL :: (factors Gen.Safelog.addressPattern ++ [delimR]) := by
  decide +kernel

/-- `addressPattern` contains no anchor, so what it matches does not depend on the surrounding text. -/
theorem address_anchor_free : anchorFree Gen.Safelog.addressPattern = true := by decide +kernel

/-- Every match of `addressPattern` contains three dots, or five colons, or a double colon
(weight 2 per dot, 3 per colon): its weight is at least 6, while the placeholder weighs 0. -/
theorem address_heavy : 6 ≤ minWeight wt Gen.Safelog.addressPattern := by decide +kernel

/-- No class of `addressPattern` contains the line feed: an address match never contains a newline. -/
theorem address_avoids_newline : avoids 10 Gen.Safelog.addressPattern = true := by decide +kernel

/-- `addressPattern` has the shape the coverage theorems are proved about (`Model/Safelog.lean`,
`addressShapeN n`), where `n ≥ 5` is the repeat bound in `ipv6Compressed`: up to `n` groups-with-colon and one
more group on either side of `::`.  (The bound is found by trying 5…8, so the obligation survives a change of
the bound.) -/
theorem address_shape : ∃ n, 5 ≤ n ∧ eraseCaps Gen.Safelog.addressPattern = addressShapeN n := by
  first
  | exact ⟨5, by decide, by decide +kernel⟩
  | exact ⟨6, by decide, by decide +kernel⟩
  | exact ⟨7, by decide, by decide +kernel⟩
  | exact ⟨8, by decide, by decide +kernel⟩

/-- `Scrub` repeats the replacement pass under `pattern.Match` and replaces by the literal placeholder. -/
theorem scrub_skeleton :
    ((Skel.blockOf Gen.Safelog.skel_Scrub (· == "for{")).map fun b =>
        Skel.before b (Skel.pre "call pattern.Match(scrubbedBytes)") (Skel.pre "call pattern.ReplaceAllFunc(scrubbedBytes, func)")
        && b.contains "call addressRegexp.ReplaceAll(b, []byte(\"[scrubbed]\"))") = some true
    ∧ Skel.count Gen.Safelog.skel_Scrub (Skel.pre "call pattern.ReplaceAllFunc(") = 1
    ∧ Gen.Safelog.skel_Scrub.getLast? = some "return" := by
  decide +kernel

/-- `Write` takes the lock first and releases it on return; inside its loop it cuts at the *first* newline
(`IndexByte`, never `LastIndexByte`), writes the scrubbed line and leaves the loop when no newline is left. -/
theorem write_skeleton :
    Gen.Safelog.skel_Write.head? = some "call ls.Lock()"
    ∧ Gen.Safelog.skel_Write.contains "defer ls.Unlock()" = true
    ∧ Skel.count Gen.Safelog.skel_Write (Skel.pre "call bytes.LastIndexByte(") = 0
    ∧ ((Skel.blockOf Gen.Safelog.skel_Write (· == "for{")).map fun b =>
        Skel.before b (Skel.pre "call bytes.IndexByte(ls.buffer, '\\n')") (Skel.pre "call ls.Output.Write(Scrub(")
        && Skel.before b (Skel.pre "if i == -1{") (Skel.pre "call ls.Output.Write(Scrub(")
        && Skel.count b (Skel.pre "call ls.Output.Write(") == 1) = some true := by
  decide +kernel

end Snowflake.Tie.Safelog
