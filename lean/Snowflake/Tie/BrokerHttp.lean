import Snowflake.Generated.BrokerHttp
import Snowflake.Model.BrokerHttp
/-!
Tie obligations for C14: the skeletons (status codes, early returns, the legacy `switch`, absence of
`panic`) regenerated from `/repo/broker/http.go` and `/repo/broker/amp.go` are the ones the model
`Snowflake.Model.BrokerHttp` was written against; the string constants of the status map and the
legacy/versioned distinction are the source's.
-/
namespace Snowflake.Tie.BrokerHttp
open Snowflake.Gen Snowflake.BrokerHttp

/-- CORS headers, OPTIONS short-circuit before the handler (`serve`). -/
def expected_ServeHTTP : List String := [
  "if \"OPTIONS\" == r.Method{",
  "return",
  "}",
  "call sh.handle(sh.IPC, w, r)"
]

theorem skel_ServeHTTP_tie : BrokerHttp.skel_ServeHTTP = expected_ServeHTTP := by decide +kernel

/-- same for /metrics. -/
def expected_MetricsServeHTTP : List String := [
  "if \"OPTIONS\" == r.Method{",
  "return",
  "}",
  "call mh.handle(mh.logFilename, w, r)"
]

theorem skel_MetricsServeHTTP_tie : BrokerHttp.skel_MetricsServeHTTP = expected_MetricsServeHTTP := by decide +kernel

/-- body cap → 400; ErrBadRequest → 400; ErrInternal / other → 500; else 200 with the response (`proxyShell`). -/
def expected_proxyPolls : List String := [
  "call http.MaxBytesReader(w, r.Body, readLimit)",
  "if err != nil{",
  "call w.WriteHeader(http.StatusBadRequest)",
  "return",
  "}",
  "call i.ProxyPolls(arg, &response)",
  "switch{",
  "case errors.Is(err, messages.ErrBadRequest):",
  "call w.WriteHeader(http.StatusBadRequest)",
  "return",
  "case errors.Is(err, messages.ErrInternal):",
  "fallthrough",
  "case default:",
  "call w.WriteHeader(http.StatusInternalServerError)",
  "return",
  "}",
  "call w.Write(response)"
]

theorem skel_proxyPolls_tie : BrokerHttp.skel_proxyPolls = expected_proxyPolls := by decide +kernel

/-- body cap → 400; legacy test `body[0] == '{'` and re-encoding (failure → 500); core error → 500; legacy: decode failure → 500, status map ""→200 answer, no proxies→503, timed out→504, anything else→400 (no panic) (`clientShell`, `legacyMap`). -/
def expected_clientOffers : List String := [
  "call http.MaxBytesReader(w, r.Body, readLimit)",
  "if err != nil{",
  "call w.WriteHeader(http.StatusBadRequest)",
  "return",
  "}",
  "assign isLegacy := false",
  "if len(body) > 0 && body[0] == '{'{",
  "assign isLegacy = true",
  "call req.EncodeClientPollRequest()",
  "if err != nil{",
  "call w.WriteHeader(http.StatusInternalServerError)",
  "return",
  "}",
  "}",
  "call i.ClientOffers(arg, &response)",
  "if err != nil{",
  "call w.WriteHeader(http.StatusInternalServerError)",
  "return",
  "}",
  "if isLegacy{",
  "call messages.DecodeClientPollResponse(response)",
  "if err != nil{",
  "call w.WriteHeader(http.StatusInternalServerError)",
  "return",
  "}",
  "switch resp.Error{",
  "case \"\":",
  "assign response = []byte(resp.Answer)",
  "case messages.StrNoProxies:",
  "call w.WriteHeader(http.StatusServiceUnavailable)",
  "return",
  "case messages.StrTimedOut:",
  "call w.WriteHeader(http.StatusGatewayTimeout)",
  "return",
  "case default:",
  "call w.WriteHeader(http.StatusBadRequest)",
  "return",
  "}",
  "}",
  "call w.Write(response)"
]

theorem skel_clientOffers_tie : BrokerHttp.skel_clientOffers = expected_clientOffers := by decide +kernel

/-- same shape as proxyPolls (`proxyShell`). -/
def expected_proxyAnswers : List String := [
  "call http.MaxBytesReader(w, r.Body, readLimit)",
  "if err != nil{",
  "call w.WriteHeader(http.StatusBadRequest)",
  "return",
  "}",
  "call i.ProxyAnswers(arg, &response)",
  "switch{",
  "case errors.Is(err, messages.ErrBadRequest):",
  "call w.WriteHeader(http.StatusBadRequest)",
  "return",
  "case errors.Is(err, messages.ErrInternal):",
  "fallthrough",
  "case default:",
  "call w.WriteHeader(http.StatusInternalServerError)",
  "return",
  "}",
  "call w.Write(response)"
]

theorem skel_proxyAnswers_tie : BrokerHttp.skel_proxyAnswers = expected_proxyAnswers := by decide +kernel

/-- prefix mismatch → 500; undecodable path → armored error document; core error → 500; else 200 + armor (`ampShell`). -/
def expected_ampClientOffers : List String := [
  "if path == r.URL.Path{",
  "call w.WriteHeader(http.StatusInternalServerError)",
  "return",
  "}",
  "call amp.DecodePath(path)",
  "if err == nil{",
  "call i.ClientOffers(arg, &response)",
  "}",
  "if err != nil{",
  "call w.WriteHeader(http.StatusInternalServerError)",
  "return",
  "}",
  "call w.WriteHeader(http.StatusOK)",
  "call amp.NewArmorEncoder(w)",
  "if err != nil{",
  "return",
  "}",
  "defer enc.Close()",
  "call enc.Write(response)"
]

theorem skel_ampClientOffers_tie : BrokerHttp.skel_ampClientOffers = expected_ampClientOffers := by decide +kernel

/-- core error → 500 else 200 body (`debugShell`). -/
def expected_debugHandler : List String := [
  "call i.Debug(new(interface{}), &response)",
  "if err != nil{",
  "call w.WriteHeader(http.StatusInternalServerError)",
  "return",
  "}",
  "call w.Write([]byte(response))"
]

theorem skel_debugHandler_tie : BrokerHttp.skel_debugHandler = expected_debugHandler := by decide +kernel

/-- no file / unreadable → 404 (`metricsShell`). -/
def expected_metricsHandler : List String := [
  "if metricsFilename == \"\"{",
  "call http.NotFound(w, r)",
  "return",
  "}",
  "if err != nil{",
  "call http.NotFound(w, r)",
  "return",
  "}"
]

theorem skel_metricsHandler_tie : BrokerHttp.skel_metricsHandler = expected_metricsHandler := by decide +kernel

/-- No handler of the shell contains a `panic` call. -/
theorem no_panic_in_handlers :
    ([BrokerHttp.skel_ServeHTTP, BrokerHttp.skel_MetricsServeHTTP, BrokerHttp.skel_proxyPolls, BrokerHttp.skel_clientOffers,
      BrokerHttp.skel_proxyAnswers, BrokerHttp.skel_ampClientOffers, BrokerHttp.skel_debugHandler,
      BrokerHttp.skel_metricsHandler].all (fun sk => !sk.any (fun l => l.startsWith "call panic("))) = true := by
  decide +kernel

/-- The strings of the legacy status map are the source's constants. -/
theorem status_strings_tie : BrokerHttp.StrNoProxies = strNoProxies ∧ BrokerHttp.StrTimedOut = strTimedOut := by
  decide +kernel

/-- A versioned client message starts with the version string, whose first byte is not `{`: the shim's
re-encoding of a legacy request is never itself taken for a legacy request (hypothesis `hver` of
`legacy_equiv`). -/
theorem versioned_is_not_legacy : isLegacy BrokerHttp.ClientVersion = false := by decide +kernel

theorem readLimit_tie : BrokerHttp.readLimit = 100000 := by decide

end Snowflake.Tie.BrokerHttp
