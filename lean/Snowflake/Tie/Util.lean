import Snowflake.Generated.Util
import Snowflake.Model.Util
import Snowflake.Base.Skel
/-!
Tie obligations for C08: the definition regenerated from `common/util/util.go IsLocal` equals the
interval model for every byte slice; the filter loop of `StripLocalAddresses` still has the nested
guards, the `continue` and the single `append` that `Util.stripLoop` mirrors.
-/
namespace Snowflake.Tie.Util
open Snowflake.Util Snowflake.GoStr Snowflake.Skel

/-- a Boolean fact about all 256 bytes, checked by enumeration -/
theorem u8_all (P : UInt8 → Bool) (h : ∀ i : Fin 256, P (UInt8.ofNat i.val) = true) (x : UInt8) : P x = true := by
  have := h ⟨x.toNat, x.toNat_lt⟩
  simpa using this

theorem eq10 (x : UInt8) : (x == 10) = (x.toNat == 10) :=
  by simpa using u8_all (fun x => (x == 10) == (x.toNat == 10)) (by decide +kernel) x
theorem eq172 (x : UInt8) : (x == 172) = (x.toNat == 172) :=
  by simpa using u8_all (fun x => (x == 172) == (x.toNat == 172)) (by decide +kernel) x
theorem eq192 (x : UInt8) : (x == 192) = (x.toNat == 192) :=
  by simpa using u8_all (fun x => (x == 192) == (x.toNat == 192)) (by decide +kernel) x
theorem eq168 (x : UInt8) : (x == 168) = (x.toNat == 168) :=
  by simpa using u8_all (fun x => (x == 168) == (x.toNat == 168)) (by decide +kernel) x
theorem eq100 (x : UInt8) : (x == 100) = (x.toNat == 100) :=
  by simpa using u8_all (fun x => (x == 100) == (x.toNat == 100)) (by decide +kernel) x
theorem eq169 (x : UInt8) : (x == 169) = (x.toNat == 169) :=
  by simpa using u8_all (fun x => (x == 169) == (x.toNat == 169)) (by decide +kernel) x
theorem eq254 (x : UInt8) : (x == 254) = (x.toNat == 254) :=
  by simpa using u8_all (fun x => (x == 254) == (x.toNat == 254)) (by decide +kernel) x
/-- `b & 0xf0 == 16` is `16 ≤ b ≤ 31` -/
theorem mask_f0 (x : UInt8) : (x &&& 240 == 16) = (decide (16 ≤ x.toNat) && decide (x.toNat ≤ 31)) :=
  by simpa using u8_all (fun x => (x &&& 240 == 16) == (decide (16 ≤ x.toNat) && decide (x.toNat ≤ 31))) (by decide +kernel) x
/-- `b & 0xc0 == 64` is `64 ≤ b ≤ 127` -/
theorem mask_c0 (x : UInt8) : (x &&& 192 == 64) = (decide (64 ≤ x.toNat) && decide (x.toNat ≤ 127)) :=
  by simpa using u8_all (fun x => (x &&& 192 == 64) == (decide (64 ≤ x.toNat) && decide (x.toNat ≤ 127))) (by decide +kernel) x
/-- `b & 0xfe == 0xfc` is `252 ≤ b ≤ 253` -/
theorem mask_fe (x : UInt8) : (x &&& 254 == 252) = (decide (252 ≤ x.toNat) && decide (x.toNat ≤ 253)) :=
  by simpa using u8_all (fun x => (x &&& 254 == 252) == (decide (252 ≤ x.toNat) && decide (x.toNat ≤ 253))) (by decide +kernel) x

/-- **The translated `util.IsLocal` is the model's `isLocal`, for every byte slice.** -/
theorem isLocal_tie (ip : List UInt8) : Gen.Util.IsLocal ip = isLocal ip := by
  unfold Gen.Util.IsLocal isLocal
  cases to4 ip with
  | none => simp only [mask_fe]
  | some ip4 => simp only [eq10, eq172, eq192, eq168, eq100, eq169, eq254, mask_f0, mask_c0]

open Snowflake.Gen.Util in
/-- `StripLocalAddresses`: an unparseable description is returned unchanged; inside the loops an attribute
is skipped (`continue`) only under the three nested guards — ICE candidate / parses and is a host
candidate / address parses and is local, unspecified or loopback — and otherwise appended, exactly
once; the filtered list replaces the media section's attributes. -/
theorem strip_listing :
    before stmts_StripLocalAddresses (· == "assign err := desc.Unmarshal([]byte(str))") (· == "range desc.MediaDescriptions{") = true
    ∧ blockOf stmts_StripLocalAddresses (· == "if err != nil{") = some ["return str"]
    ∧ blockOf stmts_StripLocalAddresses (· == "if a.IsICECandidate(){") = some [
        "assign c, err := ice.UnmarshalCandidate(a.Value)",
        "if err == nil && c.Type() == ice.CandidateTypeHost{",
        "assign ip := net.ParseIP(c.Address())",
        "if ip != nil && (IsLocal(ip) || ip.IsUnspecified() || ip.IsLoopback()){",
        "continue",
        "}",
        "}"]
    ∧ blockOf stmts_StripLocalAddresses (· == "range m.Attributes{") = some [
        "if a.IsICECandidate(){",
        "assign c, err := ice.UnmarshalCandidate(a.Value)",
        "if err == nil && c.Type() == ice.CandidateTypeHost{",
        "assign ip := net.ParseIP(c.Address())",
        "if ip != nil && (IsLocal(ip) || ip.IsUnspecified() || ip.IsLoopback()){",
        "continue",
        "}",
        "}",
        "}",
        "assign attrs = append(attrs, a)"]
    ∧ count stmts_StripLocalAddresses (· == "continue") = 1
    ∧ before stmts_StripLocalAddresses (· == "assign attrs := make([]sdp.Attribute, 0)") (· == "range m.Attributes{") = true
    ∧ before stmts_StripLocalAddresses (· == "assign attrs = append(attrs, a)") (· == "assign m.Attributes = attrs") = true
    ∧ before stmts_StripLocalAddresses (· == "assign m.Attributes = attrs") (· == "assign bts, err := desc.Marshal()") = true
    ∧ stmts_StripLocalAddresses.getLast? = some "return string(bts)"
    ∧ count stmts_StripLocalAddresses (pre "return") = 3 := by
  decide +kernel

end Snowflake.Tie.Util
