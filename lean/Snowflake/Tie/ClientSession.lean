import Snowflake.Generated.ClientSession
/-!
Tie obligations for C01: the client-side wiring of a session that the stack harness replicates (with
WebSocket carriers in place of WebRTC peers) and that the theorems assume — preface order, one frame per
datagram — is the source's.
-/
namespace Snowflake.Tie.ClientSession
open Snowflake.Gen

/-- the wiring the stack harness replicates: a fresh ClientID; each redial pops a peer, writes the Token, then the ClientID (a peer on which that fails is closed and the next one is popped), then wraps the peer in the encapsulation packet conn; RedialPacketConn under kcp.NewConn2 (stream mode, window sizes, nodelay 0,0,0,1) under smux.Client (version 2). -/
def expected_newSession : List String := [
  "call turbotunnel.NewClientID()",
  "func{",
  "for{",
  "call snowflakes.Pop()",
  "if conn == nil{",
  "return",
  "}",
  "call conn.Write(turbotunnel.Token[:])",
  "if err == nil{",
  "call conn.Write(clientID[:])",
  "}",
  "if err != nil{",
  "call conn.Close()",
  "continue",
  "}",
  "call newEncapsulationPacketConn(dummyAddr{}, dummyAddr{}, conn)",
  "return",
  "}",
  "}",
  "call turbotunnel.NewRedialPacketConn(dummyAddr{}, dummyAddr{}, dialContext)",
  "call kcp.NewConn2(dummyAddr{}, nil, 0, 0, pconn)",
  "if err != nil{",
  "call pconn.Close()",
  "return",
  "}",
  "call conn.SetStreamMode(true)",
  "call conn.SetWindowSize(WindowSize, WindowSize)",
  "call conn.SetNoDelay(0, 0, 0, 1)",
  "assign smuxConfig.Version = 2",
  "assign smuxConfig.KeepAliveTimeout = 10 * time.Minute",
  "assign smuxConfig.MaxStreamBuffer = StreamSize",
  "call smux.Client(conn, smuxConfig)",
  "if err != nil{",
  "call conn.Close()",
  "call pconn.Close()",
  "return",
  "}",
  "return"
]

theorem skel_newSession_tie : ClientSession.skel_newSession = expected_newSession := by decide +kernel

/-- one ReadData per datagram, copied into the caller buffer. -/
def expected_encap_ReadFrom : List String := [
  "call encapsulation.ReadData(c.ReadWriteCloser)",
  "if err != nil{",
  "return 0, c.remoteAddr, err",
  "}",
  "call copy(p, data)",
  "return copy(p, data), c.remoteAddr, nil"
]

theorem skel_encap_ReadFrom_tie : ClientSession.skel_encap_ReadFrom = expected_encap_ReadFrom := by decide +kernel

/-- one WriteData + Flush per datagram (one frame per packet, the shape `encodeItems (dataItems ps)` of the theorems). -/
def expected_encap_WriteTo : List String := [
  "call encapsulation.WriteData(c.bw, p)",
  "if err == nil{",
  "call c.bw.Flush()",
  "}",
  "if err != nil{",
  "return",
  "}",
  "return"
]

theorem skel_encap_WriteTo_tie : ClientSession.skel_encap_WriteTo = expected_encap_WriteTo := by decide +kernel

/-- In `dialContext` the token is written before the ClientID, both before the encapsulation layer is created. -/
theorem preface_order :
    (match ClientSession.skel_newSession.findIdx? (· == "call conn.Write(turbotunnel.Token[:])"),
           ClientSession.skel_newSession.findIdx? (· == "call conn.Write(clientID[:])"),
           ClientSession.skel_newSession.findIdx? (fun l => l.startsWith "call newEncapsulationPacketConn(") with
     | some a, some b, some c => decide (a < b ∧ b < c)
     | _, _, _ => false) = true := by decide +kernel

end Snowflake.Tie.ClientSession
