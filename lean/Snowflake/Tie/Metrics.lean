import Snowflake.Generated.Metrics
import Snowflake.Model.Metrics
import Snowflake.Base.Skel
/-!
Tie obligations for C19: facts regenerated from `broker/{metrics,prometheus,ipc}.go`,
`common/messages`, `common/ipsetsink` and `common/ipsetsink/sinkcluster` equal what the model
(`Model/Metrics.lean`) assumes.
-/
namespace Snowflake.Tie.Metrics
open Snowflake.Metrics

/-! ## Translated conditions and constants -/

/-- The guard of `roundedCounter.Inc` is the model's guard. -/
theorem incGuard_tie (total value : Nat) : Gen.Metrics.inc_guard total value = incGuard total value := rfl

/-- The `continue` condition of `ClusterCounter.Count` is the model's `skipCond`. -/
theorem readerSkip_tie (a b c : Bool) : Gen.Metrics.reader_skipCond a b c = skipCond a b c := rfl

theorem knownProxyTypes_tie : Gen.Metrics.KnownProxyTypes = knownProxyTypes := by decide +kernel

theorem natConsts_tie :
    Gen.Metrics.NATRestricted = natRestricted ∧ Gen.Metrics.NATUnrestricted = natUnrestricted := by
  decide +kernel

/-- `binCount` is float code outside the translated subset: its body is tied by source text.  The
model's `binCount = ceil8` was written against exactly this expression (exact below 2^53). -/
theorem binCount_src_tie :
    Gen.Metrics.binCount_src = "{ return uint((math.Ceil(float64(count) / 8)) * 8) }" := by decide +kernel

/-! ## `roundedCounter.Inc` / `Write` -/

def isLock (l : String) : Bool := l.startsWith "call c." && l.endsWith ".Lock()"
def isUnlock (l : String) : Bool := l.startsWith "call c." && l.endsWith ".Unlock()"
def isDeferUnlock (l : String) : Bool := l.startsWith "defer c." && l.endsWith ".Unlock()"

/-- `c.<mutex>` named by a lock / unlock / deferred-unlock line. -/
def mutexOf (l : String) : String :=
  if isLock l then ((l.drop 5).dropEnd 7).toString
  else if isUnlock l then ((l.drop 5).dropEnd 9).toString
  else if isDeferUnlock l then ((l.drop 6).dropEnd 9).toString
  else ""

/-- The statements of `Inc` apart from locking. -/
def incBody (sk : List String) : List String :=
  sk.filter fun l => !(isLock l || isUnlock l || isDeferUnlock l)

/-- `Inc` is exactly the two-step body the model executes (`step`, `RC.inc`): add 1 to `total`,
then compare and add `incStep = 8` to `value`. -/
theorem inc_body_tie :
    incBody Gen.Metrics.skel_Inc =
      ["call atomic.AddUint64(&c.total, 1)", "if c.total > c.value{", "call atomic.AddUint64(&c.value, 8)", "}"]
    ∧ incStep = 8 := by
  decide +kernel

/-- `Inc` starts with `c.<mu>.Lock()` immediately followed by `defer c.<mu>.Unlock()`: the whole
body runs under the counter's own mutex (the *repaired* body of the model). -/
def incSelfLocked (sk : List String) : Bool :=
  match sk with
  | l1 :: l2 :: _ => isLock l1 && isDeferUnlock l2 && mutexOf l1 == mutexOf l2
  | _ => false

/-- `Write` reads under the same mutex: it locks it exactly once and unlocks it (directly or deferred). -/
def writeLocked (inc write : List String) : Bool :=
  match inc with
  | l1 :: _ =>
    Skel.count write (fun l => isLock l && mutexOf l == mutexOf l1) == 1
      && Skel.count write (fun l => (isUnlock l || isDeferUnlock l) && mutexOf l == mutexOf l1) == 1
  | [] => false

/-! ## Which counter updates run under `metrics.lock` -/

def mLock : String := "call i.ctx.metrics.lock.Lock()"
def mUnlock : String := "call i.ctx.metrics.lock.Unlock()"

/-- Block-structured check that `metrics.lock` is used in a path-insensitive way: every block
(`if`/`else` branch, `select` arm, loop body) leaves the lock state as it found it, the lock is
never taken twice, never released when free, and never held at a `return`.  Under this check the
lock state at a line is a function of the line (computed by `heldAt`). -/
def balanced : List String → Bool → List Bool → Bool
  | [], held, stack => !held && stack.isEmpty
  | l :: ls, held, stack =>
    if l == mLock then !held && balanced ls true stack
    else if l == mUnlock then held && balanced ls false stack
    else if l == "return" then !held && balanced ls held stack
    else if l == "}" then
      (match stack with
       | e :: st => held == e && balanced ls held st
       | [] => false)
    else if l == "}else{" || l == "case:" || l == "default:" then
      (match stack with
       | e :: _ => held == e && balanced ls e stack
       | [] => false)
    else if l.endsWith "{" then balanced ls held (held :: stack)
    else balanced ls held stack

/-- Each line paired with "is `metrics.lock` held here". -/
def heldAt : List String → Bool → List (String × Bool)
  | [], _ => []
  | l :: ls, held =>
    if l == mLock then (l, held) :: heldAt ls true
    else if l == mUnlock then (l, held) :: heldAt ls false
    else (l, held) :: heldAt ls held

/-- The lines satisfying `p` that run without `metrics.lock`. -/
def outsideLock (sk : List String) (p : String → Bool) : List String :=
  ((heldAt sk false).filter fun x => p x.1 && !x.2).map (·.1)

def isIncDec (l : String) : Bool := l.startsWith "incdec i.ctx.metrics."
def isRoundedInc (l : String) : Bool := l.startsWith "call i.ctx.metrics.promMetrics." && l.endsWith ".Inc()"
def isStatsCall (l : String) : Bool :=
  l.startsWith "call i.ctx.metrics.UpdateCountryStats(" || l.startsWith "call i.ctx.metrics.RecordIPAddress("

/-- `metrics.lock` is used block-structured in both IPC functions (so `outsideLock` is exact). -/
theorem metrics_lock_balanced :
    balanced Gen.Metrics.skel_ProxyPolls false [] = true
    ∧ balanced Gen.Metrics.skel_ClientOffers false [] = true := by decide +kernel

/-- The plain (non-atomic) event counters are incremented only under `metrics.lock`, and the
increments are the ones `Counters.apply` performs: four per function, each counter once. -/
theorem plain_counters_under_lock :
    outsideLock Gen.Metrics.skel_ProxyPolls isIncDec = []
    ∧ outsideLock Gen.Metrics.skel_ClientOffers isIncDec = []
    ∧ Gen.Metrics.skel_ProxyPolls.filter isIncDec =
        ["incdec i.ctx.metrics.proxyPollWithoutRelayURLExtension++", "incdec i.ctx.metrics.proxyPollWithRelayURLExtension++",
         "incdec i.ctx.metrics.proxyPollRejectedWithRelayURLExtension++", "incdec i.ctx.metrics.proxyIdleCount++"]
    ∧ Gen.Metrics.skel_ClientOffers.filter isIncDec =
        ["incdec i.ctx.metrics.clientDeniedCount++", "incdec i.ctx.metrics.clientUnrestrictedDeniedCount++",
         "incdec i.ctx.metrics.clientRestrictedDeniedCount++", "incdec i.ctx.metrics.clientProxyMatchCount++"] := by
  decide +kernel

/-- `UpdateCountryStats` / `RecordIPAddress` (plain maps, the journal writer) are called under
`metrics.lock`, once each. -/
theorem country_stats_under_lock :
    outsideLock Gen.Metrics.skel_ProxyPolls isStatsCall = []
    ∧ Skel.count Gen.Metrics.skel_ProxyPolls isStatsCall = 2
    ∧ Skel.count Gen.Metrics.skel_ClientOffers isStatsCall = 0 := by decide +kernel

/-- **Serialisation of `roundedCounter.Inc`.** Either every `.Inc()` site on a rounded counter in
`ipc.go` runs under `metrics.lock` (then `rounded_serial` applies), or `Inc` holds the counter's own
mutex for its whole body and `Write` reads under the same mutex (then `rounded_concurrent`
applies).  On the pinned tree neither holds: the `"matched"` site of `ProxyPolls` is outside the
lock and `Inc` takes no mutex (F13). -/
theorem rounded_inc_serialised :
    (outsideLock Gen.Metrics.skel_ProxyPolls isRoundedInc = []
      ∧ outsideLock Gen.Metrics.skel_ClientOffers isRoundedInc = [])
    ∨ (incSelfLocked Gen.Metrics.skel_Inc = true
      ∧ writeLocked Gen.Metrics.skel_Inc Gen.Metrics.skel_Write = true) := by
  decide +kernel

/-- Every rounded-counter site is accounted for by the harness/model (7 sites: with / without /
rejected / idle / matched in `ProxyPolls`, denied / matched in `ClientOffers`). -/
theorem rounded_inc_sites :
    Skel.count Gen.Metrics.skel_ProxyPolls isRoundedInc = 5
    ∧ Skel.count Gen.Metrics.skel_ClientOffers isRoundedInc = 2 := by decide +kernel

/-- `printMetrics` holds `metrics.lock` from its first to its last statement and publishes the eight
counters through `binCount`, in the order of `Counters.toList`. -/
theorem printMetrics_tie :
    Gen.Metrics.skel_printMetrics.head? = some "call m.lock.Lock()"
    ∧ Gen.Metrics.skel_printMetrics.getLast? = some "call m.lock.Unlock()"
    ∧ Skel.count Gen.Metrics.skel_printMetrics (fun l => l.endsWith ".Lock()" || l.endsWith ".Unlock()") = 2
    ∧ Gen.Metrics.skel_printMetrics.filter (Skel.pre "call binCount(") =
        ["call binCount(m.proxyIdleCount)", "call binCount(m.proxyPollWithRelayURLExtension)",
         "call binCount(m.proxyPollWithoutRelayURLExtension)", "call binCount(m.proxyPollRejectedWithRelayURLExtension)",
         "call binCount(m.clientDeniedCount)", "call binCount(m.clientRestrictedDeniedCount)",
         "call binCount(m.clientUnrestrictedDeniedCount)", "call binCount(m.clientProxyMatchCount)"] := by
  decide +kernel

/-- `UpdateCountryStats` has the shape of `Stats.update`: an address already in the set of its type
(or in `unknown`) returns at once; otherwise it is inserted there; without a geoip database
nothing else happens; otherwise exactly one country count is incremented and the address enters
exactly one NAT set, chosen by the `natType` switch. -/
theorem updateCountryStats_tie :
    Skel.blockOf Gen.Metrics.skel_UpdateCountryStats (Skel.pre "if m.countryStats.unknown[addr]{") = some ["return"]
    ∧ Skel.blockOf Gen.Metrics.skel_UpdateCountryStats (Skel.pre "if addresses[addr]{") = some ["return"]
    ∧ Skel.blockOf Gen.Metrics.skel_UpdateCountryStats (Skel.pre "if m.geoipdb == nil{") = some ["return"]
    ∧ Skel.before Gen.Metrics.skel_UpdateCountryStats (Skel.pre "if m.countryStats.unknown[addr]{") (Skel.pre "assign m.countryStats.unknown[addr] = true;") = true
    ∧ Skel.before Gen.Metrics.skel_UpdateCountryStats (Skel.pre "if addresses[addr]{") (Skel.pre "assign addresses[addr] = true;") = true
    ∧ Skel.before Gen.Metrics.skel_UpdateCountryStats (Skel.pre "assign addresses[addr] = true;") (Skel.pre "if m.geoipdb == nil{") = true
    ∧ Skel.before Gen.Metrics.skel_UpdateCountryStats (Skel.pre "if m.geoipdb == nil{") (Skel.pre "incdec m.countryStats.counts[country]++") = true
    ∧ Skel.count Gen.Metrics.skel_UpdateCountryStats (Skel.pre "incdec m.countryStats.counts[country]++") = 1
    ∧ Skel.blockOf Gen.Metrics.skel_UpdateCountryStats (Skel.pre "switch natType{") =
        some ["case NATRestricted:", "assign m.countryStats.natRestricted[addr] = true;",
              "case NATUnrestricted:", "assign m.countryStats.natUnrestricted[addr] = true;",
              "case default:", "assign m.countryStats.natUnknown[addr] = true;"]
    ∧ Skel.count Gen.Metrics.skel_UpdateCountryStats (Skel.pre "assign ") = 5 := by
  decide +kernel

/-- `zeroMetrics` resets each of the eight event counters and re-makes every set (`Counters.zero`,
`Stats.empty`). -/
theorem zeroMetrics_tie :
    Gen.Metrics.skel_zeroMetrics.filter (fun l => l.endsWith " = 0;") =
        ["assign m.proxyIdleCount = 0;", "assign m.clientDeniedCount = 0;", "assign m.clientRestrictedDeniedCount = 0;",
         "assign m.clientUnrestrictedDeniedCount = 0;", "assign m.proxyPollRejectedWithRelayURLExtension = 0;",
         "assign m.proxyPollWithRelayURLExtension = 0;", "assign m.proxyPollWithoutRelayURLExtension = 0;",
         "assign m.clientProxyMatchCount = 0;"]
    ∧ Skel.count Gen.Metrics.skel_zeroMetrics (Skel.pre "assign m.countryStats.counts = make(map[string]int);") = 1
    ∧ Skel.blockOf Gen.Metrics.skel_zeroMetrics (Skel.pre "range m.countryStats.proxies{")
        = some ["assign m.countryStats.proxies[pType] = make(map[string]bool);"]
    ∧ Skel.count Gen.Metrics.skel_zeroMetrics (Skel.pre "assign m.countryStats.unknown = make(map[string]bool);") = 1
    ∧ Skel.count Gen.Metrics.skel_zeroMetrics (Skel.pre "assign m.countryStats.natRestricted = make(map[string]bool);") = 1
    ∧ Skel.count Gen.Metrics.skel_zeroMetrics (Skel.pre "assign m.countryStats.natUnrestricted = make(map[string]bool);") = 1
    ∧ Skel.count Gen.Metrics.skel_zeroMetrics (Skel.pre "assign m.countryStats.natUnknown = make(map[string]bool);") = 1 := by
  decide +kernel

/-! ## Journal -/

/-- The sink feeds the sketch only with the masked address, and `Dump` serialises only the sketch. -/
theorem sink_only_masked :
    Gen.Metrics.skel_sinkAdd.filter (Skel.pre "call s.countDistinct.") =
      ["call s.countDistinct.Add(truncatedHash64FromBytes{hashValue(s.maskIPAddress(ipAddress))})"]
    ∧ Gen.Metrics.skel_sinkDump.filter (Skel.pre "call ") = ["call s.countDistinct.GobEncode()"] := by
  decide +kernel

/-- `ClusterWriter.AddIPToSet`: the interval test guards exactly the flush, and the (single,
unconditional) add to the current sink comes after it — the shape of `Writer.add`. -/
theorem writer_add_tie :
    Skel.blockOf Gen.Metrics.skel_writerAdd (Skel.pre "if c.lastWriteTime.Add(c.writeInterval).Before(time.Now()){")
      = some ["call c.WriteIPSetToDisk()"]
    ∧ Gen.Metrics.skel_writerAdd.getLast? = some "call c.current.AddIPToSet(ipAddress)"
    ∧ Skel.count Gen.Metrics.skel_writerAdd (Skel.pre "call c.current.AddIPToSet(") = 1
    ∧ Skel.count Gen.Metrics.skel_writerAdd (Skel.pre "call c.WriteIPSetToDisk(") = 1 := by
  decide +kernel

/-- `WriteIPSetToDisk`: dump the current sink, write it, then reset the sink (the shape of
`Writer.flush`), each once and in this order; the reset is the last call. -/
theorem writer_flush_tie :
    Skel.before Gen.Metrics.skel_writerFlush (Skel.pre "call c.current.Dump(") (Skel.pre "call io.Copy(c.writer,") = true
    ∧ Skel.before Gen.Metrics.skel_writerFlush (Skel.pre "call io.Copy(c.writer,") (Skel.pre "call c.current.Reset(") = true
    ∧ Skel.count Gen.Metrics.skel_writerFlush (Skel.pre "call c.current.Dump(") = 1
    ∧ Skel.count Gen.Metrics.skel_writerFlush (Skel.pre "call io.Copy(") = 1
    ∧ Skel.count Gen.Metrics.skel_writerFlush (Skel.pre "call c.current.Reset(") = 1
    ∧ Gen.Metrics.skel_writerFlush.getLast? = some "call c.current.Reset()" := by
  decide +kernel

end Snowflake.Tie.Metrics
