import Snowflake.Generated.ClientLib
import Snowflake.Model.Peers
import Snowflake.Base.SkelStack
/-!
Tie obligations for C15: semantic facts about the synchronisation skeletons regenerated from
`client/lib/peers.go`, `client/lib/snowflake.go` and `client/lib/webrtc.go` on which the labels of
`Model/Peers.lean` (with `Fix.all`) rely.  They are orderings, scopes and counts, not whole-list
equalities, so harmless edits keep them; an edit that moves the hand-over send out of its `select`,
drops the `Once`, or uses `c.pc` before the error check breaks exactly one of them.
-/
namespace Snowflake.Tie.ClientLib
open Snowflake.Skel Snowflake.Gen.ClientLib

/-- body of the first block whose opener satisfies `p`, `[]` if there is none -/
def blk (sk : List String) (p : String → Bool) : List String := (blockOf sk p).getD []

/-- The hand-over channel is created with capacity `Tongue.GetMax()`: the model's single parameter
`max` is both the capacity check of `Collect` and the channel capacity. -/
theorem chan_capacity_is_max :
    has skel_NewPeers (· == "makechan cap=tongue.GetMax()") = true
    ∧ has skel_Collect (· == "call p.Tongue.GetMax()") = true := by decide +kernel

/-- `Collect` takes `collectLock` first and releases it only by the deferred `Unlock`: the lock is
held during the melt check, `Count`, `Catch` and the hand-over (labels `cCheck`, `cCatch`, `cSend` /
`cMeltArm` all run with `lock = some (.col c)`). -/
theorem collect_lock_scope :
    skel_Collect.head? = some "call p.collectLock.Lock()"
    ∧ (topLevel skel_Collect).contains "defer p.collectLock.Unlock()" = true
    ∧ count skel_Collect (contains "collectLock.Lock()") = 1
    ∧ count skel_Collect (pre "call p.collectLock.Unlock()") = 0 := by decide +kernel

/-- Order of `Collect`: non-blocking melt check (a `select` with a `default` arm whose melt arm
returns), then `Count()`, then the capacity guard (returns), then exactly one `Catch()`, then the
error guard (returns), then `PushBack`, then the hand-over send (exactly one). -/
theorem collect_order :
    -- melt check first, non-blocking, returning
    before skel_Collect (· == "recv p.melt") (pre "call p.Count()") = true
    ∧ (blk skel_Collect (· == "select{")).contains "default:" = true
    ∧ (blk skel_Collect (· == "select{")).contains "return" = true
    -- count, capacity guard, catch
    ∧ before skel_Collect (pre "call p.Count()") (pre "if cnt >= capacity{") = true
    ∧ (blk skel_Collect (pre "if cnt >= capacity{")).getLast? = some "return"
    ∧ before skel_Collect (pre "if cnt >= capacity{") (pre "call p.Tongue.Catch()") = true
    ∧ count skel_Collect (pre "call p.Tongue.Catch()") = 1
    -- error guard between Catch and PushBack
    ∧ (blk (after skel_Collect (pre "call p.Tongue.Catch()")) (pre "if nil != err{")).getLast? = some "return"
    ∧ before (after skel_Collect (pre "call p.Tongue.Catch()")) (pre "if nil != err{") (pre "call p.activePeers.PushBack(") = true
    ∧ before skel_Collect (pre "call p.activePeers.PushBack(") (· == "send p.snowflakeChan") = true
    ∧ count skel_Collect (pre "call p.activePeers.PushBack(") = 1
    ∧ count skel_Collect (pre "send ") = 1 := by decide +kernel

/-- **F9 repaired**: the (only) hand-over send is the communication of a `select` arm whose sibling
arm receives from `p.melt`, and that sibling arm returns — so `End`, which closes `melt` *before* it
asks for `collectLock`, always releases a `Collect` blocked on a full channel (label `cMeltArm`). -/
theorem collect_handover_selects_on_melt :
    count skel_Collect (· == "send p.snowflakeChan") = 1
    ∧ allSelectSiblings skel_Collect (· == "send p.snowflakeChan") (· == "recv p.melt") = true
    ∧ ((stacksOf (after skel_Collect (pre "call p.activePeers.PushBack(")) (· == "return")).filterMap bodyOfSelect).length = 1 := by
  decide +kernel

/-- `Pop`: a loop around the channel receive; a closed channel returns (nil); a closed peer is
skipped (`continue`) before the only other `return` (labels `pRecv`, `pCheck`). -/
theorem pop_skips_closed :
    skel_Pop.head? = some "for{"
    ∧ allInside skel_Pop (· == "recv p.snowflakeChan") (· == "for{") = true
    ∧ blk skel_Pop (pre "if !ok{") = ["return"]
    ∧ blk skel_Pop (pre "if snowflake.Closed(){") = ["continue"]
    ∧ before skel_Pop (· == "recv p.snowflakeChan") (pre "if snowflake.Closed(){") = true
    ∧ count skel_Pop (· == "return") = 2
    ∧ (blk skel_Pop (· == "for{")).getLast? = some "return" := by decide +kernel

/-- `Count` = purge then length; the purge removes only peers whose `Closed()` is true. -/
theorem purge_removes_only_closed :
    skel_Count = ["call p.purgeClosedPeers()", "return"]
    ∧ count skel_purgeClosedPeers (pre "call p.activePeers.Remove(") = 1
    ∧ allInside skel_purgeClosedPeers (pre "call p.activePeers.Remove(") (· == "if conn.Closed(){") = true := by
  decide +kernel

/-- The statements `End` executes: the split-off body `end` if it exists, else the function literal
passed to `Once.Do`, else `End` itself. -/
def endBody : List String :=
  if skel_endBody != ["<missing>"] then skel_endBody
  else if has skel_End (· == "func{") then blk skel_End (· == "func{") else skel_End

/-- **F8 repaired**: `End` itself closes nothing outside a `sync.Once`: its top level has no
`close(…)`, no `Lock`, and does call `….Do(…)` (labels `eCall` / `eOnce`). -/
theorem end_once_guarded :
    has (topLevel skel_End) (fun l => l.startsWith "call " && contains ".Do(" l) = true
    ∧ has (topLevel skel_End) (pre "call close(") = false
    ∧ has (topLevel skel_End) (contains "Lock()") = false
    ∧ noneInside skel_End (pre "call close(") (fun o => o != "func{") = true := by decide +kernel

/-- Order inside `End`: `close(p.melt)` strictly before `collectLock.Lock()` (label `eMelt` before
`eLock` — this is what lets a blocked `Collect` go), the lock is released by the deferred `Unlock`,
`close(p.snowflakeChan)` and the closing of every active peer happen under the lock (`eCrit`). -/
theorem end_body_order :
    count endBody (· == "call close(p.melt)") = 1
    ∧ count endBody (· == "call close(p.snowflakeChan)") = 1
    ∧ before endBody (· == "call close(p.melt)") (· == "call p.collectLock.Lock()") = true
    ∧ before endBody (· == "call p.collectLock.Lock()") (· == "call close(p.snowflakeChan)") = true
    ∧ (topLevel endBody).contains "defer p.collectLock.Unlock()" = true
    ∧ count endBody (pre "call p.collectLock.Unlock()") = 0
    ∧ before endBody (· == "call close(p.snowflakeChan)") (· == "call conn.Close()") = true
    ∧ allInside endBody (· == "call conn.Close()") (· == "for{") = true
    ∧ noneInside endBody (· == "call conn.Close()") (pre "if ") = true := by decide +kernel

/-- `connectLoop`: an endless loop of `Collect()` followed by a `select` between the reconnect timer
(`continue`) and `Melted()` (`return`) (labels `lTimer`, `lMelted`). -/
theorem connectLoop_shape :
    skel_connectLoop.head? = some "for{"
    ∧ count skel_connectLoop (pre "call snowflakes.Collect()") = 1
    ∧ before skel_connectLoop (pre "call snowflakes.Collect()") (· == "select{") = true
    ∧ selectSiblings skel_connectLoop (· == "recv timer") (· == "recv snowflakes.Melted()") = true
    ∧ before skel_connectLoop (· == "recv timer") (· == "continue") = true
    ∧ before skel_connectLoop (· == "continue") (· == "recv snowflakes.Melted()") = true
    ∧ blk (after skel_connectLoop (· == "recv snowflakes.Melted()")) (· == "do:") = ["return"]
    ∧ ReconnectTimeout > 0 := by decide +kernel

/-- `SnowflakeConn.Close` calls `End` exactly once (an `End` goroutine of the model). -/
theorem close_calls_end :
    count skel_Close (· == "call conn.snowflakes.End()") = 1
    ∧ noneInside skel_Close (· == "call conn.snowflakes.End()") (fun _ => true) = true := by decide +kernel

/-- **F10 repaired**: in `connect` the error of `preparePeerConnection` is checked (and returned)
before the first use of `c.pc`; `preparePeerConnection` returns right after a failed
`NewPeerConnection`; the constructor closes the half-built peer and returns the error — so every
failure of peer construction is an `err` outcome of `Catch` (`Model.connect true`). -/
theorem connect_checks_error_first :
    skel_connect.head? = some "call c.preparePeerConnection(config)"
    ∧ before skel_connect (pre "if err != nil{") (pre "call c.pc.") = true
    ∧ (blk skel_connect (pre "if err != nil{")).getLast? = some "return"
    ∧ has (blk skel_connect (pre "if err != nil{")) (pre "call c.pc.") = false
    -- preparePeerConnection
    ∧ before skel_preparePeerConnection (pre "call api.NewPeerConnection(") (pre "if err != nil{") = true
    ∧ blk skel_preparePeerConnection (pre "if err != nil{") = ["return"]
    ∧ before skel_preparePeerConnection (pre "if err != nil{") (pre "call c.pc.") = true
    -- NewWebRTCPeerWithEvents / Catch
    ∧ blk (after skel_NewWebRTCPeerWithEvents (pre "call connection.connect(")) (pre "if err != nil{")
        = ["call connection.Close()", "return"]
    ∧ skel_Catch.head? = some "call NewWebRTCPeerWithEvents(w.webrtcConfig, w.BrokerChannel, w.eventLogger)" := by
  decide +kernel

/-- The remaining failure exits of `connect` are ordinary error returns (`afterPrepare`): after
`Negotiate`, after `SetRemoteDescription`, and the data-channel timeout arm. -/
theorem connect_failures_return :
    (blk (after skel_connect (pre "call broker.Negotiate(")) (pre "if err != nil{")).getLast? = some "return"
    ∧ (blk (after skel_connect (pre "call c.pc.SetRemoteDescription(")) (pre "if nil != err{")).getLast? = some "return"
    ∧ selectSiblings skel_connect (· == "recv c.open") (· == "recv time.After(DataChannelTimeout)") = true
    ∧ (after skel_connect (· == "recv time.After(DataChannelTimeout)")).contains "return" = true
    ∧ DataChannelTimeout > 0 := by decide +kernel

/-- A peer closes at most once (`sync.Once`), by closing its `closed` channel: `closedP` is a
monotone flag (label `peerClose`, and `eCrit` may close peers that are already closed). -/
theorem peer_close_once :
    skel_PeerClose.head? = some "call c.once.Do(func)"
    ∧ allInside skel_PeerClose (· == "call close(c.closed)") (· == "func{") = true := by decide +kernel

end Snowflake.Tie.ClientLib
