import Snowflake.Generated.MetricsReader
import Snowflake.Model.Metrics
import Snowflake.Base.Skel
/-!
Tie obligations for C19, journal reader: `ClusterCounter.Count` reads the journal through a scanner
with an explicit line limit and returns the scanner's error (the shape of `countChecked`).  Kept
apart from `Tie/Metrics.lean` so that a reader without these facts breaks only these obligations.
-/
namespace Snowflake.Tie.MetricsReader
open Snowflake.Metrics

/-- The repaired reader's explicit line limit is the model's `readerLimit`. -/
theorem readerLimit_tie : Gen.MetricsReader.maxLineSize = (readerLimit : Int) := by decide +kernel

/-- The lines that follow the first block whose opening line satisfies `p`. -/
def afterBlock (sk : List String) (p : String → Bool) : List String :=
  match sk.findIdx? p with
  | some i => (sk.drop (i + 1)).drop ((Skel.blockFrom (sk.drop (i + 1)) 0).length + 1)
  | none => []

/-- `ClusterCounter.Count` (repaired shape, `countChecked`): the scanner gets its explicit limit
once, before the loop; the loop is driven by `Scan()`; directly after the loop the scanner's
error is examined and returned — only then is the merged sketch counted. -/
theorem reader_scanner_tie :
    Skel.before Gen.MetricsReader.skel_readerCount (Skel.pre "call inputScanner.Buffer(nil, maxLineSize)") (Skel.pre "for{") = true
    ∧ Skel.count Gen.MetricsReader.skel_readerCount (Skel.pre "call inputScanner.Buffer(") = 1
    ∧ (Skel.blockOf Gen.MetricsReader.skel_readerCount (Skel.pre "for{")).map
        (fun b => b.head? == some "call inputScanner.Scan()" && !b.any (Skel.pre "call inputScanner.Err(")) = some true
    ∧ (afterBlock Gen.MetricsReader.skel_readerCount (Skel.pre "for{")).take 5
        = ["call inputScanner.Err()", "if err != nil{", "return", "}", "call counter.Count()"]
    ∧ Skel.count Gen.MetricsReader.skel_readerCount (Skel.pre "call counter.Merge(") = 1 := by
  decide +kernel

end Snowflake.Tie.MetricsReader
