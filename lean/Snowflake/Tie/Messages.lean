import Snowflake.Generated.Messages
import Snowflake.Model.Messages
/-!
Tie obligations for C12: constants, struct layouts, inline status strings, the NAT switches and the
validation conditions regenerated from `common/messages`, `common/bridgefingerprint` and
`common/nat`, against the model `Snowflake.Messages`.  Go strings are byte lists on the generated
side and `List Char` in the model; `Utf8.encode` relates them.
-/
namespace Snowflake.Tie.Messages
open Snowflake Snowflake.Json Snowflake.Messages

/-! ### Constants -/

theorem version_tie : Gen.Messages.version = Utf8.encode version := by decide
theorem proxyUnknown_tie : Gen.Messages.ProxyUnknown = Utf8.encode proxyUnknown := by decide
theorem clientVersion_tie : Gen.Messages.ClientVersion = Utf8.encode clientVersion := by decide
theorem defaultBridgeFingerprint_tie :
    Gen.Messages.defaultBridgeFingerprint = Utf8.encode defaultBridgeFingerprint := by decide +kernel
theorem natNames_tie :
    Gen.Messages.NATUnknown = Utf8.encode natUnknown ∧ Gen.Messages.NATRestricted = Utf8.encode natRestricted ∧
    Gen.Messages.NATUnrestricted = Utf8.encode natUnrestricted := by decide
theorem knownProxyTypes_tie : Gen.Messages.KnownProxyTypes = knownProxyTypes.map Utf8.encode := by decide +kernel

/-- The broker's failure texts are legal failure reasons of a poll response: non-empty and different
from the two reserved status strings (so `C12.proxy_poll_resp_failure_rt` applies to them). -/
theorem failure_texts_tie :
    ∀ t ∈ [Gen.Messages.StrTimedOut, Gen.Messages.StrNoProxies],
      t ≠ [] ∧ t ≠ Utf8.encode statusClientMatch ∧ t ≠ Utf8.encode statusNoMatch := by decide +kernel

/-- the default fingerprint is itself acceptable to the decoder -/
theorem defaultBridgeFingerprint_ok : fingerprintOk defaultBridgeFingerprint = true := by decide +kernel

/-! ### Inline status strings of the encoders -/

theorem status_literals_tie :
    Gen.Messages.litsEncodePollResponseWithRelayURL = [String.ofList statusClientMatch] ∧
    Gen.Messages.litsEncodePollResponse = ["", String.ofList statusNoMatch] ∧
    Gen.Messages.litsEncodeAnswerResponse = [String.ofList statusSuccess, String.ofList statusClientGone] ∧
    Gen.Messages.litsEncodeProxyPollRequest = [""] := by decide +kernel

/-! ### Struct layouts -/

/-- Go type of a model field -/
def goType : FVal → String
  | .str _ => "string"
  | .int _ => "int"
  | .optStr _ => "*string"

/-- (JSON name, Go type) of every field the decoder binds, in declaration order -/
def decSchema (init : Struct) : List (Text × String) := init.map (fun f => (f.1, goType f.2))
def genDecSchema (fs : List (String × String × String × Bool)) : List (Text × String) :=
  fs.map (fun f => (f.2.2.1.toList, f.2.1))

/-- The zero structs the model decodes into have the fields, JSON names and Go types of the source. -/
theorem decoder_structs_tie :
    decSchema pollReqInit = genDecSchema Gen.Messages.fieldsProxyPollRequest ∧
    decSchema pollRespInit = genDecSchema Gen.Messages.fieldsProxyPollResponse ∧
    decSchema answerReqInit = genDecSchema Gen.Messages.fieldsProxyAnswerRequest ∧
    decSchema answerRespInit = genDecSchema Gen.Messages.fieldsProxyAnswerResponse ∧
    decSchema clientReqInit = genDecSchema Gen.Messages.fieldsClientPollRequest ∧
    decSchema clientRespInit = genDecSchema Gen.Messages.fieldsClientPollResponse := by decide +kernel

/-- The zero values are Go's: `""`, `0`, `nil`. -/
theorem decoder_zero_values :
    (pollReqInit ++ pollRespInit ++ answerReqInit ++ answerRespInit ++ clientReqInit ++ clientRespInit).all
      (fun f => f.2 = .str [] || f.2 = .int 0 || f.2 = .optStr none) = true := by decide +kernel

/-- (JSON name, omitempty) of the members an encoder writes, in order -/
def encSchema (fs : List MField) : List (Text × Bool) := fs.map (fun f => (f.name, f.omitEmpty))
def genEncSchema (fs : List (String × String × String × Bool)) : List (Text × Bool) :=
  fs.map (fun f => (f.2.2.1.toList, f.2.2.2))

/-- drop the (symbolic) field values, then evaluate both sides in the kernel -/
macro "enc_schema" : tactic =>
  `(tactic| (simp only [encSchema, List.map_cons, List.map_nil]; decide +kernel))

/-- Every encoder of the model marshals the fields of the source struct: same JSON names, same
order, same `omitempty` flags (the field *values* are the encoder's arguments). -/
theorem encoder_structs_tie :
    (∀ sid ty nat clients pat, ∃ fs, encodeProxyPollRequestWithRelayPrefix sid ty nat clients pat = marshalObj fs ∧
      encSchema fs = genEncSchema Gen.Messages.fieldsProxyPollRequest) ∧
    (∀ offer success nat url reason, ∃ fs, encodePollResponseWithRelayURL offer success nat url reason = marshalObj fs ∧
      encSchema fs = genEncSchema Gen.Messages.fieldsProxyPollResponse) ∧
    (∀ answer sid, ∃ fs, encodeAnswerRequest answer sid = marshalObj fs ∧
      encSchema fs = genEncSchema Gen.Messages.fieldsProxyAnswerRequest) ∧
    (∀ success, ∃ fs, encodeAnswerResponse success = marshalObj fs ∧
      encSchema fs = genEncSchema Gen.Messages.fieldsProxyAnswerResponse) ∧
    (∀ offer nat fp, ∃ fs, encodeClientPollRequest offer nat fp = clientVersion ++ '\n' :: marshalObj fs ∧
      encSchema fs = genEncSchema Gen.Messages.fieldsClientPollRequest) ∧
    (∀ answer error, ∃ fs, encodeClientPollResponse answer error = marshalObj fs ∧
      encSchema fs = genEncSchema Gen.Messages.fieldsClientPollResponse) := by
  refine ⟨fun _ _ _ _ _ => ⟨_, rfl, by enc_schema⟩, ?_, fun _ _ => ⟨_, rfl, by enc_schema⟩, ?_,
    fun _ _ _ => ⟨_, rfl, by enc_schema⟩, fun _ _ => ⟨_, rfl, by enc_schema⟩⟩
  · intro offer success nat url reason
    cases success
    · exact ⟨_, rfl, by enc_schema⟩
    · exact ⟨_, rfl, by enc_schema⟩
  · intro success
    cases success
    · exact ⟨_, rfl, by enc_schema⟩
    · exact ⟨_, rfl, by enc_schema⟩

/-! ### The NAT switches -/

/-- Both request decoders switch on `message.NAT` with the arms of the model's `natSwitch`: the
empty string is replaced by `nat.NATUnknown`, the three names are kept (empty bodies), everything
else leaves through the `default` arm, which returns (an error). -/
theorem nat_switch_tie :
    ∀ sw ∈ [Gen.Messages.switchDecodeProxyPollRequest, Gen.Messages.switchDecodeClientPollRequest],
      sw.take 5 = [("switch", "message.NAT"), ("=", "message.NAT = nat.NATUnknown"), ("nat.NATUnknown", ""),
        ("nat.NATRestricted", ""), ("nat.NATUnrestricted", "")] ∧
      (sw.drop 5).length = 1 ∧
      (sw.drop 5).all (fun c => c.1 == "default" && (c.2.endsWith "return" || c.2.startsWith "return nil, ")) = true := by
  decide +kernel

set_option linter.unusedSimpArgs false in
/-- the model's `natSwitch` is that switch -/
theorem natSwitch_spec (nat : Text) :
    natSwitch nat = if nat = [] then some natUnknown
      else if nat = natUnknown ∨ nat = natRestricted ∨ nat = natUnrestricted then some nat else none := by
  unfold natSwitch
  by_cases h0 : nat = []
  · simp [h0]
  · by_cases h1 : nat = natUnknown
    · simp [h0, h1]
    · by_cases h2 : nat = natRestricted
      · simp [h0, h1, h2]
      · by_cases h3 : nat = natUnrestricted <;> simp [h0, h1, h2, h3]

/-! ### Validation conditions -/

theorem encode_inj {s t : Text} (h : Utf8.encode s = Utf8.encode t) : s = t := by
  have := congrArg Utf8.decodeLossy h
  rwa [Utf8.decodeLossy_encode, Utf8.decodeLossy_encode] at this

/-- comparing Go strings byte-wise is comparing the texts -/
theorem beq_encode (s k : Text) : (Utf8.encode s == Utf8.encode k) = decide (s = k) := by
  by_cases h : s = k
  · subst h; simp
  · have : Utf8.encode s ≠ Utf8.encode k := fun e => h (encode_inj e)
    simp [h, this]

theorem bne_encode (s k : Text) : (Utf8.encode s != Utf8.encode k) = decide (s ≠ k) := by
  simp only [bne, beq_encode]
  by_cases h : s = k <;> simp [h]

theorem encode_nil : (([] : List UInt8)) = Utf8.encode [] := rfl

/-- `n != 20 && n != 32` of `FingerprintFromBytes` is the model's length test. -/
theorem fingerprintLenBad_tie (n : Nat) : Gen.Messages.fingerprintLenBad n = fingerprintLenBad n := rfl

/-- `majorVersion != "1"` (both request decoders) -/
theorem versionBad_tie (major : Text) :
    Gen.Messages.pollVersionBad (Utf8.encode major) = decide (major ≠ majorOne) ∧
    Gen.Messages.answerVersionBad (Utf8.encode major) = decide (major ≠ majorOne) := by
  unfold Gen.Messages.pollVersionBad Gen.Messages.answerVersionBad
  rw [show ([49] : List UInt8) = Utf8.encode majorOne by decide]
  exact ⟨bne_encode _ _, bne_encode _ _⟩

/-- `message.Sid == ""`, `message.Sid == "" || message.Answer == ""`, `message.Offer == ""` (twice),
`message.Fingerprint == ""`, `message.Status == ""` (twice), `message.Error == "" && message.Answer == ""` -/
theorem emptiness_tie (a b : Text) :
    Gen.Messages.pollSidMissing (Utf8.encode a) = decide (a = []) ∧
    Gen.Messages.answerMissing (Utf8.encode a) (Utf8.encode b) = (decide (a = []) || decide (b = [])) ∧
    Gen.Messages.pollRespOfferMissing (Utf8.encode a) = decide (a = []) ∧
    Gen.Messages.clientReqOfferMissing (Utf8.encode a) = decide (a = []) ∧
    Gen.Messages.clientReqFingerprintEmpty (Utf8.encode a) = decide (a = []) ∧
    Gen.Messages.pollRespStatusEmpty (Utf8.encode a) = decide (a = []) ∧
    Gen.Messages.answerRespStatusEmpty (Utf8.encode a) = decide (a = []) ∧
    Gen.Messages.clientRespEmpty (Utf8.encode a) (Utf8.encode b) = (decide (a = []) && decide (b = [])) := by
  unfold Gen.Messages.pollSidMissing Gen.Messages.answerMissing Gen.Messages.pollRespOfferMissing
    Gen.Messages.clientReqOfferMissing Gen.Messages.clientReqFingerprintEmpty Gen.Messages.pollRespStatusEmpty
    Gen.Messages.answerRespStatusEmpty Gen.Messages.clientRespEmpty
  refine ⟨?_, ?_, ?_, ?_, ?_, ?_, ?_, ?_⟩ <;> simp only [encode_nil, beq_encode]

/-- `message.Status == "client match"`, `message.Status != "no match"`, `message.Status == "success"` -/
theorem status_conditions_tie (status : Text) :
    Gen.Messages.pollRespIsMatch (Utf8.encode status) = decide (status = statusClientMatch) ∧
    Gen.Messages.pollRespIsFailure (Utf8.encode status) = decide (status ≠ statusNoMatch) ∧
    Gen.Messages.answerRespIsSuccess (Utf8.encode status) = decide (status = statusSuccess) := by
  unfold Gen.Messages.pollRespIsMatch Gen.Messages.pollRespIsFailure Gen.Messages.answerRespIsSuccess
  rw [show ([99, 108, 105, 101, 110, 116, 32, 109, 97, 116, 99, 104] : List UInt8) = Utf8.encode statusClientMatch by decide,
    show ([110, 111, 32, 109, 97, 116, 99, 104] : List UInt8) = Utf8.encode statusNoMatch by decide,
    show ([115, 117, 99, 99, 101, 115, 115] : List UInt8) = Utf8.encode statusSuccess by decide]
  exact ⟨beq_encode _ _, bne_encode _ _, beq_encode _ _⟩

end Snowflake.Tie.Messages
