import Snowflake.Generated.NameMatcher
import Snowflake.Model.NameMatcher
import Snowflake.Base.Skel
/-!
Tie obligations for C06: the functions regenerated from `common/namematcher/matcher.go` and the
relay-URL condition of `proxy/lib.runSession` equal the model; the broker's `ProxyPolls` still
performs the pattern check (and returns) before the poll is registered.
-/
namespace Snowflake.Tie.NameMatcher
open Snowflake.NameMatcher

def toModel (m : Gen.NameMatcher.NameMatcher) : Matcher := ⟨m.exact, m.suffix⟩

theorem new_tie (rule : List UInt8) : toModel (Gen.NameMatcher.NewNameMatcher rule) = new rule := rfl

theorem isValidRule_tie (rule : List UInt8) : Gen.NameMatcher.IsValidRule rule = isValidRule rule := rfl

theorem isSupersetOf_tie (m o : Gen.NameMatcher.NameMatcher) :
    Gen.NameMatcher.IsSupersetOf m o = isSupersetOf (toModel m) (toModel o) := rfl

theorem isMember_tie (m : Gen.NameMatcher.NameMatcher) (s : List UInt8) :
    Gen.NameMatcher.IsMember m s = isMember (toModel m) s := rfl

theorem proxyRejects_tie (relayURL : List UInt8) (member allow : Bool) (scheme : List UInt8) :
    Gen.NameMatcher.runSession_rejectCond relayURL member allow scheme = proxyRejects relayURL member allow scheme := rfl

/-- Ordering facts of `IPC.ProxyPolls` the model relies on: the pattern check happens exactly once,
strictly before the (single) `RequestOffer`, and the block guarded by the failed check ends in
`return` without registering the poll. -/
theorem proxyPolls_check_precedes_offer :
    Skel.before Gen.NameMatcher.skel_ProxyPolls (Skel.pre "if !i.ctx.CheckProxyRelayPattern(relayPattern, !relayPatternSupported){")
        (Skel.pre "call i.ctx.RequestOffer(") = true
    ∧ Skel.count Gen.NameMatcher.skel_ProxyPolls (Skel.pre "call i.ctx.RequestOffer(") = 1
    ∧ ((Skel.blockOf Gen.NameMatcher.skel_ProxyPolls (Skel.pre "if !i.ctx.CheckProxyRelayPattern(")).map
          (fun b => b.getLast? == some "return" && !b.any (Skel.pre "call i.ctx.RequestOffer("))) = some true := by
  decide +kernel

end Snowflake.Tie.NameMatcher
