import Snowflake.Generated.Util
import Snowflake.Model.Util
import Snowflake.Base.SkelFlow
/-!
Tie obligation for the last clause of C08 ("applied before the offer leaves the process"), client side:
`(*BrokerChannel).Negotiate` (client/lib/rendezvous.go) still applies `util.StripLocalAddresses`, under exactly
the negated `keepLocalAddresses` flag, to the one description it serialises into the request — the
model's `Util.leaves`, about which `Props/C08.lean` proves `sent_description_spec`.

The statement list is regenerated with **every** call, composite literal, assignment, condition and
returned expression (`calls: "."`, `assigns: "."`), together with the identifiers that occur in each
statement (`…_ids`) and the signature.  The obligations are data-flow facts: *all* statements that
mention the description variable, the flag, the serialised string, the encoded request and the
transport are listed, so any additional use — a copy of the original kept aside, a second path to
`Serialize` / `Encode` / `Exchange`, a further condition on the reassignment, another assignment —
changes one of the lists and the obligation fails.

One module per sender (and apart from `Tie/Util.lean`), so that a change to one function does not take
the other ties of C08 down with it.
-/
namespace Snowflake.Tie.StripAppliedClient
open Snowflake.Skel

open Snowflake.Gen.Util
private abbrev N := stmts_Negotiate
private abbrev Nw := linesWith stmts_Negotiate stmts_Negotiate_ids

/-- **`Negotiate` sends `leaves keepLocalAddresses offer`** (1/2: the guarded reassignment).
* `bc` is the receiver and `offer` the parameter;
* the flag is read in one place only: the guard `if !bc.keepLocalAddresses`, which is a top-level
  statement (not nested under any other condition, loop, goroutine or function literal) without an
  `else` branch;
* its body is exactly the reassignment of `offer` to a description literal with the same `Type` and
  `SDP: util.StripLocalAddresses(offer.SDP)` — unconditionally, whatever stripping returns;
* every statement that mentions `offer` is listed: the three lines of that body and the one call
  `util.SerializeSessionDescription(offer)` whose result is `offerSDP` — no copy of the parameter is
  kept, nothing else is assigned to it, it is passed to nothing else. -/
theorem negotiate_strips_under_flag :
    stmts_Negotiate_ids.length = N.length
    ∧ stmts_Negotiate_sig = "func (bc *BrokerChannel) Negotiate(offer *webrtc.SessionDescription) ( *webrtc.SessionDescription, error)"
    ∧ Nw "keepLocalAddresses" = ["if !bc.keepLocalAddresses{"]
    ∧ stacksOf N (· == "if !bc.keepLocalAddresses{") = [[]]
    ∧ blockOf N (· == "if !bc.keepLocalAddresses{") = some [
        "lit webrtc.SessionDescription{ Type: offer.Type, SDP: util.StripLocalAddresses(offer.SDP), }",
        "call util.StripLocalAddresses(offer.SDP)",
        "assign offer = &webrtc.SessionDescription{ Type: offer.Type, SDP: util.StripLocalAddresses(offer.SDP), }"]
    ∧ closer N (· == "if !bc.keepLocalAddresses{") = some "}"
    ∧ Nw "offer" = [
        "lit webrtc.SessionDescription{ Type: offer.Type, SDP: util.StripLocalAddresses(offer.SDP), }",
        "call util.StripLocalAddresses(offer.SDP)",
        "assign offer = &webrtc.SessionDescription{ Type: offer.Type, SDP: util.StripLocalAddresses(offer.SDP), }",
        "call util.SerializeSessionDescription(offer)",
        "assign offerSDP, err := util.SerializeSessionDescription(offer)"]
    ∧ Nw "StripLocalAddresses" = [
        "lit webrtc.SessionDescription{ Type: offer.Type, SDP: util.StripLocalAddresses(offer.SDP), }",
        "call util.StripLocalAddresses(offer.SDP)",
        "assign offer = &webrtc.SessionDescription{ Type: offer.Type, SDP: util.StripLocalAddresses(offer.SDP), }"] := by
  decide +kernel

/-- **`Negotiate` sends `leaves keepLocalAddresses offer`** (2/2: from the serialiser to the transport).
`offerSDP` only becomes the `Offer` field of the one `ClientPollRequest` (the extractor cuts long
expressions: the literal is compared up to its second field), `req` is only encoded, the encoding
`encReq` is only handed to `bc.Rendezvous.Exchange`, which is the only use of the transport;
serialise, encode and exchange are top-level statements in this order after the guard; nothing runs
in a goroutine, deferred or in a function literal. -/
theorem negotiate_sends_serialised :
    Nw "SerializeSessionDescription" = [
        "call util.SerializeSessionDescription(offer)",
        "assign offerSDP, err := util.SerializeSessionDescription(offer)"]
    ∧ startAll (Nw "offerSDP") [
        "assign offerSDP, err := util.SerializeSessionDescription(offer)",
        "lit messages.ClientPollRequest{ Offer: offerSDP, NAT: bc.natType, ",
        "assign req := &messages.ClientPollRequest{ Offer: offerSDP, NAT: bc.natType, "] = true
    ∧ startAll (Nw "req") [
        "assign req := &messages.ClientPollRequest{ Offer: offerSDP, NAT: bc.natType, ",
        "call req.EncodeClientPollRequest()",
        "assign encReq, err := req.EncodeClientPollRequest()"] = true
    ∧ Nw "encReq" = [
        "assign encReq, err := req.EncodeClientPollRequest()",
        "call bc.Rendezvous.Exchange(encReq)",
        "assign encResp, err := bc.Rendezvous.Exchange(encReq)"]
    ∧ Nw "Rendezvous" = [
        "call bc.Rendezvous.Exchange(encReq)",
        "assign encResp, err := bc.Rendezvous.Exchange(encReq)"]
    ∧ Nw "Exchange" = Nw "Rendezvous"
    ∧ stacksOf N (· == "call util.SerializeSessionDescription(offer)") = [[]]
    ∧ stacksOf N (· == "call req.EncodeClientPollRequest()") = [[]]
    ∧ stacksOf N (· == "call bc.Rendezvous.Exchange(encReq)") = [[]]
    ∧ before N (· == "if !bc.keepLocalAddresses{") (· == "call util.SerializeSessionDescription(offer)") = true
    ∧ before N (· == "call util.SerializeSessionDescription(offer)") (· == "call req.EncodeClientPollRequest()") = true
    ∧ before N (· == "call req.EncodeClientPollRequest()") (· == "call bc.Rendezvous.Exchange(encReq)") = true
    ∧ has N detached = false := by
  decide +kernel


end Snowflake.Tie.StripAppliedClient
