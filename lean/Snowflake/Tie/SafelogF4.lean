import Snowflake.Tie.Safelog
/-!
Tie obligation for the F4 part of C07 (kept in its own module so that it can be dropped, together with
`Props/C07Full.lean`, if the widening of `ipv6Compressed` is recorded as a known finding instead of repaired).
-/
namespace Snowflake.Tie.Safelog
open Snowflake.Rx Snowflake.Safelog
set_option maxRecDepth 100000

/-- The repeat bound of `ipv6Compressed` is at least 6: enough for the seven groups Go's parser accepts
beside `::`.  (With the originally pinned bound 5, `::2:3:4:5:6:7:abcd` is not matched: finding F4.) -/
theorem compressed_covers_seven_groups :
    ∃ n, 6 ≤ n ∧ eraseCaps Gen.Safelog.addressPattern = addressShapeN n := by
  first
  | exact ⟨6, by decide, by decide +kernel⟩
  | exact ⟨7, by decide, by decide +kernel⟩
  | exact ⟨8, by decide, by decide +kernel⟩

end Snowflake.Tie.Safelog
