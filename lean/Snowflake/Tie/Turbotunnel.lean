import Snowflake.Generated.Turbotunnel
import Snowflake.Model.ClientMap
import Snowflake.Model.QueueConn
import Snowflake.Model.Redial
import Snowflake.Model.RedialSource
import Snowflake.Base.Skel
import Snowflake.Props.C17
/-!
Tie obligations for C17: what is regenerated from `common/turbotunnel/*.go` on every run
(`Generated/Turbotunnel.lean`) against what the models assume.

* constants and translated conditions equal the model's (`rfl`);
* synchronisation skeletons: semantic facts (orderings, counts, non-blocking selects, close-once
  shape) for the queue connection, the client map and `dialLoop`; for `exchange` — whose exact
  goroutine/select structure *is* the LTS of `Model/Redial.lean` — the whole skeleton except the two
  capacity lines;
* the capacities of the two error channels, read from the skeleton, are ≥ 1 — the hypothesis of
  `C17.no_retained_goroutine` (on the pinned tree they are 0 and this obligation fails: F12), and
  the property instantiated at the source's capacities.
-/
namespace Snowflake.Tie.Turbotunnel
open Snowflake Snowflake.Skel
open Snowflake.Gen.Turbotunnel

/-! ## constants and translated conditions -/

theorem queueSize_tie : queueSize = (ClientMap.queueSize : Int) ∧ queueSize = (Redial.queueSize : Int) := by
  decide

/-- the guard of `removeExpired`'s loop -/
theorem guard_tie (n : Nat) (now lastSeen timeout : Int) :
    removeExpired_guard n now lastSeen timeout = ClientMap.guard n now lastSeen timeout := rfl

/-- `clientMapInner.Less` -/
theorem less_tie (s : ClientMap.Inner) (i j : Nat) :
    clientMap_less (Heap.keyAt ClientMap.Rec.lastSeen s.byAge i) (Heap.keyAt ClientMap.Rec.lastSeen s.byAge j)
      = ClientMap.lessH s i j := rfl

/-! ## queues: capacities, non-blocking sends, copy before enqueue, close-once -/

/-- `sendQueue`/`recvQueue` of both connections and every client queue are made with capacity
`queueSize`; `closed` is unbuffered; `NewRedialPacketConn` starts `dialLoop`. -/
theorem queue_capacities :
    count skel_NewRedialPacketConn (· == "makechan cap=queueSize") = 2
    ∧ skel_NewRedialPacketConn.contains "go c.dialLoop" = true
    ∧ count skel_NewQueuePacketConn (· == "makechan cap=queueSize") = 1
    ∧ skel_cmSendQueue.contains "makechan cap=queueSize" = true := by decide +kernel

/-- A `select` block is non-blocking: it has a `default:` arm. -/
def hasDefault (b : List String) : Bool := b.contains "default:"

/-- `QueueIncoming`: closed check (returning) first, then the copy, then a send on `c.recvQueue`
inside a select with a default arm; nothing else can block. -/
theorem queueIncoming_shape :
    before skel_QueueIncoming (· == "recv c.closed") (pre "call copy(buf, p)") = true
    ∧ before skel_QueueIncoming (pre "call copy(buf, p)") (· == "send c.recvQueue") = true
    ∧ count skel_QueueIncoming (pre "send ") = 1 ∧ count skel_QueueIncoming (pre "recv ") = 1
    ∧ count skel_QueueIncoming (· == "select{") = 2 ∧ count skel_QueueIncoming (· == "default:") = 2
    ∧ count skel_QueueIncoming (pre "call c.") = 0 := by decide +kernel

/-- `QueuePacketConn.WriteTo`: closed check (the only receive, inside a select with a default arm), copy,
then `c.clients.trySend(addr, buf)` - the packet the map gets is the copy, not the caller's buffer - and
nothing else that can block or send. -/
theorem queueWriteTo_shape :
    before skel_queueWriteTo (· == "recv c.closed") (pre "call copy(buf, p)") = true
    ∧ before skel_queueWriteTo (pre "call copy(buf, p)") (· == "call c.clients.trySend(addr, buf)") = true
    ∧ count skel_queueWriteTo (pre "send ") = 0 ∧ count skel_queueWriteTo (pre "recv ") = 1
    ∧ count skel_queueWriteTo (· == "select{") = 1 ∧ count skel_queueWriteTo (· == "default:") = 1
    ∧ count skel_queueWriteTo (pre "call c.clients.") = 1 := by
  decide +kernel

/-- `ClientMap.trySend`: under the map's lock (taken first, released by defer only), one send on the queue
`inner.SendQueue(addr, time.Now())` returns, inside a select with a default arm: the send cannot block
and cannot overlap `removeExpired` (which closes expired queues under the same lock, `clientMap_shape`).
Before the repair (§11.2 F18) `WriteTo` sent on the queue after `ClientMap.SendQueue` had released the
lock. -/
theorem trySend_shape :
    skel_ClientMapTrySend.take 2 = ["call m.lock.Lock()", "defer m.lock.Unlock()"]
    ∧ count skel_ClientMapTrySend (· == "call m.lock.Unlock()") = 0
    ∧ count skel_ClientMapTrySend (pre "send ") = 1
    ∧ skel_ClientMapTrySend.contains "send m.inner.SendQueue(addr, time.Now())" = true
    ∧ count skel_ClientMapTrySend (· == "select{") = 1 ∧ count skel_ClientMapTrySend (· == "default:") = 1
    ∧ count skel_ClientMapTrySend (pre "recv ") = 0 := by
  decide +kernel

/-- `QueuePacketConn.ReadFrom`: a non-blocking closed check first, then a blocking select on
`closed` and `recvQueue` whose packet arm copies into the caller's buffer. -/
theorem queueReadFrom_shape :
    skel_queueReadFrom.take 8 = ["select{", "case:", "recv c.closed", "do:", "return", "default:", "do:", "}"]
    ∧ count skel_queueReadFrom (· == "recv c.recvQueue") = 1
    ∧ count skel_queueReadFrom (· == "default:") = 1
    ∧ before skel_queueReadFrom (· == "recv c.recvQueue") (pre "call copy(p, packet.P)") = true := by
  decide +kernel

/-- Both `closeWithError`s: everything happens inside one `closeOnce.Do`, the error is stored before
`closed` is closed, `closed` is closed exactly once in the text. -/
theorem closeWithError_shape :
    (∀ sk ∈ [skel_queueCloseWithError, skel_redialCloseWithError],
      sk.head? = some "call c.closeOnce.Do(func)"
      ∧ ((blockOf sk (· == "func{")).map (fun b => b == ["call c.err.Store(err)", "call close(c.closed)"])) = some true
      ∧ count sk (pre "call close(") = 1) := by decide +kernel

/-- `OutgoingQueue` is `clients.SendQueue(addr)` with no closed check. -/
theorem outgoingQueue_shape : skel_OutgoingQueue = ["call c.clients.SendQueue(addr)", "return"] := by
  decide +kernel

/-! ## client map -/

/-- `SendQueue`: found ⇒ `heap.Fix(inner, i)`, otherwise make the queue and `heap.Push`;
`removeExpired`: a loop around `heap.Pop(inner)`; `Pop` deletes from the index and closes the queue;
`Push` panics only on a duplicate; `Len` panics only on inconsistent lengths; the sweeper sleeps
`timeout / 2` and calls `removeExpired(now, timeout)` under the lock; `ClientMap.SendQueue` calls the
inner one under the lock with `time.Now()`. -/
theorem clientMap_shape :
    skel_cmSendQueue = ["if ok{", "call heap.Fix(inner, i)", "}else{", "makechan cap=queueSize",
                        "call heap.Push(inner, record)", "}", "return"]
    ∧ skel_cmRemoveExpired = ["for{", "call heap.Pop(inner)", "}"]
    ∧ before skel_cmPop (· == "call delete(inner.byAddr, record.Addr)") (· == "call close(record.SendQueue)") = true
    ∧ count skel_cmPop (pre "call close(") = 1
    ∧ ((blockOf skel_cmPush (· == "if ok{")).map (fun b => b.all (pre "call panic("))) = some true
    ∧ ((blockOf skel_cmLen (· == "if len(inner.byAge) != len(inner.byAddr){")).map (fun b => b.all (pre "call panic("))) = some true
    ∧ before skel_NewClientMap (· == "call time.Sleep(timeout / 2)") (· == "call m.lock.Lock()") = true
    ∧ before skel_NewClientMap (· == "call m.lock.Lock()") (· == "call m.inner.removeExpired(now, timeout)") = true
    ∧ before skel_NewClientMap (· == "call m.inner.removeExpired(now, timeout)") (· == "call m.lock.Unlock()") = true
    ∧ skel_ClientMapSendQueue = ["call m.lock.Lock()", "defer m.lock.Unlock()",
                                 "call m.inner.SendQueue(addr, time.Now())", "return"] := by
  decide +kernel

/-! ## RedialPacketConn -/

/-- `dialLoop`: the non-blocking `closed` check precedes the dial; `closeWithError` is called only in
the dial-error branch, which returns; `exchange(conn)` is followed by `conn.Close()`, once each, and
the loop contains no other exit. -/
theorem dialLoop_shape :
    skel_dialLoop.head? = some "for{"
    ∧ before skel_dialLoop (· == "recv c.closed") (· == "call c.dialContext(ctx)") = true
    ∧ before skel_dialLoop (· == "call c.dialContext(ctx)") (· == "call c.exchange(conn)") = true
    ∧ before skel_dialLoop (· == "call c.exchange(conn)") (· == "call conn.Close()") = true
    ∧ count skel_dialLoop (· == "call c.exchange(conn)") = 1 ∧ count skel_dialLoop (· == "call conn.Close()") = 1
    ∧ count skel_dialLoop (pre "call c.closeWithError(") = 1
    ∧ ((blockOf skel_dialLoop (· == "if err != nil{")).map
        (fun b => b.contains "call c.closeWithError(err)" && b.getLast? == some "return"
                  && !b.contains "call c.exchange(conn)")) = some true
    ∧ count skel_dialLoop (· == "return") = 2 ∧ count skel_dialLoop (· == "break") = 0 := by
  decide +kernel

/-- `RedialPacketConn.ReadFrom` / `WriteTo`: the only error source is the `closed` check (every
`return` that can carry an error follows a `recv c.closed`); `WriteTo` copies, then sends on
`c.sendQueue` inside a select with a default arm; `ReadFrom` waits on `closed` and `recvQueue` only. -/
theorem redialApi_shape :
    skel_redialWriteTo.take 8 = ["select{", "case:", "recv c.closed", "do:", "return", "default:", "do:", "}"]
    ∧ before skel_redialWriteTo (pre "call copy(buf, p)") (· == "send c.sendQueue") = true
    ∧ count skel_redialWriteTo (pre "send ") = 1 ∧ count skel_redialWriteTo (· == "default:") = 2
    ∧ skel_redialReadFrom.take 8 = ["select{", "case:", "recv c.closed", "do:", "return", "default:", "do:", "}"]
    ∧ (skel_redialReadFrom.filter (pre "recv ")) = ["recv c.closed", "recv c.closed", "recv c.recvQueue"]
    ∧ count skel_redialReadFrom (pre "send ") = 0 := by decide +kernel

/-- The structure of `exchange` the LTS was written against (everything except the capacities):
two channels; a reader goroutine `select{closed | writeErrCh | default}; ReadFrom; err ⇒ send
readErrCh; non-blocking send on recvQueue` with deferred `close(readErrCh)`; a writer goroutine
`select{closed | readErrCh | sendQueue ⇒ WriteTo; err ⇒ send writeErrCh}` with deferred
`close(writeErrCh)`; and the final `select{readErrCh | writeErrCh}` without a `closed` arm. -/
def expected_exchange : List String := [
  "go{", "defer close(readErrCh)", "for{",
  "select{", "case:", "recv c.closed", "do:", "return", "case:", "recv writeErrCh", "do:", "return", "default:", "do:", "}",
  "call conn.ReadFrom(buf[:])", "if err != nil{", "send readErrCh", "return", "}",
  "select{", "case:", "send c.recvQueue", "do:", "default:", "do:", "}",
  "}", "}",
  "go{", "defer close(writeErrCh)", "for{",
  "select{", "case:", "recv c.closed", "do:", "return", "case:", "recv readErrCh", "do:", "return",
  "case:", "recv c.sendQueue", "do:", "call conn.WriteTo(p, c.remoteAddr)", "if err != nil{", "send writeErrCh", "return", "}", "}",
  "}", "}",
  "select{", "case:", "recv readErrCh", "do:", "case:", "recv writeErrCh", "do:", "}"]

theorem exchange_shape :
    skel_exchange.filter (fun l => !(pre "makechan" l)) = expected_exchange
    ∧ skel_exchange.take 2 = skel_exchange.filter (pre "makechan")
    ∧ Redial.Source.errCaps.length = 2 ∧ Redial.Source.errCaps.all Option.isSome = true := by
  decide +kernel

/-- **Both error channels are buffered** (capacity ≥ 1): the hypothesis of
`C17.no_retained_goroutine`.  Fails on the pinned tree, where `make(chan error)` gives 0 (F12; see
`C17.pinned_reader_leak_write_first`). -/
theorem errch_buffered : 1 ≤ Redial.Source.capR ∧ 1 ≤ Redial.Source.capW := by decide +kernel

/-- The property at the capacities the source declares. -/
theorem no_retained_goroutine_source (s : Redial.St)
    (h : Redial.Reachable Redial.Source.capR Redial.Source.capW s) (k : Nat) (hc : s.cclosed k = true) :
    (0 < Redial.rank s k → ∃ l ∈ Redial.groupLabels k,
        (Redial.step Redial.Source.capR Redial.Source.capW s l).isSome = true)
    ∧ (∃ ls s', (∀ l ∈ ls, l ∈ Redial.groupLabels k) ∧ ls.length ≤ Redial.rank s k
        ∧ Redial.run Redial.Source.capR Redial.Source.capW s ls = some s' ∧ Redial.finished s' k) := by
  have r := C17.no_retained_goroutine _ _ errch_buffered.1 errch_buffered.2 s h k hc
  exact ⟨r.1, r.2.2⟩

end Snowflake.Tie.Turbotunnel
