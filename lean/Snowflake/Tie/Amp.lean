import Snowflake.Generated.Amp
import Snowflake.Model.Amp
import Snowflake.Base.Skel
/-!
Tie obligations for C10: the constants and `isASCIIWhitespace` regenerated from
`/repo/common/amp/armor_encoder.go` / `armor_decoder.go` equal the model's, and the statement order of
encoder and decoder (regenerated skeletons) is the one the model was written against.
-/
namespace Snowflake.Tie.Amp
open Snowflake.Amp

theorem boilerplateStart_tie : Gen.Amp.boilerplateStart = boilerplateStart := by decide +kernel
theorem boilerplateEnd_tie : Gen.Amp.boilerplateEnd = boilerplateEnd := by decide +kernel
theorem elementSizeLimit_tie : Gen.Amp.elementSizeLimit = (elementSizeLimit : Int) := by decide
theorem bytesPerChunk_tie : Gen.Amp.bytesPerChunk = (bytesPerChunk : Int) := by decide
theorem chunksPerElement_tie : Gen.Amp.chunksPerElement = (chunksPerElement : Int) := by decide

/-- The computed constant is the formula of the source evaluated on the other two. -/
theorem chunksPerElement_formula : chunksPerElement = (elementSizeLimit - 1) / (bytesPerChunk + 1) := by decide

/-- The translated `isASCIIWhitespace` is the model's, on all 256 bytes; and the model's is the
tokenizer's white-space class (so the splitter and `x/net/html` agree on what separates words). -/
theorem isASCIIWhitespace_tie (b : UInt8) : Gen.Amp.isASCIIWhitespace b = isASCIIWhitespace b := by
  have key : ∀ n : Fin 256, Gen.Amp.isASCIIWhitespace (UInt8.ofNat n.val) = isASCIIWhitespace (UInt8.ofNat n.val) := by
    decide +kernel
  have e : UInt8.ofNat b.toNat = b := by simp
  have := key ⟨b.toNat, b.toNat_lt⟩
  simp only [e] at this
  exact this

open Snowflake.Skel in
/-- `NewArmorEncoder`: header first, then the version byte `'0'` through the element encoder, then the
base64 encoder (standard alphabet) on top of the element encoder. -/
theorem newArmorEncoder_order :
    before Gen.Amp.skel_NewArmorEncoder (pre "call w.Write([]byte(boilerplateStart))") (pre "call element.Write([]byte{'0'})") = true
    ∧ before Gen.Amp.skel_NewArmorEncoder (pre "call element.Write([]byte{'0'})") (pre "call base64.NewEncoder(base64.StdEncoding, element)") = true
    ∧ count Gen.Amp.skel_NewArmorEncoder (pre "call ") = 3 := by decide +kernel

open Snowflake.Skel in
/-- `armorEncoder.Write` only forwards to the base64 encoder; `Close` closes base64, then the element
encoder, then writes the trailer — each exactly once. -/
theorem armorEncoder_write_close_order :
    Gen.Amp.skel_armorEncoder_Write = ["call enc.base64.Write(p)", "return"]
    ∧ before Gen.Amp.skel_armorEncoder_Close (pre "call enc.base64.Close()") (pre "call enc.element.Close()") = true
    ∧ before Gen.Amp.skel_armorEncoder_Close (pre "call enc.element.Close()") (pre "call enc.w.Write([]byte(boilerplateEnd))") = true
    ∧ count Gen.Amp.skel_armorEncoder_Close (pre "call ") = 3 := by decide +kernel

open Snowflake.Skel in
/-- `elementEncoder.Write`: inside the loop, in this order, `<pre>\n` guarded by both counters being
zero, the data block, `\n` guarded by `chunkCounter >= bytesPerChunk`, `</pre>\n` guarded by
`elementCounter >= chunksPerElement`; `Close` has the three-way shape of the model. -/
theorem elementEncoder_order :
    (blockOf Gen.Amp.skel_elementEncoder_Write (pre "if enc.elementCounter == 0 && enc.chunkCounter == 0{")).map
        (fun b => b.head? == some "call enc.w.Write([]byte(\"<pre>\\n\"))") = some true
    ∧ before Gen.Amp.skel_elementEncoder_Write (pre "call enc.w.Write([]byte(\"<pre>\\n\"))") (pre "call enc.w.Write(p[:n])") = true
    ∧ before Gen.Amp.skel_elementEncoder_Write (pre "call enc.w.Write(p[:n])") (pre "if enc.chunkCounter >= bytesPerChunk{") = true
    ∧ (blockOf Gen.Amp.skel_elementEncoder_Write (pre "if enc.chunkCounter >= bytesPerChunk{")).map
        (fun b => b.head? == some "call enc.w.Write([]byte(\"\\n\"))") = some true
    ∧ before Gen.Amp.skel_elementEncoder_Write (pre "if enc.chunkCounter >= bytesPerChunk{") (pre "if enc.elementCounter >= chunksPerElement{") = true
    ∧ (blockOf Gen.Amp.skel_elementEncoder_Write (pre "if enc.elementCounter >= chunksPerElement{")).map
        (fun b => b.head? == some "call enc.w.Write([]byte(\"</pre>\\n\"))") = some true
    ∧ count Gen.Amp.skel_elementEncoder_Write (pre "call enc.w.Write(") = 4
    ∧ Gen.Amp.skel_elementEncoder_Close =
        ["if !(enc.elementCounter == 0 && enc.chunkCounter == 0){", "if enc.chunkCounter == 0{",
         "call enc.w.Write([]byte(\"</pre>\\n\"))", "}else{", "call enc.w.Write([]byte(\"\\n</pre>\\n\"))", "}", "}", "return"] := by
  decide +kernel

open Snowflake.Skel in
/-- `decodeToWriter`: the tokenizer's buffer is limited to `elementSizeLimit` before the loop; text is
split and written only under `if active`; a `pre` start tag while active and a `pre` end tag while not
active return an error; at the end of input an error is returned if still active. -/
theorem decodeToWriter_shape :
    before Gen.Amp.skel_decodeToWriter (pre "call tokenizer.SetMaxBuf(elementSizeLimit)") (pre "for{") = true
    ∧ count Gen.Amp.skel_decodeToWriter (pre "call tokenizer.SetMaxBuf(") = 1
    ∧ (blockOf Gen.Amp.skel_decodeToWriter (pre "if active{")).map
        (fun b => b.contains "call tokenizer.Text()" && b.contains "call scanner.Split(splitASCIIWhitespace)"
                  && b.contains "call w.Write(scanner.Bytes())") = some true
    ∧ count Gen.Amp.skel_decodeToWriter (pre "call w.Write(") = 1
    ∧ (blockOf Gen.Amp.skel_decodeToWriter (pre "if err == nil && active{")).map
        (fun b => b == ["call fmt.Errorf(\"missing </pre> tag\")", "return"]) = some true
    ∧ count Gen.Amp.skel_decodeToWriter (pre "if string(tn) == \"pre\"{") = 2
    ∧ before Gen.Amp.skel_decodeToWriter (pre "case html.StartTagToken:") (pre "if active{" ) = false
    ∧ before Gen.Amp.skel_decodeToWriter (pre "case html.StartTagToken:") (pre "case html.EndTagToken:") = true
    ∧ (blockOf (Gen.Amp.skel_decodeToWriter.drop ((idx Gen.Amp.skel_decodeToWriter (pre "case html.StartTagToken:")).getD 0)) (pre "if string(tn) == \"pre\"{")).map
        (fun b => b == ["if active{", "call fmt.Errorf(\"unexpected %s\", tokenizer.Token())", "return", "}"]) = some true
    ∧ (blockOf (Gen.Amp.skel_decodeToWriter.drop ((idx Gen.Amp.skel_decodeToWriter (pre "case html.EndTagToken:")).getD 0)) (pre "if string(tn) == \"pre\"{")).map
        (fun b => b == ["if !active{", "call fmt.Errorf(\"unexpected %s\", tokenizer.Token())", "return", "}"]) = some true := by
  decide +kernel

open Snowflake.Skel in
/-- `NewArmorDecoder`: `decodeToWriter` runs in its own goroutine and closes the pipe with its error;
one byte is read as the version; only for `'0'` a decoder for the *standard* alphabet is returned. -/
theorem newArmorDecoder_shape :
    (blockOf Gen.Amp.skel_NewArmorDecoder (pre "go{")).map
        (fun b => b == ["call decodeToWriter(pw, r)", "call pw.CloseWithError(err)"]) = some true
    ∧ before Gen.Amp.skel_NewArmorDecoder (pre "call pr.Read(version[:])") (pre "switch version[0]{") = true
    ∧ before Gen.Amp.skel_NewArmorDecoder (pre "case '0':") (pre "call base64.NewDecoder(base64.StdEncoding, pr)") = true
    ∧ before Gen.Amp.skel_NewArmorDecoder (pre "call base64.NewDecoder(base64.StdEncoding, pr)") (pre "case default:") = true
    ∧ count Gen.Amp.skel_NewArmorDecoder (pre "call base64.NewDecoder(") = 1 := by decide +kernel

end Snowflake.Tie.Amp
