import Snowflake.Generated.NameMatcher
import Snowflake.Model.NameMatcher
/-!
Counterexample search for C06 on the *regenerated* definitions (run by run.py only when a proof or
tie of C06 no longer checks): the property clauses are evaluated, by the Lean evaluator, on the
functions translated from the current Go source over a small structured grid.  Every line printed
as `COUNTEREXAMPLE <key> | <input>` is a concrete input on which the current code violates the clause.
-/
open Snowflake Snowflake.Gen.NameMatcher Snowflake.GoStr

def hosts : List Str := ["", "a", "A", "b.a", "B.A", "xb.a", "snowflake.torproject.net", "Snowflake.TorProject.net",
  "faketorproject.net", "x.snowflake.torproject.net"].map ofString
def rules : List Str := ["", "$", "^", "^$", "a$", "^a$", "A$", "^A$", "b.a$", "^b.a$", ".a$", "torproject.net$",
  "^snowflake.torproject.net$", "snowflake.torproject.net$", "^Snowflake.TorProject.net$", "net"].map ofString

def showS (s : Str) : String := String.fromUTF8! (ByteArray.mk s.toArray)

/-- superset law on the translated matcher -/
def supersetCex : List String := Id.run do
  let mut out := []
  for a in rules do
    for b in rules do
      let ma := NewNameMatcher a
      let mb := NewNameMatcher b
      if IsSupersetOf ma mb then
        for h in hosts do
          if IsMember mb h && !IsMember ma h then
            out := out ++ [s!"COUNTEREXAMPLE superset-law | a={showS a} b={showS b} host={showS h}: judged superset, b accepts host, a rejects it"]
  return out.take 5

/-- proxy acceptance clause on the translated condition of runSession -/
def proxyCex : List String := Id.run do
  let mut out := []
  for url in [ofString "", ofString "wss://x/"] do
    for member in [true, false] do
      for allow in [true, false] do
        for scheme in [ofString "wss", ofString "ws", ofString "", ofString "WSS", ofString "https"] do
          let rejected := runSession_rejectCond url member allow scheme
          let mustReject := url != [] && (!member || (!allow && scheme != ofString "wss"))
          if !rejected && mustReject then
            out := out ++ [s!"COUNTEREXAMPLE proxy-accepted-relay-outside-pattern | relayURL non-empty={url != []} hostname-is-member={member} allow-non-tls={allow} scheme={showS scheme}: the condition of runSession does not reject"]
  return out.take 5

#eval (supersetCex ++ proxyCex).forM IO.println
