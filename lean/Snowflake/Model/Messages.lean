import Snowflake.Base.Json
/-!
Model of the six broker messages (core-only), over the `encoding/json` model of `Base/Json.lean`:
`common/messages/proxy.go` (proxy poll request / response, proxy answer request / response),
`common/messages/client.go` (client poll request / response) and
`common/bridgefingerprint/fingerprint.go`.

Encoders take Go strings as items (`Utf8.decodeItems`: scalars and offending bytes) and produce JSON
text; decoders take text (raw bytes are decoded with `Utf8.decodeLossy` first, see `Base/Json.lean`)
and return `Res`: a value, an error, or `panic`.  `panic` is produced only where the Go source
indexes a slice or dereferences a pointer; `C12.decoders_total` shows it is never reached.
-/
namespace Snowflake.Messages
open Snowflake.Json

inductive Res (α : Type) where
  | ok (a : α)
  | err
  | panic
deriving DecidableEq, Repr

abbrev GoStr := List (Option Char)

/-! ### Constants (tied to the source in `Tie/Messages.lean`) -/

/-- `messages.version` -/
def version : Text := "1.3".toList
/-- `messages.ProxyUnknown` -/
def proxyUnknown : Text := "unknown".toList
/-- keys of `messages.KnownProxyTypes` (sorted) -/
def knownProxyTypes : List Text := ["badge".toList, "iptproxy".toList, "standalone".toList, "webext".toList]
/-- `nat.NATUnknown`, `nat.NATRestricted`, `nat.NATUnrestricted` -/
def natUnknown : Text := "unknown".toList
def natRestricted : Text := "restricted".toList
def natUnrestricted : Text := "unrestricted".toList
/-- the status strings the source writes inline -/
def statusClientMatch : Text := "client match".toList
def statusNoMatch : Text := "no match".toList
def statusSuccess : Text := "success".toList
def statusClientGone : Text := "client gone".toList
/-- the text `"1"` the major version is compared with -/
def majorOne : Text := "1".toList
/-- `messages.ClientVersion` -/
def clientVersion : Text := "1.0".toList
/-- `messages.defaultBridgeFingerprint` -/
def defaultBridgeFingerprint : Text := "2B280B23E1107BB62ABFC40DDCC8824814F80A72".toList

/-! ### Library functions used by the decoders -/

/-- `strings.Split(s, sep)` for a one-character separator -/
def splitOn (sep : Char) : Text → List Text
  | [] => [[]]
  | c :: r =>
    if c = sep then [] :: splitOn sep r
    else
      match splitOn sep r with
      | [] => [[c]]
      | x :: xs => (c :: x) :: xs

/-- `xs[i]` on a slice: out of range is a run-time panic -/
def index {α : Type} (xs : List α) (i : Nat) : Res α :=
  match xs[i]? with
  | some x => .ok x
  | none => .panic

/-- `bytes.SplitN(data, "\n", 2)` -/
def splitN2 : Text → List Text
  | [] => [[]]
  | c :: r =>
    if c = '\n' then [[], r]
    else
      match splitN2 r with
      | [a, b] => [c :: a, b]
      | _ => [c :: r]

/-- `hex.DecodeString`: `none` on a non-hex character or odd length -/
def hexDecodeString : Text → Option (List Nat)
  | [] => some []
  | [_] => none
  | a :: b :: r =>
    match hexVal a, hexVal b, hexDecodeString r with
    | some x, some y, some bs => some ((x * 16 + y) :: bs)
    | _, _, _ => none

/-- the guard of `bridgefingerprint.FingerprintFromBytes`: `n != 20 && n != 32` -/
def fingerprintLenBad (n : Nat) : Bool := n != 20 && n != 32

/-- `bridgefingerprint.FingerprintFromHexString(s)` succeeds -/
def fingerprintOk (s : Text) : Bool :=
  match hexDecodeString s with
  | none => false
  | some bs => !fingerprintLenBad bs.length

/-- `if message.Fingerprint == "" { message.Fingerprint = defaultBridgeFingerprint }` -/
def fingerprintOrDefault (fp : Text) : Text := if fp = [] then defaultBridgeFingerprint else fp

/-- the NAT `switch` shared by both request decoders: `none` is the `default:` arm -/
def natSwitch (nat : Text) : Option Text :=
  if nat = [] then some natUnknown
  else if nat = natUnknown then some nat
  else if nat = natRestricted then some nat
  else if nat = natUnrestricted then some nat
  else none

/-- `strings.Split(v, ".")[0]` -/
def majorVersion (v : Text) : Res Text := index (splitOn '.' v) 0

/-! ### ProxyPollRequest -/

def pollReqInit : Struct :=
  [("Sid".toList, .str []), ("Version".toList, .str []), ("Type".toList, .str []), ("NAT".toList, .str []),
   ("Clients".toList, .int 0), ("AcceptedRelayPattern".toList, .optStr none)]

/-- `EncodeProxyPollRequestWithRelayPrefix` -/
def encodeProxyPollRequestWithRelayPrefix (sid proxyType natType : GoStr) (clients : Int) (relayPattern : GoStr) : Text :=
  marshalObj [{ name := "Sid".toList, val := .str sid },
              { name := "Version".toList, val := .str (ofText version) },
              { name := "Type".toList, val := .str proxyType },
              { name := "NAT".toList, val := .str natType },
              { name := "Clients".toList, val := .int clients },
              { name := "AcceptedRelayPattern".toList, val := .str relayPattern }]

/-- `EncodeProxyPollRequest` -/
def encodeProxyPollRequest (sid proxyType natType : GoStr) (clients : Int) : Text :=
  encodeProxyPollRequestWithRelayPrefix sid proxyType natType clients []

structure PollRequest where
  sid : Text
  proxyType : Text
  natType : Text
  clients : Int
  relayPrefix : Text
  relayPrefixAware : Bool
deriving DecidableEq, Repr

/-- `DecodeProxyPollRequestWithRelayPrefix` -/
def decodeProxyPollRequestWithRelayPrefix (data : Text) : Res PollRequest :=
  -- err = json.Unmarshal(data, &message); if err != nil { return }
  match unmarshalStruct pollReqInit data with
  | none => .err
  | some message =>
    -- majorVersion := strings.Split(message.Version, ".")[0]
    match majorVersion (message.getStr "Version".toList) with
    | .panic => .panic
    | .err => .err
    | .ok major =>
      if major ≠ majorOne then .err              -- "using unknown version"
      else if message.getStr "Sid".toList = [] then .err   -- "no supplied session id"
      else
        match natSwitch (message.getStr "NAT".toList) with
        | none => .err                            -- "invalid NAT type"
        | some nat =>
          let ty := message.getStr "Type".toList
          let ty := if knownProxyTypes.contains ty then ty else proxyUnknown
          let ptr := message.getOptStr "AcceptedRelayPattern".toList
          let pattern := match ptr with
            | some p => p
            | none => []
          .ok { sid := message.getStr "Sid".toList, proxyType := ty, natType := nat,
                clients := message.getInt "Clients".toList, relayPrefix := pattern,
                relayPrefixAware := ptr.isSome }

/-- `DecodeProxyPollRequest`: (sid, proxyType, natType, clients) -/
def decodeProxyPollRequest (data : Text) : Res (Text × Text × Text × Int) :=
  match decodeProxyPollRequestWithRelayPrefix data with
  | .ok m => if m.relayPrefix ≠ [] then .err /- ErrExtraInfo -/ else .ok (m.sid, m.proxyType, m.natType, m.clients)
  | .err => .err     -- relayPrefix is "" on the error paths
  | .panic => .panic

/-! ### ProxyPollResponse -/

def pollRespInit : Struct :=
  [("Status".toList, .str []), ("Offer".toList, .str []), ("NAT".toList, .str []), ("RelayURL".toList, .str [])]

/-- `EncodePollResponseWithRelayURL` -/
def encodePollResponseWithRelayURL (offer : GoStr) (success : Bool) (natType relayURL failReason : GoStr) : Text :=
  if success then
    marshalObj [{ name := "Status".toList, val := .str (ofText statusClientMatch) },
                { name := "Offer".toList, val := .str offer },
                { name := "NAT".toList, val := .str natType },
                { name := "RelayURL".toList, val := .str relayURL }]
  else
    marshalObj [{ name := "Status".toList, val := .str failReason },
                { name := "Offer".toList, val := .str [] },
                { name := "NAT".toList, val := .str [] },
                { name := "RelayURL".toList, val := .str [] }]

/-- `EncodePollResponse` -/
def encodePollResponse (offer : GoStr) (success : Bool) (natType : GoStr) : Text :=
  encodePollResponseWithRelayURL offer success natType [] (ofText statusNoMatch)

/-- What `DecodePollResponseWithRelayURL` returns: `(offer, natType, relayURL, nil)`; or, for a
status that is neither "client match" nor "no match", `("", natType, relayURL, errors.New(status))`;
or `("", "", "", err)`. -/
inductive PollResponse where
  | ok (offer natType relayURL : Text)
  | failure (reason natType relayURL : Text)
  | err
  | panic
deriving DecidableEq, Repr

/-- `DecodePollResponseWithRelayURL` -/
def decodePollResponseWithRelayURL (data : Text) : PollResponse :=
  match unmarshalStruct pollRespInit data with
  | none => .err
  | some message =>
    let status := message.getStr "Status".toList
    if status = [] then .err                      -- "received invalid data"
    else
      let natType := message.getStr "NAT".toList
      let natType := if natType = [] then natUnknown else natType
      if status = statusClientMatch then
        if message.getStr "Offer".toList = [] then .err   -- "no supplied offer"
        else .ok (message.getStr "Offer".toList) natType (message.getStr "RelayURL".toList)
      else if status ≠ statusNoMatch then
        .failure status natType (message.getStr "RelayURL".toList)
      else .ok [] natType (message.getStr "RelayURL".toList)

/-- What `DecodePollResponse` returns: `(offer, natType, err)`. -/
inductive PollResponseLegacy where
  | ok (offer natType : Text)
  | failure (reason natType : Text)
  | err
  | panic
deriving DecidableEq, Repr

/-- `DecodePollResponse` -/
def decodePollResponse (data : Text) : PollResponseLegacy :=
  match decodePollResponseWithRelayURL data with
  | .ok offer natType relayURL => if relayURL ≠ [] then .err else .ok offer natType
  | .failure reason natType relayURL => if relayURL ≠ [] then .err else .failure reason natType
  | .err => .err
  | .panic => .panic

/-! ### ProxyAnswerRequest / ProxyAnswerResponse -/

def answerReqInit : Struct :=
  [("Version".toList, .str []), ("Sid".toList, .str []), ("Answer".toList, .str [])]

/-- `EncodeAnswerRequest` -/
def encodeAnswerRequest (answer sid : GoStr) : Text :=
  marshalObj [{ name := "Version".toList, val := .str (ofText version) },
              { name := "Sid".toList, val := .str sid },
              { name := "Answer".toList, val := .str answer }]

/-- `DecodeAnswerRequest`: (answer, sid) -/
def decodeAnswerRequest (data : Text) : Res (Text × Text) :=
  match unmarshalStruct answerReqInit data with
  | none => .err
  | some message =>
    match majorVersion (message.getStr "Version".toList) with
    | .panic => .panic
    | .err => .err
    | .ok major =>
      if major ≠ majorOne then .err
      else if message.getStr "Sid".toList = [] || message.getStr "Answer".toList = [] then .err
      else .ok (message.getStr "Answer".toList, message.getStr "Sid".toList)

def answerRespInit : Struct := [("Status".toList, .str [])]

/-- `EncodeAnswerResponse` -/
def encodeAnswerResponse (success : Bool) : Text :=
  if success then marshalObj [{ name := "Status".toList, val := .str (ofText statusSuccess) }]
  else marshalObj [{ name := "Status".toList, val := .str (ofText statusClientGone) }]

/-- `DecodeAnswerResponse` -/
def decodeAnswerResponse (data : Text) : Res Bool :=
  match unmarshalStruct answerRespInit data with
  | none => .err
  | some message =>
    let status := message.getStr "Status".toList
    if status = [] then .err
    else .ok (status = statusSuccess)

/-! ### ClientPollRequest / ClientPollResponse -/

def clientReqInit : Struct :=
  [("offer".toList, .str []), ("nat".toList, .str []), ("fingerprint".toList, .str [])]

/-- `(*ClientPollRequest).EncodeClientPollRequest` -/
def encodeClientPollRequest (offer nat fingerprint : GoStr) : Text :=
  let fingerprint := if fingerprint.isEmpty then ofText defaultBridgeFingerprint else fingerprint
  clientVersion ++ '\n' ::
    marshalObj [{ name := "offer".toList, val := .str offer },
                { name := "nat".toList, val := .str nat },
                { name := "fingerprint".toList, val := .str fingerprint }]

structure ClientRequest where
  offer : Text
  nat : Text
  fingerprint : Text
deriving DecidableEq, Repr

/-- `DecodeClientPollRequest` -/
def decodeClientPollRequest (data : Text) : Res ClientRequest :=
  -- parts := bytes.SplitN(data, []byte("\n"), 2)
  let parts := splitN2 data
  if parts.length < 2 then .err                   -- "unsupported message version"
  else
    match index parts 0, index parts 1 with
    | .ok p0, .ok p1 =>
      if p0 ≠ clientVersion then .err
      else
        match unmarshalStruct clientReqInit p1 with
        | none => .err
        | some message =>
          if message.getStr "offer".toList = [] then .err       -- "no supplied offer"
          else
            let fp := fingerprintOrDefault (message.getStr "fingerprint".toList)
            if !fingerprintOk fp then .err                      -- "cannot decode fingerprint"
            else
              match natSwitch (message.getStr "nat".toList) with
              | none => .err                                    -- "invalid NAT type"
              | some nat => .ok { offer := message.getStr "offer".toList, nat := nat, fingerprint := fp }
    | .err, _ => .err
    | _, .err => .err
    | _, _ => .panic

def clientRespInit : Struct := [("answer".toList, .str []), ("error".toList, .str [])]

/-- `(*ClientPollResponse).EncodePollResponse` (both fields `omitempty`) -/
def encodeClientPollResponse (answer error : GoStr) : Text :=
  marshalObj [{ name := "answer".toList, val := .str answer, omitEmpty := true },
              { name := "error".toList, val := .str error, omitEmpty := true }]

/-- `DecodeClientPollResponse`: (answer, error) -/
def decodeClientPollResponse (data : Text) : Res (Text × Text) :=
  match unmarshalStruct clientRespInit data with
  | none => .err
  | some message =>
    if message.getStr "error".toList = [] && message.getStr "answer".toList = [] then .err
    else .ok (message.getStr "answer".toList, message.getStr "error".toList)

end Snowflake.Messages
