import Snowflake.Generated.Turbotunnel
/-!
The capacities of `readErrCh` and `writeErrCh` as the source declares them: the two
`make(chan error[, n])` of `RedialPacketConn.exchange`, read from the regenerated skeleton
(`makechan cap=n` lines, in source order: `readErrCh` first, `writeErrCh` second).
Definitions only (used by `sfdriver` and by `Tie/Turbotunnel.lean`); the obligations about them
are in `Tie/Turbotunnel.lean`.
-/
namespace Snowflake.Redial.Source

/-- decimal digits ↦ number (kernel-reducible; `none` for anything else, e.g. a constant name) -/
def digitsToNat : List Char → Option Nat
  | [] => none
  | cs => cs.foldl (fun acc c => match acc with
      | some n => if c.toNat ≥ 48 ∧ c.toNat ≤ 57 then some (n * 10 + (c.toNat - 48)) else none
      | none => none) (some 0)

/-- `"makechan cap=N"` ↦ `N` (a non-literal capacity such as a constant name gives `some none`). -/
def capOf (l : String) : Option (Option Nat) :=
  if l.startsWith "makechan cap=" then some (digitsToNat (l.toList.drop 13)) else none

/-- capacities of the channels made in `exchange`, in source order -/
def errCaps : List (Option Nat) := Gen.Turbotunnel.skel_exchange.filterMap capOf

def capR : Nat := (errCaps.getD 0 none).getD 0
def capW : Nat := (errCaps.getD 1 none).getD 0

end Snowflake.Redial.Source
