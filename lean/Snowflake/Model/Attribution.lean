import Snowflake.Model.ClientAddr
/-!
Model of the *attribution* clause of C18: which `Set` the HTTP handler performs for a carrier
(`server/lib/http.go`, `ServeHTTP` + `turbotunnelMode`) and which `Get` the KCP accept path performs for a
session (`server/lib/snowflake.go`, `SnowflakeListener.acceptStreams`).  Event based, on top of the ring
map of `Model/ClientAddr.lean`.  Core-only, executable, total.

```go
// ServeHTTP / turbotunnelMode, once per carrier that presented token + ClientID
addr := clientAddr(r.URL.Query().Get("client_ip"))
clientIDAddrMap.Set(clientID, addr)

// acceptStreams, once per KCP session, *before* the AcceptStream loop
addr, ok := clientIDAddrMap.Get(conn.RemoteAddr().(turbotunnel.ClientID))
for { stream, _ := sess.AcceptStream(); l.queueConn(&SnowflakeClientConn{Conn: stream, address: addr}) }
```
-/
namespace Snowflake.Attribution
open Snowflake.ClientAddr

/-- What happens at the server, as far as client addresses are concerned.
`S` names a KCP session (one call of `acceptStreams`), `K` is the ClientID, `I` the raw `client_ip`
parameter of a carrier's request (`[]` when the parameter is absent). -/
inductive Ev (S K I : Type) where
  /-- a carrier presented the turbotunnel token and ClientID `id`; its request carried `client_ip = ip` -/
  | carrier (id : K) (ip : I)
  /-- session `s`, whose packets carry ClientID `id`, is established (`acceptStreams` starts) -/
  | establish (s : S) (id : K)
  /-- a stream of session `s` is accepted and handed to `Accept()` -/
  | stream (s : S)

/-- The server state: the global `clientIDAddrMap` and, per established session, the local variable
`addr` of its `acceptStreams` call (`none` = the nil `net.Addr` of a failed lookup).  Newest first. -/
structure St (S K V : Type) where
  ring : Ring K V
  sess : List (S × Option V)

section
variable {S K I V : Type} [DecidableEq S] [DecidableEq K]

/-- lookup in the session table: `none` = no such session, `some a` = the session's `addr` -/
def sessGet (t : List (S × Option V)) (s : S) : Option (Option V) :=
  (t.find? (fun e => e.1 = s)).map (·.2)

/-- `RemoteAddr()` of a connection accepted now on session `s`. -/
def report (st : St S K V) (s : S) : Option (Option V) := sessGet st.sess s

/-- fresh server: `newClientIDMap(capacity)`, no session -/
def init (k0 : K) (v0 : V) (capacity : Nat) : St S K V := { ring := Ring.new k0 v0 capacity, sess := [] }

/-- One event.  `san` is the sanitiser (`clientAddr`). -/
def step (san : I → V) (k0 : K) (v0 : V) (st : St S K V) : Ev S K I → St S K V
  | .carrier id ip => { st with ring := Ring.set k0 v0 st.ring id (san ip) }
  | .establish s id => { st with sess := (s, Ring.get k0 v0 st.ring id) :: st.sess }
  | .stream _ => st

/-- Run a whole event sequence; the observable outputs (one per `stream` event, in order) and the
final state. -/
def run (san : I → V) (k0 : K) (v0 : V) : St S K V → List (Ev S K I) → List (Option (Option V)) × St S K V
  | st, [] => ([], st)
  | st, .carrier id ip :: evs => run san k0 v0 (step san k0 v0 st (.carrier id ip)) evs
  | st, .establish s id :: evs => run san k0 v0 (step san k0 v0 st (.establish s id)) evs
  | st, .stream s :: evs =>
    let r := run san k0 v0 st evs
    (report st s :: r.1, r.2)

/-- The `Set`s that an event sequence performs on the ring map. -/
def ringOps (san : I → V) : List (Ev S K I) → List (Op K V)
  | [] => []
  | .carrier id ip :: evs => Op.set id (san ip) :: ringOps san evs
  | .establish _ _ :: evs => ringOps san evs
  | .stream _ :: evs => ringOps san evs

/-- The carriers of an event sequence, in order: (ClientID, raw `client_ip`). -/
def carriers : List (Ev S K I) → List (K × I)
  | [] => []
  | .carrier id ip :: evs => (id, ip) :: carriers evs
  | .establish _ _ :: evs => carriers evs
  | .stream _ :: evs => carriers evs

/-- the sessions established by an event sequence, in order -/
def established : List (Ev S K I) → List S
  | [] => []
  | .carrier _ _ :: evs => established evs
  | .establish s _ :: evs => s :: established evs
  | .stream _ :: evs => established evs

/-! ### the seeded variant: lookup at every stream (for sensitivity examples only)

`acceptStreams` with the `Get` moved inside the `AcceptStream` loop: a session remembers its ClientID and
every stream looks the address up afresh. -/

structure StLate (S K V : Type) where
  ring : Ring K V
  sess : List (S × K)

def runLate (san : I → V) (k0 : K) (v0 : V) : StLate S K V → List (Ev S K I) → List (Option (Option V))
  | _, [] => []
  | st, .carrier id ip :: evs => runLate san k0 v0 { st with ring := Ring.set k0 v0 st.ring id (san ip) } evs
  | st, .establish s id :: evs => runLate san k0 v0 { st with sess := (s, id) :: st.sess } evs
  | st, .stream s :: evs =>
    ((st.sess.find? (fun e => e.1 = s)).map (fun e => Ring.get k0 v0 st.ring e.2)) :: runLate san k0 v0 st evs

end
end Snowflake.Attribution
