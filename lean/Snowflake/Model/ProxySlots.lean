import Snowflake.Base.TotalMap
/-
Model of the proxy's session slots (C16): `/repo/proxy/lib/tokens.go` (`tokens_t`: a channel of
capacity `N` plus an atomic client counter; `N = 0` means unlimited: no channel at all), the poll
loop of `SnowflakeProxy.Start` (`tokens.get()` then `runSession`, one session at a time), the exits
of `runSession` and the `datachannelHandler` goroutine with its deferred `tokens.ret()`.

An interleaving LTS over total maps: sessions are numbered; the poll loop is inside at most one
session (`cur`); handler goroutines of earlier sessions overlap arbitrarily.  The `OnDataChannel`
callback of a session (pion) may fire at any time after the proxy has started to send its answer —
also after the 20 s timer arm of `runSession`'s `select` has been taken and `pc.Close()` is under
way — until pion has quiesced (`cbDead`).  Time is abstracted: the timer arm is always enabled.

`tokens.ret()` is `atomic.AddInt64(&clients, -1)` followed by `<-ch`.  When the receive can proceed
at once the pair is one label (the only observers are `count()`, which sees the value it would see
after the pair, and a `get` blocked on the full channel, which proceeds as it would after the
pair); when the channel is empty the counter is decremented and the caller stays blocked in
`inRet` until a token appears — which is then some *other* session's token.

`fixed = false` is the pinned code (every release site calls `tokens.ret()` directly);
`fixed = true` the repaired one: the release sites that can run for a session once its peer
connection exists (failed `makePeerConnectionFromOffer`, failed `sendAnswer`, the timeout arm, the
handler's deferred release) go through one per-session `sync.Once`.

Core-only, executable.
-/
namespace Snowflake.ProxySlots
open Snowflake.TotalMap

/-- `numClients := int((tokens.count() / 8) * 8)` for a non-negative count. -/
def loadNat (count : Nat) : Nat := (count / 8) * 8

/-- The same expression on Go's `int64` (division truncates toward zero). -/
def load (count : Int) : Int := (Int.tdiv count 8) * 8

/-- The stages of `runSession` before the `select`, each of which may fail (an exit path). -/
inductive Stage
  | poll        -- `broker.pollOffer`: no offer, broker error, undecodable response or offer
  | parseURL    -- `url.Parse(relayURL)` fails
  | checkRelay  -- relay URL outside the pattern / not wss
  | makePC      -- `makePeerConnectionFromOffer` fails (offer not applicable)
  | sendAnswer  -- `broker.sendAnswer` fails (answer refused / broker unreachable); `pc.Close()`
deriving DecidableEq, Repr

/-- Exit paths of `runSession` that release the slot themselves. -/
inductive Exit
  | failed (k : Stage)
  | timeout     -- the 20 s arm of the `select`: `pc.Close(); tokens.ret()`
deriving DecidableEq, Repr

/-- Exits on which the `OnDataChannel` callback is already installed (a peer connection exists or
existed). The repair routes exactly these (and the handler) through the per-session `Once`. -/
def Exit.guarded : Exit → Bool
  | .failed .makePC => true
  | .failed .sendAnswer => true
  | .timeout => true
  | _ => false

/-- Poll-loop side of a session. -/
inductive LPC
  | absent
  | acquiring           -- `tokens.get()`: counter incremented, at `t.ch <- struct{}{}`
  | stage (k : Stage)
  | waiting             -- `select { case <-dataChan: | case <-time.After(dataChannelTimeout): }`
  | exiting (e : Exit)  -- about to release on exit path `e`
  | inRet               -- inside `tokens.ret()`: counter decremented, blocked at `<-t.ch`
  | returned            -- `runSession` returned
deriving DecidableEq, Repr

/-- `OnDataChannel` callback of the session's peer connection. -/
inductive CB
  | unarmed   -- no answer on its way: the client cannot open a data channel
  | armed     -- may fire
  | fired     -- `close(dataChan)`; `go handler(conn, …)`
  | dead      -- pion has quiesced after `pc.Close()`: will never fire
deriving DecidableEq, Repr

/-- `datachannelHandler` goroutine of the session. -/
inductive HPC
  | none
  | running             -- dialing the relay / inside `copyLoop`
  | exiting             -- returning: relay unreachable, or the copy loop ended; deferred release next
  | inRet               -- inside `tokens.ret()`, blocked at `<-t.ch`
  | done
deriving DecidableEq, Repr

structure Sess where
  lp : LPC
  cb : CB
  h : HPC
  /-- `pc.Close()` has been called -/
  pcClosed : Bool
  /-- (fixed) the per-session `sync.Once` has been consumed -/
  once : Bool
  /-- ghost: number of `tokens.ret()` calls executed for this session -/
  rets : Nat
deriving DecidableEq, Repr

def Sess.init : Sess := ⟨.absent, .unarmed, .none, false, false, 0⟩

structure St where
  ss : Nat → Sess
  /-- the session the poll loop is in -/
  cur : Option Nat
  /-- `tokens.clients` -/
  clients : Int
  /-- number of tokens in `tokens.ch` -/
  chLen : Nat
  /-- ghost: sessions that have taken a slot and not yet released it (first release) -/
  held : List Nat
  /-- ghost: every poll sent: (`Clients` value, slots held at that moment) -/
  polls : List (Int × Nat)

def init : St := { ss := fun _ => Sess.init, cur := none, clients := 0, chLen := 0, held := [], polls := [] }

inductive Lab
  | lStart (i : Nat)     -- poll loop: `tokens.get()` begins (counter incremented)
  | lAcquire (i : Nat)   -- `t.ch <- struct{}{}` completes
  | lPoll (i : Nat)      -- `pollOffer` sends one poll (it may send many)
  | lOk (i : Nat)        -- the current stage succeeds
  | lFail (i : Nat)      -- the current stage fails
  | lData (i : Nat)      -- `select`: `<-dataChan` ("Connection successful.")
  | lTimeout (i : Nat)   -- `select`: `<-time.After(dataChannelTimeout)`; `pc.Close()`
  | lRelease (i : Nat)   -- the release of the exit path
  | lRetRecv (i : Nat)   -- a blocked `tokens.ret()` of the poll loop receives a token
  | cbFire (i : Nat)     -- `OnDataChannel`: `close(dataChan)`, `go handler(…)`
  | cbDead (i : Nat)     -- pion has quiesced after `pc.Close()`
  | hEnd (i : Nat)       -- handler returns (relay unreachable / copy loop over)
  | hRelease (i : Nat)   -- the handler's deferred release
  | hRetRecv (i : Nat)   -- a blocked `tokens.ret()` of a handler receives a token
deriving DecidableEq, Repr

def Stage.next : Stage → Option Stage
  | .poll => some .parseURL
  | .parseURL => some .checkRelay
  | .checkRelay => some .makePC
  | .makePC => some .sendAnswer
  | .sendAnswer => none

/-- `tokens.ret()` for session `i`: `(state, blocked)`. -/
def doRet (N : Nat) (s : St) (i : Nat) : St × Bool :=
  let x := s.ss i
  let s1 := { s with clients := s.clients - 1, ss := upd s.ss i { x with rets := x.rets + 1 }, held := s.held.erase i }
  if N = 0 then (s1, false)
  else if s.chLen > 0 then ({ s1 with chLen := s.chLen - 1 }, false)
  else (s1, true)

def step (fixed : Bool) (N : Nat) (s : St) : Lab → Option St
  | .lStart i =>
    if s.cur = none ∧ (s.ss i).lp = .absent then
      some { s with cur := some i, clients := s.clients + 1, ss := upd s.ss i { (s.ss i) with lp := .acquiring } }
    else none
  | .lAcquire i =>
    if (s.ss i).lp = .acquiring ∧ (N = 0 ∨ s.chLen < N) then
      some { s with chLen := if N = 0 then 0 else s.chLen + 1, held := i :: s.held,
                    ss := upd s.ss i { (s.ss i) with lp := .stage .poll } }
    else none
  | .lPoll i =>
    if (s.ss i).lp = .stage .poll then some { s with polls := (load s.clients, s.held.length) :: s.polls } else none
  | .lOk i =>
    match (s.ss i).lp with
    | .stage k =>
      match k.next with
      | some k' =>
        -- the callback is installed at the beginning of makePeerConnectionFromOffer; from then on
        -- the model lets it fire at any moment (an over-approximation: pion runs it when the client
        -- has opened the channel, which needs the answer)
        some { s with ss := upd s.ss i { (s.ss i) with lp := .stage k', cb := if k = .checkRelay then .armed else (s.ss i).cb } }
      | none => some { s with ss := upd s.ss i { (s.ss i) with lp := .waiting } }
    | _ => none
  | .lFail i =>
    match (s.ss i).lp with
    | .stage k =>
      some { s with ss := upd s.ss i { (s.ss i) with lp := .exiting (.failed k),
                                                     pcClosed := (s.ss i).pcClosed || k == .sendAnswer || k == .makePC } }
    | _ => none
  | .lData i =>
    if (s.ss i).lp = .waiting ∧ (s.ss i).cb = .fired then
      some { s with cur := none, ss := upd s.ss i { (s.ss i) with lp := .returned } }
    else none
  | .lTimeout i =>
    if (s.ss i).lp = .waiting then
      some { s with ss := upd s.ss i { (s.ss i) with lp := .exiting .timeout, pcClosed := true } }
    else none
  | .lRelease i =>
    match (s.ss i).lp with
    | .exiting e =>
      if fixed ∧ e.guarded ∧ (s.ss i).once then
        some { s with cur := none, ss := upd s.ss i { (s.ss i) with lp := .returned } }
      else
        let s0 := if fixed ∧ e.guarded then { s with ss := upd s.ss i { (s.ss i) with once := true } } else s
        let (s1, blocked) := doRet N s0 i
        if blocked then some { s1 with ss := upd s1.ss i { (s1.ss i) with lp := .inRet } }
        else some { s1 with cur := none, ss := upd s1.ss i { (s1.ss i) with lp := .returned } }
    | _ => none
  | .lRetRecv i =>
    if (s.ss i).lp = .inRet ∧ s.chLen > 0 then
      some { s with chLen := s.chLen - 1, cur := none, ss := upd s.ss i { (s.ss i) with lp := .returned } }
    else none
  | .cbFire i =>
    if (s.ss i).cb = .armed then some { s with ss := upd s.ss i { (s.ss i) with cb := .fired, h := .running } } else none
  | .cbDead i =>
    if (s.ss i).cb = .armed ∧ (s.ss i).pcClosed then some { s with ss := upd s.ss i { (s.ss i) with cb := .dead } } else none
  | .hEnd i =>
    if (s.ss i).h = .running then some { s with ss := upd s.ss i { (s.ss i) with h := .exiting } } else none
  | .hRelease i =>
    if (s.ss i).h = .exiting then
      if fixed ∧ (s.ss i).once then some { s with ss := upd s.ss i { (s.ss i) with h := .done } }
      else
        let s0 := if fixed then { s with ss := upd s.ss i { (s.ss i) with once := true } } else s
        let (s1, blocked) := doRet N s0 i
        if blocked then some { s1 with ss := upd s1.ss i { (s1.ss i) with h := .inRet } }
        else some { s1 with ss := upd s1.ss i { (s1.ss i) with h := .done } }
    else none
  | .hRetRecv i =>
    if (s.ss i).h = .inRet ∧ s.chLen > 0 then
      some { s with chLen := s.chLen - 1, ss := upd s.ss i { (s.ss i) with h := .done } }
    else none

abbrev run (fixed : Bool) (N : Nat) : St → List Lab → Option St := runL (step fixed N)

abbrev Reachable (fixed : Bool) (N : Nat) : St → Prop := Reach (step fixed N) init

/-- The session is over: `runSession` has returned and no handler activity is left or possible. -/
def Sess.finished (x : Sess) : Bool :=
  x.lp == .returned && (x.cb == .unarmed || x.cb == .dead || (x.cb == .fired && x.h == .done))

/-! ## `tokens_t` alone: operation sequences (used by `sfdriver`)

`g` = `get`, `r` = `ret`, `c` = `count`; every call runs in its own goroutine, a call that cannot
finish stays blocked and may finish when a later call provides / takes a token (FIFO). -/

inductive TOp | get | ret | count
deriving DecidableEq, Repr

structure TSt where
  clients : Int
  chLen : Nat
  /-- blocked calls, oldest first: (operation index, is a `get`) -/
  waiting : List (Nat × Bool)

/-- Let blocked calls proceed while possible (at most one kind can be blocked at a time). -/
def tWake (N : Nat) : Nat → TSt → List (Nat × Nat) → TSt × List (Nat × Nat)
  | 0, s, done => (s, done)
  | fuel + 1, s, done =>
    match s.waiting with
    | [] => (s, done)
    | (i, isGet) :: rest =>
      if isGet then
        if s.chLen < N then tWake N fuel { s with chLen := s.chLen + 1, waiting := rest } (done ++ [(i, 0)])
        else (s, done)
      else
        if s.chLen > 0 then tWake N fuel { s with chLen := s.chLen - 1, waiting := rest } (done ++ [(i, 0)])
        else (s, done)

/-- Result per operation: `ok`, `blocked`, `blocked>k` (finished while operation `k` ran), `n<count>`.
A call that can proceed does so at once (blocked senders imply a full channel, blocked receivers an
empty one, so a new call never overtakes a waiter of its own kind); it may wake waiters of the other
kind, oldest first. -/
def tRun (N : Nat) (ops : List TOp) : List String :=
  let rec go (k : Nat) (ops : List TOp) (s : TSt) (res : List (Nat × String)) : List (Nat × String) :=
    match ops with
    | [] => res
    | op :: rest =>
      match op with
      | .count => go (k + 1) rest s (res ++ [(k, s!"n{s.clients}")])
      | .get =>
        let s1 := { s with clients := s.clients + 1 }
        if N = 0 then go (k + 1) rest s1 (res ++ [(k, "ok")])
        else if s1.chLen < N then
          let (s3, woke) := tWake N (s1.waiting.length + 1) { s1 with chLen := s1.chLen + 1 } []
          let res' := (res.map fun (i, r) => if woke.any (·.1 == i) then (i, s!"blocked>{k}") else (i, r))
          go (k + 1) rest s3 (res' ++ [(k, "ok")])
        else go (k + 1) rest { s1 with waiting := s1.waiting ++ [(k, true)] } (res ++ [(k, "blocked")])
      | .ret =>
        let s1 := { s with clients := s.clients - 1 }
        if N = 0 then go (k + 1) rest s1 (res ++ [(k, "ok")])
        else if s1.chLen > 0 then
          let (s3, woke) := tWake N (s1.waiting.length + 1) { s1 with chLen := s1.chLen - 1 } []
          let res' := (res.map fun (i, r) => if woke.any (·.1 == i) then (i, s!"blocked>{k}") else (i, r))
          go (k + 1) rest s3 (res' ++ [(k, "ok")])
        else go (k + 1) rest { s1 with waiting := s1.waiting ++ [(k, false)] } (res ++ [(k, "blocked")])
  (go 0 ops ⟨0, 0, []⟩ []).map (·.2)

/-! ## Sequences of whole sessions (used by `sfdriver`)

The harness plays the poll loop: it drives the real `runSession` through its exit paths one session
after the other and lets the handler goroutines of connected sessions end at chosen moments.  One
script item = one event = a fixed list of labels; sessions are numbered in order of appearance. -/

inductive Ev
  | fail (k : Stage)     -- a session that fails at stage `k`
  | timeout              -- the client never opens the channel: timeout arm, pion quiesces
  | connect              -- the client opens the data channel: data arm, handler keeps running
  | relayDown            -- … data arm, but the relay cannot be dialed: the handler returns at once and releases
  | race                 -- F11: the callback fires while the timeout arm is being taken; the handler then ends
  | handlerEnd (i : Nat) -- the handler of session `i` returns and releases
  | count
deriving DecidableEq, Repr

def Stage.index : Stage → Nat
  | .poll => 0 | .parseURL => 1 | .checkRelay => 2 | .makePC => 3 | .sendAnswer => 4

def Ev.isSession : Ev → Bool
  | .handlerEnd _ => false | .count => false | _ => true

/-- labels of event `ev` when it is session number `i` -/
def Ev.labels (i : Nat) : Ev → List Lab
  | .fail k => [.lStart i, .lAcquire i, .lPoll i] ++ List.replicate k.index (.lOk i) ++ [.lFail i, .lRelease i] ++
      (if k = .sendAnswer ∨ k = .makePC then [.cbDead i] else [])
  | .timeout => [.lStart i, .lAcquire i, .lPoll i] ++ List.replicate 5 (.lOk i) ++ [.lTimeout i, .lRelease i, .cbDead i]
  | .connect => [.lStart i, .lAcquire i, .lPoll i] ++ List.replicate 5 (.lOk i) ++ [.cbFire i, .lData i]
  | .relayDown => [.lStart i, .lAcquire i, .lPoll i] ++ List.replicate 5 (.lOk i) ++ [.cbFire i, .lData i, .hEnd i, .hRelease i]
  | .race => [.lStart i, .lAcquire i, .lPoll i] ++ List.replicate 5 (.lOk i) ++
      [.lTimeout i, .cbFire i, .lRelease i, .hEnd i, .hRelease i]
  | .handlerEnd j => [.hEnd j, .hRelease j]
  | .count => []

/-- Per event: sessions `<Clients sent>/<count after>`, other events `<count after>`; `disabled`
if some label of the event is not enabled (then the run stops). -/
def runEvents (fixed : Bool) (N : Nat) : List Ev → Nat → St → List String
  | [], _, _ => []
  | ev :: rest, i, s =>
    match runL (step fixed N) s (ev.labels i) with
    | none => ["disabled"]
    | some s' =>
      let out := if ev.isSession then
          (match s'.polls.head? with | some (v, _) => s!"{v}/{s'.clients}" | none => s!"?/{s'.clients}")
        else s!"{s'.clients}"
      out :: runEvents fixed N rest (if ev.isSession then i + 1 else i) s'

end Snowflake.ProxySlots
