/-
`QueuePacketConn.WriteTo` against the expiry sweep of the client map (C17, §11.2 F18).  Core-only.

One client address.  Its record in the map has a *generation* number: every time the record is created anew
(`clientMapInner.SendQueue` not finding the address) a new queue (channel) is made.  The sweep
(`removeExpired` → `Pop`) removes a record that has been idle for the timeout and **closes** its queue.

Writers (kcp's output path, any number of goroutines) deliver a packet in one of two ways:

  * pinned code: `lookup w` — `ClientMap.SendQueue(addr)` under the map's lock: find or create the record,
    refresh `LastSeen`, remember the queue; then, *after the lock was released*, `send w` — the
    non-blocking send on the remembered queue.  A send on a closed channel panics.
  * repaired code: `trySend w` — look-up and non-blocking send in one critical section (`ClientMap.trySend`,
    pinned to the source by `Tie/Turbotunnel.trySend_shape`).

Everything that happens under the map's lock is one label (the lock serialises it); `tick` lets time pass.
-/
namespace Snowflake.QueueSweep

structure St where
  now : Nat
  /-- the record of the address, if any: generation of its queue and `LastSeen` -/
  cur : Option (Nat × Nat)
  /-- generations made so far (the next fresh one) -/
  nextGen : Nat
  /-- generations whose queue has been closed by the sweep -/
  closedGens : List Nat
  /-- per writer: the queue (generation) it looked up and has not sent on yet -/
  holding : Nat → Option Nat
  /-- a send hit a closed channel -/
  panicked : Bool

def init : St := ⟨0, none, 0, [], fun _ => none, false⟩

inductive Ev
  | tick (d : Nat)
  | sweep
  | lookup (w : Nat)      -- pinned, step 1 (under the lock)
  | send (w : Nat)        -- pinned, step 2 (outside the lock)
  | trySend (w : Nat)     -- repaired: both under the lock
deriving DecidableEq, Repr

def setHolding (h : Nat → Option Nat) (w : Nat) (x : Option Nat) : Nat → Option Nat :=
  fun v => if v = w then x else h v

/-- find or create the record, refresh `LastSeen`; returns the state and the queue's generation -/
def sendQueue (s : St) : St × Nat :=
  match s.cur with
  | some (g, _) => ({ s with cur := some (g, s.now) }, g)
  | none => ({ s with cur := some (s.nextGen, s.now), nextGen := s.nextGen + 1 }, s.nextGen)

def step (timeout : Nat) (s : St) : Ev → St
  | .tick d => { s with now := s.now + d }
  | .sweep =>
    match s.cur with
    | some (g, seen) => if s.now - seen ≥ timeout then { s with cur := none, closedGens := g :: s.closedGens } else s
    | none => s
  | .lookup w =>
    let (s', g) := sendQueue s
    { s' with holding := setHolding s'.holding w (some g) }
  | .send w =>
    match s.holding w with
    | some g => { s with holding := setHolding s.holding w none, panicked := s.panicked || s.closedGens.contains g }
    | none => s
  | .trySend _ =>
    let (s', g) := sendQueue s
    { s' with panicked := s'.panicked || s'.closedGens.contains g }

def run (timeout : Nat) : St → List Ev → St
  | s, [] => s
  | s, e :: es => run timeout (step timeout s e) es

/-- events of the repaired code: no separate look-up / send -/
def Repaired : Ev → Bool
  | .lookup _ | .send _ => false
  | _ => true

/-- invariant of the repaired system: nothing has panicked, the record's queue is open, closed generations are old -/
structure Inv (s : St) : Prop where
  no_panic : s.panicked = false
  cur_open : ∀ g seen, s.cur = some (g, seen) → g ∉ s.closedGens
  cur_old : ∀ g seen, s.cur = some (g, seen) → g < s.nextGen
  closed_old : ∀ g, g ∈ s.closedGens → g < s.nextGen

end Snowflake.QueueSweep
