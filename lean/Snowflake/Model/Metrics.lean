/-
Model of the broker's published figures (C19):

* `broker/metrics.go`   — `binCount`, the eight event counters of `Metrics`, `UpdateCountryStats`
                          (per-period unique-address sets), `printMetrics`, `zeroMetrics`;
* `broker/prometheus.go`— `roundedCounter.Inc` (serial function *and* an interleaving LTS with one
                          atomic memory access per step, for the pinned body and for the repaired
                          body that holds a mutex for the whole `Inc`);
* `broker/ipc.go`       — which request outcome increments which counter;
* `common/ipsetsink`, `common/ipsetsink/sinkcluster` — the distinct-IP journal: writer (chunks),
                          reader (window query); the HyperLogLog sketch is abstracted as a finite
                          set of masked values (`merge = ∪`, `count = card`).

Core-only, executable (compiled into `sfdriver`).
-/
namespace Snowflake.Metrics

abbrev Str := List UInt8

/-! ## Rounding -/

/-- Smallest multiple of 8 that is `≥ n`. -/
def ceil8 (n : Nat) : Nat := (n + 7) / 8 * 8

/-- `binCount(count) = uint(math.Ceil(float64(count)/8)*8)`.
ASSUMPTION (trusted, sampled by the harness): for `count < 2^53` the conversion `float64(count)` is
exact, `x/8` is an exact scaling by a power of two, `math.Ceil` is exact, `*8` is exact and the
result fits `uint`; hence the float path computes `ceil8 count`.  Counts `≥ 2^53` are outside the
model (unreachable in a 24 h period). -/
def binCount (count : Nat) : Nat := ceil8 count

/-! ## `roundedCounter` — serial view -/

/-- `total` is the true count, `value` the published (rounded) count. -/
structure RC where
  total : Nat
  value : Nat
deriving DecidableEq, Repr

/-- The guard of `Inc`: `c.total > c.value` (tied to the source by `Tie.Metrics.incGuard_tie`). -/
def incGuard (total value : Nat) : Bool := decide (total > value)

/-- The amount added to `value` (`atomic.AddUint64(&c.value, 8)`). -/
def incStep : Nat := 8

/-- One whole `Inc()` executed without interference:
`atomic.AddUint64(&c.total, 1); if c.total > c.value { atomic.AddUint64(&c.value, 8) }`. -/
def RC.inc (c : RC) : RC :=
  let total := c.total + 1
  if incGuard total c.value then ⟨total, c.value + incStep⟩ else ⟨total, c.value⟩

/-- `k` serialised `Inc()` calls. -/
def RC.incN : Nat → RC → RC
  | 0, c => c
  | k + 1, c => RC.incN k c.inc

def RC.zero : RC := ⟨0, 0⟩

/-! ## `roundedCounter` — interleaving view

Any number `n` of threads call `Inc()` any number of times.  One step = one atomic access to the
shared words `total` / `value` (or to the mutex).  `repaired = false` is the body as pinned;
`repaired = true` is the body wrapped in `c.lock.Lock(); defer c.lock.Unlock()`. -/

/-- Program counter of one thread. -/
inductive Pc
  /-- outside `Inc` -/
  | idle
  /-- (repaired only) mutex acquired; next: `atomic.AddUint64(&c.total, 1)` -/
  | locked
  /-- `total` incremented; next: read `c.total` -/
  | added
  /-- has read `c.total = t`; next: read `c.value`, compare -/
  | readTotal (t : Nat)
  /-- comparison was true; next: `atomic.AddUint64(&c.value, 8)` -/
  | willAdd
  /-- (repaired only) body finished; next: deferred `Unlock` -/
  | unlocking
deriving DecidableEq, Repr

/-- Pointwise update of a total map. -/
def upd {α : Type} {n : Nat} (f : Fin n → α) (t : Fin n) (v : α) : Fin n → α :=
  fun u => if u = t then v else f u

structure St (n : Nat) where
  total : Nat
  value : Nat
  /-- holder of the counter's mutex (repaired body only) -/
  lock : Option (Fin n)
  pc : Fin n → Pc
  /-- ghost: number of `Inc()` calls that have returned -/
  done : Nat

def St.init (n : Nat) : St n := ⟨0, 0, none, fun _ => .idle, 0⟩

/-- Leave the body of `Inc`: the pinned code returns, the repaired code goes on to `Unlock`. -/
def finish {n : Nat} (repaired : Bool) (s : St n) (t : Fin n) : St n :=
  if repaired then { s with pc := upd s.pc t .unlocking }
  else { s with pc := upd s.pc t .idle, done := s.done + 1 }

/-- One atomic step of thread `t`.  A thread that is blocked on the mutex stutters. -/
def step {n : Nat} (repaired : Bool) (s : St n) (t : Fin n) : St n :=
  match s.pc t with
  | .idle =>
    if repaired then
      (match s.lock with
       | none => { s with lock := some t, pc := upd s.pc t .locked }
       | some _ => s)
    else { s with total := s.total + 1, pc := upd s.pc t .added }
  | .locked => { s with total := s.total + 1, pc := upd s.pc t .added }
  | .added => { s with pc := upd s.pc t (.readTotal s.total) }
  | .readTotal tt =>
    if incGuard tt s.value then { s with pc := upd s.pc t .willAdd } else finish repaired s t
  | .willAdd => finish repaired { s with value := s.value + incStep } t
  | .unlocking => { s with lock := none, pc := upd s.pc t .idle, done := s.done + 1 }

/-- Run a schedule (the list of thread ids that take the successive steps). -/
def run {n : Nat} (repaired : Bool) : List (Fin n) → St n → St n
  | [], s => s
  | t :: ts, s => run repaired ts (step repaired s t)

/-- No thread is inside `Inc`. -/
def Quiescent {n : Nat} (s : St n) : Prop := ∀ t : Fin n, s.pc t = .idle

instance {n : Nat} (s : St n) : Decidable (Quiescent s) := by unfold Quiescent; infer_instance

/-- The published-count requirement on a (total, value) pair. -/
def RoundedOK (total value : Nat) : Prop := 8 ∣ value ∧ total ≤ value ∧ value < total + 8

instance (t v : Nat) : Decidable (RoundedOK t v) := by unfold RoundedOK; infer_instance

/-! ## The eight event counters of the metrics log (`Metrics`, `ipc.go`) -/

structure Counters where
  proxyIdle : Nat
  pollWithRelayURL : Nat
  pollWithoutRelayURL : Nat
  pollRejected : Nat
  clientDenied : Nat
  clientRestrictedDenied : Nat
  clientUnrestrictedDenied : Nat
  clientMatch : Nat
deriving DecidableEq, Repr

def Counters.zero : Counters := ⟨0, 0, 0, 0, 0, 0, 0, 0⟩

inductive PollOut | rejected | idle | matched
deriving DecidableEq, Repr
inductive ClientOut | denied | matched | timedOut
deriving DecidableEq, Repr

/-- A request that passed decoding, with the facts the counters depend on. -/
inductive Req
  /-- `IPC.ProxyPolls`: did the poll carry `AcceptedRelayPattern`; how did it end -/
  | poll (relayExt : Bool) (out : PollOut)
  /-- `IPC.ClientOffers`: is the client's NAT `unrestricted`; how did it end -/
  | client (unrestricted : Bool) (out : ClientOut)
deriving DecidableEq, Repr

/-- The increments of `IPC.ProxyPolls` / `IPC.ClientOffers`, in program order. -/
def Counters.apply (c : Counters) : Req → Counters
  | .poll ext out =>
    let c := if !ext then { c with pollWithoutRelayURL := c.pollWithoutRelayURL + 1 }
             else { c with pollWithRelayURL := c.pollWithRelayURL + 1 }
    match out with
    | .rejected => { c with pollRejected := c.pollRejected + 1 }
    | .idle => { c with proxyIdle := c.proxyIdle + 1 }
    | .matched => c
  | .client unr out =>
    match out with
    | .denied =>
      let c := { c with clientDenied := c.clientDenied + 1 }
      if unr then { c with clientUnrestrictedDenied := c.clientUnrestrictedDenied + 1 }
      else { c with clientRestrictedDenied := c.clientRestrictedDenied + 1 }
    | .matched => { c with clientMatch := c.clientMatch + 1 }
    | .timedOut => c

/-- A history of one broker: requests and period ends (`zeroMetrics`). -/
inductive Op
  | ev (r : Req)
  | zero
deriving DecidableEq, Repr

def Counters.op (c : Counters) : Op → Counters
  | .ev r => c.apply r
  | .zero => Counters.zero

/-- Counter values in the order of the log lines of `printMetrics`. -/
def Counters.toList (c : Counters) : List Nat :=
  [c.proxyIdle, c.pollWithRelayURL, c.pollWithoutRelayURL, c.pollRejected,
   c.clientDenied, c.clientRestrictedDenied, c.clientUnrestrictedDenied, c.clientMatch]

/-- What `printMetrics` publishes for the eight counters. -/
def Counters.publish (c : Counters) : List Nat := c.toList.map binCount

/-- Declarative table: which requests count for the `k`-th log line (independent of `apply`). -/
def hits : Nat → Req → Bool
  | 0, .poll _ .idle => true
  | 1, .poll true _ => true
  | 2, .poll false _ => true
  | 3, .poll _ .rejected => true
  | 4, .client _ .denied => true
  | 5, .client false .denied => true
  | 6, .client true .denied => true
  | 7, .client _ .matched => true
  | _, _ => false

/-- The requests since the last period end. -/
def sinceZero : List Op → List Req → List Req
  | [], acc => acc
  | .ev r :: ops, acc => sinceZero ops (acc ++ [r])
  | .zero :: ops, _ => sinceZero ops []

/-! ## Per-period unique-address sets (`CountryStats`, `UpdateCountryStats`) -/

/-- `messages.KnownProxyTypes` (sorted): badge, iptproxy, standalone, webext. -/
def knownProxyTypes : List Str :=
  [[98, 97, 100, 103, 101], [105, 112, 116, 112, 114, 111, 120, 121],
   [115, 116, 97, 110, 100, 97, 108, 111, 110, 101], [119, 101, 98, 101, 120, 116]]

/-- `NATRestricted`, `NATUnrestricted` -/
def natRestricted : Str := [114, 101, 115, 116, 114, 105, 99, 116, 101, 100]
def natUnrestricted : Str := [117, 110, 114, 101, 115, 116, 114, 105, 99, 116, 101, 100]

def insertNew {α : Type} [DecidableEq α] (a : α) (l : List α) : List α := if a ∈ l then l else l ++ [a]

/-- `proxies[proxyType]` exists exactly for the known types; everything else shares `unknown`. -/
def bucket (ty : Str) : Option Str := if ty ∈ knownProxyTypes then some ty else none

structure Stats where
  /-- `proxies[type][addr]` (bucket `some type`) and `unknown[addr]` (bucket `none`) -/
  seen : List (Option Str × Nat)
  /-- one entry per `counts[country]++` -/
  ccs : List Str
  natR : List Nat
  natU : List Nat
  natX : List Nat
deriving DecidableEq, Repr

def Stats.empty : Stats := ⟨[], [], [], [], []⟩

/-- One call `UpdateCountryStats(addr, proxyType, natType)`; `geo` = a geoip database is loaded,
`cc` = the country the database returns for `addr` (`"??"` if none). Addresses are opaque ids. -/
structure Upd where
  addr : Nat
  ty : Str
  nat : Str
  cc : Str
deriving DecidableEq, Repr

def Stats.update (geo : Bool) (s : Stats) (u : Upd) : Stats :=
  let b := bucket u.ty
  if (b, u.addr) ∈ s.seen then s            -- `if addresses[addr] { return }`
  else
    let s := { s with seen := s.seen ++ [(b, u.addr)] }
    if !geo then s                           -- `if m.geoipdb == nil { return }`
    else
      let s := { s with ccs := s.ccs ++ [u.cc] }
      if u.nat = natRestricted then { s with natR := insertNew u.addr s.natR }
      else if u.nat = natUnrestricted then { s with natU := insertNew u.addr s.natU }
      else { s with natX := insertNew u.addr s.natX }

def Stats.run (geo : Bool) (us : List Upd) : Stats := us.foldl (Stats.update geo) Stats.empty

/-- `len(proxies[ty])` resp. `len(unknown)`. -/
def Stats.typeSet (s : Stats) (b : Option Str) : List Nat := (s.seen.filter (fun p => p.1 = b)).map (·.2)

/-- `snowflake-ips-total` as `printMetrics` computes it: `len(unknown) + Σ_known len(proxies[t])`. -/
def Stats.total (s : Stats) : Nat :=
  (s.typeSet none).length + (knownProxyTypes.map (fun t => (s.typeSet (some t)).length)).sum

/-- `counts[cc]` -/
def Stats.ccCount (s : Stats) (cc : Str) : Nat := (s.ccs.filter (· = cc)).length

/-! ## Distinct-IP journal (`ipsetsink`, `sinkcluster`) -/

/-- One journal line: `recordingStart`, `recordingEnd`, and the sketch, abstracted as the
duplicate-free list of masked values it has absorbed. Times are instants on a linear clock. -/
structure Chunk where
  start : Nat
  stop : Nat
  vals : List Nat
deriving DecidableEq, Repr

structure Writer where
  last : Nat          -- `lastWriteTime`
  cur : List Nat      -- `current` sink
  journal : List Chunk
deriving DecidableEq, Repr

/-- `WriteIPSetToDisk()` at time `now`. -/
def Writer.flush (w : Writer) (now : Nat) : Writer :=
  { last := now, cur := [], journal := w.journal ++ [⟨w.last, now, w.cur⟩] }

/-- `AddIPToSet(ip)` at time `now`; `h` is the masked value of `ip`. -/
def Writer.add (interval : Nat) (w : Writer) (now : Nat) (h : Nat) : Writer :=
  let w := if w.last + interval < now then w.flush now else w
  { w with cur := insertNew h w.cur }

inductive WOp (α : Type)
  | add (now : Nat) (ip : α)
  | flush (now : Nat)
deriving DecidableEq, Repr

def WOp.mask {α : Type} (m : α → Nat) : WOp α → WOp Nat
  | .add now ip => .add now (m ip)
  | .flush now => .flush now

/-- The writer, parameterised by the masking function (HMAC-SHA3 with the secret key, truncated). -/
def Writer.op {α : Type} (m : α → Nat) (interval : Nat) (w : Writer) : WOp α → Writer
  | .add now ip => w.add interval now (m ip)
  | .flush now => w.flush now

def Writer.run {α : Type} (m : α → Nat) (interval : Nat) (w : Writer) (ops : List (WOp α)) : Writer :=
  ops.foldl (Writer.op m interval) w

/-- The `continue` condition of `ClusterCounter.Count`, over the three time comparisons
(tied to the source by `Tie.Metrics.readerSkip_tie`). -/
def skipCond (startBeforeFrom startEqFrom endAfterTo : Bool) : Bool :=
  (startBeforeFrom && !startEqFrom) || endAfterTo

def Chunk.skipped (frm to : Nat) (c : Chunk) : Bool :=
  skipCond (decide (c.start < frm)) (c.start == frm) (decide (c.stop > to))

/-- Sketch merge: set union on duplicate-free lists. -/
def merge (acc : List Nat) (vals : List Nat) : List Nat := vals.foldl (fun a v => insertNew v a) acc

/-- `ClusterCounter{from,to}.Count(journal)`: the loop of reader.go; result `(merged, ChunkIncluded)`. -/
def countLoop (frm to : Nat) : List Chunk → List Nat × Nat → List Nat × Nat
  | [], r => r
  | c :: cs, (acc, k) =>
    if c.skipped frm to then countLoop frm to cs (acc, k)
    else countLoop frm to cs (merge acc c.vals, k + 1)

structure CountResult where
  sum : Nat
  chunkIncluded : Nat
deriving DecidableEq, Repr

def count (frm to : Nat) (journal : List Chunk) : CountResult :=
  let r := countLoop frm to journal ([], 0)
  ⟨r.1.length, r.2⟩

/-! ### The line scanner in front of the loop (`bufio.Scanner`)

`Count` reads the journal with a `bufio.Scanner`.  A scanner has a maximum token size; at the first
line that exceeds it `Scan()` returns false and `Err()` reports `ErrTooLong`.  The pinned reader
uses the default limit (64 KiB) and never looks at `Err()`: it silently stops there.  The repaired
reader sets an explicit limit and returns the scanner's error. -/

/-- One journal line: the chunk it encodes and its length in bytes (with its newline). -/
structure Line where
  chunk : Chunk
  len : Nat
deriving DecidableEq, Repr

/-- The lines a scanner with token limit `limit` delivers, and whether it stopped with `ErrTooLong`. -/
def scan (limit : Nat) : List Line → List Chunk × Bool
  | [] => ([], false)
  | l :: ls =>
    if l.len > limit then ([], true)
    else let r := scan limit ls; (l.chunk :: r.1, r.2)

/-- `bufio.MaxScanTokenSize` -/
def defaultScanLimit : Nat := 65536

/-- The explicit limit of the repaired reader (`maxLineSize`, tied by `Tie.Metrics.readerLimit_tie`). -/
def readerLimit : Nat := 16777216

/-- Pinned `Count`: whatever the scanner delivered is counted; the scanner's error is dropped. -/
def countUnchecked (limit frm to : Nat) (lines : List Line) : CountResult :=
  count frm to (scan limit lines).1

/-- Repaired `Count`: `none` = the scanner's error is returned to the caller. -/
def countChecked (limit frm to : Nat) (lines : List Line) : Option CountResult :=
  let r := scan limit lines
  if r.2 then none else some (count frm to r.1)

/-- Specification side: a chunk lies inside the window. -/
def Chunk.inWindow (frm to : Nat) (c : Chunk) : Prop := frm ≤ c.start ∧ c.stop ≤ to

instance (frm to : Nat) (c : Chunk) : Decidable (c.inWindow frm to) := by unfold Chunk.inWindow; infer_instance

end Snowflake.Metrics
