/-
Model of the HTTP shell of the broker (C14): /repo/broker/http.go, /repo/broker/amp.go — what each
handler does with a request *around* the IPC core.  The core (`IPC.ProxyPolls`, `ClientOffers`,
`ProxyAnswers`, `Debug`) enters as an abstract result; its own behaviour is the subject of C02–C04
and C12.  net/http's parsing, routing and panic recovery are not modelled: a handler panic is the
outcome `dropped` (net/http aborts the connection without a response).

`fixed = false` is the originally pinned code (the legacy shim's `default: panic("unknown error")`),
`fixed = true` the tree after the "fix:" commit (any other error string is answered with 400).
-/
namespace Snowflake.BrokerHttp

abbrev Bytes := List UInt8

/-- Result of an IPC call that returns `error` and fills `*response`. -/
inductive CoreRes
  | ok (resp : Bytes)
  | errBadRequest              -- errors.Is(err, messages.ErrBadRequest)
  | errInternal                -- messages.ErrInternal
  | errOther                   -- any other error (e.g. bridge not found)
deriving DecidableEq, Repr

/-- A decoded `messages.ClientPollResponse`. -/
structure ClientResp where
  answer : Bytes
  error : Bytes
deriving DecidableEq, Repr

/-- Result of `IPC.ClientOffers`: an error, or a response that decodes to a `ClientPollResponse`
(`bad` = a response `DecodeClientPollResponse` rejects: neither answer nor error). -/
inductive ClientCore
  | err
  | resp (r : ClientResp) (raw : Bytes)
deriving DecidableEq, Repr

inductive Outcome
  | reply (status : Nat) (body : Bytes)
  | dropped                    -- handler panicked: connection closed without a response
deriving DecidableEq, Repr

def strNoProxies : Bytes := "no snowflake proxies currently available".toUTF8.toList
def strTimedOut : Bytes := "timed out waiting for answer!".toUTF8.toList

/-- `SnowflakeHandler.ServeHTTP` / `MetricsHandler.ServeHTTP`: CORS preflight short-circuit. -/
def serve (isOptions : Bool) (handler : Outcome) : Outcome :=
  if isOptions then .reply 200 [] else handler

/-- `proxyPolls` and `proxyAnswers` (same shape). `tooLarge`: the body exceeds `readLimit`, so
reading through `http.MaxBytesReader` fails. -/
def proxyShell (tooLarge : Bool) (core : CoreRes) : Outcome :=
  if tooLarge then .reply 400 [] else
  match core with
  | .ok resp => .reply 200 resp
  | .errBadRequest => .reply 400 []
  | .errInternal => .reply 500 []
  | .errOther => .reply 500 []

/-- Is this a legacy-format client request? (`len(body) > 0 && body[0] == '{'`) -/
def isLegacy (body : Bytes) : Bool :=
  match body with
  | b :: _ => b == 123
  | [] => false

/-- What the legacy shim turns a decoded response into. -/
def legacyMap (fixed : Bool) (r : ClientResp) : Outcome :=
  if r.error = [] then .reply 200 r.answer
  else if r.error = strNoProxies then .reply 503 []
  else if r.error = strTimedOut then .reply 504 []
  else if fixed then .reply 400 [] else .dropped

/-- `clientOffers`. `encodeReq offer nat` is `ClientPollRequest{Offer, NAT}.EncodeClientPollRequest()`
(`none` if encoding fails); `core` is `IPC.ClientOffers` as a function of the `Arg.Body` it is given;
`decodable r` says whether `DecodeClientPollResponse` accepts the response bytes. -/
def clientShell (fixed : Bool) (tooLarge : Bool) (body natHeader : Bytes)
    (encodeReq : Bytes → Bytes → Option Bytes) (core : Bytes → ClientCore) : Outcome :=
  if tooLarge then .reply 400 [] else
  if isLegacy body then
    match encodeReq body natHeader with
    | none => .reply 500 []
    | some arg =>
      match core arg with
      | .err => .reply 500 []
      | .resp r _ =>
        if r.answer = [] ∧ r.error = [] then .reply 500 []   -- DecodeClientPollResponse fails
        else legacyMap fixed r
  else
    match core body with
    | .err => .reply 500 []
    | .resp _ raw => .reply 200 raw

/-- `ampClientOffers`: status only (the armored body is the subject of C10/C11). `hasPrefix`: the
path starts with `/amp/client/`; `decoded`: `amp.DecodePath` result; an undecodable path is answered
with an armored error document (200), a core error with 500. -/
def ampShell (hasPrefix : Bool) (decoded : Option Bytes) (core : Bytes → ClientCore) : Nat :=
  if !hasPrefix then 500 else
  match decoded with
  | none => 200
  | some b => match core b with
    | .err => 500
    | .resp _ _ => 200

/-- `debugHandler` -/
def debugShell (coreOk : Bool) (resp : Bytes) : Outcome :=
  if coreOk then .reply 200 resp else .reply 500 []

/-- `metricsHandler`: 404 without a metrics file (or when it cannot be opened), else its content. -/
def metricsShell (fileReadable : Bool) (content : Bytes) : Outcome :=
  if fileReadable then .reply 200 content else .reply 404 []

def robotsBody : Bytes := "User-agent: *\nDisallow: /\n".toUTF8.toList

def statusOf : Outcome → Option Nat
  | .reply s _ => some s
  | .dropped => none

end Snowflake.BrokerHttp
