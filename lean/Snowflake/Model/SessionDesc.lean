import Snowflake.Base.Json
/-!
Model of `common/util/util.go` `SerializeSessionDescription` / `DeserializeSessionDescription`
(core-only), over the `encoding/json` model of `Base/Json.lean`.

`webrtc.SessionDescription` is `{Type SDPType "type"; SDP string "sdp"; parsed (unexported)}`;
`SDPType` (pion/webrtc v3.1.41 sdptype.go) marshals through `MarshalJSON` as the JSON string of
`String()`: the lower-case name of the four defined values, `"unknown"` for every other integer.

`deserialize fixed` follows the function statement by statement.  With `fixed = false` the two type
assertions are the single-value form of the pinned source (`parsed["type"].(string)` — a run-time
panic when the member is not a string); with `fixed = true` they are the comma-ok form that returns
an error (the repaired source).  Which of the two the working tree contains is a regenerated fact
(`Tie/SessionDesc.lean`).
-/
namespace Snowflake.SessionDesc
open Snowflake.Json

/-- `webrtc.SDPType`: the four defined values; `other` stands for every other integer value. -/
inductive SDPType where
  | offer | pranswer | answer | rollback | other
deriving DecidableEq, Repr

/-- `SDPType.String()` -/
def SDPType.name : SDPType → Text
  | .offer => "offer".toList
  | .pranswer => "pranswer".toList
  | .answer => "answer".toList
  | .rollback => "rollback".toList
  | .other => "unknown".toList

/-- the `switch` of `DeserializeSessionDescription`: `none` is its `default:` arm -/
def typeOfName (s : Text) : Option SDPType :=
  if s = "offer".toList then some .offer
  else if s = "pranswer".toList then some .pranswer
  else if s = "answer".toList then some .answer
  else if s = "rollback".toList then some .rollback
  else none

/-- `json.Marshal(*desc)`; the SDP is a Go string given by its items (`Utf8.decodeItems`). -/
def serialize (t : SDPType) (sdp : List (Option Char)) : Text :=
  marshalObj [{ name := "type".toList, val := .str (ofText t.name) },
              { name := "sdp".toList, val := .str sdp }]

inductive Outcome where
  | ok (t : SDPType) (sdp : Text)
  | err
  | panic
deriving DecidableEq, Repr

/-- `x.(string)` on a decoded `interface{}`: `fixed = false` is the single-value form. -/
def assertString (fixed : Bool) (j : Json) (k : Text → Outcome) : Outcome :=
  match j with
  | .str s => k s
  | _ => if fixed then .err else .panic

/-- the part of the function after the two presence checks, given the two members -/
def construct (fixed : Bool) (tv sv : Json) : Outcome :=
  -- switch parsed["type"].(string) { default: return nil, errors.New("Unknown SDP type"); case "offer": … }
  assertString fixed tv fun ts =>
    match typeOfName ts with
    | none => .err
    | some stype =>
      -- return &webrtc.SessionDescription{Type: stype, SDP: parsed["sdp"].(string)}, nil
      assertString fixed sv fun sdp => .ok stype sdp

def deserialize (fixed : Bool) (msg : Text) : Outcome :=
  -- err := json.Unmarshal([]byte(msg), &parsed); if err != nil { return nil, err }
  match unmarshalMap msg with
  | none => .err
  | some parsed =>
    -- if _, ok := parsed["type"]; !ok { return nil, errors.New(…) }
    match mapGet parsed "type".toList with
    | none => .err
    | some tv =>
      -- if _, ok := parsed["sdp"]; !ok { return nil, errors.New(…) }
      match mapGet parsed "sdp".toList with
      | none => .err
      | some sv => construct fixed tv sv

end Snowflake.SessionDesc
