/-
Sequence-numbered reassembly — the abstract role of the reliability layer (KCP) in C01.  Core-only.

The writer cuts its byte stream into segments `segs[0], segs[1], …` and sends each segment, tagged with its
number, in a datagram — as often as it likes (retransmissions), over whatever carrier is attached.  The
receiver keeps the first copy of every number it sees and hands the reader the segments in order as far as
there is no gap.  Nothing here is specific to kcp-go's wire format: the datagram codec is a parameter
(`SegCodec` in `Props/C01.lean`).

What the theorems in `Props/C01.lean` need from this file:
  * `sound_run`      – honest arrivals (each carries some `segs[i]` under number `i`) keep the receiver sound;
  * `delivered_prefix` – a sound receiver has handed over a whole-segment prefix of the written stream;
  * `delivered_exact`  – … all of it once every segment has arrived at least once;
  * `delivered_mono`   – what was handed over is never taken back or changed by later arrivals.
-/
namespace Snowflake.Reasm

/-- receiver state: the segments got so far, by sequence number -/
abbrev Rx := Nat → Option (List UInt8)

def init : Rx := fun _ => none

/-- a datagram with segment number `i` and payload `p` arrives; a duplicate of a number already held is ignored -/
def recv (r : Rx) (i : Nat) (p : (List UInt8)) : Rx :=
  fun j => if j = i then (match r i with | some q => some q | none => some p) else r j

def run (r : Rx) : List (Nat × (List UInt8)) → Rx
  | [] => r
  | e :: es => run (recv r e.1 e.2) es

theorem run_append : ∀ (a b : List (Nat × (List UInt8))) (r : Rx), run r (a ++ b) = run (run r a) b := by
  intro a
  induction a with
  | nil => intro b r; rfl
  | cons e es ih => intro b r; exact ih b _

/-- the bytes handed to the reader from segment `i` on: in order, as long as there is no gap (`f` bounds the scan) -/
def deliverFrom (r : Rx) : Nat → Nat → (List UInt8)
  | _, 0 => []
  | i, f + 1 => match r i with
    | some p => p ++ deliverFrom r (i + 1) f
    | none => []

def delivered (r : Rx) (n : Nat) : (List UInt8) := deliverFrom r 0 n

/-- every segment the receiver holds is the writer's segment of that number -/
def Sound (segs : List (List UInt8)) (r : Rx) : Prop := ∀ i p, r i = some p → segs[i]? = some p

/-- every arrival carries the writer's segment of the number it is tagged with -/
def Honest (segs : List (List UInt8)) (evs : List (Nat × (List UInt8))) : Prop := ∀ e ∈ evs, segs[e.1]? = some e.2

theorem sound_init (segs : List (List UInt8)) : Sound segs init := by
  intro i p h; simp [init] at h

theorem sound_recv {segs : List (List UInt8)} {r : Rx} (hs : Sound segs r) {i : Nat} {p : (List UInt8)}
    (hp : segs[i]? = some p) : Sound segs (recv r i p) := by
  intro j q hq
  unfold recv at hq
  by_cases hji : j = i
  · subst hji
    simp only [if_true] at hq
    cases hri : r j with
    | none => rw [hri] at hq; cases hq; exact hp
    | some q' =>
      rw [hri] at hq
      have hqq : q' = q := by simpa using hq
      rw [← hqq]; exact hs j q' hri
  · simp only [hji, if_false] at hq; exact hs j q hq

theorem sound_run {segs : List (List UInt8)} : ∀ (evs : List (Nat × (List UInt8))) (r : Rx), Sound segs r → Honest segs evs →
    Sound segs (run r evs) := by
  intro evs
  induction evs with
  | nil => intro r hs _; exact hs
  | cons e es ih =>
    intro r hs hh
    exact ih _ (sound_recv hs (hh e (List.mem_cons_self ..))) (fun e' he' => hh e' (List.mem_cons_of_mem _ he'))

theorem drop_of_getElem? {segs : List (List UInt8)} {i : Nat} {p : (List UInt8)} (h : segs[i]? = some p) :
    segs.drop i = p :: segs.drop (i + 1) := by
  have hi : i < segs.length := by
    rcases Nat.lt_or_ge i segs.length with h' | h'
    · exact h'
    · rw [List.getElem?_eq_none h'] at h; cases h
  rw [List.getElem?_eq_getElem hi] at h
  cases h
  exact List.drop_eq_getElem_cons hi

/-- A sound receiver hands over whole segments, in order, starting at `i`: a prefix of the rest of the stream. -/
theorem deliverFrom_prefix {segs : List (List UInt8)} {r : Rx} (hs : Sound segs r) :
    ∀ (f i : Nat), ∃ k, deliverFrom r i f = ((segs.drop i).take k).flatten := by
  intro f
  induction f with
  | zero => intro i; exact ⟨0, by simp [deliverFrom]⟩
  | succ f ih =>
    intro i
    unfold deliverFrom
    cases hri : r i with
    | none => exact ⟨0, by simp⟩
    | some p =>
      obtain ⟨k, hk⟩ := ih (i + 1)
      refine ⟨k + 1, ?_⟩
      simp only
      rw [hk, drop_of_getElem? (hs i p hri)]
      simp [List.take_succ_cons]

/-- **Safety.** Whatever arrived — any loss, duplication, reordering, any number of carriers — as long as every
arrival is honest, the bytes handed to the reader are a whole-segment prefix of the written stream: nothing
missing in the middle, duplicated, reordered or foreign. -/
theorem delivered_prefix {segs : List (List UInt8)} {r : Rx} (hs : Sound segs r) (n : Nat) :
    ∃ k, delivered r n = (segs.take k).flatten := by
  obtain ⟨k, hk⟩ := deliverFrom_prefix hs n 0
  exact ⟨k, by simpa [delivered] using hk⟩

theorem deliverFrom_full {segs : List (List UInt8)} {r : Rx} (hs : Sound segs r)
    (hall : ∀ j, j < segs.length → r j ≠ none) :
    ∀ (f i : Nat), segs.length ≤ i + f → deliverFrom r i f = (segs.drop i).flatten := by
  intro f
  induction f with
  | zero =>
    intro i hi
    have : segs.drop i = [] := List.drop_eq_nil_of_le (by omega)
    simp [deliverFrom, this]
  | succ f ih =>
    intro i hi
    unfold deliverFrom
    cases hri : r i with
    | none =>
      have hge : segs.length ≤ i := by
        rcases Nat.lt_or_ge i segs.length with h | h
        · exact absurd hri (hall i h)
        · exact h
      have : segs.drop i = [] := List.drop_eq_nil_of_le hge
      simp [this]
    | some p =>
      simp only
      rw [ih (i + 1) (by omega), drop_of_getElem? (hs i p hri)]
      simp

/-- **Exactness.** Once every segment has arrived at least once the reader has been handed exactly the written
stream. -/
theorem delivered_exact {segs : List (List UInt8)} {r : Rx} (hs : Sound segs r)
    (hall : ∀ j, j < segs.length → r j ≠ none) (n : Nat) (hn : segs.length ≤ n) :
    delivered r n = segs.flatten := by
  have := deliverFrom_full hs hall n 0 (by omega)
  simpa [delivered] using this

/-- `r'` holds everything `r` holds, unchanged -/
def Le (r r' : Rx) : Prop := ∀ i p, r i = some p → r' i = some p

theorem le_recv (r : Rx) (i : Nat) (p : (List UInt8)) : Le r (recv r i p) := by
  intro j q hq
  unfold recv
  by_cases hji : j = i
  · subst hji; simp [hq]
  · simp [hji, hq]

theorem le_run : ∀ (evs : List (Nat × (List UInt8))) (r : Rx), Le r (run r evs) := by
  intro evs
  induction evs with
  | nil => intro r i p h; exact h
  | cons e es ih =>
    intro r i p h
    exact ih _ i p (le_recv r e.1 e.2 i p h)

theorem deliverFrom_mono {r r' : Rx} (h : Le r r') : ∀ (f i : Nat), deliverFrom r i f <+: deliverFrom r' i f := by
  intro f
  induction f with
  | zero => intro i; simp [deliverFrom]
  | succ f ih =>
    intro i
    unfold deliverFrom
    cases hri : r i with
    | none => exact List.nil_prefix
    | some p =>
      rw [h i p hri]
      exact (List.prefix_append_right_inj p).mpr (ih (i + 1))

/-- **Exactly once, never taken back.** Later arrivals only extend what the reader has been handed. -/
theorem delivered_mono (r : Rx) (evs : List (Nat × (List UInt8))) (n : Nat) :
    delivered r n <+: delivered (run r evs) n :=
  deliverFrom_mono (le_run evs r) n 0

/-- an arrival for number `i` leaves `i` held, and held numbers stay held -/
theorem recv_holds (r : Rx) (i : Nat) (p : (List UInt8)) : recv r i p i ≠ none := by
  unfold recv
  cases r i <;> simp

theorem run_holds : ∀ (evs : List (Nat × (List UInt8))) (r : Rx) (i : Nat),
    (r i ≠ none ∨ ∃ p, (i, p) ∈ evs) → run r evs i ≠ none := by
  intro evs
  induction evs with
  | nil =>
    intro r i h
    rcases h with h | ⟨p, hp⟩
    · exact h
    · cases hp
  | cons e es ih =>
    intro r i h
    apply ih
    rcases h with h | ⟨p, hp⟩
    · left
      cases hri : r i with
      | none => exact absurd hri h
      | some q => rw [le_recv r e.1 e.2 i q hri]; simp
    · rcases List.mem_cons.mp hp with heq | hin
      · left
        have : e.1 = i := by rw [← heq]
        rw [← this]
        exact recv_holds r e.1 e.2
      · right; exact ⟨p, hin⟩

end Snowflake.Reasm
