import Snowflake.Model.Amp
import Snowflake.Base.GoStr
/-
Model of /repo/common/amp/path.go, /repo/common/amp/cache.go, the AMP endpoint of the broker
(/repo/broker/amp.go) next to its POST endpoint (/repo/broker/http.go clientOffers), and the response
handling of the two client rendezvous methods (/repo/client/lib/rendezvous_http.go,
rendezvous_ampcache.go) — C11.  Core-only, executable.

Not modelled (named in the trusted base): `net/url` parsing and serialisation — `CacheURL` is a
function of the *components* Go's `url.Parse` delivers (`Scheme`, `User`, `Hostname()`, `Port()`,
`EscapedPath()`, `RawQuery`, `Fragment`); SHA-256 — the digest is a parameter; `x/net/idna` beyond
"`ToUnicode` is the identity on ASCII domains none of whose labels starts with `xn--`, `ToASCII` is the
identity on ASCII strings not starting with `xn--`" — otherwise their results are parameters; net/http.
-/
namespace Snowflake.AmpPath
open Snowflake.Base64 (Bytes)
open Snowflake.GoStr (hasPrefix)

def sl : UInt8 := 47   -- '/'

/-! ## path.go -/

/-- `EncodePath(data)` with the 9 random cache-breaker bytes `pad`. -/
def encodePath (pad d : Bytes) : Bytes :=
  48 :: (Base64.encode Base64.rawUrl pad ++ [sl] ++ Base64.encode Base64.rawUrl d)

inductive PathErr
  | missingIndicator                 -- "missing format indicator"
  | missingData                      -- "missing data"
  | unknownIndicator (v : UInt8)     -- "unknown format indicator"
  | corrupt                          -- base64.CorruptInputError
deriving DecidableEq, Repr

/-- `rest[strings.LastIndexByte(rest, '/')+1:]`, or `none` when there is no slash. -/
def afterLastSlash : Bytes → Option Bytes
  | [] => none
  | c :: r =>
    match afterLastSlash r with
    | some t => some t
    | none => if c == sl then some r else none

/-- `DecodePath(path)` -/
def decodePath (path : Bytes) : Except PathErr Bytes :=
  match path with
  | [] => .error .missingIndicator
  | v :: rest =>
    if v == 48 then
      match afterLastSlash rest with
      | none => .error .missingData
      | some t =>
        match Base64.decode Base64.rawUrl t with
        | some d => .ok d
        | none => .error .corrupt
    else .error (.unknownIndicator v)

/-! ## broker: AMP endpoint vs POST endpoint -/

inductive HttpResp
  | status (code : Nat)      -- WriteHeader(code), empty body
  | ok (body : Bytes)        -- 200 with this body
  | legacy                   -- POST only: the body starts with `{` (legacy client protocol; not modelled here)
deriving DecidableEq, Repr

/-- `/amp/client/` -/
def ampPrefix : Bytes := [47, 97, 109, 112, 47, 99, 108, 105, 101, 110, 116, 47]

/-- `{"error":"cannot decode URL path"}` = `(&ClientPollResponse{Error: "cannot decode URL path"}).EncodePollResponse()` -/
def cannotDecodeResponse : Bytes :=
  [123, 34, 101, 114, 114, 111, 114, 34, 58, 34, 99, 97, 110, 110, 111, 116, 32, 100, 101, 99, 111, 100, 101, 32,
   85, 82, 76, 32, 112, 97, 116, 104, 34, 125]

/-- `ampClientOffers(i, w, r)` as a function of `r.URL.Path`; `core body` is what `i.ClientOffers`
does with the decoded poll (`none` = it returned an error), in whatever state the broker is in. -/
def ampClientOffers (core : Bytes → Option Bytes) (urlPath : Bytes) : HttpResp :=
  if !hasPrefix urlPath ampPrefix then .status 500
  else
    match decodePath (urlPath.drop ampPrefix.length) with
    | .ok body =>
      match core body with
      | some resp => .ok (Amp.armor resp)
      | none => .status 500
    | .error _ => .ok (Amp.armor cannotDecodeResponse)

/-- broker `readLimit` -/
def brokerReadLimit : Nat := 100000

/-- `clientOffers(i, w, r)` (POST) as a function of the request body. -/
def postClientOffers (core : Bytes → Option Bytes) (body : Bytes) : HttpResp :=
  if body.length > brokerReadLimit then .status 400
  else if body.head? == some 123 then .legacy
  else
    match core body with
    | some resp => .ok resp
    | none => .status 500

/-! ## cache.go: path helpers -/

def upperhex (n : Nat) : UInt8 := if n < 10 then UInt8.ofNat (48 + n) else UInt8.ofNat (55 + n)

def isAlnum (c : UInt8) : Bool := (97 ≤ c && c ≤ 122) || (65 ≤ c && c ≤ 90) || (48 ≤ c && c ≤ 57)

/-- `shouldEscape(c, encodePathSegment)` of net/url. -/
def shouldEscapeSeg (c : UInt8) : Bool :=
  if isAlnum c then false
  else if c == 45 || c == 95 || c == 46 || c == 126 then false              -- - _ . ~
  else if c == 36 || c == 38 || c == 43 || c == 58 || c == 61 || c == 64 then false   -- $ & + : = @
  else true                                                                 -- incl. / ; , ?

/-- `url.PathEscape(s)` -/
def pathEscape (s : Bytes) : Bytes :=
  s.flatMap (fun c => if shouldEscapeSeg c then [37, upperhex (c.toNat / 16), upperhex (c.toNat % 16)] else [c])

def isHex (c : UInt8) : Bool := (48 ≤ c && c ≤ 57) || (97 ≤ c && c ≤ 102) || (65 ≤ c && c ≤ 70)

/-- Does `url.PathUnescape` succeed?  (Every `%` is followed by two hex digits.) -/
def unescapeOk : Bytes → Bool
  | [] => true
  | c :: r =>
    if c == 37 then
      match r with
      | a :: b :: r' => isHex a && isHex b && unescapeOk r'
      | _ => false
    else unescapeOk r

/-- Split at `/`. -/
def splitSlash : Bytes → Bytes → List Bytes
  | [], cur => [cur.reverse]
  | c :: r, cur => if c == sl then cur.reverse :: splitSlash r [] else splitSlash r (c :: cur)

def dot : Bytes := [46]
def dotdot : Bytes := [46, 46]

/-- The element loop of `path.Clean` on a stack of kept elements (top first). -/
def cleanSegs (rooted : Bool) : List Bytes → List Bytes → List Bytes
  | [], st => st.reverse
  | s :: r, st =>
    if s.isEmpty || s == dot then cleanSegs rooted r st
    else if s == dotdot then
      match st with
      | top :: st' => if top == dotdot then cleanSegs rooted r (s :: st) else cleanSegs rooted r st'
      | [] => if rooted then cleanSegs rooted r [] else cleanSegs rooted r [s]
    else cleanSegs rooted r (s :: st)

def joinSlash : List Bytes → Bytes
  | [] => []
  | [s] => s
  | s :: r => s ++ sl :: joinSlash r

/-- `path.Clean(p)` -/
def clean (p : Bytes) : Bytes :=
  if p.isEmpty then dot
  else
    let rooted := p.head? == some sl
    let out := (if rooted then [sl] else []) ++ joinSlash (cleanSegs rooted (splitSlash p []) [])
    if out.isEmpty then dot else out

/-- The concatenation loop of `path.Join`: once something has been written every further element,
even an empty one, is preceded by a slash. -/
def joinRaw : Bytes → List Bytes → Bytes
  | buf, [] => buf
  | buf, e :: r =>
    if buf.length > 0 || !e.isEmpty then joinRaw ((if buf.length > 0 then buf ++ [sl] else buf) ++ e) r
    else joinRaw buf r

/-- `path.Join(elem...)` -/
def pathJoin (elems : List Bytes) : Bytes :=
  if (elems.map List.length).sum = 0 then [] else clean (joinRaw [] elems)

/-! ## cache.go: domain prefix -/

def isAscii (s : Bytes) : Bool := s.all (fun c => c < 128)

/-- `xn--` -/
def acePrefix : Bytes := [120, 110, 45, 45]

/-- Split at `.` -/
def splitDot : Bytes → Bytes → List Bytes
  | [], cur => [cur.reverse]
  | c :: r, cur => if c == 46 then cur.reverse :: splitDot r [] else splitDot r (c :: cur)

/-- The class of domains on which `idna.ToUnicode` is the identity without consulting any table:
ASCII, and no label starts with `xn--`. -/
def simpleDomain (d : Bytes) : Bool := isAscii d && (splitDot d []).all (fun l => !hasPrefix l acePrefix)

/-- Steps 2–4 of the basic algorithm on the output of step 1. -/
def prefixMid (u : Bytes) : Bytes :=
  let p := u.flatMap (fun c => if c == 45 then [45, 45] else [c])      -- "-" → "--"
  let p := p.map (fun c => if c == 46 then 45 else c)                   -- "." → "-"
  if p.length ≥ 4 && p.getD 2 0 == 45 && p.getD 3 0 == 45 then [48, 45] ++ p ++ [45, 48] else p

/-- `domainPrefixBasic(domain)`.  `uni` = result of `idna.ToUnicode(domain)` (`none` = error) and
`asc` = result of `idna.ToASCII` on the output of step 4 — both only consulted outside the classes on
which these functions are the identity (`simpleDomain`, resp. ASCII; the output of step 4 never starts
with `xn--`, see `Proofs/AmpPath.lean`). -/
def domainPrefixBasic (domain : Bytes) (uni asc : Option Bytes) : Option Bytes :=
  let u : Option Bytes := if simpleDomain domain then some domain else uni
  match u with
  | none => none
  | some u =>
    let mid := prefixMid u
    if isAscii mid then some mid else asc

/-- `abcdefghijklmnopqrstuvwxyz234567` -/
def b32sym (i : Nat) : UInt8 := if i < 26 then UInt8.ofNat (97 + i) else UInt8.ofNat (24 + i)

/-- `fallbackBase32Encoding.EncodeToString` (lower case, no padding). -/
def base32 : Bytes → Bytes
  | a :: b :: c :: d :: e :: rest =>
    let v := a.toNat * 4294967296 + b.toNat * 16777216 + c.toNat * 65536 + d.toNat * 256 + e.toNat
    b32sym (v / 34359738368 % 32) :: b32sym (v / 1073741824 % 32) :: b32sym (v / 33554432 % 32)
      :: b32sym (v / 1048576 % 32) :: b32sym (v / 32768 % 32) :: b32sym (v / 1024 % 32)
      :: b32sym (v / 32 % 32) :: b32sym (v % 32) :: base32 rest
  | [a, b, c, d] =>
    let v := a.toNat * 4294967296 + b.toNat * 16777216 + c.toNat * 65536 + d.toNat * 256
    [b32sym (v / 34359738368 % 32), b32sym (v / 1073741824 % 32), b32sym (v / 33554432 % 32),
     b32sym (v / 1048576 % 32), b32sym (v / 32768 % 32), b32sym (v / 1024 % 32), b32sym (v / 32 % 32)]
  | [a, b, c] =>
    let v := a.toNat * 4294967296 + b.toNat * 16777216 + c.toNat * 65536
    [b32sym (v / 34359738368 % 32), b32sym (v / 1073741824 % 32), b32sym (v / 33554432 % 32),
     b32sym (v / 1048576 % 32), b32sym (v / 32768 % 32)]
  | [a, b] =>
    let v := a.toNat * 4294967296 + b.toNat * 16777216
    [b32sym (v / 34359738368 % 32), b32sym (v / 1073741824 % 32), b32sym (v / 33554432 % 32),
     b32sym (v / 1048576 % 32)]
  | [a] =>
    let v := a.toNat * 4294967296
    [b32sym (v / 34359738368 % 32), b32sym (v / 1073741824 % 32)]
  | [] => []

/-- `domainPrefixFallback(domain)`; `digest` = `sha256.Sum256([]byte(domain))`. -/
def domainPrefixFallback (digest : Bytes) : Bytes := base32 digest

/-- `domainPrefix(domain)` -/
def domainPrefix (domain digest : Bytes) (uni asc : Option Bytes) : Bytes :=
  match domainPrefixBasic domain uni asc with
  | some p => if p.length ≤ 63 then p else domainPrefixFallback digest
  | none => domainPrefixFallback digest

/-! ## cache.go: CacheURL -/

/-- What `CacheURL` reads of the publisher URL. -/
structure PubURL where
  scheme : Bytes
  hasUser : Bool          -- pubURL.User != nil
  hostname : Bytes        -- pubURL.Hostname()
  port : Bytes            -- pubURL.Port()
  escapedPath : Bytes     -- pubURL.EscapedPath()
  rawQuery : Bytes
  fragment : Bytes
deriving DecidableEq, Repr

/-- What `CacheURL` reads of the cache URL. -/
structure CacheURLIn where
  scheme : Bytes
  user : Bytes            -- cacheURL.User.String() (copied through)
  hostname : Bytes
  port : Bytes
  escapedPath : Bytes
  rawQuery : Bytes
  fragment : Bytes
deriving DecidableEq, Repr

/-- The fields of the returned `*url.URL`. -/
structure OutURL where
  scheme : Bytes
  user : Bytes
  host : Bytes
  rawPath : Bytes
  rawQuery : Bytes
  fragment : Bytes
deriving DecidableEq, Repr

inductive CacheErr
  | contentType | scheme | userinfo | port | host | unescape | cacheQuery | cacheFragment
deriving DecidableEq, Repr

def http : Bytes := [104, 116, 116, 112]
def https : Bytes := [104, 116, 116, 112, 115]

/-- `net.JoinHostPort` -/
def joinHostPort (host port : Bytes) : Bytes :=
  if host.contains 58 then [91] ++ host ++ [93, 58] ++ port else host ++ [58] ++ port

/-- The path components `CacheURL` joins. -/
def pathComponents (pub : PubURL) (cache : CacheURLIn) (contentType : Bytes) : List Bytes :=
  [cache.escapedPath, pathEscape contentType] ++ (if pub.scheme == https then [[115]] else [])
    ++ [pathEscape pub.hostname, pub.escapedPath]

/-- `CacheURL(pubURL, cacheURL, contentType)`; `prefix` = `domainPrefix(pubURL.Hostname())`. -/
def cacheURL (pub : PubURL) (cache : CacheURLIn) (contentType : Bytes) (pfx : Bytes) : Except CacheErr OutURL :=
  let resultHost := pfx ++ [46] ++ cache.hostname
  let resultHost := if !cache.port.isEmpty then joinHostPort resultHost cache.port else resultHost
  if contentType.isEmpty then .error .contentType
  else if !(pub.scheme == http || pub.scheme == https) then .error .scheme
  else if pub.hasUser then .error .userinfo
  else if !pub.port.isEmpty && !((pub.scheme == http && pub.port == [56, 48]) || (pub.scheme == https && pub.port == [52, 52, 51]))
    then .error .port
  else if pub.hostname.isEmpty then .error .host
  else
    let rawPath := pathJoin (pathComponents pub cache contentType)
    if !unescapeOk rawPath then .error .unescape
    else if !cache.rawQuery.isEmpty then .error .cacheQuery
    else if !cache.fragment.isEmpty then .error .cacheFragment
    else .ok { scheme := cache.scheme, user := cache.user, host := resultHost, rawPath := rawPath,
               rawQuery := pub.rawQuery, fragment := pub.fragment }

/-! ## client: fronting and bounded reads -/

/-- client `readLimit` -/
def clientReadLimit : Nat := 100000

/-- Where the TCP connection goes and what the `Host` header says: `req.Host = req.URL.Host;
req.URL.Host = front` when a front is configured. -/
def frontedRequest (front urlHost : Bytes) : Bytes × Bytes :=
  if !front.isEmpty then (front, urlHost) else (urlHost, urlHost)

inductive ExErr
  | unexpected          -- errors.New(brokerErrorUnexpected): non-200 status, or a Location header (AMP)
  | unexpectedEOF       -- io.ErrUnexpectedEOF: the body is longer than the limit
  | armor (e : Amp.Err) -- AMP only: error of the armor decoder
deriving DecidableEq, Repr

/-- `limitedRead(r, limit)` on a reader that delivers `body` without error: note that beyond the limit
it returns the first `limit` bytes *together with* the error. -/
def limitedRead (body : Bytes) (limit : Nat) : Bytes × Option ExErr :=
  let p := body.take (limit + 1)
  if p.length = limit + 1 then (p.take limit, some .unexpectedEOF) else (p, none)

/-- `httpRendezvous.Exchange` after the round trip: status code and body of the response. -/
def httpExchange (status : Nat) (body : Bytes) : Bytes × Option ExErr :=
  if status ≠ 200 then ([], some .unexpected) else limitedRead body clientReadLimit

/-- `ampCacheRendezvous.Exchange` after the round trip (`ioutil.ReadAll` of the armor decoder over
`io.LimitReader(resp.Body, readLimit+1)`; `sizes` = buffer sizes `ReadAll` happens to use). -/
def ampExchange (sizes : Nat → Nat) (status : Nat) (hasLocation : Bool) (body : Bytes) : Bytes × Option ExErr :=
  if status ≠ 200 then ([], some .unexpected)
  else if hasLocation then ([], some .unexpected)
  else
    let lr := body.take (clientReadLimit + 1)
    match Amp.decode sizes lr with
    | .initErr e => ([], some (.armor e))
    | .read _ (some e) => ([], some (.armor e))
    | .read o none => if lr.length = clientReadLimit + 1 then ([], some .unexpectedEOF) else (o, none)

/-- `BrokerChannel.Negotiate`: the bytes of an `Exchange` are used only if it returned no error. -/
def usedByNegotiate (r : Bytes × Option ExErr) : Option Bytes :=
  match r.2 with
  | none => some r.1
  | some _ => none

end Snowflake.AmpPath
