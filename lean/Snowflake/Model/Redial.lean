/-!
Interleaving model (LTS) of `common/turbotunnel/redialpacketconn.go` (`RedialPacketConn`).

Threads: the `dialLoop` goroutine (program counter `MPC`), and per dialed carrier `k` (numbered in
dial order) the reader goroutine (`RPC`) and the writer goroutine (`WPC`) started by `exchange`.
Channels: per carrier `readErrCh`/`writeErrCh` (`Chan`: number of buffered values + closed flag)
with capacities `capR`/`capW` — **parameters of the model**, instantiated in `Tie/Turbotunnel.lean`
with the `make(chan error[, n])` capacities read from the source; the `closed` channel (a flag); the
`sendQueue`/`recvQueue` (packet counts, capacity `queueSize`).

Program points (statement labels refer to the Go text):
```
dialLoop:  top:      select { case <-c.closed: cancel(); return   (mTopClosed)
                              default: }                            (mTopDefault)
           dialing:  conn, err := c.dialContext(ctx)                (dialOk | dialFail: closeWithError(err); return)
           selecting k:  c.exchange(conn) = make chans; go reader; go writer;
                         select { case <-readErrCh: case <-writeErrCh: }   (mRecvR | mRecvW | rendezvous)
           closing k:    conn.Close()                               (mClose) → top
reader k:  top:      select { case <-c.closed: return; case <-writeErrCh: return; default: }
           reading:  n, _, err := conn.ReadFrom(buf)                (readOk: recvQueue <- p non-blocking | readFail)
           sending:  readErrCh <- err                               (rSend buffered | rendezvous with a receiver)
           exiting:  deferred close(readErrCh)                      (rExit) → done
writer k:  select:   select { case <-c.closed; case <-readErrCh; case p := <-c.sendQueue }
           writing:  _, err := conn.WriteTo(p, remote)              (writeOk | writeFail)
           sending:  writeErrCh <- err                              (wSend | rendezvous)
           exiting:  deferred close(writeErrCh)                     (wExit) → done
```
Environment labels: `readOk/readFail/writeOk/writeFail k` (the carrier; a carrier on which
`Close()` has been called no longer succeeds), `dialOk/dialFail`, `userClose` (`Close()`),
`apiWrite`/`apiRead` (`WriteTo`/`ReadFrom` of the RedialPacketConn itself).

A send on a channel is enabled when the buffer has room (`rSend`, `wSend`) or when a receiver is
waiting in a `select` on that channel (rendezvous labels `…ToMain`, `…ToWriter`, `…ToReader`); with
capacity 0 only the rendezvous labels can ever be enabled.  Selects with a `default` arm take the
default only when no other arm is ready.  Ghost components: `userClosed`, `dialFailed`,
`errSurfaced` (some `ReadFrom`/`WriteTo` of the RedialPacketConn returned an error).

State components indexed by carrier are total maps `Nat → _` with pointwise `upd`.  Core-only,
executable (`step : Nat → Nat → St → Label → Option St`).
-/
namespace Snowflake.Redial

def upd {β : Type} (m : Nat → β) (k : Nat) (v : β) : Nat → β := fun x => if x = k then v else m x

/-- `const queueSize` (tied in `Tie/Turbotunnel.lean`). -/
def queueSize : Nat := 2048

inductive MPC where
  | top | dialing | selecting (k : Nat) | closing (k : Nat) | done
deriving DecidableEq, Repr

inductive RPC where
  | absent | top | reading | sending | exiting | done
deriving DecidableEq, Repr

inductive WPC where
  | absent | select | writing | sending | exiting | done
deriving DecidableEq, Repr

structure Chan where
  buf : Nat
  closed : Bool
deriving DecidableEq, Repr

/-- a receive from the channel can complete at once (buffered value, or closed) -/
def Chan.ready (c : Chan) : Bool := decide (c.buf > 0) || c.closed
/-- the channel after a receive -/
def Chan.recv (c : Chan) : Chan := { c with buf := c.buf - 1 }

structure St where
  n : Nat
  main : MPC
  rd : Nat → RPC
  wr : Nat → WPC
  rch : Nat → Chan
  wch : Nat → Chan
  cclosed : Nat → Bool
  closed : Bool
  sendQ : Nat
  recvQ : Nat
  userClosed : Bool
  dialFailed : Bool
  errSurfaced : Bool

def init : St :=
  { n := 0, main := .top, rd := fun _ => .absent, wr := fun _ => .absent,
    rch := fun _ => ⟨0, false⟩, wch := fun _ => ⟨0, false⟩, cclosed := fun _ => false,
    closed := false, sendQ := 0, recvQ := 0, userClosed := false, dialFailed := false,
    errSurfaced := false }

inductive Label where
  | mTopClosed | mTopDefault | dialOk | dialFail
  | mRecvR (k : Nat) | mRecvW (k : Nat) | mClose (k : Nat)
  | rSelClosed (k : Nat) | rSelW (k : Nat) | rDefault (k : Nat)
  | readOk (k : Nat) | readFail (k : Nat) | rSend (k : Nat) | rExit (k : Nat)
  | wSelClosed (k : Nat) | wSelR (k : Nat) | wSelPkt (k : Nat)
  | writeOk (k : Nat) | writeFail (k : Nat) | wSend (k : Nat) | wExit (k : Nat)
  | rSendToMain (k : Nat) | rSendToWriter (k : Nat)
  | wSendToMain (k : Nat) | wSendToReader (k : Nat)
  | userClose | apiWrite | apiRead
deriving DecidableEq, Repr

/-- One step of the interleaving semantics; `none` = the label is not enabled. -/
def step (capR capW : Nat) (s : St) : Label → Option St
  -- dialLoop
  | .mTopClosed => if s.main = .top ∧ s.closed = true then some { s with main := .done } else none
  | .mTopDefault => if s.main = .top ∧ s.closed = false then some { s with main := .dialing } else none
  | .dialOk =>
    if s.main = .dialing then
      some { s with n := s.n + 1, main := .selecting s.n,
                    rd := upd s.rd s.n .top, wr := upd s.wr s.n .select,
                    rch := upd s.rch s.n ⟨0, false⟩, wch := upd s.wch s.n ⟨0, false⟩ }
    else none
  | .dialFail =>
    if s.main = .dialing then
      if s.closed then some { s with main := .done }
      else some { s with main := .done, closed := true, dialFailed := true }
    else none
  | .mRecvR k =>
    if s.main = .selecting k ∧ (s.rch k).ready = true then
      some { s with main := .closing k, rch := upd s.rch k (s.rch k).recv }
    else none
  | .mRecvW k =>
    if s.main = .selecting k ∧ (s.wch k).ready = true then
      some { s with main := .closing k, wch := upd s.wch k (s.wch k).recv }
    else none
  | .mClose k =>
    if s.main = .closing k then some { s with main := .top, cclosed := upd s.cclosed k true } else none
  -- reader k
  | .rSelClosed k =>
    if s.rd k = .top ∧ s.closed = true then some { s with rd := upd s.rd k .exiting } else none
  | .rSelW k =>
    if s.rd k = .top ∧ (s.wch k).ready = true then
      some { s with rd := upd s.rd k .exiting, wch := upd s.wch k (s.wch k).recv }
    else none
  | .rDefault k =>
    if s.rd k = .top ∧ s.closed = false ∧ (s.wch k).ready = false then
      some { s with rd := upd s.rd k .reading }
    else none
  | .readOk k =>
    if s.rd k = .reading ∧ s.cclosed k = false then
      some { s with rd := upd s.rd k .top, recvQ := if s.recvQ < queueSize then s.recvQ + 1 else s.recvQ }
    else none
  | .readFail k => if s.rd k = .reading then some { s with rd := upd s.rd k .sending } else none
  | .rSend k =>
    if s.rd k = .sending ∧ (s.rch k).buf < capR then
      some { s with rd := upd s.rd k .exiting, rch := upd s.rch k { s.rch k with buf := (s.rch k).buf + 1 } }
    else none
  | .rExit k =>
    if s.rd k = .exiting then
      some { s with rd := upd s.rd k .done, rch := upd s.rch k { s.rch k with closed := true } }
    else none
  -- writer k
  | .wSelClosed k =>
    if s.wr k = .select ∧ s.closed = true then some { s with wr := upd s.wr k .exiting } else none
  | .wSelR k =>
    if s.wr k = .select ∧ (s.rch k).ready = true then
      some { s with wr := upd s.wr k .exiting, rch := upd s.rch k (s.rch k).recv }
    else none
  | .wSelPkt k =>
    if s.wr k = .select ∧ s.sendQ > 0 then
      some { s with wr := upd s.wr k .writing, sendQ := s.sendQ - 1 }
    else none
  | .writeOk k =>
    if s.wr k = .writing ∧ s.cclosed k = false then some { s with wr := upd s.wr k .select } else none
  | .writeFail k => if s.wr k = .writing then some { s with wr := upd s.wr k .sending } else none
  | .wSend k =>
    if s.wr k = .sending ∧ (s.wch k).buf < capW then
      some { s with wr := upd s.wr k .exiting, wch := upd s.wch k { s.wch k with buf := (s.wch k).buf + 1 } }
    else none
  | .wExit k =>
    if s.wr k = .exiting then
      some { s with wr := upd s.wr k .done, wch := upd s.wch k { s.wch k with closed := true } }
    else none
  -- rendezvous: a blocked sender meets a receiver waiting in a select
  | .rSendToMain k =>
    if s.rd k = .sending ∧ s.main = .selecting k then
      some { s with rd := upd s.rd k .exiting, main := .closing k }
    else none
  | .rSendToWriter k =>
    if s.rd k = .sending ∧ s.wr k = .select then
      some { s with rd := upd s.rd k .exiting, wr := upd s.wr k .exiting }
    else none
  | .wSendToMain k =>
    if s.wr k = .sending ∧ s.main = .selecting k then
      some { s with wr := upd s.wr k .exiting, main := .closing k }
    else none
  | .wSendToReader k =>
    if s.wr k = .sending ∧ s.rd k = .top then
      some { s with wr := upd s.wr k .exiting, rd := upd s.rd k .exiting }
    else none
  -- API of the RedialPacketConn
  | .userClose =>
    if s.closed then some s else some { s with closed := true, userClosed := true }
  | .apiWrite =>
    if s.closed then some { s with errSurfaced := true }
    else some { s with sendQ := if s.sendQ < queueSize then s.sendQ + 1 else s.sendQ }
  | .apiRead =>
    if s.closed then some { s with errSurfaced := true }
    else if s.recvQ > 0 then some { s with recvQ := s.recvQ - 1 }
    else none

/-- Run a schedule; `none` if some label is not enabled when its turn comes. -/
def run (capR capW : Nat) : St → List Label → Option St
  | s, [] => some s
  | s, l :: ls =>
    match step capR capW s l with
    | some s' => run capR capW s' ls
    | none => none

inductive Reachable (capR capW : Nat) : St → Prop where
  | init : Reachable capR capW init
  | step {s s' : St} {l : Label} : Reachable capR capW s → step capR capW s l = some s' → Reachable capR capW s'

/-! ## The goroutines of one carrier -/

/-- Labels executed by the reader or the writer goroutine of carrier `k` (including the returns of
their carrier calls and the rendezvous in which they take part as sender). -/
def groupLabels (k : Nat) : List Label :=
  [.rSelClosed k, .rSelW k, .rDefault k, .readOk k, .readFail k, .rSend k, .rExit k,
   .wSelClosed k, .wSelR k, .wSelPkt k, .writeOk k, .writeFail k, .wSend k, .wExit k,
   .rSendToMain k, .rSendToWriter k, .wSendToMain k, .wSendToReader k]

def rrank : RPC → Nat
  | .absent => 0 | .top => 4 | .reading => 3 | .sending => 2 | .exiting => 1 | .done => 0

def wrank : WPC → Nat
  | .absent => 0 | .select => 4 | .writing => 3 | .sending => 2 | .exiting => 1 | .done => 0

/-- Number of steps the two goroutines of carrier `k` are at most away from having finished. -/
def rank (s : St) (k : Nat) : Nat := rrank (s.rd k) + wrank (s.wr k)

/-- Both goroutines of carrier `k` have returned. -/
def finished (s : St) (k : Nat) : Prop := s.rd k = .done ∧ s.wr k = .done

instance (s : St) (k : Nat) : Decidable (finished s k) := by unfold finished; infer_instance

/-- Goroutines of carrier `k` that have not returned (0, 1 or 2). -/
def retained (s : St) (k : Nat) : Nat :=
  (if s.rd k = .done ∨ s.rd k = .absent then 0 else 1) + (if s.wr k = .done ∨ s.wr k = .absent then 0 else 1)

end Snowflake.Redial
