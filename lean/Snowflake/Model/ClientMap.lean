import Snowflake.Base.Heap
/-!
Model of `common/turbotunnel/clientmap.go`: `clientMapInner` with an explicit clock.

* `Rec` is `clientRecord` (`Addr`, `LastSeen`, `SendQueue`).  Addresses are natural numbers (the
  harness numbers the `net.Addr` values it uses), instants and durations are integers
  (`time.Time`/`time.Duration` as nanosecond counts; `Before` is `<`, `Sub` is `-`), the buffered
  channel `SendQueue` is the list of packets it currently holds (capacity `queueSize`).
* `IdxMap` is the Go map `byAddr : map[net.Addr]int` with its `len`.
* `Inner` is `clientMapInner` (`byAge` slice + `byAddr` map) plus two ghost fields: `closed` logs the
  records whose `SendQueue` was closed by `Pop()` (in order), `panicked` records the
  "duplicate address in clientMap" panic of `Push`.
* `lenH/lessH/swapH/pushH/popH` are the five `heap.Interface` methods *as written*; `iface` packs
  them and `SendQueue`/`removeExpired` call the generic `container/heap` functions of
  `Snowflake.Base.Heap` on it, exactly like the Go code calls `heap.Fix/Push/Pop(inner, …)`.

`Len()`'s consistency panic (`len(byAge) != len(byAddr)`) is not a state component: `Props/C17.lean`
proves the two lengths equal in every reachable state (`byAddr_byAge_consistent`).
Core-only, kernel-evaluable.
-/
namespace Snowflake.ClientMap
open Snowflake

abbrev Bytes := List UInt8

/-- `const queueSize = 2048` (tied to the source in `Tie/Turbotunnel.lean`). -/
def queueSize : Nat := 2048

/-- `clientRecord`. -/
structure Rec where
  addr : Nat
  lastSeen : Int
  queue : List Bytes
deriving DecidableEq, Repr

/-- `map[net.Addr]int` with `len`. -/
structure IdxMap where
  get : Nat → Option Nat
  size : Nat

namespace IdxMap
def empty : IdxMap := ⟨fun _ => none, 0⟩
/-- `m[k] = v` -/
def set (m : IdxMap) (k v : Nat) : IdxMap :=
  ⟨fun x => if x = k then some v else m.get x, if (m.get k).isSome then m.size else m.size + 1⟩
/-- `delete(m, k)` -/
def erase (m : IdxMap) (k : Nat) : IdxMap :=
  ⟨fun x => if x = k then none else m.get x, if (m.get k).isSome then m.size - 1 else m.size⟩
end IdxMap

/-- `clientMapInner` (+ ghost log of closed queues, + panic flag of `Push`). -/
structure Inner where
  byAge : Array Rec
  byAddr : IdxMap
  closed : List Rec
  panicked : Bool

def empty : Inner := ⟨#[], IdxMap.empty, [], false⟩

/-! ## heap.Interface for clientMapInner -/

/-- `Len()` (the `len(byAge) != len(byAddr)` panic is proved unreachable). -/
def lenH (s : Inner) : Nat := s.byAge.size

/-- `Less(i, j) = byAge[i].LastSeen.Before(byAge[j].LastSeen)`. -/
def lessH (s : Inner) (i j : Nat) : Bool :=
  decide (Heap.keyAt Rec.lastSeen s.byAge i < Heap.keyAt Rec.lastSeen s.byAge j)

/-- ```
byAge[i], byAge[j] = byAge[j], byAge[i]
byAddr[byAge[i].Addr] = i
byAddr[byAge[j].Addr] = j
``` -/
def swapH (s : Inner) (i j : Nat) : Inner :=
  let byAge := s.byAge.swapIfInBounds i j
  match byAge[i]?, byAge[j]? with
  | some ri, some rj => { s with byAge := byAge, byAddr := (s.byAddr.set ri.addr i).set rj.addr j }
  | _, _ => s -- index out of range: Go panics; never reached (all heap calls are in range)

/-- ```
if _, ok := byAddr[record.Addr]; ok { panic("duplicate address in clientMap") }
byAddr[record.Addr] = len(byAge)
byAge = append(byAge, record)
``` -/
def pushH (s : Inner) (r : Rec) : Inner :=
  if (s.byAddr.get r.addr).isSome then { s with panicked := true }
  else { s with byAddr := s.byAddr.set r.addr s.byAge.size, byAge := s.byAge.push r }

/-- ```
n := len(byAddr); record := byAge[n-1]; byAge[n-1] = nil; byAge = byAge[:n-1]
delete(byAddr, record.Addr); close(record.SendQueue); return record
``` -/
def popH (s : Inner) : Inner × Option Rec :=
  let n := s.byAddr.size
  match s.byAge[n - 1]? with
  | some r =>
    ({ s with byAge := s.byAge.extract 0 (n - 1), byAddr := s.byAddr.erase r.addr,
              closed := s.closed ++ [r] }, some r)
  | none => (s, none) -- index out of range: Go panics; never reached

def iface : Heap.Iface Inner Rec := ⟨lenH, lessH, swapH, pushH, popH⟩

/-! ## SendQueue and removeExpired -/

/-- `clientMapInner.SendQueue(addr, now)`: refresh `LastSeen` and `heap.Fix`, or create and
`heap.Push`.  (The returned channel is the `queue` of the record at `byAddr[addr]`: `queueOf`.) -/
def sendQueue (s : Inner) (addr : Nat) (now : Int) : Inner :=
  match s.byAddr.get addr with
  | some i =>
    match s.byAge[i]? with
    | some r =>
      Heap.fix iface { s with byAge := s.byAge.setIfInBounds i { r with lastSeen := now } } i
    | none => s -- index out of range: Go panics; never reached
  | none => Heap.push iface s { addr := addr, lastSeen := now, queue := [] }

/-- The loop guard `len(byAge) > 0 && now.Sub(byAge[0].LastSeen) >= timeout` as a function of the
length and the three instants/durations (tied to the generated condition). -/
def guard (n : Nat) (now lastSeen timeout : Int) : Bool :=
  decide (n > 0) && decide (now - lastSeen ≥ timeout)

/-- `for guard { heap.Pop(inner) }`, fuel = number of records. -/
def removeExpiredLoop (now timeout : Int) : Nat → Inner → Inner
  | 0, s => s
  | fuel + 1, s =>
    if guard s.byAge.size now (Heap.keyAt Rec.lastSeen s.byAge 0) timeout then
      removeExpiredLoop now timeout fuel (Heap.pop iface s).1
    else s

/-- `clientMapInner.removeExpired(now, timeout)`. -/
def removeExpired (s : Inner) (now timeout : Int) : Inner :=
  removeExpiredLoop now timeout s.byAge.size s

/-! ## The queues (what `QueuePacketConn` does with the channel returned by `SendQueue`) -/

/-- The record of `addr`, if present. -/
def recOf (s : Inner) (addr : Nat) : Option Rec :=
  match s.byAddr.get addr with
  | some i => s.byAge[i]?
  | none => none

/-- Non-blocking send `select { case q <- p: default: }` on the queue of `addr`; `false` = dropped. -/
def offer (s : Inner) (addr : Nat) (p : Bytes) : Inner × Bool :=
  match s.byAddr.get addr with
  | some i =>
    match s.byAge[i]? with
    | some r =>
      if r.queue.length < queueSize then
        ({ s with byAge := s.byAge.setIfInBounds i { r with queue := r.queue ++ [p] } }, true)
      else (s, false)
    | none => (s, false)
  | none => (s, false)

/-- Non-blocking receive `select { case p := <-q: default: }` from the queue of `addr`. -/
def poll (s : Inner) (addr : Nat) : Inner × Option Bytes :=
  match s.byAddr.get addr with
  | some i =>
    match s.byAge[i]? with
    | some r =>
      match r.queue with
      | p :: rest => ({ s with byAge := s.byAge.setIfInBounds i { r with queue := rest } }, some p)
      | [] => (s, none)
    | none => (s, none)
  | none => (s, none)

/-! ## Operation sequences (the quantifier of the property: all histories, explicit clock) -/

inductive Op where
  /-- `SendQueue(addr, now)` -/
  | send (addr : Nat) (now : Int)
  /-- `removeExpired(now, timeout)` -/
  | sweep (now timeout : Int)
  /-- `SendQueue(addr, now)` followed by a non-blocking send of `p` on the returned queue (`WriteTo`) -/
  | write (addr : Nat) (now : Int) (p : Bytes)
  /-- `SendQueue(addr, now)` followed by a non-blocking receive from the returned queue -/
  | take (addr : Nat) (now : Int)
deriving Repr

def apply (s : Inner) : Op → Inner
  | .send a t => sendQueue s a t
  | .sweep t d => removeExpired s t d
  | .write a t p => (offer (sendQueue s a t) a p).1
  | .take a t => (poll (sendQueue s a t) a).1

def run (ops : List Op) : Inner := ops.foldl apply empty

end Snowflake.ClientMap
