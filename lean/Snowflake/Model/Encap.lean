/-
Model of /repo/common/encapsulation/encapsulation.go (core-only, executable).

Bytes are `List UInt8`; lengths are `Nat`.  The encoder side is in arithmetic form
(`/`, `%`) and tied to the bit-operation form regenerated from the Go source in
`Snowflake/Tie/Encap.lean`.  The decoder side has two layers:

* `decodeAll`   – a pure decoder over the whole byte string;
* `readData`    – an operational reader that follows `ReadData` statement by statement
                  against an abstract `io.Reader` (`Rd`) whose behaviour is given by a
                  fragmentation script, with `io.ReadFull`, `io.CopyN(ioutil.Discard, …)`
                  and a bare `r.Read` modelled as the Go standard library implements them.

`readData fixed` has a flag: `fixed = true` models prefix bytes read with `io.ReadFull`
(the tree after the "fix:" commit), `fixed = false` the originally pinned code
(bare `r.Read(b[:])` whose byte count is ignored).  The flag is kept so that the negative
witnesses for the pinned behaviour stay kernel-checked.
-/
namespace Snowflake.Encap

abbrev Bytes := List UInt8

/-! ## Encoder side -/

/-- `dataPrefixForLength` / padding prefix in arithmetic form.  `dbit` is 0x80 for data, 0 for padding. -/
def prefixFor (dbit : Nat) (n : Nat) : Option Bytes :=
  if n < 64 then some [UInt8.ofNat (dbit + n)]
  else if n < 8192 then some [UInt8.ofNat (dbit + 64 + n / 128), UInt8.ofNat (n % 128)]
  else if n < 1048576 then
    some [UInt8.ofNat (dbit + 64 + n / 16384), UInt8.ofNat (128 + (n / 128) % 128), UInt8.ofNat (n % 128)]
  else none

def dataPrefix (n : Nat) : Option Bytes := prefixFor 128 n

/-- `WriteData` into a buffer that never fails: the bytes appended, or `none` for `ErrTooLong`. -/
def encodeData (d : Bytes) : Option Bytes :=
  match dataPrefix d.length with
  | some p => some (p ++ d)
  | none => none

def paddingBufferLen : Nat := 1024

/-- One iteration of the `WritePadding` loop for a block of total size `p` (1 ≤ p ≤ 1024):
prefix choice exactly as the three-way `switch`, followed by `p'` zero bytes. -/
def paddingBlock (p : Nat) : Bytes :=
  if p - 1 < 64 then UInt8.ofNat (p - 1) :: List.replicate (p - 1) 0
  else if p - 2 < 8192 then
    UInt8.ofNat (64 + (p - 2) / 128) :: UInt8.ofNat ((p - 2) % 128) :: List.replicate (p - 2) 0
  else
    UInt8.ofNat (64 + (p - 3) / 16384) :: UInt8.ofNat (128 + ((p - 3) / 128) % 64)
      :: UInt8.ofNat ((p - 3) % 128) :: List.replicate (p - 3) 0

/-- `WritePadding n` (n ≥ 0): the loop `for n > 0 { p := min(1024, n); n -= p; … }`. -/
def padding (n : Nat) : Bytes :=
  if _h : n = 0 then [] else
    let p := min paddingBufferLen n
    paddingBlock p ++ padding (n - p)
termination_by n
decreasing_by simp [paddingBufferLen]; omega

/-- `MaxDataForSize n` for `n > 0` (the Go function panics on 0). -/
def maxDataForSize (n : Nat) : Nat :=
  match dataPrefix n with
  | some p => n - p.length
  | none => 1048576 - 1 - 3

/-! ## Pure decoder -/

inductive Status | eof | unexpectedEOF | tooLong
deriving DecidableEq, Repr

/-- Result of parsing a length prefix at the head of a byte string. -/
inductive Pfx
  | eof                                  -- no byte at all
  | short                                -- ended inside the prefix
  | tooLong                              -- a fourth prefix byte would be needed
  | ok (isData : Bool) (n : Nat) (rest : Bytes)
deriving DecidableEq, Repr

def parsePrefix : Bytes → Pfx
  | [] => .eof
  | b0 :: r0 =>
    let isData := decide (b0.toNat ≥ 128)
    let n0 := b0.toNat % 64
    if (b0.toNat / 64) % 2 = 0 then .ok isData n0 r0 else
    match r0 with
    | [] => .short
    | b1 :: r1 =>
      let n1 := n0 * 128 + b1.toNat % 128
      if b1.toNat < 128 then .ok isData n1 r1 else
      match r1 with
      | [] => .short
      | b2 :: r2 =>
        let n2 := n1 * 128 + b2.toNat % 128
        if b2.toNat < 128 then .ok isData n2 r2 else .tooLong

/-- What one `ReadData` call does on a reader that delivers exactly `bs`, then EOF. -/
inductive Res
  | chunk (p : Bytes)
  | eof | unexpectedEOF | tooLong
deriving DecidableEq, Repr

/-- Pure `ReadData`: skip padding, return the next data chunk (or why not) and the bytes left. -/
def next : Nat → Bytes → Res × Bytes
  | 0, bs => (.eof, bs)      -- unreachable when fuel > length
  | fuel + 1, bs =>
    match parsePrefix bs with
    | .eof => (.eof, [])
    | .short => (.unexpectedEOF, [])
    | .tooLong => (.tooLong, bs.drop 3)
    | .ok isData n rest =>
      if rest.length < n then (.unexpectedEOF, [])
      else if isData then (.chunk (rest.take n), rest.drop n)
      else next fuel (rest.drop n)

/-- Decode the whole byte string: call `next` until it fails. -/
def decodeFuel : Nat → Bytes → List Bytes × Status
  | 0, _ => ([], .eof)      -- unreachable when fuel > length
  | fuel + 1, bs =>
    match next (bs.length + 1) bs with
    | (.chunk p, rest) => let (cs, st) := decodeFuel fuel rest; (p :: cs, st)
    | (.eof, _) => ([], .eof)
    | (.unexpectedEOF, _) => ([], .unexpectedEOF)
    | (.tooLong, _) => ([], .tooLong)

/-- All data chunks of a byte stream in order, and why decoding stopped. -/
def decodeAll (bs : Bytes) : List Bytes × Status := decodeFuel (bs.length + 1) bs

/-! ## Abstract io.Reader and the stdlib helpers -/

/-- One scripted `Read` call: deliver at most `k` bytes (0 = a `(0, nil)` read) and, if
`eofWithData` and the source becomes empty, return `io.EOF` together with the data. -/
abbrev Script := List (Nat × Bool)

/-- An abstract `io.Reader`: the bytes it has not yet delivered and the script for its next
`Read` calls.  When the script is exhausted every `Read` fills the buffer as far as the data
allows and reports `io.EOF` only with zero bytes. -/
structure Rd where
  data : Bytes
  script : Script
deriving DecidableEq, Repr

/-- Outcome of a single `r.Read(p)` with `len(p) = want > 0`. -/
def readOnce (r : Rd) (want : Nat) : Bytes × Bool × Rd :=
  match r.script with
  | [] =>
    if r.data.isEmpty then ([], true, r) else (r.data.take want, false, { r with data := r.data.drop want })
  | (k, e) :: sc =>
    if k = 0 then ([], false, { r with script := sc })
    else if r.data.isEmpty then ([], true, { r with script := sc })
    else
      let n := min k want
      let rest := r.data.drop n
      (r.data.take n, e && rest.isEmpty, { data := rest, script := sc })

/-- `io.ReadFull(r, buf)` with `len(buf) = want`: bytes obtained (fewer than `want` only when the
reader reported EOF) and the reader afterwards.  Structural on the script. -/
def readFull : Script → Bytes → Nat → Bytes × Rd
  | [], data, want => (data.take want, ⟨data.drop want, []⟩)
  | (k, e) :: sc, data, want =>
    if want = 0 then ([], ⟨data, (k, e) :: sc⟩)
    else if k = 0 then readFull sc data want
    else if data.isEmpty then ([], ⟨[], sc⟩)
    else
      let n := min k want
      let got := data.take n
      let rest := data.drop n
      if e && rest.isEmpty then (got, ⟨rest, sc⟩)
      else
        let (g2, r) := readFull sc rest (want - n)
        (got ++ g2, r)

/-- `io.CopyN(ioutil.Discard, r, n)`: number of bytes discarded and the reader afterwards.
`discard.ReadFrom` reads through an 8192-byte buffer limited by `io.LimitedReader`. -/
def skipN : Script → Bytes → Nat → Nat × Rd
  | [], data, want => (min want data.length, ⟨data.drop want, []⟩)
  | (k, e) :: sc, data, want =>
    if want = 0 then (0, ⟨data, (k, e) :: sc⟩)
    else if k = 0 then skipN sc data want
    else if data.isEmpty then (0, ⟨[], sc⟩)
    else
      let n := min (min k (min 8192 want)) data.length
      let rest := data.drop n
      if e && rest.isEmpty then (n, ⟨rest, sc⟩)
      else
        let (m, r) := skipN sc rest (want - n)
        (n + m, r)

/-! ## Operational `ReadData` -/

/-- Reading one prefix byte.  `fixed`: `io.ReadFull(r, b[:])`.  Otherwise the pinned
`_, err := r.Read(b[:])`: the byte count is ignored, so a `(0, nil)` read leaves the previous
value `prev` in `b[0]` and a `(1, EOF)` read reports EOF although a byte was delivered.
Returns `none` for "error (EOF)". -/
def readByte (fixed : Bool) (prev : UInt8) (r : Rd) : Option UInt8 × Rd :=
  if fixed then
    match readFull r.script r.data 1 with
    | ([b], r') => (some b, r')
    | (_, r') => (none, r')
  else
    match readOnce r 1 with
    | (_, true, r') => (none, r')
    | ([b], false, r') => (some b, r')
    | (_, false, r') => (some prev, r')

/-- The body/padding part after the prefix has been parsed. -/
def readBody (isData : Bool) (n : Nat) (r : Rd) : Option Res × Rd :=
  if isData then
    let (got, r') := readFull r.script r.data n
    if got.length = n then (some (.chunk got), r') else (some .unexpectedEOF, r')
  else
    let (m, r') := skipN r.script r.data n
    if m = n then (none, r') else (some .unexpectedEOF, r')

/-- Outcome of the prefix-reading part of `ReadData`. -/
inductive PfxR
  | eof | short | tooLong
  | ok (isData : Bool) (n : Nat)
deriving DecidableEq, Repr

/-- The prefix loop of `ReadData` (at most three bytes). -/
def readPrefix (fixed : Bool) (r : Rd) : PfxR × Rd :=
  match readByte fixed 0 r with
  | (none, r0) => (.eof, r0)
  | (some b0, r0) =>
    let isData := decide (b0.toNat ≥ 128)
    let n0 := b0.toNat % 64
    if (b0.toNat / 64) % 2 = 0 then (.ok isData n0, r0) else
    match readByte fixed b0 r0 with
    | (none, r1) => (.short, r1)
    | (some b1, r1) =>
      let n1 := n0 * 128 + b1.toNat % 128
      if b1.toNat < 128 then (.ok isData n1, r1) else
      match readByte fixed b1 r1 with
      | (none, r2) => (.short, r2)
      | (some b2, r2) =>
        let n2 := n1 * 128 + b2.toNat % 128
        if b2.toNat < 128 then (.ok isData n2, r2) else (.tooLong, r2)

/-- One call of `ReadData`; `fuel` bounds the number of padding chunks skipped. -/
def readData (fixed : Bool) : Nat → Rd → Res × Rd
  | 0, r => (.eof, r)
  | fuel + 1, r =>
    match readPrefix fixed r with
    | (.eof, r') => (.eof, r')
    | (.short, r') => (.unexpectedEOF, r')
    | (.tooLong, r') => (.tooLong, r')
    | (.ok isData n, r') =>
      match readBody isData n r' with
      | (some res, r'') => (res, r'')
      | (none, r'') => readData fixed fuel r''

/-- Fuel that always suffices for one `ReadData` call. -/
def fuelFor (r : Rd) : Nat := r.data.length + r.script.length + 1

/-- Call `ReadData` until it returns an error; collect the chunks. -/
def readAll (fixed : Bool) : Nat → Rd → List Bytes × Status
  | 0, _ => ([], .eof)
  | fuel + 1, r =>
    match readData fixed (fuelFor r) r with
    | (.chunk p, r') => let (cs, st) := readAll fixed fuel r'; (p :: cs, st)
    | (.eof, _) => ([], .eof)
    | (.unexpectedEOF, _) => ([], .unexpectedEOF)
    | (.tooLong, _) => ([], .tooLong)

/-! ## Items (what a writer produces) -/

inductive Item
  | data (d : Bytes)
  | pad (n : Nat)
deriving DecidableEq, Repr

def Item.ok : Item → Prop
  | .data d => d.length < 1048576
  | .pad _ => True

def encodeItem : Item → Bytes
  | .data d => (encodeData d).getD []
  | .pad n => padding n

def encodeItems (is : List Item) : Bytes := (is.map encodeItem).flatten

def dataOf : List Item → List Bytes
  | [] => []
  | .data d :: is => d :: dataOf is
  | .pad _ :: is => dataOf is

end Snowflake.Encap
