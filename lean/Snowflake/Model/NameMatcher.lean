import Snowflake.Base.GoStr
/-
Model of /repo/common/namematcher/matcher.go, the broker's CheckProxyRelayPattern and the proxy's
relay-URL acceptance test (C06).  Core-only, executable.
-/
namespace Snowflake.NameMatcher
open Snowflake.GoStr

structure Matcher where
  exact : Bool
  suffix : Str
deriving DecidableEq, Repr

/-- `NewNameMatcher(rule)`: a trailing `$` is dropped, a leading `^` makes the rule exact. -/
def new (rule : Str) : Matcher :=
  let r := trimSuffix rule [36]
  { exact := hasPrefix r [94], suffix := trimPrefix r [94] }

/-- `IsValidRule` -/
def isValidRule (rule : Str) : Bool := hasSuffix rule [36]

/-- `m.IsSupersetOf(o)` -/
def isSupersetOf (m o : Matcher) : Bool :=
  if m.exact then o.exact && m.suffix == o.suffix else hasSuffix o.suffix m.suffix

/-- `m.IsMember(s)` -/
def isMember (m : Matcher) (s : Str) : Bool :=
  if m.exact then s == m.suffix else hasSuffix s m.suffix

/-- Broker: `CheckProxyRelayPattern(pattern, nonSupported)` with the broker's two configured
patterns.  Legacy proxies (no pattern in the poll) are judged by the presumed pattern. -/
def brokerCheck (allowed presumed : Str) (pattern : Str) (nonSupported : Bool) : Bool :=
  isSupersetOf (new (if nonSupported then presumed else pattern)) (new allowed)

/-- Proxy: the condition under which `runSession` rejects the offer because of its relay URL.
`relayURL` is the raw string, `member`/`scheme` come from Go's `url.Parse` of it. -/
def proxyRejects (relayURL : Str) (member allowNonTLS : Bool) (scheme : Str) : Bool :=
  relayURL != [] && (!member || (!allowNonTLS && scheme != [119, 115, 115]))

end Snowflake.NameMatcher
