import Snowflake.Model.Encap
/-
Model of the server's carrier layer (C05, and the upstream/downstream half of C01):
/repo/server/lib/http.go (`ServeHTTP`, `turbotunnelMode`) on top of the shared
`turbotunnel.QueuePacketConn` (incoming queue tagged with the source ClientID, one outgoing queue per
ClientID).  Interleaving LTS over any number of carriers (WebSocket connections):

  open k            a carrier connects
  recv k bs         the network delivers the next bytes `bs` of carrier k's upstream, in order
  cut k             the carrier is cut (after whatever prefix has been delivered)
  hStep k           one step of the carrier's handler: read the 8-byte token, read the 8-byte
                    ClientID, or read one encapsulated chunk (`encapsulation.ReadData`) and
                    `QueueIncoming(p, clientID)`
  kcpWrite p id     KCP's `WriteTo(p, id)`: append to the outgoing queue of `id` (dropped when full)
  wStep k           the carrier's write loop takes the head of `OutgoingQueue(its clientID)` and frames it
  kcpRead           KCP's `ReadFrom` takes the head of the incoming queue

Ghost fields record what each carrier received, queued and was sent.  Queue bounds are the
`queueSize` of the source (drop when full).  KCP/smux above and the WebSocket below are environment.
-/
namespace Snowflake.Server
open Snowflake.Encap

abbrev CID := Bytes     -- 8 bytes

inductive CPC
  | absent
  | token                -- at `io.ReadFull(conn, token[:])`
  | cid                  -- at `io.ReadFull(conn, clientID[:])`
  | run (id : CID)       -- read loop / write loop running for this ClientID
  | closed
deriving DecidableEq, Repr

structure Carrier where
  pc : CPC := .absent
  buf : Bytes := []            -- delivered, not yet consumed by the handler
  isCut : Bool := false
  -- ghost
  allIn : Bytes := []          -- every byte ever delivered on this carrier
  consumed : Bytes := []       -- the bytes the handler has consumed so far (a prefix of allIn)
  presented : Option CID := none  -- the ClientID it presented (after a correct token), kept after close
  frames : Bytes := []         -- the bytes consumed after the 16-byte preface
  queued : List Bytes := []    -- packets this carrier passed to QueueIncoming, in order
  written : List Bytes := []   -- packets framed onto this carrier by its write loop, in order
deriving DecidableEq, Repr

structure St where
  cs : Nat → Carrier
  inq : List (Bytes × CID)      -- shared incoming queue (head first)
  outq : CID → List Bytes       -- per-ClientID outgoing queues (head first)
  -- ghost
  enq : CID → List Bytes        -- every packet KCP's WriteTo enqueued for an id (not dropped), in order
  deq : CID → Nat               -- how many packets have been taken from outq id so far
  inHist : List (Bytes × CID × Nat)  -- every (packet, tag, carrier) accepted by QueueIncoming, in order
  token : Bytes                 -- turbotunnel.Token
  queueSize : Nat

def upd {α} (m : Nat → α) (k : Nat) (v : α) : Nat → α := fun x => if x = k then v else m x
def updC {α} (m : CID → α) (k : CID) (v : α) : CID → α := fun x => if x = k then v else m x

@[simp] theorem upd_same {α} (m : Nat → α) (k : Nat) (v : α) : upd m k v k = v := by simp [upd]
@[simp] theorem upd_ne {α} (m : Nat → α) (k : Nat) (v : α) (x : Nat) (h : x ≠ k) : upd m k v x = m x := by
  simp [upd, h]
@[simp] theorem updC_same {α} (m : CID → α) (k : CID) (v : α) : updC m k v k = v := by simp [updC]
@[simp] theorem updC_ne {α} (m : CID → α) (k : CID) (v : α) (x : CID) (h : x ≠ k) : updC m k v x = m x := by
  simp [updC, h]

def init (token : Bytes) (queueSize : Nat) : St :=
  { cs := fun _ => {}, inq := [], outq := fun _ => [], enq := fun _ => [], deq := fun _ => 0, inHist := [],
    token := token, queueSize := queueSize }

inductive Lab
  | open (k : Nat)
  | recv (k : Nat) (bs : Bytes)
  | cut (k : Nat)
  | hStep (k : Nat)
  | kcpWrite (p : Bytes) (id : CID)
  | wStep (k : Nat)
  | kcpRead
deriving DecidableEq, Repr

/-- One handler step of carrier `k`. -/
def hStep (st : St) (k : Nat) : Option St :=
  let c := st.cs k
  match c.pc with
  | .token =>
    if c.buf.length ≥ 8 then
      if c.buf.take 8 = st.token then
        some { st with cs := upd st.cs k { c with pc := .cid, buf := c.buf.drop 8, consumed := c.consumed ++ c.buf.take 8 } }
      else some { st with cs := upd st.cs k { c with pc := .closed } }      -- unsupported one-shot connection
    else if c.isCut then some { st with cs := upd st.cs k { c with pc := .closed } }
    else none                                                              -- blocked in ReadFull
  | .cid =>
    if c.buf.length ≥ 8 then
      some { st with cs := upd st.cs k { c with pc := .run (c.buf.take 8), buf := c.buf.drop 8,
                                                consumed := c.consumed ++ c.buf.take 8, presented := some (c.buf.take 8) } }
    else if c.isCut then some { st with cs := upd st.cs k { c with pc := .closed } }
    else none
  | .run id =>
    match next (c.buf.length + 1) c.buf with
    | (.chunk p, rest) =>
      -- QueueIncoming: non-blocking send, dropped when the queue is full
      let delta := c.buf.take (c.buf.length - rest.length)
      let c' := { c with buf := rest, queued := c.queued ++ [p], consumed := c.consumed ++ delta,
                         frames := c.frames ++ delta }
      if st.inq.length < st.queueSize then
        some { st with cs := upd st.cs k c', inq := st.inq ++ [(p, id)], inHist := st.inHist ++ [(p, id, k)] }
      else some { st with cs := upd st.cs k c' }
    | (.tooLong, _) => some { st with cs := upd st.cs k { c with pc := .closed } }
    | (_, _) =>
      -- incomplete chunk: wait for more bytes, or end when the carrier was cut
      if c.isCut then some { st with cs := upd st.cs k { c with pc := .closed } } else none
  | _ => none

def step (st : St) : Lab → Option St
  | .open k =>
    if (st.cs k).pc = .absent then some { st with cs := upd st.cs k { (st.cs k) with pc := .token } } else none
  | .recv k bs =>
    let c := st.cs k
    if c.pc ≠ .absent ∧ c.isCut = false then
      some { st with cs := upd st.cs k { c with buf := c.buf ++ bs, allIn := c.allIn ++ bs } }
    else none
  | .cut k =>
    let c := st.cs k
    if c.pc ≠ .absent then some { st with cs := upd st.cs k { c with isCut := true } } else none
  | .hStep k => hStep st k
  | .kcpWrite p id =>
    if (st.outq id).length < st.queueSize then
      some { st with outq := updC st.outq id (st.outq id ++ [p]), enq := updC st.enq id (st.enq id ++ [p]) }
    else some st                                                            -- dropped
  | .wStep k =>
    let c := st.cs k
    match c.pc with
    | .run id =>
      match st.outq id with
      | p :: rest =>
        if c.isCut then
          -- the write fails: the packet taken from the queue is lost with the carrier
          some { st with outq := updC st.outq id rest, deq := updC st.deq id (st.deq id + 1) }
        else
          some { st with outq := updC st.outq id rest, deq := updC st.deq id (st.deq id + 1),
                         cs := upd st.cs k { c with written := c.written ++ [p] } }
      | [] => none
    | _ => none
  | .kcpRead =>
    match st.inq with
    | _ :: rest => some { st with inq := rest }
    | [] => none

inductive Reachable (token : Bytes) (queueSize : Nat) : St → Prop
  | init : Reachable token queueSize (init token queueSize)
  | step {st st' : St} (l : Lab) : Reachable token queueSize st → step st l = some st' → Reachable token queueSize st'

def runL : St → List Lab → Option St
  | st, [] => some st
  | st, l :: ls => match step st l with
    | some st' => runL st' ls
    | none => none

end Snowflake.Server
