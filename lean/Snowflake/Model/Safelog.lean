import Snowflake.Base.Rx
/-
Model of /repo/common/safelog/log.go (core-only, executable).

The two regular expressions are parameters (`full` = `fullAddrPattern`, `addr` = `addressPattern`);
`Tie/Safelog.lean` and `Props/C07.lean` instantiate them with the terms regenerated from the source by
Go's own `regexp/syntax` parser.  `regexp` itself is modelled by `Snowflake.Rx` (hand-written, validated
differentially).

`fixed : Bool` selects the behaviour:
* `fixed = false` — the originally pinned code: `Scrub` = one replacement pass over whatever it is given,
  `Write` scrubs the whole block up to the last `\n` at once;
* `fixed = true`  — the repaired code: `Scrub` repeats the pass while the pattern still matches,
  `Write` scrubs every complete line separately.
The flag is kept so that the negative witnesses for the pinned behaviour stay kernel-checked.
-/
namespace Snowflake.Safelog
open Snowflake.Rx

abbrev Bytes := List UInt8

/-- `[]byte("[scrubbed]")` -/
def placeholder : Bytes := [91, 115, 99, 114, 117, 98, 98, 101, 100, 93]

/-- One `pattern.ReplaceAllFunc(b, func(m) { return addressRegexp.ReplaceAll(m, "[scrubbed]") })`. -/
def scrubPass (full addr : Rx) (b : Bytes) : Bytes :=
  replaceAllFunc full b (fun m => replaceAll addr m placeholder)

/-- Weight used to bound the number of passes: every address contains three dots, five colons or a
double colon; the placeholder contains neither. -/
def wt (b : UInt8) : Nat := if b = 46 then 2 else if b = 58 then 3 else 0

/-- `for pattern.Match(b) { b = pass(b) }` with explicit fuel. -/
def scrubLoop (full addr : Rx) : Nat → Bytes → Bytes
  | 0, b => b
  | n + 1, b => if hasMatch full b then scrubLoop full addr n (scrubPass full addr b) else b

/-- `safelog.Scrub`.  The fuel of the repeating version is an upper bound for the number of passes
(`Props/C07.lean`: each pass that finds a match lowers `weightB wt`). -/
def scrub (fixed : Bool) (full addr : Rx) (b : Bytes) : Bytes :=
  if fixed then scrubLoop full addr (weightB wt b + 1) b else scrubPass full addr b

/-! ## The writer -/

/-- Split after every `\n`: the complete lines (each ending in `\n`) and the unterminated rest.
`cur` accumulates the current line in reverse. -/
def splitLinesAux : Bytes → Bytes → List Bytes × Bytes
  | cur, [] => ([], cur.reverse)
  | cur, c :: cs =>
    if c = 10 then
      let r := splitLinesAux [] cs
      ((c :: cur).reverse :: r.1, r.2)
    else splitLinesAux (c :: cur) cs

def splitLines (b : Bytes) : List Bytes × Bytes := splitLinesAux [] b

/-- One `LogScrubber.Write(b)` on pending bytes `pend` with an output that never fails:
`(emissions to Output in order, new pending bytes)`; the call returns `len b`. -/
def write (fixed : Bool) (sc : Bytes → Bytes) (pend b : Bytes) : List Bytes × Bytes :=
  let s := splitLines (pend ++ b)
  if fixed then (s.1.map sc, s.2)
  else if s.1.isEmpty then ([], s.2) else ([sc s.1.flatten], s.2)

/-- A sequence of writes: all emissions in order and the final pending bytes. -/
def writes (fixed : Bool) (sc : Bytes → Bytes) : Bytes → List Bytes → List Bytes × Bytes
  | pend, [] => ([], pend)
  | pend, b :: bs =>
    let w := write fixed sc pend b
    let r := writes fixed sc w.2 bs
    (w.1 ++ r.1, r.2)

/-! ## Specification vocabulary (DESIGN §5.7)

Text is `List Tok` (code points with their bytes), as the scrubber's `regexp` sees a line. -/

def isWordRune (r : Nat) : Prop := (48 ≤ r ∧ r ≤ 57) ∨ (65 ≤ r ∧ r ≤ 90) ∨ r = 95 ∨ (97 ≤ r ∧ r ≤ 122)

/-- ASCII whitespace as `\s` understands it. -/
def isSpaceRune (r : Nat) : Prop := r = 9 ∨ r = 10 ∨ r = 12 ∨ r = 13 ∨ r = 32

/-- A rune outside `[\w:]`: whitespace, punctuation other than `:`, any non-ASCII rune, U+FFFD for an
invalid byte. -/
def isDelimRune (r : Nat) : Prop := r ≤ 1114111 ∧ ¬ isWordRune r ∧ r ≠ 58

instance : DecidablePred isWordRune := fun r => by unfold isWordRune; infer_instance
instance : DecidablePred isSpaceRune := fun r => by unfold isSpaceRune; infer_instance
instance : DecidablePred isDelimRune := fun r => by unfold isDelimRune; infer_instance

/-- Left of an address: the beginning of the text, or a delimiter rune. -/
def LeftOK (pre : List Tok) : Prop := pre = [] ∨ ∃ p d, pre = p ++ [d] ∧ isDelimRune d.r

/-- Right of an address: the end of the text, a delimiter rune, or `:` followed by whitespace (the form the
code admits in addition). -/
def RightOK (post : List Tok) : Prop :=
  post = [] ∨ (∃ d q, post = d :: q ∧ isDelimRune d.r) ∨
  (∃ c s q, post = c :: s :: q ∧ c.r = 58 ∧ isSpaceRune s.r)

/-- The language of an (anchor-free) expression: the segments it matches on their own. -/
def Lang (r : Rx) (a : List Tok) : Prop := Matches r [] a []

/-- `Exposed addr toks`: somewhere in the text stands a member of the language of `addr` between
admissible delimiters. -/
def Exposed (addr : Rx) (toks : List Tok) : Prop :=
  ∃ pre a post, toks = pre ++ (a ++ post) ∧ Lang addr a ∧ LeftOK pre ∧ RightOK post

/-- The classes `[^\w:]` and `\s` as `regexp/syntax` renders them. -/
def delimCls : List (Nat × Nat) := [(0, 47), (59, 64), (91, 94), (96, 96), (123, 1114111)]
def spaceCls : List (Nat × Nat) := [(9, 10), (12, 13), (32, 32)]

/-- `(^|\s|[^\w:])` after Go's parser merged the two classes (captures erased). -/
def delimL : Rx := .alt .bot (.cls delimCls)

/-- `(\s|(:\s)|[^\w:]|$)` (captures erased). -/
def delimR : Rx :=
  .alt (.cls spaceCls) (.alt (.cat (.cls [(58, 58)]) (.cls spaceCls)) (.alt (.cls delimCls) .eot))

/-! ## The address patterns, component by component

Hand-written shapes of the constants of `log.go` (captures erased), with the repeat bound of
`ipv6Compressed` as a parameter.  `Tie/Safelog.lean` proves that the regenerated expressions have these
shapes; the coverage theorems are proved about the shapes. -/

def digitCls : List (Nat × Nat) := [(48, 57)]
def hexCls : List (Nat × Nat) := [(48, 57), (65, 70), (97, 102)]
def colonRx : Rx := .cls [(58, 58)]
def dotRx : Rx := .cls [(46, 46)]

/-- `\d{1,3}` -/
def dec3Rx : Rx := rep (.cls digitCls) 1 2
/-- `[0-9a-fA-F]{0,4}` -/
def hexGroupRx : Rx := rep (.cls hexCls) 0 4
/-- `([0-9a-fA-F]{0,4}:)` -/
def groupColonRx : Rx := .cat hexGroupRx colonRx
/-- `([0-9a-fA-F]{0,4})?` -/
def optGroupRx : Rx := .alt hexGroupRx .eps

/-- Right-nested concatenation, as Go's parser flattens a sequence. -/
def seqRx : List Rx → Rx
  | [] => .eps
  | [r] => r
  | r :: rs => .cat r (seqRx rs)

/-- `ipv4Address` -/
def ipv4Shape : Rx := seqRx [dec3Rx, dotRx, dec3Rx, dotRx, dec3Rx, dotRx, dec3Rx]

/-- `ipv6Address` = `(g:){lo,lo+ex}(g)?`, as a sequence -/
def ipv6AddressParts (lo ex : Nat) : List Rx := [rep groupColonRx lo ex, optGroupRx]

/-- `ipv6Compressed` = `(g:){0,n}(g)?(::)(g:){0,n}(g)?`, as a sequence -/
def ipv6CompressedParts (n : Nat) : List Rx :=
  [rep groupColonRx 0 n, optGroupRx, .cat colonRx colonRx, rep groupColonRx 0 n, optGroupRx]

/-- `ipv6Full` = `(A(v4))|(C(v4))|(A)|(C)` -/
def ipv6FullShape (a c : List Rx) (v4 : Rx) : Rx :=
  .alt (seqRx (a ++ [v4])) (.alt (seqRx (c ++ [v4])) (.alt (seqRx a) (seqRx c)))

/-- `optionalPort` = `(:\d{1,5})?` -/
def portShape : Rx := .alt (.cat colonRx (rep (.cls digitCls) 1 4)) .eps

/-- `addressPattern` = `((v4)|(\[(v6)\])|(v6))` `optionalPort` -/
def addressShape (v4 v6full port : Rx) : Rx :=
  .cat (.alt v4 (.alt (.cat (.cls [(91, 91)]) (.cat v6full (.cls [(93, 93)]))) v6full)) port

/-- The whole `addressPattern` (captures erased) for a given bound of `ipv6Compressed` (5 in the pinned tree). -/
def addressShapeN (n : Nat) : Rx :=
  addressShape ipv4Shape (ipv6FullShape (ipv6AddressParts 5 2) (ipv6CompressedParts n) ipv4Shape) portShape

/-- The whole `fullAddrPattern` for a given bound. -/
def fullShapeN (n : Nat) : Rx := .cat delimL (.cat (addressShapeN n) delimR)

end Snowflake.Safelog
