import Snowflake.Base.IP
/-!
Model of `server/lib/http.go clientAddr` and of `server/lib/turbotunnel.go clientIDMap`
(`newClientIDMap`, `Set`, `Get`) — C18.  Core-only, executable.
-/
namespace Snowflake.ClientAddr
open Snowflake.GoStr Snowflake.IP

/-- `clientAddr(clientIPParam)`: the text of the returned `ClientMapAddr` (`[]` is `ClientMapAddr("")`).
```go
if clientIPParam == "" { return ClientMapAddr("") }
clientIP := net.ParseIP(clientIPParam)
if clientIP == nil { return ClientMapAddr("") }
if clientIP.IsUnspecified() { return ClientMapAddr("") }
return ClientMapAddr((&net.TCPAddr{IP: clientIP, Port: 1, Zone: ""}).String())
```
`TCPAddr.String` with an empty zone and a non-empty IP is `JoinHostPort(ip.String(), itoa(port))`. -/
def clientAddr (param : Str) : Str :=
  if param = [] then []
  else match parseIP param with
    | none => []
    | some ip =>
      if isUnspecified ip then []
      else joinHostPort (render ip) [49]

/-! ## the ring map -/

/-- A Go `map[K]int`: association list without duplicate keys (maintained by `set`). -/
abbrev Index (K : Type) := List (K × Nat)

namespace Index
variable {K : Type} [DecidableEq K]

/-- `i, ok := m[k]` -/
def get (m : Index K) (k : K) : Option Nat := (m.find? (fun e => e.1 = k)).map (·.2)

/-- `delete(m, k)` -/
def delete (m : Index K) (k : K) : Index K := m.filter (fun e => ¬ e.1 = k)

/-- `m[k] = i` -/
def set (m : Index K) (k : K) (i : Nat) : Index K := (k, i) :: delete m k

end Index

/-- `clientIDMap` without its mutex.  `entries` is the circular buffer, `oldest` the slot that the next
`Set` overwrites, `current` the quick-lookup map from ClientID to slot. -/
structure Ring (K V : Type) where
  entries : List (K × V)
  oldest : Nat
  current : Index K

namespace Ring
variable {K V : Type} [DecidableEq K]

/-- `newClientIDMap(capacity)`: `capacity` zero-valued entries (`k0` = the all-zero ClientID,
`v0` = the nil `net.Addr`), `oldest = 0`, empty index. -/
def new (k0 : K) (v0 : V) (capacity : Nat) : Ring K V :=
  { entries := List.replicate capacity (k0, v0), oldest := 0, current := [] }

/-- `(*clientIDMap).Set`, statement by statement.
```go
if len(m.entries) == 0 { return }
if i, ok := m.current[m.entries[m.oldest].clientID]; ok && i == m.oldest {
    delete(m.current, m.entries[m.oldest].clientID)
}
m.entries[m.oldest].clientID = clientID
m.entries[m.oldest].addr = addr
m.current[clientID] = m.oldest
m.oldest = (m.oldest + 1) % len(m.entries)
```
(`k0`/`v0` only stand for the out-of-range read that Go would panic on; `oldest < len(entries)` is an
invariant, see `Props/C18.lean`.) -/
def set (k0 : K) (v0 : V) (m : Ring K V) (clientID : K) (addr : V) : Ring K V :=
  if m.entries.length = 0 then m
  else
    let old := (m.entries.getD m.oldest (k0, v0)).1
    let cur1 := if m.current.get old = some m.oldest then m.current.delete old else m.current
    { entries := m.entries.set m.oldest (clientID, addr)
      oldest := (m.oldest + 1) % m.entries.length
      current := cur1.set clientID m.oldest }

/-- `(*clientIDMap).Get`: `none` is `(nil, false)`. -/
def get (k0 : K) (v0 : V) (m : Ring K V) (clientID : K) : Option V :=
  match m.current.get clientID with
  | some i => some (m.entries.getD i (k0, v0)).2
  | none => none

end Ring

/-! ## operation sequences (driver and refinement statement) -/

inductive Op (K V : Type) where
  | set (k : K) (v : V)
  | get (k : K)

/-- Run a whole operation sequence; the outputs of the `get`s in order. -/
def runRing {K V : Type} [DecidableEq K] (k0 : K) (v0 : V) : Ring K V → List (Op K V) → List (Option V) × Ring K V
  | m, [] => ([], m)
  | m, Op.set k v :: ops => runRing k0 v0 (Ring.set k0 v0 m k v) ops
  | m, Op.get k :: ops =>
    let r := runRing k0 v0 m ops
    (Ring.get k0 v0 m k :: r.1, r.2)

/-- The specification: a log of the last `n` sets, newest first. -/
def logSet {K V : Type} (n : Nat) (log : List (K × V)) (k : K) (v : V) : List (K × V) := ((k, v) :: log).take n

def logGet {K V : Type} [DecidableEq K] (log : List (K × V)) (k : K) : Option V :=
  (log.find? (fun e => e.1 = k)).map (·.2)

def runLog {K V : Type} [DecidableEq K] (n : Nat) : List (K × V) → List (Op K V) → List (Option V) × List (K × V)
  | log, [] => ([], log)
  | log, Op.set k v :: ops => runLog n (logSet n log k v) ops
  | log, Op.get k :: ops =>
    let r := runLog n log ops
    (logGet log k :: r.1, r.2)

end Snowflake.ClientAddr
