import Snowflake.Base.Base64
/-
Model of /repo/common/amp/armor_encoder.go and armor_decoder.go (C10).  Core-only, executable.

Encoder: the real chain  `armorEncoder.Write → base64.NewEncoder → elementEncoder.Write → w`
with `NewArmorEncoder` / `Close`; `armor p` is one `Write(p)` followed by `Close`.

Decoder: `NewArmorDecoder` = `decodeToWriter` (x/net/html tokenizer with `SetMaxBuf(elementSizeLimit)`,
the `active` flag, `bufio.Scanner` with `splitASCIIWhitespace`) writing words into an `io.Pipe`, the
version byte, and `base64.NewDecoder(StdEncoding, pipe)` read by the caller.

The tokenizer (`golang.org/x/net/html` v0.0.0-20220425223048, token.go) is modelled as a byte-at-a-time
transducer `step` whose state remembers what the Go scanner would have to re-read after its
`z.raw.end--` back-ups, so that `run st (a ++ b)` is compositional.  It covers the whole of token.go
that decides token boundaries, token types, tag names and text contents — text, start / end /
self-closing tags with attributes (quoted values may contain `>`), comments, doctype, `<?…>` and
`</…>` bogus comments, the raw-text elements (script incl. its escape states, style, noscript, title,
textarea, iframe, noembed, noframes, plaintext, xmp), `convertNewlines`, NUL replacement in raw text —
*except* entity unescaping (`&…;`, also inside title/textarea) and CDATA (off by default).
`maxBuf`: `readByte` fails with `ErrBufferExceeded` as soon as the current token's raw length
(look-ahead included) reaches `maxBuf`; the byte is consumed, a text token in progress is still
delivered, then the error.
-/
namespace Snowflake.Amp
open Snowflake.Base64 (Bytes)

/-! ## Constants (tied to the source in `Tie/Amp.lean`) -/

def boilerplateStart : Bytes :=
  [60, 33, 100, 111, 99, 116, 121, 112, 101, 32, 104, 116, 109, 108, 62, 10, 60, 104, 116, 109, 108, 32,
   97, 109, 112, 62, 10, 60, 104, 101, 97, 100, 62, 10, 60, 109, 101, 116, 97, 32, 99, 104, 97, 114, 115,
   101, 116, 61, 34, 117, 116, 102, 45, 56, 34, 62, 10, 60, 115, 99, 114, 105, 112, 116, 32, 97, 115, 121,
   110, 99, 32, 115, 114, 99, 61, 34, 104, 116, 116, 112, 115, 58, 47, 47, 99, 100, 110, 46, 97, 109, 112,
   112, 114, 111, 106, 101, 99, 116, 46, 111, 114, 103, 47, 118, 48, 46, 106, 115, 34, 62, 60, 47, 115, 99,
   114, 105, 112, 116, 62, 10, 60, 108, 105, 110, 107, 32, 114, 101, 108, 61, 34, 99, 97, 110, 111, 110,
   105, 99, 97, 108, 34, 32, 104, 114, 101, 102, 61, 34, 35, 34, 62, 10, 60, 109, 101, 116, 97, 32, 110,
   97, 109, 101, 61, 34, 118, 105, 101, 119, 112, 111, 114, 116, 34, 32, 99, 111, 110, 116, 101, 110, 116,
   61, 34, 119, 105, 100, 116, 104, 61, 100, 101, 118, 105, 99, 101, 45, 119, 105, 100, 116, 104, 34, 62,
   10, 60, 115, 116, 121, 108, 101, 32, 97, 109, 112, 45, 98, 111, 105, 108, 101, 114, 112, 108, 97, 116,
   101, 62, 98, 111, 100, 121, 123, 45, 119, 101, 98, 107, 105, 116, 45, 97, 110, 105, 109, 97, 116, 105,
   111, 110, 58, 45, 97, 109, 112, 45, 115, 116, 97, 114, 116, 32, 56, 115, 32, 115, 116, 101, 112, 115,
   40, 49, 44, 101, 110, 100, 41, 32, 48, 115, 32, 49, 32, 110, 111, 114, 109, 97, 108, 32, 98, 111, 116,
   104, 59, 45, 109, 111, 122, 45, 97, 110, 105, 109, 97, 116, 105, 111, 110, 58, 45, 97, 109, 112, 45,
   115, 116, 97, 114, 116, 32, 56, 115, 32, 115, 116, 101, 112, 115, 40, 49, 44, 101, 110, 100, 41, 32, 48,
   115, 32, 49, 32, 110, 111, 114, 109, 97, 108, 32, 98, 111, 116, 104, 59, 45, 109, 115, 45, 97, 110, 105,
   109, 97, 116, 105, 111, 110, 58, 45, 97, 109, 112, 45, 115, 116, 97, 114, 116, 32, 56, 115, 32, 115,
   116, 101, 112, 115, 40, 49, 44, 101, 110, 100, 41, 32, 48, 115, 32, 49, 32, 110, 111, 114, 109, 97, 108,
   32, 98, 111, 116, 104, 59, 97, 110, 105, 109, 97, 116, 105, 111, 110, 58, 45, 97, 109, 112, 45, 115,
   116, 97, 114, 116, 32, 56, 115, 32, 115, 116, 101, 112, 115, 40, 49, 44, 101, 110, 100, 41, 32, 48, 115,
   32, 49, 32, 110, 111, 114, 109, 97, 108, 32, 98, 111, 116, 104, 125, 64, 45, 119, 101, 98, 107, 105,
   116, 45, 107, 101, 121, 102, 114, 97, 109, 101, 115, 32, 45, 97, 109, 112, 45, 115, 116, 97, 114, 116,
   123, 102, 114, 111, 109, 123, 118, 105, 115, 105, 98, 105, 108, 105, 116, 121, 58, 104, 105, 100, 100,
   101, 110, 125, 116, 111, 123, 118, 105, 115, 105, 98, 105, 108, 105, 116, 121, 58, 118, 105, 115, 105,
   98, 108, 101, 125, 125, 64, 45, 109, 111, 122, 45, 107, 101, 121, 102, 114, 97, 109, 101, 115, 32, 45,
   97, 109, 112, 45, 115, 116, 97, 114, 116, 123, 102, 114, 111, 109, 123, 118, 105, 115, 105, 98, 105,
   108, 105, 116, 121, 58, 104, 105, 100, 100, 101, 110, 125, 116, 111, 123, 118, 105, 115, 105, 98, 105,
   108, 105, 116, 121, 58, 118, 105, 115, 105, 98, 108, 101, 125, 125, 64, 45, 109, 115, 45, 107, 101, 121,
   102, 114, 97, 109, 101, 115, 32, 45, 97, 109, 112, 45, 115, 116, 97, 114, 116, 123, 102, 114, 111, 109,
   123, 118, 105, 115, 105, 98, 105, 108, 105, 116, 121, 58, 104, 105, 100, 100, 101, 110, 125, 116, 111,
   123, 118, 105, 115, 105, 98, 105, 108, 105, 116, 121, 58, 118, 105, 115, 105, 98, 108, 101, 125, 125,
   64, 45, 111, 45, 107, 101, 121, 102, 114, 97, 109, 101, 115, 32, 45, 97, 109, 112, 45, 115, 116, 97,
   114, 116, 123, 102, 114, 111, 109, 123, 118, 105, 115, 105, 98, 105, 108, 105, 116, 121, 58, 104, 105,
   100, 100, 101, 110, 125, 116, 111, 123, 118, 105, 115, 105, 98, 105, 108, 105, 116, 121, 58, 118, 105,
   115, 105, 98, 108, 101, 125, 125, 64, 107, 101, 121, 102, 114, 97, 109, 101, 115, 32, 45, 97, 109, 112,
   45, 115, 116, 97, 114, 116, 123, 102, 114, 111, 109, 123, 118, 105, 115, 105, 98, 105, 108, 105, 116,
   121, 58, 104, 105, 100, 100, 101, 110, 125, 116, 111, 123, 118, 105, 115, 105, 98, 105, 108, 105, 116,
   121, 58, 118, 105, 115, 105, 98, 108, 101, 125, 125, 60, 47, 115, 116, 121, 108, 101, 62, 60, 110, 111,
   115, 99, 114, 105, 112, 116, 62, 60, 115, 116, 121, 108, 101, 32, 97, 109, 112, 45, 98, 111, 105, 108,
   101, 114, 112, 108, 97, 116, 101, 62, 98, 111, 100, 121, 123, 45, 119, 101, 98, 107, 105, 116, 45, 97,
   110, 105, 109, 97, 116, 105, 111, 110, 58, 110, 111, 110, 101, 59, 45, 109, 111, 122, 45, 97, 110, 105,
   109, 97, 116, 105, 111, 110, 58, 110, 111, 110, 101, 59, 45, 109, 115, 45, 97, 110, 105, 109, 97, 116,
   105, 111, 110, 58, 110, 111, 110, 101, 59, 97, 110, 105, 109, 97, 116, 105, 111, 110, 58, 110, 111, 110,
   101, 125, 60, 47, 115, 116, 121, 108, 101, 62, 60, 47, 110, 111, 115, 99, 114, 105, 112, 116, 62, 10,
   60, 47, 104, 101, 97, 100, 62, 10, 60, 98, 111, 100, 121, 62, 10]

def boilerplateEnd : Bytes :=
  [60, 47, 98, 111, 100, 121, 62, 10, 60, 47, 104, 116, 109, 108, 62]

def elementSizeLimit : Nat := 32768
def bytesPerChunk : Nat := 32
def chunksPerElement : Nat := 992

/-- `<pre>\n` -/
def preOpen : Bytes := [60, 112, 114, 101, 62, 10]
/-- `</pre>\n` -/
def preClose : Bytes := [60, 47, 112, 114, 101, 62, 10]
/-- `pre` -/
def preName : Bytes := [112, 114, 101]

/-! ## Encoder -/

/-- `elementEncoder`: `chunkCounter`, `elementCounter`. -/
structure ElemEnc where
  cc : Nat := 0
  ec : Nat := 0
deriving DecidableEq, Repr

/-- `elementEncoder.Write(p)`: the loop `for len(p) > 0 { … }`, one iteration per block of at most
`bytesPerChunk - chunkCounter` bytes.  Returns the new counters and the underlying writes in order.
`fuel ≥ p.length` suffices. -/
def ElemEnc.write : Nat → ElemEnc → Bytes → ElemEnc × List Bytes
  | 0, enc, _ => (enc, [])
  | fuel + 1, enc, p =>
    if p.length > 0 then
      let w0 : List Bytes := if enc.ec = 0 ∧ enc.cc = 0 then [preOpen] else []
      let n := min (bytesPerChunk - enc.cc) p.length
      let w1 : List Bytes := [p.take n]
      let cc := enc.cc + n
      let (cc, ec, w2) : Nat × Nat × List Bytes :=
        if cc ≥ bytesPerChunk then (0, enc.ec + 1, [[10]]) else (cc, enc.ec, [])
      let (ec, w3) : Nat × List Bytes :=
        if ec ≥ chunksPerElement then (0, [preClose]) else (ec, [])
      let r := ElemEnc.write fuel ⟨cc, ec⟩ (p.drop n)
      (r.1, w0 ++ w1 ++ w2 ++ w3 ++ r.2)
    else (enc, [])

/-- `elementEncoder.Close()` -/
def ElemEnc.close (enc : ElemEnc) : List Bytes :=
  if !(enc.ec = 0 ∧ enc.cc = 0) then
    if enc.cc = 0 then [preClose] else [10 :: preClose]
  else []

/-- Feed a list of writes (what the base64 encoder hands on) through `elementEncoder.Write`. -/
def ElemEnc.writes : ElemEnc → List Bytes → ElemEnc × List Bytes
  | enc, [] => (enc, [])
  | enc, w :: ws =>
    let r := ElemEnc.write w.length enc w
    let r2 := ElemEnc.writes r.1 ws
    (r2.1, r.2 ++ r2.2)

/-- `armorEncoder`: pending bytes of the base64 encoder and the element encoder. -/
structure ArmorEnc where
  b64 : Bytes := []
  el : ElemEnc := {}
deriving DecidableEq, Repr

/-- `NewArmorEncoder(w)`: boilerplate header, then the version byte `'0'` through the element encoder. -/
def newArmorEncoder : ArmorEnc × List Bytes :=
  let r := ElemEnc.write 1 {} [48]
  ({ b64 := [], el := r.1 }, boilerplateStart :: r.2)

/-- `armorEncoder.Write(p)` = `enc.base64.Write(p)`. -/
def ArmorEnc.write (a : ArmorEnc) (p : Bytes) : ArmorEnc × List Bytes :=
  let r := Base64.Encoder.write Base64.std a.b64 p
  let r2 := ElemEnc.writes a.el r.2
  ({ b64 := r.1, el := r2.1 }, r2.2)

/-- `armorEncoder.Close()`: close base64, close the element encoder, boilerplate trailer. -/
def ArmorEnc.close (a : ArmorEnc) : List Bytes :=
  let r2 := ElemEnc.writes a.el (Base64.Encoder.close Base64.std a.b64)
  r2.2 ++ r2.1.close ++ [boilerplateEnd]

def ArmorEnc.run : ArmorEnc → List Bytes → List Bytes
  | a, [] => a.close
  | a, c :: cs => let r := a.write c; r.2 ++ ArmorEnc.run r.1 cs

/-- Everything written to `w` by `NewArmorEncoder`, one `Write` per chunk, `Close`. -/
def encodeChunks (cs : List Bytes) : Bytes :=
  (newArmorEncoder.2 ++ ArmorEnc.run newArmorEncoder.1 cs).flatten

/-- The AMP armor of `p` (a single `Write`). -/
def armor (p : Bytes) : Bytes := encodeChunks [p]

/-! ## HTML tokenizer -/

def isWs (c : UInt8) : Bool := c == 32 || c == 10 || c == 13 || c == 9 || c == 12
def isLetter (c : UInt8) : Bool := (97 ≤ c && c ≤ 122) || (65 ≤ c && c ≤ 90)
def lowerB (c : UInt8) : UInt8 := if 65 ≤ c && c ≤ 90 then c + 32 else c
def lower (s : Bytes) : Bytes := s.map lowerB
/-- the characters that end a raw end tag name: white space, `/`, `>` -/
def isTagEnd (c : UInt8) : Bool := isWs c || c == 47 || c == 62

def sBytes (s : String) : Bytes := s.toUTF8.toList

/-- Names after whose start tag the tokenizer switches to raw text. -/
def rawNames : List Bytes :=
  [[105, 102, 114, 97, 109, 101],                      -- iframe
   [110, 111, 101, 109, 98, 101, 100],                 -- noembed
   [110, 111, 102, 114, 97, 109, 101, 115],            -- noframes
   [110, 111, 115, 99, 114, 105, 112, 116],            -- noscript
   [112, 108, 97, 105, 110, 116, 101, 120, 116],       -- plaintext
   [115, 99, 114, 105, 112, 116],                      -- script
   [115, 116, 121, 108, 101],                          -- style
   [116, 101, 120, 116, 97, 114, 101, 97],             -- textarea
   [116, 105, 116, 108, 101],                          -- title
   [120, 109, 112]]                                    -- xmp

def scriptName : Bytes := [115, 99, 114, 105, 112, 116]
def plaintextName : Bytes := [112, 108, 97, 105, 110, 116, 101, 120, 116]
/-- `DOCTYPE` -/
def doctypeWord : Bytes := [68, 79, 67, 84, 89, 80, 69]

inductive Tok
  | text (t : Bytes)
  | startTag (name : Bytes)
  | endTag (name : Bytes)
  | selfClosing (name : Bytes)
  | comment
  | doctype
deriving DecidableEq, Repr

/-- States of `readScript`. -/
inductive Scr
  | data | lt | escStart | escStartDash
  | escaped | escapedDash | escapedDashDash | escapedLt
  | dblStart (i : Nat)
  | dblEscaped | dblEscapedDash | dblEscapedDashDash | dblEscapedLt
  | endTag (i : Nat) (ret : Nat)      -- inside readRawEndTag; ret: 0 scriptData, 1 escaped, 2 double escape end
deriving DecidableEq, Repr

inductive Mode
  | text | textLt | endOpen
  | tagName | tagWs | attrKey | attrVal0 (slash : Bool) | attrVal2 | attrValQ (q : UInt8) | attrValU (slash : Bool)
  | md0 | md1 (c0 : UInt8) | doctypeMatch (i : Nat) | doctypeWs | untilGt (isDoctype : Bool)
  | comment (dash : Nat) | commentBang
  | rawText | rawLt | rawEnd (i : Nat) | plaintext | script (s : Scr)
deriving DecidableEq, Repr

/-- Tokenizer state between two input bytes. -/
structure TState where
  mode : Mode := .text
  n : Nat := 0              -- z.raw.end - z.raw.start: raw length of the current token so far
  buf : Bytes := []         -- reversed: text of the current (raw) text token
  name : Bytes := []        -- reversed: tag name
  isEnd : Bool := false     -- the tag being read is an end tag
  rtag : Bytes := []        -- z.rawTag while in a raw mode
deriving DecidableEq, Repr

def TState.fresh : TState := {}

/-- `convertNewlines`: `\r\n` and `\r` become `\n` (`prevCR`: the previous byte was a `\r`, already
delivered as `\n`). -/
def convNLgo : Bool → Bytes → Bytes
  | _, [] => []
  | prevCR, c :: r =>
    if c == 13 then 10 :: convNLgo true r
    else if c == 10 && prevCR then convNLgo false r
    else c :: convNLgo false r

def convNL (t : Bytes) : Bytes := convNLgo false t

/-- NUL → U+FFFD (raw text tokens have `convertNUL`). -/
def convNUL (t : Bytes) : Bytes := t.flatMap (fun c => if c == 0 then [239, 191, 189] else [c])

/-- `Text()` of a normal text token whose raw bytes are `rev.reverse` (no entity unescaping). -/
def textTok (rev : Bytes) : List Tok := if rev.isEmpty then [] else [.text (convNL rev.reverse)]
/-- `Text()` of a raw text token. -/
def rawTextTok (rev : Bytes) : List Tok := if rev.isEmpty then [] else [.text (convNUL (convNL rev.reverse))]

/-- The tag whose closing `>` has just been read; `slash`: the byte before it was `/`
(`z.buf[z.raw.end-2] == '/'`; the modes `attrVal0` and `attrValU` are the only ones in which that byte
can be a slash, and they remember it). -/
def finishTag (st : TState) (slash : Bool) : TState × List Tok :=
  let name := lower st.name.reverse
  if st.isEnd then (TState.fresh, [.endTag name])
  else
    let tok : Tok := if slash then .selfClosing name else .startTag name
    if rawNames.contains name then
      let mode : Mode := if name == plaintextName then .plaintext else if name == scriptName then .script .data else .rawText
      ({ mode := mode, rtag := name }, [tok])
    else (TState.fresh, [tok])

/-- Head of the attribute loop in `readTag` on byte `c`. -/
def attrKeyStep (st : TState) (c : UInt8) : TState × List Tok :=
  if isWs c || c == 47 then ({ st with mode := .attrVal0 (c == 47) }, [])
  else if c == 61 then ({ st with mode := .attrVal2 }, [])
  else if c == 62 then finishTag st false
  else ({ st with mode := .attrKey }, [])

def loopHead (st : TState) (slash : Bool) (c : UInt8) : TState × List Tok :=
  if c == 62 then finishTag st slash else attrKeyStep st c

/-- `readTagName` on byte `c`. -/
def tagNameStep (st : TState) (c : UInt8) : TState × List Tok :=
  if isWs c then ({ st with mode := .tagWs }, [])
  else if c == 47 then ({ st with mode := .attrVal0 true }, [])
  else if c == 62 then finishTag st false
  else ({ st with mode := .tagName, name := c :: st.name }, [])

/-- `readUntilCloseAngle` on byte `c`. -/
def untilGtStep (st : TState) (isDoctype : Bool) (c : UInt8) : TState × List Tok :=
  if c == 62 then (TState.fresh, [if isDoctype then .doctype else .comment])
  else ({ st with mode := .untilGt isDoctype }, [])

/-- Main loop of `Next` on byte `c` (text accumulated in `st.buf`). -/
def textStep (st : TState) (c : UInt8) : TState × List Tok :=
  if c == 60 then ({ st with mode := .textLt }, [])
  else ({ st with mode := .text, buf := c :: st.buf }, [])

/-- Generic raw text loop (`readRawOrRCDATA`) on byte `c`, already pushed to `buf`. -/
def rawStep (st : TState) (c : UInt8) : TState × List Tok :=
  if c == 60 then ({ st with mode := .rawLt }, []) else ({ st with mode := .rawText }, [])

/-- A raw end tag `</rtag` + terminator `c` has been recognised: deliver the text before it and
continue as the end tag token (name as written; `c` is processed by `readTagName`). -/
def rawEndFound (st : TState) (c : UInt8) : TState × List Tok :=
  let l := st.rtag.length
  let toks := rawTextTok (st.buf.drop (2 + l))
  let st' : TState := { mode := .tagName, n := 3 + l, name := st.buf.take l, isEnd := true }
  let r := tagNameStep st' c
  (r.1, toks ++ r.2)

def scrData (st : TState) (c : UInt8) : TState × List Tok :=
  ({ st with mode := .script (if c == 60 then .lt else .data) }, [])

def scrEscaped (st : TState) (c : UInt8) : TState × List Tok :=
  ({ st with mode := .script (if c == 45 then .escapedDash else if c == 60 then .escapedLt else .escaped) }, [])

def scrDblEscaped (st : TState) (c : UInt8) : TState × List Tok :=
  ({ st with mode := .script (if c == 45 then .dblEscapedDash else if c == 60 then .dblEscapedLt else .dblEscaped) }, [])

def scrRet (st : TState) (ret : Nat) (c : UInt8) : TState × List Tok :=
  if ret = 0 then scrData st c else if ret = 1 then scrEscaped st c else scrDblEscaped st c

def matchCI (t : Bytes) (i : Nat) (c : UInt8) : Bool := c == t.getD i 0 || c == t.getD i 0 - 32

/-- `readScript` on byte `c` (already pushed to `buf`). -/
def scriptStep (st : TState) (s : Scr) (c : UInt8) : TState × List Tok :=
  match s with
  | .data => scrData st c
  | .lt =>
    if c == 47 then ({ st with mode := .script (.endTag 0 0) }, [])
    else if c == 33 then ({ st with mode := .script .escStart }, [])
    else scrData st c
  | .escStart => if c == 45 then ({ st with mode := .script .escStartDash }, []) else scrData st c
  | .escStartDash => if c == 45 then ({ st with mode := .script .escapedDashDash }, []) else scrData st c
  | .escaped => scrEscaped st c
  | .escapedDash =>
    if c == 45 then ({ st with mode := .script .escapedDashDash }, [])
    else if c == 60 then ({ st with mode := .script .escapedLt }, [])
    else ({ st with mode := .script .escaped }, [])
  | .escapedDashDash =>
    if c == 45 then ({ st with mode := .script .escapedDashDash }, [])
    else if c == 60 then ({ st with mode := .script .escapedLt }, [])
    else if c == 62 then ({ st with mode := .script .data }, [])
    else ({ st with mode := .script .escaped }, [])
  | .escapedLt =>
    if c == 47 then ({ st with mode := .script (.endTag 0 1) }, [])
    else if isLetter c then
      if matchCI scriptName 0 c then ({ st with mode := .script (.dblStart 1) }, []) else scrEscaped st c
    else scrData st c
  | .dblStart i =>
    if i < 6 then
      if matchCI scriptName i c then ({ st with mode := .script (.dblStart (i + 1)) }, []) else scrEscaped st c
    else if isTagEnd c then ({ st with mode := .script .dblEscaped }, [])
    else scrEscaped st c
  | .dblEscaped => scrDblEscaped st c
  | .dblEscapedDash =>
    if c == 45 then ({ st with mode := .script .dblEscapedDashDash }, [])
    else if c == 60 then ({ st with mode := .script .dblEscapedLt }, [])
    else ({ st with mode := .script .dblEscaped }, [])
  | .dblEscapedDashDash =>
    if c == 45 then ({ st with mode := .script .dblEscapedDashDash }, [])
    else if c == 60 then ({ st with mode := .script .dblEscapedLt }, [])
    else if c == 62 then ({ st with mode := .script .data }, [])
    else ({ st with mode := .script .dblEscaped }, [])
  | .dblEscapedLt =>
    if c == 47 then ({ st with mode := .script (.endTag 0 2) }, []) else scrDblEscaped st c
  | .endTag i ret =>
    if i < 6 then
      if matchCI scriptName i c then ({ st with mode := .script (.endTag (i + 1) ret) }, []) else scrRet st ret c
    else if isTagEnd c then
      if ret = 2 then ({ st with mode := .script .escaped }, [])
      else rawEndFound { st with buf := st.buf.drop 1 } c
    else scrRet st ret c

/-- One input byte.  `st.n + 1 < maxBuf` has been checked by the caller. -/
def step (st : TState) (c : UInt8) : TState × List Tok :=
  let st : TState := { st with n := st.n + 1 }
  match st.mode with
  | .text => textStep st c
  | .textLt =>
    if isLetter c then ({ mode := .tagName, n := 2, name := [c] }, textTok st.buf)
    else if c == 47 then ({ mode := .endOpen, n := 2 }, textTok st.buf)
    else if c == 33 then ({ mode := .md0, n := 2 }, textTok st.buf)
    else if c == 63 then ({ mode := .untilGt false, n := 2 }, textTok st.buf)
    else textStep { st with buf := 60 :: st.buf } c
  | .endOpen =>
    if c == 62 then (TState.fresh, [.comment])
    else if isLetter c then ({ st with mode := .tagName, name := [c], isEnd := true }, [])
    else ({ st with mode := .untilGt false }, [])
  | .tagName => tagNameStep st c
  | .tagWs => if isWs c then (st, []) else loopHead st false c
  | .attrKey => attrKeyStep st c
  | .attrVal0 slash =>
    if isWs c then ({ st with mode := .attrVal0 false }, [])
    else if c == 61 then ({ st with mode := .attrVal2 }, [])
    else loopHead st slash c
  | .attrVal2 =>
    if isWs c then (st, [])
    else if c == 62 then finishTag st false
    else if c == 34 || c == 39 then ({ st with mode := .attrValQ c }, [])
    else ({ st with mode := .attrValU (c == 47) }, [])
  | .attrValQ q => if c == q then ({ st with mode := .tagWs }, []) else (st, [])
  | .attrValU slash =>
    if isWs c then ({ st with mode := .tagWs }, [])
    else if c == 62 then finishTag st slash
    else ({ st with mode := .attrValU (c == 47) }, [])
  | .md0 => if c == 62 then (TState.fresh, [.comment]) else ({ st with mode := .md1 c }, [])
  | .md1 c0 =>
    if c0 == 45 && c == 45 then ({ st with mode := .comment 2 }, [])
    else if matchCI (lower doctypeWord) 0 c0 then
      if matchCI (lower doctypeWord) 1 c then ({ st with mode := .doctypeMatch 2 }, [])
      else untilGtStep st false c
    else untilGtStep st false c
  | .doctypeMatch i =>
    if matchCI (lower doctypeWord) i c then
      ({ st with mode := if i + 1 ≥ 7 then .doctypeWs else .doctypeMatch (i + 1) }, [])
    else untilGtStep st false c
  | .doctypeWs => if isWs c then (st, []) else untilGtStep st true c
  | .untilGt d => untilGtStep st d c
  | .comment dash =>
    if c == 45 then ({ st with mode := .comment (min (dash + 1) 2) }, [])
    else if c == 62 then (if dash ≥ 2 then (TState.fresh, [.comment]) else ({ st with mode := .comment 0 }, []))
    else if c == 33 then ({ st with mode := if dash ≥ 2 then .commentBang else .comment 0 }, [])
    else ({ st with mode := .comment 0 }, [])
  | .commentBang => if c == 62 then (TState.fresh, [.comment]) else ({ st with mode := .comment 0 }, [])
  | .rawText => rawStep { st with buf := c :: st.buf } c
  | .rawLt =>
    if c == 47 then ({ st with mode := .rawEnd 0, buf := c :: st.buf }, [])
    else rawStep { st with buf := c :: st.buf } c
  | .rawEnd i =>
    if i < st.rtag.length then
      if matchCI st.rtag i c then ({ st with mode := .rawEnd (i + 1), buf := c :: st.buf }, [])
      else rawStep { st with buf := c :: st.buf } c
    else if isTagEnd c then rawEndFound st c
    else rawStep { st with buf := c :: st.buf } c
  | .plaintext => ({ st with buf := c :: st.buf }, [])
  | .script s => scriptStep { st with buf := c :: st.buf } s c

/-- Is the token in progress delivered as a text token when the input ends or the buffer limit is
hit?  Its raw bytes so far (reversed). -/
def pendingText (st : TState) : Option (Bytes × Bool) :=
  match st.mode with
  | .text => some (st.buf, false)
  | .textLt => some (60 :: st.buf, false)
  | .endOpen => some ([47, 60], false)
  | .rawText | .rawLt | .rawEnd _ | .plaintext | .script _ => some (st.buf, true)
  | _ => none

/-- Tokens delivered after the last byte when the tokenizer stops in state `st`; `extra` is the byte
consumed by the failing `readByte` (buffer limit), if any. -/
def flush (st : TState) (extra : Bytes) : List Tok :=
  match pendingText st with
  | some (rev, raw) => if raw then rawTextTok (extra ++ rev) else textTok (extra ++ rev)
  | none =>
    match st.mode with
    | .md0 | .md1 _ | .doctypeMatch _ | .comment _ | .commentBang => [.comment]
    | .doctypeWs => [.doctype]
    | .untilGt d => [if d then .doctype else .comment]
    | _ => []

inductive TEnd | eof | exceeded
deriving DecidableEq, Repr

/-- Run the tokenizer from state `st` over the rest of the input. -/
def run (maxBuf : Nat) : TState → Bytes → List Tok × TEnd
  | st, [] => (flush st [], .eof)
  | st, c :: cs =>
    if maxBuf > 0 ∧ st.n + 1 ≥ maxBuf then (flush st [c], .exceeded)
    else
      let r := step st c
      let r2 := run maxBuf r.1 cs
      (r.2 ++ r2.1, r2.2)

/-- All tokens of a document, as `decodeToWriter` sees them (`SetMaxBuf(elementSizeLimit)`). -/
def tokenize (doc : Bytes) : List Tok × TEnd := run elementSizeLimit TState.fresh doc

/-! ## Decoder -/

/-- `isASCIIWhitespace` -/
def isASCIIWhitespace (b : UInt8) : Bool := b == 9 || b == 10 || b == 12 || b == 13 || b == 32

/-- `bufio.Scanner` with `splitASCIIWhitespace` over one text: the maximal runs of non-whitespace. -/
def splitWords : Bytes → Bytes → List Bytes
  | [], cur => if cur.isEmpty then [] else [cur.reverse]
  | c :: r, cur =>
    if isASCIIWhitespace c then (if cur.isEmpty then splitWords r [] else cur.reverse :: splitWords r [])
    else splitWords r (c :: cur)

def words (t : Bytes) : List Bytes := splitWords t []

inductive Err
  | eof                       -- io.EOF from NewArmorDecoder: the document has no armor text at all
  | unknownVersion (b : UInt8)
  | missingPre                -- "missing </pre> tag"
  | nestedPre                 -- "unexpected <pre>"
  | strayPre                  -- "unexpected </pre>"
  | bufExceeded               -- html.ErrBufferExceeded ("max buffer exceeded")
  | corrupt                   -- base64.CorruptInputError
  | unexpectedEOF             -- io.ErrUnexpectedEOF (base64 text ends inside a quantum)
deriving DecidableEq, Repr

/-- `decodeToWriter`'s loop over the tokens: the words written to the pipe, in order, and the error
it returns (`none` = nil). -/
def scan : Bool → List Tok → TEnd → List Bytes × Option Err
  | active, [], .eof => ([], if active then some .missingPre else none)
  | _, [], .exceeded => ([], some .bufExceeded)
  | active, .text t :: r, e =>
    if active then let s := scan active r e; (words t ++ s.1, s.2) else scan active r e
  | active, .startTag nm :: r, e =>
    if nm == preName then (if active then ([], some .nestedPre) else scan true r e) else scan active r e
  | active, .endTag nm :: r, e =>
    if nm == preName then (if !active then ([], some .strayPre) else scan false r e) else scan active r e
  | active, _ :: r, e => scan active r e

def errCode : Err → Nat
  | .missingPre => 1 | .nestedPre => 2 | .strayPre => 3 | .bufExceeded => 4 | _ => 0

def ofB64Err : Base64.Err → Err
  | .eof => .eof
  | .unexpectedEOF => .unexpectedEOF
  | .corrupt => .corrupt
  | .other 1 => .missingPre
  | .other 2 => .nestedPre
  | .other 3 => .strayPre
  | .other _ => .bufExceeded

/-- What the pipe reader sees: the words, then `CloseWithError(err)` (nil becomes `io.EOF`). -/
def pipeSrc (ws : List Bytes) (err : Option Err) : Base64.Src :=
  { chunks := ws.filter (fun w => !w.isEmpty),
    fin := match err with | none => .eof | some e => .other (errCode e) }

inductive Result
  | initErr (e : Err)                        -- NewArmorDecoder returned (nil, e)
  | read (out : Bytes) (e : Option Err)      -- bytes read from the decoder; `none` = clean io.EOF
deriving DecidableEq, Repr

/-- `NewArmorDecoder` on the pipe fed by `decodeToWriter`, then the returned reader read to its end
with buffer sizes `sizes`. -/
def openAndRead (sizes : Nat → Nat) (ws : List Bytes) (err : Option Err) : Result :=
  match ws with
  | [] => .initErr (err.getD .eof)
  | [] :: _ => .initErr .eof      -- unreachable: words are never empty
  | (v :: w) :: rest =>
    if v != 48 then .initErr (.unknownVersion v)
    else
      let r := Base64.streamDecode Base64.std sizes (pipeSrc (w :: rest) err)
      match r.2 with
      | some .eof => .read r.1 none
      | some e => .read r.1 (some (ofB64Err e))
      | none => .read r.1 (some .eof)   -- unreachable (fuel)

/-- The whole decoder on a document delivered by a reader that obeys the `io.Reader` contract. -/
def decode (sizes : Nat → Nat) (doc : Bytes) : Result :=
  let t := tokenize doc
  let s := scan false t.1 t.2
  openAndRead sizes s.1 s.2

end Snowflake.Amp
