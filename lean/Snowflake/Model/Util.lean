import Snowflake.Base.IP
/-!
Model of `common/util/util.go`: `IsLocal` (arithmetic / interval form) and the candidate filter of
`StripLocalAddresses` (C08), and its application to the description that leaves the process
(`leaves`).  Core-only, executable.

pion's SDP parser / marshaller and `ice.UnmarshalCandidate` are **not** modelled: what they report about
an attribute enters through the parameter `view : α → CandInfo` (trusted base).
-/
namespace Snowflake.Util
open Snowflake.GoStr Snowflake.IP

/-- `util.IsLocal`, intervals instead of masks: RFC 1918, RFC 6598 (100.64/10), RFC 3927 (169.254/16)
on the IPv4 form (`To4`: 4 bytes or IPv4-mapped 16 bytes), RFC 4193 (`fc00::/7`) on any other 16-byte
address; every other slice is not local. -/
def isLocal (ip : Str) : Bool :=
  match to4 ip with
  | some ip4 =>
    let a := (idx ip4 0).toNat
    let b := (idx ip4 1).toNat
    a == 10 || (a == 172 && (16 ≤ b && b ≤ 31)) || (a == 192 && b == 168)
      || (a == 100 && (64 ≤ b && b ≤ 127)) || (a == 169 && b == 254)
  | none => ip.length == 16 && (252 ≤ (idx ip 0).toNat && (idx ip 0).toNat ≤ 253)

/-- What pion reports about one SDP attribute. -/
structure CandInfo where
  /-- `a.IsICECandidate()` (the key is `candidate`) -/
  isCandidate : Bool
  /-- `ice.UnmarshalCandidate(a.Value)` returned no error -/
  parsesOK : Bool
  /-- `c.Type() == ice.CandidateTypeHost` -/
  isHost : Bool
  /-- `c.Address()` (text) -/
  addr : Str
deriving DecidableEq, Repr

/-- The filter loop over one media section's attributes, as written (`acc` is `attrs`):
```go
for _, a := range m.Attributes {
    if a.IsICECandidate() {
        c, err := ice.UnmarshalCandidate(a.Value)
        if err == nil && c.Type() == ice.CandidateTypeHost {
            ip := net.ParseIP(c.Address())
            if ip != nil && (IsLocal(ip) || ip.IsUnspecified() || ip.IsLoopback()) {
                continue
            }
        }
    }
    attrs = append(attrs, a)
}
``` -/
def stripLoop {α : Type} (view : α → CandInfo) : List α → List α → List α
  | acc, [] => acc
  | acc, a :: rest =>
    let i := view a
    if i.isCandidate then
      if i.parsesOK && i.isHost then
        match parseIP i.addr with
        | some ip =>
          if isLocal ip || isUnspecified ip || isLoopback ip then stripLoop view acc rest
          else stripLoop view (acc ++ [a]) rest
        | none => stripLoop view (acc ++ [a]) rest
      else stripLoop view (acc ++ [a]) rest
    else stripLoop view (acc ++ [a]) rest

/-- `attrs := make([]sdp.Attribute, 0); for …; m.Attributes = attrs` -/
def strip {α : Type} (view : α → CandInfo) (attrs : List α) : List α := stripLoop view [] attrs

/-- A parsed description as far as `StripLocalAddresses` is concerned: `session` is everything before the
first `m=` line, `other` everything of a media section except its attributes. -/
structure Media (α μ : Type) where
  other : μ
  attrs : List α

structure Sdp (α μ σ : Type) where
  session : σ
  media : List (Media α μ)

/-- the loop over `desc.MediaDescriptions` -/
def stripSdp {α μ σ : Type} (view : α → CandInfo) (d : Sdp α μ σ) : Sdp α μ σ :=
  { d with media := d.media.map fun m => { m with attrs := strip view m.attrs } }

/-- A session description as `Negotiate` / `sendAnswer` see it: `webrtc.SessionDescription{Type, SDP}`
with the SDP text in parsed form. -/
structure Desc (τ α μ σ : Type) where
  type : τ
  sdp : Sdp α μ σ

/-- **What leaves the process** (C08, last clause).  Both `(*BrokerChannel).Negotiate`
(client/lib/rendezvous.go) and `(*SignalingServer).sendAnswer` (proxy/lib/snowflake.go) do, before the
description is serialised into the poll / answer request:
```go
if !x.keepLocalAddresses {
    d = &webrtc.SessionDescription{Type: d.Type, SDP: util.StripLocalAddresses(d.SDP)}
}
… util.SerializeSessionDescription(d) …
```
There is no other branch: in particular no fall-back to the unstripped description when stripping
leaves no candidate at all. -/
def leaves {τ α μ σ : Type} (view : α → CandInfo) (keep : Bool) (d : Desc τ α μ σ) : Desc τ α μ σ :=
  if !keep then { type := d.type, sdp := stripSdp view d.sdp } else d

end Snowflake.Util
