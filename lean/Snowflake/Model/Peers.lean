import Snowflake.Base.TotalMap
/-
Model of the client's peer pool (C15): `/repo/client/lib/peers.go` (`Peers.Collect`, `Pop`, `End`,
`Count`, `purgeClosedPeers`, `Melted`), the collection loop `connectLoop` and `SnowflakeConn.Close`
of `client/lib/snowflake.go`, and the outcome structure of peer construction
(`NewWebRTCPeerWithEvents` / `connect` / `preparePeerConnection` of `client/lib/webrtc.go`).

An interleaving LTS over total maps.  Threads: any number of goroutines calling `Collect` (either
directly or as `connectLoop`), any number calling `Pop`, any number calling `End`
(= `SnowflakeConn.Close`), peers closing on their own, and the public `Count`.

Atomic labels: `collectLock`-protected sections that contain no blocking operation are one label
(`cCheck` = melt check + `Count` with purge + capacity check; `eCrit` = `close(snowflakeChan)` +
`Count` + closing every active peer).  The per-peer `closed` flags are read by those sections while
peers may close concurrently; closing is monotone and commutes with every other label, so reading
all flags at one instant is a sound abstraction.  Blocking operations are their own labels:
`Lock()`, `Tongue.Catch()` (environment outcome), the hand-over send, the channel receive of `Pop`.

`Fix` selects, per defect, the pinned or the repaired behaviour:
* `f8`  — `End` runs its body under a `sync.Once` (pinned: unguarded `close(p.melt)`),
* `f9`  — the hand-over send of `Collect` is a `select` with a `<-p.melt` arm (pinned: plain send
          while holding `collectLock`),
* `f10` — `connect` checks the error of `preparePeerConnection` before it touches `c.pc`
          (pinned: `c.pc.LocalDescription()` first, nil dereference when `NewPeerConnection` failed).

Core-only, executable (`step` is used by `sfdriver`).
-/
namespace Snowflake.Peers
open Snowflake.TotalMap

structure Fix where
  f8 : Bool
  f9 : Bool
  f10 : Bool
deriving DecidableEq, Repr

def Fix.pinned : Fix := ⟨false, false, false⟩
def Fix.all : Fix := ⟨true, true, true⟩

/-! ## Peer construction (`webrtc.go`) -/

/-- How the environment lets one peer construction go: the step that fails, or none. -/
inductive CatchEnv
  | pcFail      -- `api.NewPeerConnection(*config)` fails (unusable ICE configuration); `c.pc` is nil
  | dcFail      -- `CreateDataChannel` fails
  | offerFail   -- `CreateOffer` / `SetLocalDescription` fails
  | brokerFail  -- `broker.Negotiate`: unreachable, refusing, malformed answer
  | sdpFail     -- `SetRemoteDescription(*answer)` fails
  | dcTimeout   -- data channel does not open within `DataChannelTimeout`
  | ok
deriving DecidableEq, Repr

inductive Outcome | ok | err | panic
deriving DecidableEq, Repr

/-- `preparePeerConnection`: (`c.pc` is nil afterwards, an error is returned). -/
def prepare : CatchEnv → Bool × Bool
  | .pcFail => (true, true)
  | .dcFail => (false, true)
  | .offerFail => (false, true)
  | _ => (false, false)

/-- `connect` after the error check: `Negotiate`, `SetRemoteDescription`, wait for `open`. -/
def afterPrepare : CatchEnv → Outcome
  | .brokerFail => .err
  | .sdpFail => .err
  | .dcTimeout => .err
  | _ => .ok

/-- `WebRTCPeer.connect`.  Pinned order: `err := preparePeerConnection`; `c.pc.LocalDescription()`;
`if err != nil { return err }`.  Repaired order: the error check comes first. -/
def connect (f10 : Bool) (e : CatchEnv) : Outcome :=
  let (pcNil, perr) := prepare e
  if f10 then
    if perr then .err else afterPrepare e
  else
    if pcNil then .panic           -- nil pointer dereference in `(*PeerConnection).LocalDescription`
    else if perr then .err else afterPrepare e

/-! ## State -/

/-- Return value of `Collect`. -/
inductive Res
  | ok (p : Nat)   -- the new peer
  | melted         -- "Snowflakes have melted"
  | capacity       -- "At capacity [n/max]"
  | catchErr       -- the error of `Tongue.Catch`
  | panicked       -- a panic unwound through `Collect` (deferred `Unlock` ran)
deriving DecidableEq, Repr

/-- Program counter of a goroutine calling `Collect` (possibly as `connectLoop`). -/
inductive CPC
  | absent
  | wantLock            -- at `p.collectLock.Lock()`
  | locked              -- holds the lock; melt check, `Count()`, capacity check
  | catching            -- holds the lock; `p.Tongue.Catch()` in flight
  | sending (p : Nat)   -- holds the lock; `PushBack` done; at the hand-over send
  | ret (r : Res)       -- `Collect` returned (lock released); `connectLoop`: at its `select`
  | stopped             -- `connectLoop` returned ("ConnectLoop: stopped.")
deriving DecidableEq, Repr

/-- Program counter of a goroutine calling `Pop`. -/
inductive PPC
  | absent
  | recv               -- at `<-p.snowflakeChan`
  | check (p : Nat)    -- received `p`, before `snowflake.Closed()`
  | got (p : Nat)      -- `Pop` returned `p`
  | gotNil             -- `Pop` returned nil (channel closed and drained)
deriving DecidableEq, Repr

/-- Program counter of a goroutine calling `End`. -/
inductive EPC
  | absent
  | closeMelt          -- before `close(p.melt)`
  | wantLock           -- at `p.collectLock.Lock()`
  | locked             -- holds the lock; `close(p.snowflakeChan)`, close all peers
  | waitOnce           -- (f8) inside `Once.Do` waiting for the first caller to finish
  | done               -- `End` returned
  | panicked           -- `End` panicked
deriving DecidableEq, Repr

inductive Owner
  | col (c : Nat)
  | fin (e : Nat)
deriving DecidableEq, Repr

inductive OnceSt
  | fresh
  | running (e : Nat)
  | complete
deriving DecidableEq, Repr

inductive Panic
  | closeClosedMelt    -- close of closed channel (`p.melt`)
  | closeClosedChan    -- close of closed channel (`p.snowflakeChan`)
  | sendOnClosed       -- send on closed channel
  | nilDeref           -- invalid memory address or nil pointer dereference (`connect`)
deriving DecidableEq, Repr

structure St where
  /-- buffer of `snowflakeChan` (capacity `max`), oldest first; may hold peers that have closed -/
  chan : List Nat
  chanClosed : Bool
  /-- `activePeers` -/
  active : List Nat
  /-- per-peer `closed` channel closed? -/
  closedP : Nat → Bool
  /-- `melt` closed? -/
  melt : Bool
  /-- holder of `collectLock` -/
  lock : Option Owner
  /-- the `sync.Once` of the repaired `End` -/
  once : OnceSt
  /-- number of peers constructed so far (peer ids are `0 … next-1`) -/
  next : Nat
  col : Nat → CPC
  pop : Nat → PPC
  ends : Nat → EPC
  /-- first panic, if any (in the real client: the process dies) -/
  panic : Option Panic
  /-- ghost: peers handed over by `Pop`, with their `closed` flag at the hand-over check -/
  handed : List (Nat × Bool)
  /-- ghost: number of `Catch` calls started -/
  catches : Nat
  /-- ghost: some `End` has returned -/
  endDone : Bool

def init : St :=
  { chan := [], chanClosed := false, active := [], closedP := fun _ => false, melt := false,
    lock := none, once := .fresh, next := 0, col := fun _ => .absent, pop := fun _ => .absent,
    ends := fun _ => .absent, panic := none, handed := [], catches := 0, endDone := false }

inductive Lab
  | cCall (c : Nat)                 -- `Collect()` is called
  | cLock (c : Nat)                 -- `collectLock.Lock()` succeeds
  | cCheck (c : Nat)                -- melt check, `Count()` (purge), capacity check
  | cCatch (c : Nat) (e : CatchEnv) -- `Catch()` returns (environment outcome `e`); `PushBack` on success
  | cSend (c : Nat)                 -- `snowflakeChan <- connection` completes; return
  | cMeltArm (c : Nat)              -- (f9) the `<-p.melt` arm of the hand-over `select`; return
  | lTimer (c : Nat)                -- `connectLoop`: `<-timer`, next iteration calls `Collect`
  | lMelted (c : Nat)               -- `connectLoop`: `<-snowflakes.Melted()`, return
  | pCall (q : Nat)                 -- `Pop()` is called
  | pRecv (q : Nat)                 -- `<-p.snowflakeChan` yields a value or "closed"
  | pCheck (q : Nat)                -- `snowflake.Closed()`: skip or return it
  | pAgain (q : Nat)                -- the consumer calls `Pop()` again (redial)
  | eCall (e : Nat)                 -- `End()` is called (f8: the `Once.Do` decision)
  | eMelt (e : Nat)                 -- `close(p.melt)`
  | eLock (e : Nat)                 -- `collectLock.Lock()` succeeds
  | eCrit (e : Nat)                 -- `close(p.snowflakeChan)`, close every active peer, unlock
  | eOnce (e : Nat)                 -- (f8) `Once.Do` returns for a later caller
  | peerClose (p : Nat)             -- peer `p` closes on its own (staleness, remote close)
  | count                           -- public `Count()`: purge
deriving DecidableEq, Repr

/-- `purgeClosedPeers` -/
def purge (closedP : Nat → Bool) (active : List Nat) : List Nat := active.filter (fun p => !closedP p)

def setPanic (s : St) (k : Panic) : Option Panic := match s.panic with | some x => some x | none => some k

def step (fx : Fix) (max : Nat) (s : St) : Lab → Option St
  | .cCall c => if s.col c = .absent then some { s with col := upd s.col c .wantLock } else none
  | .cLock c =>
    if s.col c = .wantLock ∧ s.lock = none then
      some { s with col := upd s.col c .locked, lock := some (.col c) } else none
  | .cCheck c =>
    if s.col c = .locked then
      if s.melt then some { s with col := upd s.col c (.ret .melted), lock := none }
      else if (purge s.closedP s.active).length ≥ max then
        some { s with active := purge s.closedP s.active, col := upd s.col c (.ret .capacity), lock := none }
      else
        some { s with active := purge s.closedP s.active, col := upd s.col c .catching, catches := s.catches + 1 }
    else none
  | .cCatch c e =>
    if s.col c = .catching then
      match connect fx.f10 e with
      | .ok => some { s with active := s.active ++ [s.next], next := s.next + 1, col := upd s.col c (.sending s.next) }
      | .err => some { s with col := upd s.col c (.ret .catchErr), lock := none }
      | .panic => some { s with col := upd s.col c (.ret .panicked), lock := none, panic := setPanic s .nilDeref }
    else none
  | .cSend c =>
    match s.col c with
    | .sending p =>
      if s.chanClosed then
        some { s with col := upd s.col c (.ret .panicked), lock := none, panic := setPanic s .sendOnClosed }
      else if s.chan.length < max then
        some { s with chan := s.chan ++ [p], col := upd s.col c (.ret (.ok p)), lock := none }
      else none
    | _ => none
  | .cMeltArm c =>
    match s.col c with
    | .sending _ =>
      if fx.f9 ∧ s.melt then some { s with col := upd s.col c (.ret .melted), lock := none } else none
    | _ => none
  | .lTimer c =>
    match s.col c with
    | .ret _ => some { s with col := upd s.col c .wantLock }
    | _ => none
  | .lMelted c =>
    match s.col c with
    | .ret _ => if s.melt then some { s with col := upd s.col c .stopped } else none
    | _ => none
  | .pCall q => if s.pop q = .absent then some { s with pop := upd s.pop q .recv } else none
  | .pRecv q =>
    if s.pop q = .recv then
      match s.chan with
      | p :: rest => some { s with chan := rest, pop := upd s.pop q (.check p) }
      | [] => if s.chanClosed then some { s with pop := upd s.pop q .gotNil } else none
    else none
  | .pCheck q =>
    match s.pop q with
    | .check p =>
      if s.closedP p then some { s with pop := upd s.pop q .recv }
      else some { s with pop := upd s.pop q (.got p), handed := (p, s.closedP p) :: s.handed }
    | _ => none
  | .pAgain q =>
    match s.pop q with
    | .got _ => some { s with pop := upd s.pop q .recv }
    | .gotNil => some { s with pop := upd s.pop q .recv }
    | _ => none
  | .eCall e =>
    if s.ends e = .absent then
      if fx.f8 then
        match s.once with
        | .fresh => some { s with once := .running e, ends := upd s.ends e .closeMelt }
        | .running _ => some { s with ends := upd s.ends e .waitOnce }
        | .complete => some { s with ends := upd s.ends e .done }
      else some { s with ends := upd s.ends e .closeMelt }
    else none
  | .eMelt e =>
    if s.ends e = .closeMelt then
      if s.melt then some { s with ends := upd s.ends e .panicked, panic := setPanic s .closeClosedMelt }
      else some { s with melt := true, ends := upd s.ends e .wantLock }
    else none
  | .eLock e =>
    if s.ends e = .wantLock ∧ s.lock = none then
      some { s with ends := upd s.ends e .locked, lock := some (.fin e) } else none
  | .eCrit e =>
    if s.ends e = .locked then
      if s.chanClosed then
        some { s with ends := upd s.ends e .panicked, lock := none, panic := setPanic s .closeClosedChan }
      else
        some { s with chanClosed := true, closedP := fun p => s.closedP p || s.active.contains p, active := [],
                      ends := upd s.ends e .done, lock := none,
                      once := if fx.f8 then .complete else s.once, endDone := true }
    else none
  | .eOnce e =>
    if s.ends e = .waitOnce ∧ s.once = .complete then some { s with ends := upd s.ends e .done } else none
  | .peerClose p => if p < s.next then some { s with closedP := upd s.closedP p true } else none
  | .count => some { s with active := purge s.closedP s.active }

abbrev run (fx : Fix) (max : Nat) : St → List Lab → Option St := runL (step fx max)

abbrev Reachable (fx : Fix) (max : Nat) : St → Prop := Reach (step fx max) init

/-- peers that are held and still open -/
def live (s : St) : List Nat := s.active.filter (fun p => !s.closedP p)

/-- `End` thread has been called and has not returned -/
def EPC.pending : EPC → Bool
  | .closeMelt => true | .wantLock => true | .locked => true | .waitOnce => true | _ => false

/-- Labels that take something out of the hand-over channel. -/
def Lab.isPop : Lab → Bool
  | .pCall _ => true | .pRecv _ => true | .pCheck _ => true | .pAgain _ => true | _ => false

def Lab.isCatch : Lab → Bool
  | .cCatch _ _ => true | _ => false

/-! ## Sequential scripts (used by `sfdriver`; the real harness runs the same scripts)

One script = a list of operations issued one after the other by a driver.  Every operation runs in
its own thread (thread id = operation index); after issuing it the system runs until no thread can
move ("settle").  A thread that cannot finish is `blocked`; it may finish later, while a subsequent
operation settles.  Lock waiters are served in arrival order (Go's mutex hands over FIFO to waiters
older than 1 ms), which is the only scheduling choice that can influence the observable outcome of
such a script. -/

inductive Op
  | collect
  | pop
  | closePeer (i : Nat)
  | endOp
  | count
deriving DecidableEq, Repr

/-- The labels a thread of the given kind might take next (first enabled one is taken).  The
outcome of the `k`-th `Catch` call of the script is `envs[k]` (`ok` when the list is exhausted):
`Catch` calls are totally ordered because they happen under `collectLock`. -/
def candidates (envs : List CatchEnv) (s : St) (i : Nat) : Op → List Lab
  | .collect => [.cLock i, .cCheck i, .cCatch i (envs.getD (s.catches - 1) .ok), .cSend i, .cMeltArm i]
  | .pop => [.pRecv i, .pCheck i]
  | .endOp => [.eMelt i, .eLock i, .eCrit i, .eOnce i]
  | _ => []

def firstEnabled (fx : Fix) (max : Nat) (s : St) : List Lab → Option St
  | [] => none
  | l :: ls => match step fx max s l with
    | some s' => some s'
    | none => firstEnabled fx max s ls

/-- One step of the lowest-numbered thread that can move. -/
def settleOne (fx : Fix) (max : Nat) (envs : List CatchEnv) (s : St) : List (Nat × Op) → Option St
  | [] => none
  | (i, op) :: rest => match firstEnabled fx max s (candidates envs s i op) with
    | some s' => some s'
    | none => settleOne fx max envs s rest

def settle (fx : Fix) (max : Nat) (envs : List CatchEnv) (threads : List (Nat × Op)) : Nat → St → St
  | 0, s => s
  | fuel + 1, s => match settleOne fx max envs s threads with
    | some s' => settle fx max envs threads fuel s'
    | none => s

/-- Canonical outcome of operation `i` in state `s` (`none` = not finished). -/
def outcome (s : St) (i : Nat) : Op → Option String
  | .collect => match s.col i with
    | .ret (.ok p) => some s!"ok{p}"
    | .ret .melted => some "err-melted"
    | .ret .capacity => some "err-capacity"
    | .ret .catchErr => some "err-catch"
    | .ret .panicked => some "panic"
    | _ => none
  | .pop => match s.pop i with
    | .got p => some s!"p{p}"
    | .gotNil => some "nil"
    | _ => none
  | .endOp => match s.ends i with
    | .done => some "ok"
    | .panicked => some "panic"
    | _ => none
  | .closePeer p => some (if p < s.next then "closed" else "none")
  | .count => some s!"n{(purge s.closedP s.active).length}"

/-- The label that issues operation `i`. -/
def issue (i : Nat) : Op → Lab
  | .collect => .cCall i
  | .pop => .pCall i
  | .endOp => .eCall i
  | .closePeer p => .peerClose p
  | .count => .count

/-- Results so far: per operation `none` (still blocked) or `(finishedDuringOp, outcome)`. -/
abbrev Results := List (Option (Nat × String))

def runScriptAux (fx : Fix) (max : Nat) (envs : List CatchEnv) (all : List (Nat × Op)) :
    List (Nat × Op) → List (Nat × Op) → St → Results → St × Results
  | [], _, s, res => (s, res)
  | (k, op) :: todo, issued, s, res =>
    let issued' := issued ++ [(k, op)]
    -- `closePeer` of a peer that does not exist and a disabled issue leave the state unchanged
    let s1 := (step fx max s (issue k op)).getD s
    -- the outcome of `count`/`closePeer` is read before anything else moves
    let res0 := (all.zip res).map fun ((i, o), r) =>
      match r with
      | some x => some x
      | none => if i = k then (match o with
          | .count => (outcome s i o).map (fun x => (k, x))
          | .closePeer _ => (outcome s i o).map (fun x => (k, x))
          | _ => none) else none
    let s2 := settle fx max envs issued' (40 * (all.length + 2)) s1
    let res' := (all.zip res0).map fun ((i, o), r) =>
      match r with
      | some x => some x
      | none => if i ≤ k then (outcome s2 i o).map (fun x => (k, x)) else none
    runScriptAux fx max envs all todo issued' s2 res'

/-- Run a script; result per operation: `o` (finished when issued), `blocked>k:o` (was blocked,
finished while operation `k` settled), `blocked` (never finished). -/
def runScript (fx : Fix) (max : Nat) (envs : List CatchEnv) (ops : List Op) : List String :=
  let idx := (List.range ops.length).zip ops
  let (_, res) := runScriptAux fx max envs idx idx [] init (ops.map fun _ => none)
  (idx.zip res).map fun ((i, _), r) =>
    match r with
    | none => "blocked"
    | some (k, o) => if k = i then o else s!"blocked>{k}:{o}"

end Snowflake.Peers
