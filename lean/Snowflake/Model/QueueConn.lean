import Snowflake.Model.ClientMap
/-!
Functional model of `common/turbotunnel/queuepacketconn.go` (`QueuePacketConn`) over immutable byte
lists.

* `recvQueue chan taggedPacket` (capacity `queueSize`) is the list `recvQ` of `(packet, addr)`;
  `clients` is the `clientMapInner` model (the `ClientMap` lock makes every `SendQueue` call atomic;
  its clock is an explicit argument of the operations that call `SendQueue`).
* `closed`/`err`/`closeOnce` are `closed : Bool` and `err : Option Err` (set exactly once).
* Every operation is a total function: there is no "blocked" outcome for `QueueIncoming`, `WriteTo`,
  `OutgoingQueue`, `Close`; `ReadFrom` has the explicit outcome `wouldBlock` (empty queue, not closed),
  the only place where the Go code waits.
* Aliasing: packets are *values*.  `QueueIncoming(p, addr)` / `WriteTo(p, addr)` store the value `p`
  has at call time (`buf := make([]byte, len(p)); copy(buf, p)`); `ReadFrom(buf)` returns
  `copy(buf, packet)` = the first `min (len buf) (len packet)` bytes.  The harness checks the real
  code against this by overwriting the caller's buffer after every call.
-/
namespace Snowflake.QueueConn
open Snowflake Snowflake.ClientMap

/-- The error stored by `closeWithError`: `errClosedPacketConn` or the caller's error (numbered). -/
inductive Err where
  | closedConn
  | custom (n : Nat)
deriving DecidableEq, Repr

structure St where
  recvQ : List (Bytes × Nat)
  clients : Inner
  closed : Bool
  err : Option Err

def init : St := ⟨[], ClientMap.empty, false, none⟩

/-- `c.err.Load().(error)` -/
def St.theErr (s : St) : Err := s.err.getD .closedConn

/-- `QueueIncoming(p, addr)`: dropped silently when closed; copy; non-blocking send, dropped when the
receive queue is full. -/
def queueIncoming (s : St) (p : Bytes) (addr : Nat) : St :=
  if s.closed then s
  else if s.recvQ.length < queueSize then { s with recvQ := s.recvQ ++ [(p, addr)] }
  else s

inductive WriteRes where
  | ok (n : Nat)
  | err (e : Err)
deriving DecidableEq, Repr

/-- `WriteTo(p, addr)`: error when closed; copy; `SendQueue(addr)` (creates/refreshes the client
record even if the packet is then dropped); non-blocking send; always reports `len(p)`. -/
def writeTo (s : St) (p : Bytes) (addr : Nat) (now : Int) : St × WriteRes :=
  if s.closed then (s, .err s.theErr)
  else
    let c := sendQueue s.clients addr now
    ({ s with clients := (offer c addr p).1 }, .ok p.length)

inductive ReadRes where
  /-- `n` bytes `data` copied into the caller's buffer, source address `addr` -/
  | ok (data : Bytes) (addr : Nat)
  | err (e : Err)
  | wouldBlock
deriving DecidableEq, Repr

/-- `ReadFrom(buf)` with `len(buf) = buflen`: error when closed (checked first, even if packets are
queued); otherwise the oldest queued packet, truncated to the buffer; waits when there is none. -/
def readFrom (s : St) (buflen : Nat) : St × ReadRes :=
  if s.closed then (s, .err s.theErr)
  else
    match s.recvQ with
    | (p, a) :: rest => ({ s with recvQ := rest }, .ok (p.take buflen) a)
    | [] => (s, .wouldBlock)

/-- `OutgoingQueue(addr)` = `clients.SendQueue(addr)` (no closed check in the source), followed by the
consumer's non-blocking receive from the returned channel. -/
def takeOutgoing (s : St) (addr : Nat) (now : Int) : St × Option Bytes :=
  let c := sendQueue s.clients addr now
  let r := poll c addr
  ({ s with clients := r.1 }, r.2)

/-- `closeWithError(err)`: the first call stores the error (`errClosedPacketConn` if nil), closes
`closed` and returns nil (`none`); every later call returns an error wrapping the stored one and
changes nothing. -/
def closeWithError (s : St) (e : Option Err) : St × Option Err :=
  if s.closed then (s, some s.theErr)
  else ({ s with closed := true, err := some (e.getD .closedConn) }, none)

/-- `Close()` = `closeWithError(nil)`. -/
def close (s : St) : St × Option Err := closeWithError s none

/-! ## Operation sequences -/

inductive Op where
  | incoming (p : Bytes) (addr : Nat)
  | write (p : Bytes) (addr : Nat) (now : Int)
  | read (buflen : Nat)
  | out (addr : Nat) (now : Int)
  | close (e : Option Err)
deriving Repr

inductive Out where
  | none
  | write (r : WriteRes)
  | read (r : ReadRes)
  | out (p : Option Bytes)
  | close (r : Option Err)
deriving DecidableEq, Repr

def step (s : St) : Op → St × Out
  | .incoming p a => (queueIncoming s p a, .none)
  | .write p a t => let r := writeTo s p a t; (r.1, .write r.2)
  | .read n => let r := readFrom s n; (r.1, .read r.2)
  | .out a t => let r := takeOutgoing s a t; (r.1, .out r.2)
  | .close e => let r := closeWithError s e; (r.1, .close r.2)

/-- Run an operation sequence, collecting the outputs. -/
def run : St → List Op → St × List Out
  | s, [] => (s, [])
  | s, op :: ops =>
    let r := step s op
    let rest := run r.1 ops
    (rest.1, r.2 :: rest.2)

end Snowflake.QueueConn
