/-
Interleaving model of the broker's rendezvous core (C02, C03, C04):
/repo/broker/broker.go (Broker, RequestOffer, AddSnowflake), /repo/broker/ipc.go (ProxyPolls tail,
ClientOffers, matchSnowflake, ProxyAnswers), /repo/broker/snowflake-heap.go.

Threads: one HTTP handler per proxy poll (`h`), the per-poll waiter goroutine spawned by `Broker()`
(`w`), one handler per client poll, one handler per proxy answer.  Identity of a poll = its session
id (the property quantifies over pairwise distinct session ids; that is built in).  Every
lock-protected section is one atomic label: none of them contains a blocking operation (re-checked on
every run by the skeleton tie).  "Timer fired" and "critical section entered" are separate labels.
Unbuffered channels are rendezvous labels between two thread records.  Time is abstracted: a timer
label is enabled at any time after arming.

`fixed = false` is the originally pinned code.  `fixed = true` is the tree after the "fix:" commits:
  * the waiter, finding its snowflake already popped when its timer branch gets the lock, receives the
    offer the client is about to send and forwards it (instead of exiting);
  * the answer channel has capacity 1 and `ProxyAnswers` sends without blocking.

State is kept in total maps `Nat → record` with pointwise update; the lists `polls`, `clients`,
`answers` enumerate the ids that have arrived (for the finite quantifiers in guards and for printing).
-/
namespace Snowflake.Broker

/-- NAT type after decoding (`""` has already been defaulted to unknown by the decoder). -/
inductive NatT | unknown | restricted | unrestricted
deriving DecidableEq, Repr

/-- program counter of a proxy-poll HTTP handler (from `RequestOffer` on) -/
inductive HPC
  | absent
  | sendPolls                 -- at `ctx.proxyPolls <- request`
  | waitOffer                 -- at `<-request.offerChannel`
  | gotOffer (c : Nat)        -- received client c's offer; about to look up the bridge and reply
  | idle                      -- received nil (channel closed); about to reply "no match"
  | done
deriving DecidableEq, Repr

/-- program counter of the waiter goroutine of a poll -/
inductive WPC
  | none
  | select                    -- in `select { <-snowflake.offerChannel | <-time.After }`
  | forward (c : Nat)         -- holds c's offer, at `request.offerChannel <- offer`
  | timedOut                  -- timer arm taken, waiting for `snowflakeLock`
  | lateRecv                  -- (fixed only) snowflake was already popped: at `<-snowflake.offerChannel`
  | done
deriving DecidableEq, Repr

/-- what a client handler ends with -/
inductive CRes
  | none
  | answer (a : Nat)          -- the answer posted by answer request `a`
  | timedOut
  | denied                    -- "no snowflake proxies currently available"
  | noBridge                  -- fingerprint not in the bridge list (handler returns an error)
deriving DecidableEq, Repr

/-- program counter of a client handler (after decoding and fingerprint parsing) -/
inductive CPC
  | absent
  | start                     -- bridge known; at `matchSnowflake`
  | sendOffer (p : Nat)       -- popped p; at `snowflake.offerChannel <- offer`
  | waitAnswer (p : Nat)      -- in `select { <-snowflake.answerChannel | <-time.After }`
  | fin (p : Nat)             -- has its result; at the clean-up critical section
  | done
deriving DecidableEq, Repr

/-- program counter of a proxy-answer handler (after decoding) -/
inductive APC
  | absent
  | lookup                    -- at the locked map lookup
  | send (p : Nat)            -- found; at `snowflake.answerChannel <- answer`
  | done
deriving DecidableEq, Repr

/-- what a poll handler replies -/
inductive PRes
  | none
  | matched (c : Nat) (url : Nat)   -- client c's offer with relay URL `url`
  | idle
  | noBridge (c : Nat)              -- bridge disappeared between match and reply (handler error)
deriving DecidableEq, Repr

structure Sess where
  nat : NatT := .unknown
  clients : Nat := 0
  h : HPC := .absent
  w : WPC := .none
  inHeap : Bool := false      -- `snowflake.index != -1`
  heapU : Bool := false       -- which heap it was pushed on: true = `ctx.snowflakes` (unrestricted)
  inMap : Bool := false       -- `idToSnowflake[id]` present
  closed : Bool := false      -- `request.offerChannel` closed
  popBy : Option Nat := none  -- ghost: the client whose `matchSnowflake` popped it
  offerFrom : Option Nat := none  -- ghost: the client whose offer the waiter received
  abuf : Option Nat := none   -- (fixed only) content of the capacity-1 answer channel
  res : PRes := .none
deriving DecidableEq, Repr

structure Client where
  nat : NatT := .unknown
  fp : Nat := 0               -- requested bridge fingerprint (0 = the default bridge)
  pc : CPC := .absent
  res : CRes := .none
  sf : Option Nat := none     -- ghost: the poll its `matchSnowflake` popped
deriving DecidableEq, Repr

structure Ans where
  sid : Nat := 0
  pc : APC := .absent
  ok : Bool := false          -- the `Status` it replies ("success" iff the id was found)
deriving DecidableEq, Repr

structure St where
  ss : Nat → Sess
  cs : Nat → Client
  as : Nat → Ans
  polls : List Nat
  clients : List Nat
  answers : List Nat
  gauge : Int                 -- snowflake_available_proxies (sum over labels)
  bridge : Nat → Option Nat   -- bridge list: fingerprint ↦ relay URL (configuration, constant)

def upd {α} (m : Nat → α) (k : Nat) (v : α) : Nat → α := fun x => if x = k then v else m x

@[simp] theorem upd_same {α} (m : Nat → α) (k : Nat) (v : α) : upd m k v k = v := by simp [upd]
@[simp] theorem upd_ne {α} (m : Nat → α) (k : Nat) (v : α) (x : Nat) (h : x ≠ k) : upd m k v x = m x := by
  simp [upd, h]

def init (bridge : Nat → Option Nat) : St :=
  { ss := fun _ => {}, cs := fun _ => {}, as := fun _ => {}, polls := [], clients := [], answers := [],
    gauge := 0, bridge := bridge }

inductive Lab
  -- environment: requests arrive
  | pollArrive (p : Nat) (nat : NatT) (clients : Nat)
  | clientArrive (c : Nat) (nat : NatT) (fp : Nat)
  | ansArrive (a : Nat) (p : Nat)
  -- broker loop: receive the poll, AddSnowflake, spawn the waiter
  | add (p : Nat)
  -- waiter
  | wOffer (p c : Nat)        -- rendezvous on snowflake.offerChannel (waiter in select)
  | wTimer (p : Nat)          -- the proxy timeout fires
  | wCrit (p : Nat)           -- critical section of the timeout arm
  | wLate (p c : Nat)         -- (fixed) rendezvous on snowflake.offerChannel after the timeout
  | wFwd (p : Nat)            -- rendezvous on request.offerChannel
  -- poll handler
  | hIdle (p : Nat)           -- receives from the closed channel
  | hRespond (p : Nat)
  -- client handler
  | cReject (c : Nat)         -- GetBridgeInfo fails
  | cMatch (c p : Nat)        -- matchSnowflake pops p
  | cDeny (c : Nat)           -- matchSnowflake finds the pool empty
  | cAns (c a : Nat)          -- (pinned) rendezvous on snowflake.answerChannel
  | cRecv (c : Nat)           -- (fixed) receive from the buffered answer channel
  | cTimer (c : Nat)          -- the client timeout fires
  | cFin (c : Nat)            -- clean-up critical section, reply
  -- answer handler
  | aLookup (a : Nat)
  | aSend (a : Nat)           -- (fixed) non-blocking send into the buffered answer channel
deriving DecidableEq, Repr

/-- The heap a client of NAT type `n` is served from: unrestricted clients get the restricted/unknown
proxies (`heapU = false`), everyone else the unrestricted ones (`matchSnowflake`). -/
def wantU (n : NatT) : Bool := n != .unrestricted

/-- The heap a proxy of NAT type `n` is pushed on (`AddSnowflake`). -/
def pushU (n : NatT) : Bool := n == .unrestricted

/-- `p` waits in heap `u`. -/
def waiting (st : St) (u : Bool) (p : Nat) : Bool := (st.ss p).inHeap && (st.ss p).heapU == u

def step (fixed : Bool) (st : St) : Lab → Option St
  | .pollArrive p nat clients =>
    if (st.ss p).h = .absent ∧ p ∉ st.polls then
      some { st with ss := upd st.ss p { (st.ss p) with nat := nat, clients := clients, h := .sendPolls },
                     polls := st.polls ++ [p] }
    else none
  | .clientArrive c nat fp =>
    if (st.cs c).pc = .absent ∧ c ∉ st.clients then
      some { st with cs := upd st.cs c { (st.cs c) with nat := nat, fp := fp, pc := .start },
                     clients := st.clients ++ [c] }
    else none
  | .ansArrive a p =>
    if (st.as a).pc = .absent ∧ a ∉ st.answers then
      some { st with as := upd st.as a { (st.as a) with sid := p, pc := .lookup }, answers := st.answers ++ [a] }
    else none
  | .add p =>
    let s := st.ss p
    if s.h = .sendPolls then
      some { st with ss := upd st.ss p { s with h := .waitOffer, w := .select, inHeap := true,
                                                heapU := pushU s.nat, inMap := true },
                     gauge := st.gauge + 1 }
    else none
  | .wOffer p c =>
    let s := st.ss p
    if s.w = .select ∧ (st.cs c).pc = .sendOffer p then
      some { st with ss := upd st.ss p { s with w := .forward c, offerFrom := some c },
                     cs := upd st.cs c { (st.cs c) with pc := .waitAnswer p } }
    else none
  | .wTimer p =>
    let s := st.ss p
    if s.w = .select then some { st with ss := upd st.ss p { s with w := .timedOut } } else none
  | .wCrit p =>
    let s := st.ss p
    if s.w = .timedOut then
      if s.inHeap then
        some { st with ss := upd st.ss p { s with w := .done, inHeap := false, inMap := false, closed := true },
                       gauge := st.gauge - 1 }
      else if fixed then some { st with ss := upd st.ss p { s with w := .lateRecv } }
      else some { st with ss := upd st.ss p { s with w := .done } }
    else none
  | .wLate p c =>
    let s := st.ss p
    if fixed = true ∧ s.w = .lateRecv ∧ (st.cs c).pc = .sendOffer p then
      some { st with ss := upd st.ss p { s with w := .forward c, offerFrom := some c },
                     cs := upd st.cs c { (st.cs c) with pc := .waitAnswer p } }
    else none
  | .wFwd p =>
    let s := st.ss p
    match s.w with
    | .forward c =>
      if s.h = .waitOffer then some { st with ss := upd st.ss p { s with w := .done, h := .gotOffer c } } else none
    | _ => none
  | .hIdle p =>
    let s := st.ss p
    if s.h = .waitOffer ∧ s.closed = true then some { st with ss := upd st.ss p { s with h := .idle } } else none
  | .hRespond p =>
    let s := st.ss p
    match s.h with
    | .gotOffer c =>
      match st.bridge (st.cs c).fp with
      | some url => some { st with ss := upd st.ss p { s with h := .done, res := .matched c url } }
      | none => some { st with ss := upd st.ss p { s with h := .done, res := .noBridge c } }
    | .idle => some { st with ss := upd st.ss p { s with h := .done, res := .idle } }
    | _ => none
  | .cReject c =>
    let k := st.cs c
    if k.pc = .start ∧ st.bridge k.fp = none then
      some { st with cs := upd st.cs c { k with pc := .done, res := .noBridge } }
    else none
  | .cMatch c p =>
    let k := st.cs c
    let s := st.ss p
    if k.pc = .start ∧ (st.bridge k.fp).isSome ∧ waiting st (wantU k.nat) p = true
        ∧ st.polls.all (fun q => !(waiting st (wantU k.nat) q) || decide (s.clients ≤ (st.ss q).clients)) = true then
      some { st with ss := upd st.ss p { s with inHeap := false, popBy := some c },
                     cs := upd st.cs c { k with pc := .sendOffer p, sf := some p } }
    else none
  | .cDeny c =>
    let k := st.cs c
    if k.pc = .start ∧ (st.bridge k.fp).isSome ∧ st.polls.all (fun q => !(waiting st (wantU k.nat) q)) = true then
      some { st with cs := upd st.cs c { k with pc := .done, res := .denied } }
    else none
  | .cAns c a =>
    let k := st.cs c
    match k.pc with
    | .waitAnswer p =>
      if fixed = false ∧ (st.as a).pc = .send p then
        some { st with cs := upd st.cs c { k with pc := .fin p, res := .answer a },
                       as := upd st.as a { (st.as a) with pc := .done } }
      else none
    | _ => none
  | .cRecv c =>
    let k := st.cs c
    match k.pc with
    | .waitAnswer p =>
      match (st.ss p).abuf with
      | some a =>
        if fixed = true then
          some { st with cs := upd st.cs c { k with pc := .fin p, res := .answer a },
                         ss := upd st.ss p { (st.ss p) with abuf := none } }
        else none
      | none => none
    | _ => none
  | .cTimer c =>
    let k := st.cs c
    match k.pc with
    | .waitAnswer p => some { st with cs := upd st.cs c { k with pc := .fin p, res := .timedOut } }
    | _ => none
  | .cFin c =>
    let k := st.cs c
    match k.pc with
    | .fin p =>
      some { st with cs := upd st.cs c { k with pc := .done },
                     ss := upd st.ss p { (st.ss p) with inMap := false },
                     gauge := st.gauge - 1 }
    | _ => none
  | .aLookup a =>
    let r := st.as a
    if r.pc = .lookup then
      if (st.ss r.sid).inMap then some { st with as := upd st.as a { r with pc := .send r.sid, ok := true } }
      else some { st with as := upd st.as a { r with pc := .done, ok := false } }
    else none
  | .aSend a =>
    let r := st.as a
    match r.pc with
    | .send p =>
      if fixed = true then
        match (st.ss p).abuf with
        | none => some { st with as := upd st.as a { r with pc := .done },
                                 ss := upd st.ss p { (st.ss p) with abuf := some a } }
        | some _ => some { st with as := upd st.as a { r with pc := .done } }
      else none
    | _ => none

/-- Run a label sequence; `none` if some label is not enabled. -/
def runL (fixed : Bool) : St → List Lab → Option St
  | st, [] => some st
  | st, l :: ls =>
    match step fixed st l with
    | some st' => runL fixed st' ls
    | none => none

/-- Index of the first label that is not enabled (for trace validation). -/
def firstRejected (fixed : Bool) : St → List Lab → Nat → Option Nat
  | _, [], _ => none
  | st, l :: ls, i =>
    match step fixed st l with
    | some st' => firstRejected fixed st' ls (i + 1)
    | none => some i

/-- Environment labels (request arrivals). -/
def Lab.isEnv : Lab → Bool
  | .pollArrive .. | .clientArrive .. | .ansArrive .. => true
  | _ => false

/-- All system labels over the ids that have arrived (finite). -/
def sysLabels (st : St) : List Lab :=
  st.polls.flatMap (fun p =>
      [.add p, .wTimer p, .wCrit p, .wFwd p, .hIdle p, .hRespond p]
        ++ st.clients.flatMap (fun c => [Lab.wOffer p c, .wLate p c, .cMatch c p]))
    ++ st.clients.flatMap (fun c =>
      [.cReject c, .cDeny c, .cRecv c, .cTimer c, .cFin c] ++ st.answers.map (fun a => Lab.cAns c a))
    ++ st.answers.flatMap (fun a => [.aLookup a, .aSend a])

/-- System labels that are neither environment arrivals nor timer firings: what the system can do
"immediately". -/
def Lab.isTimer : Lab → Bool
  | .wTimer _ | .cTimer _ => true
  | _ => false

def enabledLabels (fixed : Bool) (st : St) : List Lab :=
  (sysLabels st).filter (fun l => (step fixed st l).isSome)

def pollUnfinished (st : St) (p : Nat) : Bool := (st.ss p).h != .absent && (st.ss p).h != .done
def clientUnfinished (st : St) (c : Nat) : Bool := (st.cs c).pc != .absent && (st.cs c).pc != .done
def ansUnfinished (st : St) (a : Nat) : Bool := (st.as a).pc != .absent && (st.as a).pc != .done

/-- Some request is unfinished but no system label (timers included) is enabled. -/
def deadlocked (fixed : Bool) (st : St) : Bool :=
  (enabledLabels fixed st).isEmpty &&
    (st.polls.any (pollUnfinished st) || st.clients.any (clientUnfinished st) || st.answers.any (ansUnfinished st))

end Snowflake.Broker
