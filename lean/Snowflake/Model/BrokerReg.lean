/-
Registration accounting of the broker with *arbitrary* session ids (C04, "no ghost proxies").  Core-only.

The main broker LTS (`Model/Broker.lean`) identifies a poll with its session id, i.e. it assumes the ids of
concurrent polls pairwise distinct.  A proxy may legally poll again under an id that is still in use.  This
reduced model drops that assumption and keeps only what the clause "once all requests have completed the broker
holds no leftover registrations" needs:

  * polls are numbered requests `p : Nat`, each with an arbitrary session id `sid p`;
  * `add p`        – `AddSnowflake`: push on a heap, gauge `Inc`, `idToSnowflake[sid p] = p` (overwriting);
  * `timeout p`    – the poll's timeout branch finds it still queued: `heap.Remove`, gauge `Dec`,
                     `delete(idToSnowflake, sid p)`;
  * `pop p`        – a client's `matchSnowflake` pops it;
  * `cleanup p`    – the end of that client's `ClientOffers` (answered or timed out): gauge `Dec`,
                     `delete(idToSnowflake, sid p)`.

The statement sites are pinned to the source by the skeleton ties of `Tie/Broker.lean`
(`skel_AddSnowflake_tie`, `skel_Broker_tie`, `skel_ClientOffers_tie`).
-/
namespace Snowflake.BrokerReg

inductive Phase
  | fresh      -- not registered yet
  | queued     -- in a heap
  | popped     -- claimed by a client whose request is still running
  | done
deriving DecidableEq, Repr

structure St where
  phase : Nat → Phase
  map : Nat → Option Nat        -- session id → poll (idToSnowflake)
  gauge : Int                   -- snowflake_available_proxies, summed over its labels

def init : St := ⟨fun _ => .fresh, fun _ => none, 0⟩

inductive Ev
  | add (p : Nat) | timeout (p : Nat) | pop (p : Nat) | cleanup (p : Nat)
deriving DecidableEq, Repr

def setPhase (f : Nat → Phase) (p : Nat) (x : Phase) : Nat → Phase := fun q => if q = p then x else f q
def setMap (m : Nat → Option Nat) (s : Nat) (x : Option Nat) : Nat → Option Nat := fun t => if t = s then x else m t

/-- one step; `none` = the event is not enabled in this state -/
def step (sid : Nat → Nat) (s : St) : Ev → Option St
  | .add p => if s.phase p = .fresh then
      some ⟨setPhase s.phase p .queued, setMap s.map (sid p) (some p), s.gauge + 1⟩ else none
  | .timeout p => if s.phase p = .queued then
      some ⟨setPhase s.phase p .done, setMap s.map (sid p) none, s.gauge - 1⟩ else none
  | .pop p => if s.phase p = .queued then
      some ⟨setPhase s.phase p .popped, s.map, s.gauge⟩ else none
  | .cleanup p => if s.phase p = .popped then
      some ⟨setPhase s.phase p .done, setMap s.map (sid p) none, s.gauge - 1⟩ else none

def run (sid : Nat → Nat) : St → List Ev → Option St
  | s, [] => some s
  | s, e :: es => match step sid s e with
    | some s' => run sid s' es
    | none => none

def live (x : Phase) : Bool := x == .queued || x == .popped

/-- number of polls below `n` that hold a registration -/
def liveCount (f : Nat → Phase) : Nat → Nat
  | 0 => 0
  | n + 1 => liveCount f n + (if live (f n) then 1 else 0)

/-- the invariant: polls at or above `n` are fresh; the gauge counts the live polls; the id map only names live polls -/
structure Inv (sid : Nat → Nat) (s : St) (n : Nat) : Prop where
  fresh_above : ∀ p, n ≤ p → s.phase p = .fresh
  gauge_eq : s.gauge = (liveCount s.phase n : Int)
  map_live : ∀ t p, s.map t = some p → live (s.phase p) = true
  map_sid : ∀ t p, s.map t = some p → sid p = t

theorem liveCount_set_above (f : Nat → Phase) (p : Nat) (x : Phase) : ∀ n, n ≤ p → liveCount (setPhase f p x) n = liveCount f n := by
  intro n
  induction n with
  | zero => intro _; rfl
  | succ n ih =>
    intro h
    have hn : n ≠ p := by omega
    simp only [liveCount, ih (by omega), setPhase, hn, if_false]

theorem liveCount_set (f : Nat → Phase) (p : Nat) (x : Phase) : ∀ n, p < n →
    (liveCount (setPhase f p x) n : Int) = liveCount f n - (if live (f p) then 1 else 0) + (if live x then 1 else 0) := by
  intro n
  induction n with
  | zero => intro h; omega
  | succ n ih =>
    intro h
    by_cases hnp : n = p
    · subst hnp
      simp only [liveCount, liveCount_set_above f n x n (Nat.le_refl n), setPhase, if_true]
      split <;> split <;> simp <;> omega
    · have : p < n := by omega
      simp only [liveCount, setPhase, hnp, if_false]
      have := ih this
      push_cast
      omega

end Snowflake.BrokerReg
