import Snowflake.Props.C05
import Snowflake.Model.Reasm
import Snowflake.Props.C09
/-!
# C01 — end-to-end byte stream exact and ordered across proxy churn  (proof-partial)

Snowflake's own code implements an *honest lossy datagram service per ClientID* over a sequence of
carriers; KCP + smux (third-party) turn such a service into a reliable ordered stream.  The second half
is reduced to two explicit hypotheses on the third-party layer (numbered-segment datagram codec,
retransmission until delivered) by the reassembly argument at the end of this file (`e2e_prefix_safe`,
`e2e_never_taken_back`, `e2e_exact_partial` over `Model/Reasm.lean`).  The first half is proved on
the models of the framing (`Encap`) and of the server's carrier layer (`Server`):

* `frames_prefix_closed` – a carrier cut after *any* byte offset (inside the preface is handled by the
  server model, inside a frame here) yields exactly the packets before the cut: never a partial,
  altered, merged or reordered one;
* `honest_lossy_upstream` – what reaches the peer's KCP from carrier `k` under tag `id` is a prefix (in
  order, byte-identical) of what the client's KCP wrote on `k`, whenever the carrier delivered a prefix
  of the client's byte stream `Token ++ ClientID ++ frames`;
* `honest_lossy_downstream` – the frames written to a carrier that presented `id` are, in order, packets
  the server's KCP addressed to `id`, and a client reading any prefix of them through any
  contract-respecting reader gets exactly the packets before the cut.
-/
namespace Snowflake.C01
open Snowflake.Encap Snowflake.Server

def dataItems (ps : List Bytes) : List Item := ps.map .data

theorem dataOf_dataItems (ps : List Bytes) : dataOf (dataItems ps) = ps := by
  induction ps with
  | nil => rfl
  | cons p ps ih => simp [dataItems, dataOf] at ih ⊢; exact ih

theorem encodeItems_cons (it : Item) (is : List Item) : encodeItems (it :: is) = encodeItem it ++ encodeItems is := by
  simp [encodeItems]

theorem pp_short1 (b0 : UInt8) (h : ¬ b0.toNat / 64 % 2 = 0) : parsePrefix [b0] = .short := by
  simp [parsePrefix, h]

theorem pp_short2 (b0 b1 : UInt8) (h0 : ¬ b0.toNat / 64 % 2 = 0) (h1 : ¬ b1.toNat < 128) :
    parsePrefix [b0, b1] = .short := by
  simp [parsePrefix, h0, h1]

theorem decodeAll_short (bs : Bytes) (h : parsePrefix bs = .short) : decodeAll bs = ([], .unexpectedEOF) := by
  simp [decodeAll, decodeFuel, next, h]

/-- A strict, non-empty prefix of one encoded data chunk decodes to no chunk and `unexpectedEOF`. -/
theorem decodeAll_partial_frame (d : Bytes) (hd : d.length < 1048576) (k : Nat) (hk0 : 0 < k)
    (hk : k < (encodeItem (.data d)).length) :
    decodeAll ((encodeItem (.data d)).take k) = ([], .unexpectedEOF) := by
  obtain ⟨p, hp, hpl⟩ := dataPrefix_some hd
  have henc : encodeItem (.data d) = p ++ d := by simp [encodeItem, encodeData, hp]
  rw [henc] at hk ⊢
  simp only [List.length_append] at hk
  by_cases hkp : p.length ≤ k
  · -- the whole prefix is there, the body is short
    have e : (p ++ d).take k = p ++ d.take (k - p.length) := by
      rw [List.take_append]; simp [List.take_of_length_le hkp]
    rw [e]
    have hpp := parsePrefix_prefixFor 128 d.length p (d.take (k - p.length)) (Or.inr rfl) hp
    have hlt : (d.take (k - p.length)).length < d.length := by simp [List.length_take]; omega
    unfold decodeAll
    simp only [decodeFuel]
    rw [next_succ_ok _ _ _ _ _ hpp]
    simp only [hlt, if_true]
  · -- cut inside the length prefix: every proper prefix of a 2- or 3-byte prefix ends in a continuation byte
    have hkl : k < p.length := by omega
    have e : (p ++ d).take k = p.take k := by
      rw [List.take_append]; simp [show k - p.length = 0 by omega]
    rw [e]
    rcases prefixLen_cases d.length with ⟨h1, h2⟩ | ⟨h1, h2, h3⟩ | ⟨h1, h2⟩
    · omega
    · have hp' : p = [UInt8.ofNat (128 + 64 + d.length / 128), UInt8.ofNat (d.length % 128)] := by
        have hn : ¬ d.length < 64 := by omega
        simp only [dataPrefix, prefixFor, hn, h2, if_true, if_false, Option.some.injEq] at hp; exact hp.symm
      subst hp'
      have : k = 1 := by simp at hkl; omega
      subst this
      have hb : (UInt8.ofNat (128 + 64 + d.length / 128)).toNat = 128 + 64 + d.length / 128 := u8_lt (by omega)
      exact decodeAll_short _ (pp_short1 _ (by rw [hb]; omega))
    · have hp' : p = [UInt8.ofNat (128 + 64 + d.length / 16384), UInt8.ofNat (128 + d.length / 128 % 128),
          UInt8.ofNat (d.length % 128)] := by
        have hn : ¬ d.length < 64 := by omega
        have hn2 : ¬ d.length < 8192 := by omega
        simp only [dataPrefix, prefixFor, hn, hn2, hd, if_true, if_false, Option.some.injEq] at hp; exact hp.symm
      subst hp'
      have hb0 : (UInt8.ofNat (128 + 64 + d.length / 16384)).toNat = 128 + 64 + d.length / 16384 := u8_lt (by omega)
      have hb1 : (UInt8.ofNat (128 + d.length / 128 % 128)).toNat = 128 + d.length / 128 % 128 := u8_lt (by omega)
      have : k = 1 ∨ k = 2 := by simp at hkl; omega
      rcases this with rfl | rfl
      · exact decodeAll_short _ (pp_short1 _ (by rw [hb0]; omega))
      · exact decodeAll_short _ (pp_short2 _ _ (by rw [hb0]; omega) (by rw [hb1]; omega))

/-- **Framing is prefix-closed.** For every sequence of packets (each shorter than 2^20) and every cut
offset `k`, decoding the first `k` bytes of their concatenated encodings yields exactly the first `j`
packets for some `j`, with status `eof` (cut at a chunk boundary) or `unexpectedEOF` (cut inside a chunk). -/
theorem frames_prefix_closed : ∀ (ps : List Bytes), (∀ p ∈ ps, p.length < 1048576) → ∀ k,
    ∃ j, (decodeAll ((encodeItems (dataItems ps)).take k)).1 = ps.take j
      ∧ ((decodeAll ((encodeItems (dataItems ps)).take k)).2 = .eof
         ∨ (decodeAll ((encodeItems (dataItems ps)).take k)).2 = .unexpectedEOF) := by
  intro ps
  induction ps with
  | nil => intro _ k; exact ⟨0, by simp [dataItems, encodeItems, decodeAll_nil], Or.inl (by simp [dataItems, encodeItems, decodeAll_nil])⟩
  | cons p ps ih =>
    intro hok k
    have hp : p.length < 1048576 := hok p (List.mem_cons_self ..)
    have hok' : ∀ q ∈ ps, q.length < 1048576 := fun q hq => hok q (List.mem_cons_of_mem _ hq)
    have hE : encodeItems (dataItems (p :: ps)) = encodeItem (.data p) ++ encodeItems (dataItems ps) := by
      simp [dataItems, encodeItems]
    rw [hE]
    by_cases hk : (encodeItem (.data p)).length ≤ k
    · -- the whole first frame is inside the cut
      have e : (encodeItem (.data p) ++ encodeItems (dataItems ps)).take k
          = encodeItem (.data p) ++ (encodeItems (dataItems ps)).take (k - (encodeItem (.data p)).length) := by
        rw [List.take_append]; simp [List.take_of_length_le hk]
      rw [e]
      have hloc : ∀ (f' : Nat), (encodeItem (.data p) ++ (encodeItems (dataItems ps)).take (k - (encodeItem (.data p)).length)).length < f' →
          next f' (encodeItem (.data p) ++ (encodeItems (dataItems ps)).take (k - (encodeItem (.data p)).length))
            = (.chunk p, (encodeItems (dataItems ps)).take (k - (encodeItem (.data p)).length)) := by
        intro f' hf'
        cases f' with
        | zero => omega
        | succ f' => exact next_data p _ hp f'
      rw [decodeAll_cons_chunk _ _ p hloc]
      obtain ⟨j, hj1, hj2⟩ := ih hok' (k - (encodeItem (.data p)).length)
      exact ⟨j + 1, by simp [hj1], hj2⟩
    · by_cases hk0 : k = 0
      · subst hk0; exact ⟨0, by simp [decodeAll_nil], Or.inl (by simp [decodeAll_nil])⟩
      · have e : (encodeItem (.data p) ++ encodeItems (dataItems ps)).take k = (encodeItem (.data p)).take k := by
          rw [List.take_append]; simp [show k - (encodeItem (.data p)).length = 0 by omega]
        rw [e, decodeAll_partial_frame p hp k (by omega) (by omega)]
        exact ⟨0, by simp, Or.inr rfl⟩

variable {token : Bytes} {qs : Nat} {st : St}

/-- **Honest lossy service, upstream.** If carrier `k` presented `id` and the bytes it delivered are a
prefix of the stream the client writes on a carrier (`Token ++ ClientID ++` one frame per packet of
`ps`, in order), then what the server passed to `QueueIncoming` from `k` is exactly `ps.take j` for some
`j`: an in-order, byte-identical prefix — whatever the cut point, fragmentation or interleaving. -/
theorem honest_lossy_upstream (hr : Reachable token qs st) (k : Nat) (id : CID) (ps : List Bytes)
    (hps : ∀ p ∈ ps, p.length < 1048576) (hpres : (st.cs k).presented = some id)
    (hpre : (st.cs k).allIn <+: token ++ id ++ encodeItems (dataItems ps)) :
    ∃ j, (st.cs k).queued = ps.take j := by
  obtain ⟨fr, hfr, hdec⟩ := C05.upstream_exact hr k id hpres
  have h1 : (token ++ id ++ fr) <+: (token ++ id ++ encodeItems (dataItems ps)) := hfr.trans hpre
  have h2 : fr <+: encodeItems (dataItems ps) := by
    rw [List.append_assoc, List.append_assoc] at h1
    exact (List.prefix_append_right_inj _).mp ((List.prefix_append_right_inj _).mp h1)
  have h3 : fr = (encodeItems (dataItems ps)).take fr.length := (List.prefix_iff_eq_take.mp h2)
  obtain ⟨j, hj, _⟩ := frames_prefix_closed ps hps fr.length
  rw [← h3, hdec] at hj
  exact ⟨j, hj⟩

/-- **Honest lossy service, downstream.** The packets framed onto a carrier that presented `id` are an
in-order sub-sequence of what the server's KCP wrote for `id`; and whatever prefix of those frames the
carrier delivers, through whatever fragmentation, the client's `ReadData` loop returns exactly the
packets before the cut. -/
theorem honest_lossy_downstream (hr : Reachable token qs st) (k : Nat) (id : CID)
    (hpres : (st.cs k).presented = some id) (hw : ∀ p ∈ (st.cs k).written, p.length < 1048576)
    (cut : Nat) (sc : Script) :
    List.Sublist (st.cs k).written (st.enq id)
    ∧ ∃ j, (readAll true (((encodeItems (dataItems (st.cs k).written)).take cut).length + 1)
              ⟨(encodeItems (dataItems (st.cs k).written)).take cut, sc⟩).1 = (st.cs k).written.take j := by
  refine ⟨C05.downstream_only_to_same_id hr k id hpres, ?_⟩
  obtain ⟨j, hj, _⟩ := frames_prefix_closed (st.cs k).written hw cut
  refine ⟨j, ?_⟩
  rw [Encap.C09.fragmentation_independent _ _ _ (Nat.lt_succ_self _)]
  exact hj

/-! ## From honest lossy carriers to the exact stream

The reliability layer (kcp-go under smux) is third-party code and is not modelled line by line.  What the
property needs from it is isolated here as two explicit assumptions — its datagrams carry numbered segments
that decode back to what was encoded (`SegCodec`), and it keeps retransmitting, so that every segment
eventually gets through while some working proxy is available (`hall` below) — and everything else is
proved: the carrier layer of this repository delivers to a session only datagrams its peer wrote, whole and
unaltered (`honest_lossy_upstream` / `honest_lossy_downstream`, corollaries `…_only_sent`), and over *any*
such lossy, duplicating, reordering service a receiver that reassembles by segment number hands the reader a
prefix of the written stream at every moment, never takes bytes back, and hands over exactly the written stream
once every segment has arrived (`Model/Reasm.lean`). -/

/-- Upstream: everything the server queued for KCP from carrier `k` is one of the packets the client wrote. -/
theorem upstream_only_sent (hr : Reachable token qs st) (k : Nat) (id : CID) (ps : List Bytes)
    (hps : ∀ p ∈ ps, p.length < 1048576) (hpres : (st.cs k).presented = some id)
    (hpre : (st.cs k).allIn <+: token ++ id ++ encodeItems (dataItems ps)) :
    ∀ d ∈ (st.cs k).queued, d ∈ ps := by
  obtain ⟨j, hj⟩ := honest_lossy_upstream hr k id ps hps hpres hpre
  intro d hd
  rw [hj] at hd
  exact List.mem_of_mem_take hd

/-- Downstream: everything framed onto a carrier that presented `id` is one of the packets the server's KCP wrote
for `id`. -/
theorem downstream_only_sent (hr : Reachable token qs st) (k : Nat) (id : CID)
    (hpres : (st.cs k).presented = some id) :
    ∀ d ∈ (st.cs k).written, d ∈ st.enq id :=
  fun _ hd => (C05.downstream_only_to_same_id hr k id hpres).subset hd

/-- **Assumption 1 on the reliability layer**: its datagrams carry a segment number and a payload and decode
back to what was encoded.  (kcp-go's header carries `sn`; smux frames ride inside the KCP byte stream.) -/
structure SegCodec where
  enc : Nat → Bytes → Bytes
  dec : Bytes → Option (Nat × Bytes)
  dec_enc : ∀ i p, dec (enc i p) = some (i, p)

open Snowflake.Reasm in
/-- Datagrams that were written by the peer — each the encoding of some segment under its own number, sent
any number of times — decode to honest arrivals, whichever of them get through, in whatever order and
multiplicity, over however many carriers. -/
theorem arrivals_honest (c : SegCodec) (segs : List Bytes) (sent ds : List Bytes)
    (hsent : ∀ pkt ∈ sent, ∃ i p, segs[i]? = some p ∧ pkt = c.enc i p)
    (hds : ∀ d ∈ ds, d ∈ sent) :
    Honest segs (ds.filterMap c.dec) := by
  intro e he
  obtain ⟨d, hd, hdec⟩ := List.mem_filterMap.mp he
  obtain ⟨i, p, hip, hpk⟩ := hsent d (hds d hd)
  rw [hpk, c.dec_enc] at hdec
  cases hdec
  exact hip

open Snowflake.Reasm in
/-- **C01, safety.** Whatever the carriers did — died, froze, were cut after any byte, were replaced, delivered
late or twice — the bytes handed to the reader are at every moment a whole-segment prefix of the bytes written at
the other end: nothing missing in the middle, duplicated, reordered or foreign. -/
theorem e2e_prefix_safe (c : SegCodec) (segs : List Bytes) (sent ds : List Bytes)
    (hsent : ∀ pkt ∈ sent, ∃ i p, segs[i]? = some p ∧ pkt = c.enc i p)
    (hds : ∀ d ∈ ds, d ∈ sent) (n : Nat) :
    ∃ k, delivered (run init (ds.filterMap c.dec)) n = (segs.take k).flatten :=
  delivered_prefix (sound_run _ _ (sound_init segs) (arrivals_honest c segs sent ds hsent hds)) n

open Snowflake.Reasm in
/-- **C01, exactly once.** Bytes already handed to the reader are never taken back or changed by anything that
arrives later. -/
theorem e2e_never_taken_back (c : SegCodec) (ds later : List Bytes) (n : Nat) :
    delivered (run init (ds.filterMap c.dec)) n <+: delivered (run init ((ds ++ later).filterMap c.dec)) n := by
  rw [List.filterMap_append, run_append]
  exact delivered_mono _ _ n

open Snowflake.Reasm in
/-- **C01, exactness (partial: relative to Assumption 2).** If moreover every segment got through at least once
— *Assumption 2 on the reliability layer*: it retransmits until acknowledged, and some working proxy
eventually becomes available — the reader has been handed exactly the written stream. -/
theorem e2e_exact_partial (c : SegCodec) (segs : List Bytes) (sent ds : List Bytes)
    (hsent : ∀ pkt ∈ sent, ∃ i p, segs[i]? = some p ∧ pkt = c.enc i p)
    (hds : ∀ d ∈ ds, d ∈ sent)
    (hall : ∀ i, i < segs.length → ∃ p, c.enc i p ∈ ds)
    (n : Nat) (hn : segs.length ≤ n) :
    delivered (run init (ds.filterMap c.dec)) n = segs.flatten := by
  refine delivered_exact (sound_run _ _ (sound_init segs) (arrivals_honest c segs sent ds hsent hds)) ?_ n hn
  intro i hi
  obtain ⟨p, hp⟩ := hall i hi
  apply run_holds
  right
  exact ⟨p, List.mem_filterMap.mpr ⟨c.enc i p, hp, c.dec_enc i p⟩⟩

/-! ## Non-vacuity -/

example : ∃ j, (decodeAll ((encodeItems (dataItems [[1, 2, 3], [4]])).take 5)).1 = [[1, 2, 3], [4]].take j :=
  ⟨1, by decide +kernel⟩

/-- A concrete codec (segment number in unary, then a zero byte): `SegCodec` is inhabited. -/
def encU (i : Nat) (p : Bytes) : Bytes := List.replicate i 1 ++ 0 :: p

def decU : Bytes → Option (Nat × Bytes)
  | [] => none
  | b :: rest => if b = 0 then some (0, rest) else
      match decU rest with
      | some (i, p) => some (i + 1, p)
      | none => none

theorem decU_encU : ∀ (i : Nat) (p : Bytes), decU (encU i p) = some (i, p) := by
  intro i
  induction i with
  | zero => intro p; simp [encU, decU]
  | succ i ih =>
    intro p
    have : encU (i + 1) p = 1 :: encU i p := by simp [encU, List.replicate_succ]
    rw [this, decU, ih p]
    simp

def demoCodec : SegCodec := ⟨encU, decU, decU_encU⟩

/-- The hypotheses of the composition are satisfiable with loss, duplication and reordering: three segments; the
datagrams arrive as 2, 0, 0, 1 (the first copy of 1 was lost); the reader gets exactly the written stream. -/
example :
    let segs : List Bytes := [[10], [20, 21], [30]]
    let sent : List Bytes := [encU 0 [10], encU 1 [20, 21], encU 1 [20, 21], encU 2 [30]]
    let ds : List Bytes := [encU 2 [30], encU 0 [10], encU 0 [10], encU 1 [20, 21]]
    (∀ pkt ∈ sent, ∃ i p, segs[i]? = some p ∧ pkt = demoCodec.enc i p)
    ∧ (∀ d ∈ ds, d ∈ sent)
    ∧ (∀ i, i < segs.length → ∃ p, demoCodec.enc i p ∈ ds)
    ∧ Reasm.delivered (Reasm.run Reasm.init (ds.filterMap demoCodec.dec)) 3 = segs.flatten := by
  refine ⟨?_, ?_, ?_, by decide +kernel⟩
  · intro pkt h
    simp only [List.mem_cons, List.not_mem_nil, or_false] at h
    rcases h with rfl | rfl | rfl | rfl
    · exact ⟨0, [10], rfl, rfl⟩
    · exact ⟨1, [20, 21], rfl, rfl⟩
    · exact ⟨1, [20, 21], rfl, rfl⟩
    · exact ⟨2, [30], rfl, rfl⟩
  · decide +kernel
  · intro i hi
    have : i = 0 ∨ i = 1 ∨ i = 2 := by simp at hi; omega
    rcases this with rfl | rfl | rfl
    · exact ⟨[10], by decide +kernel⟩
    · exact ⟨[20, 21], by decide +kernel⟩
    · exact ⟨[30], by decide +kernel⟩

/-- Before the lost segment is retransmitted the reader holds a strict prefix (segment 0 only), not garbage. -/
example : Reasm.delivered (Reasm.run Reasm.init ([encU 2 [30], encU 0 [10], encU 0 [10]].filterMap demoCodec.dec)) 3 = [10] := by
  decide +kernel

end Snowflake.C01
