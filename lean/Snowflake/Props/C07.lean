import Snowflake.Generated.Safelog
import Snowflake.Proofs.Safelog
import Snowflake.Proofs.SafelogCoverage
import Snowflake.Tie.Safelog
/-!
# C07 — no IP address survives the log scrubber

Theorems about `Snowflake.Safelog` (model of `common/safelog/log.go`) instantiated with the two regular
expressions regenerated from the source (`Gen.Safelog.fullAddrPattern`, `Gen.Safelog.addressPattern`).
Statements about the concrete expressions go through the structural facts of `Tie/Safelog.lean`
(`decide +kernel`); everything else is generic (`Proofs/Rx.lean`, `Proofs/Safelog.lean`).

`scrub true` / `writes true` are the repaired code (pass repeated until nothing matches; one line at a
time), `scrub false` / `writes false` the originally pinned code, kept for the negative witnesses.
-/
namespace Snowflake.Safelog.C07
open Snowflake.Rx Snowflake.Safelog
set_option maxRecDepth 100000

/-- `fullAddrPattern` as parsed by Go from the current source. -/
def fullRx : Rx := Gen.Safelog.fullAddrPattern
/-- `addressPattern` as parsed by Go from the current source. -/
def addrRx : Rx := Gen.Safelog.addressPattern

/-- `safelog.Scrub` of the repaired tree, on bytes. -/
def scrubFixed (b : Bytes) : Bytes := scrub true fullRx addrRx b
/-- `safelog.Scrub` as originally pinned (a single pass). -/
def scrubPinned (b : Bytes) : Bytes := scrub false fullRx addrRx b

/-- An address of the scrubber's own language (`addressPattern`) standing exposed in a text. -/
def ExposedRx (toks : List Tok) : Prop := Exposed addrRx toks

theorem shape : Shape fullRx addrRx delimL delimR :=
  ⟨Tie.Safelog.full_is_delim_addr_delim, Tie.Safelog.address_anchor_free,
   Nat.lt_of_lt_of_le (by decide) Tie.Safelog.address_heavy⟩

/-- **Matcher completeness, instantiated** (clause "every address … bounded on each side by a line boundary,
whitespace or punctuation other than ':'" is *seen*): wherever a member of the language of `addressPattern`
stands between admissible delimiters, `fullAddrPattern` has a match in the text. -/
theorem find_complete (toks : List Tok) (h : ExposedRx toks) : (find fullRx toks).isSome :=
  exposed_found shape toks h

/-- **No address survives** (clause "is replaced by a placeholder … however many addresses the line
contains and however they are separated"): after the repeating `Scrub`, for every byte string (any number
of addresses, any separators, any UTF-8 or non-UTF-8 content) no member of the language of `addressPattern`
stands between admissible delimiters. -/
theorem scrub_clean (l : Bytes) : ¬ ExposedRx (decode (scrubFixed l)) :=
  scrub_fixed_clean shape l

/-- Text with nothing to match passes through the repaired `Scrub` byte for byte (log lines without addresses
are not altered). -/
theorem scrub_leaves_clean_text (l : Bytes) (h : hasMatch fullRx l = false) : scrubFixed l = l := by
  show scrub true fullRx addrRx l = l
  simp [scrub, scrubLoop, h]

/-- **Scrubbing is idempotent**: a second `Scrub` (a scrubbed logger writing into another scrubbed logger, as
happens when libraries wrap the process logger) changes nothing. -/
theorem scrub_idempotent (l : Bytes) : scrubFixed (scrubFixed l) = scrubFixed l :=
  scrub_leaves_clean_text _ (scrub_fixed_no_match shape l)

/-- The loop of the repaired `Scrub` terminates by itself: each pass that finds a match strictly lowers
`2·dots + 3·colons`, so the model's fuel is never what stops it. -/
theorem scrub_pass_decreases (b : Bytes) (h : hasMatch fullRx b = true) :
    weightB wt (scrubPass fullRx addrRx b) < weightB wt b :=
  pass_lt shape b h

/-- **Independence from the splitting into writes** (clause "the result does not depend on how the bytes are
split across writes"): for the line-wise writer and *every* list of chunks, the emissions are exactly the
scrubbed complete lines of the concatenated stream, in order, and the bytes kept back are exactly those
after the last newline. -/
theorem split_independent (sc : Bytes → Bytes) (chunks : List Bytes) :
    (writes true sc [] chunks).1 = (splitLines chunks.flatten).1.map sc
    ∧ (writes true sc [] chunks).2 = (splitLines chunks.flatten).2 := by
  have := writes_fixed sc chunks [] (by simp)
  simp only [List.nil_append] at this
  rw [this]
  exact ⟨rfl, rfl⟩

/-- Two chunkings of the same stream are indistinguishable. -/
theorem split_independent' (sc : Bytes → Bytes) (c₁ c₂ : List Bytes) (h : c₁.flatten = c₂.flatten) :
    writes true sc [] c₁ = writes true sc [] c₂ := by
  have h1 := split_independent sc c₁
  have h2 := split_independent sc c₂
  rw [h] at h1
  exact Prod.ext (h1.1.trans h2.1.symm) (h1.2.trans h2.2.symm)

/-- `Scrub` keeps the final newline of a line (an address match never contains a newline, and only address
matches are replaced). -/
theorem scrub_keeps_final_newline (body : Bytes) : ∃ q, scrubFixed (body ++ [10]) = q ++ [10] :=
  scrub_fixed_keeps_nl shape Tie.Safelog.address_avoids_newline _ ⟨body, rfl⟩

/-- **Only complete lines are emitted** (clause "only complete lines are ever emitted"): whatever the
chunking, every emission of the line-wise writer is `Scrub` of exactly one complete line (`body ++ "\n"`
with no other newline) and itself ends in a newline; the bytes after the last newline are kept back (they
contain no newline, and lines ++ kept bytes = stream, so nothing is lost or emitted early).  A write returns
`len b` by definition of the model (`write` has no failure path; `Output.Write` errors are not modelled). -/
theorem only_complete_lines (chunks : List Bytes) :
    (∀ e ∈ (writes true scrubFixed [] chunks).1,
        (∃ body, (10 : UInt8) ∉ body ∧ e = scrubFixed (body ++ [10])) ∧ ∃ q, e = q ++ [10])
    ∧ (10 : UInt8) ∉ (writes true scrubFixed [] chunks).2
    ∧ (splitLines chunks.flatten).1.flatten ++ (writes true scrubFixed [] chunks).2 = chunks.flatten := by
  obtain ⟨h1, h2⟩ := split_independent scrubFixed chunks
  refine ⟨?_, ?_, ?_⟩
  · intro e he
    rw [h1] at he
    obtain ⟨ln, hln, rfl⟩ := List.mem_map.1 he
    obtain ⟨body, rfl, hb⟩ := splitLinesAux_lines _ [] (by simp) ln hln
    exact ⟨⟨body, hb, rfl⟩, scrub_keeps_final_newline body⟩
  · rw [h2]; exact splitLinesAux_rest_no_nl _ [] (by simp)
  · rw [h2]; simpa [splitLines] using splitLinesAux_flatten chunks.flatten []

/-! ## Coverage: what Go prints or accepts is in the language of the pattern -/

/-- **Coverage** (clause "every IPv4 or IPv6 address (bare, bracketed, with or without a port, compressed or
IPv4-embedded)"), the part that does not depend on the repeat bound of `ipv6Compressed` having been raised
to 6 (it holds for the originally pinned pattern too): every spelling of the independent grammar — dotted
quad; eight groups; six groups and a dotted quad; one `::` with at most seven groups around it, possibly
ending in a dotted quad; each bare, `[v6]`, `v4:port`, `[v6]:port` — except seven groups on *one* side of
`::`.  Missing in this form: exactly that family (finding F4); `C07Full.coverage` adds it. -/
theorem coverage_partial (a : List Tok)
    (h : AddrWith (fun l r => l + r ≤ 7 ∧ l ≤ 6 ∧ r ≤ 6) (fun l r => l + r + 2 ≤ 7) a) : Lang addrRx a := by
  obtain ⟨n, hn, he⟩ := Tie.Safelog.address_shape
  have := L_addr hn (okc := fun l r => l + r ≤ 7 ∧ l ≤ 6 ∧ r ≤ 6) (ok4 := fun l r => l + r + 2 ≤ 7)
    (fun l r h => ⟨by omega, by omega⟩) (fun l r (h : l + r + 2 ≤ 7) => by omega) h [] []
  rw [← he] at this
  exact matches_of_eraseCaps _ this

theorem coverage_ipv4 (a : List Tok) (h : V4 a) : Lang addrRx a := coverage_partial a (Or.inl h)

theorem coverage_ipv6_full (pre g : List Tok) (h1 : GroupsC 7 pre) (h2 : HexGroup g) :
    Lang addrRx (pre ++ g) := coverage_partial _ (Or.inr (Or.inl (Or.inl ⟨pre, g, h1, h2, rfl⟩)))

/-- Compressed forms with at most six groups on each side of `::`. -/
theorem coverage_ipv6_compressed_le6 (l r : Nat) (a : List Tok) (hlr : l + r ≤ 7) (hl : l ≤ 6) (hr : r ≤ 6)
    (h : V6Comp l r a) : Lang addrRx a :=
  coverage_partial _ (Or.inr (Or.inl (Or.inr (Or.inr (Or.inl ⟨l, r, ⟨hlr, hl, hr⟩, h⟩)))))

theorem coverage_ipv6_embedded4 (l r : Nat) (a : List Tok) (hlr : l + r + 2 ≤ 7) (h : V6Comp4 l r a) :
    Lang addrRx a := coverage_partial _ (Or.inr (Or.inl (Or.inr (Or.inr (Or.inr ⟨l, r, hlr, h⟩)))))

/-- A Go-spelled address (any family of `okc`/`ok4`) standing exposed in a text. -/
def ExposedWith (okc ok4 : Nat → Nat → Prop) (toks : List Tok) : Prop :=
  ∃ pre a post, toks = pre ++ (a ++ post) ∧ AddrWith okc ok4 a ∧ LeftOK pre ∧ RightOK post

/-- No address Go prints or accepts survives the repaired scrubber — here for every spelling except seven
groups on one side of `::` (that family is added by `Props/C07Full.lean`, which needs the F4 repair).
This already includes *every* spelling `net.IP.String` prints (a printed `::` stands for at least two groups). -/
theorem scrub_clean_go_partial (l : Bytes) :
    ¬ ExposedWith (fun l r => l + r ≤ 7 ∧ l ≤ 6 ∧ r ≤ 6) (fun l r => l + r + 2 ≤ 7) (decode (scrubFixed l)) := by
  rintro ⟨pre, a, post, hx, ha, hl, hr⟩
  exact scrub_clean l ⟨pre, a, post, hx, coverage_partial a ha, hl, hr⟩

/-- What already held for the originally pinned pattern (bound 5 in `ipv6Compressed`): everything except
more than six groups on one side of `::` (finding F4, witness below). -/
theorem coverage_pinned_pattern_partial (a : List Tok)
    (h : AddrWith (fun l r => l + r ≤ 7 ∧ l ≤ 6 ∧ r ≤ 6) (fun l r => l + r + 2 ≤ 7) a) :
    Lang (addressShapeN 5) a :=
  L_addr (Nat.le_refl _) (fun l r h => ⟨h.2.1, h.2.2⟩) (fun l r (h : l + r + 2 ≤ 7) => by omega) h [] []

/-! ## Non-vacuity -/

def ofStr (s : String) : Bytes := s.toUTF8.toList

/-- The repaired scrubber removes both addresses of the line the pinned one leaks on … -/
example : scrubFixed (ofStr "1.2.3.4 5.6.7.8\n") = ofStr "[scrubbed] [scrubbed]\n" := by decide +kernel

/-- … handles the messages of the package's own tests as they expect … -/
example : scrubFixed (ofStr "http: TLS handshake error from 129.97.208.23:38310: \n")
    = ofStr "http: TLS handshake error from [scrubbed]: \n" := by decide +kernel

/-- … and leaves timestamps alone. -/
example : scrubFixed (ofStr "2019/05/08 15:37:31 starting\n") = ofStr "2019/05/08 15:37:31 starting\n" := by
  decide +kernel

/-- The line-wise writer on a stream cut in the middle of an address and of a line. -/
example : writes true scrubFixed [] [ofStr "a 1.2.", ofStr "3.4\n5.6.7.8\nrest"]
    = ([ofStr "a [scrubbed]\n", ofStr "[scrubbed]\n"], ofStr "rest") := by decide +kernel

/-- `ExposedRx` is inhabited: the second address of the F3 line, as the pinned scrubber leaves it. -/
example : ExposedRx (decode (ofStr "[scrubbed] 5.6.7.8\n")) := by
  refine ⟨decode (ofStr "[scrubbed] "), decode (ofStr "5.6.7.8"), decode (ofStr "\n"), by decide +kernel, ?_, ?_, ?_⟩
  · have h : (run addrRx ([], decode (ofStr "5.6.7.8")) (fun q => if q.2.isEmpty then some () else none)) = some () := by
      decide +kernel
    obtain ⟨m, t, hx, hm, hk⟩ := run_sound _ _ _ _ _ h
    simp only at hk
    split at hk
    · rename_i ht
      have : t = [] := by simpa using ht
      subst this
      simp only [List.append_nil] at hx
      rw [← hx] at hm
      exact hm
    · cases hk
  · exact Or.inr ⟨decode (ofStr "[scrubbed]"), ⟨32, [32]⟩, by decide +kernel, by decide, by decide, by decide⟩
  · exact Or.inr (Or.inl ⟨⟨10, [10]⟩, [], by decide +kernel, by decide, by decide, by decide⟩)

/-! ## Negative witnesses for the originally pinned behaviour (kernel-checked) -/

def tk (n : Nat) : Tok := ⟨n, [UInt8.ofNat n]⟩

theorem f4_tokens : decode (ofStr "::2:3:4:5:6:7:abcd") =
    [] ++ ([tk 58, tk 58] ++ ([[tk 50, tk 58], [tk 51, tk 58], [tk 52, tk 58], [tk 53, tk 58], [tk 54, tk 58],
      [tk 55, tk 58]].flatten ++ [tk 97, tk 98, tk 99, tk 100])) := by decide +kernel

/-- The F4 spelling is a member of the grammar `AddrGo` (seven groups after `::`; `net.ParseIP` accepts it). -/
theorem seven_groups_is_go_address : AddrGo (decode (ofStr "::2:3:4:5:6:7:abcd")) := by
  rw [f4_tokens]
  refine Or.inr (Or.inl (Or.inr (Or.inr (Or.inl
    ⟨0, 7, by decide, [], _, tk 58, tk 58, Or.inl ⟨rfl, rfl⟩, ?_, rfl, rfl, rfl⟩))))
  refine Or.inr ⟨_, [tk 97, tk 98, tk 99, tk 100], by decide, ⟨_, rfl, rfl, ?_⟩, ⟨by decide, by decide, ?_⟩, rfl⟩
  · intro p hp
    simp only [List.mem_cons, List.mem_nil_iff, or_false] at hp
    rcases hp with rfl | rfl | rfl | rfl | rfl | rfl <;>
      exact ⟨[_], tk 58, rfl, ⟨by decide, by decide, by simp [isHex, tk]⟩, rfl⟩
  · simp [isHex, tk]

/-- **F4**: with the pinned bound the pattern does not match `::2:3:4:5:6:7:abcd` … -/
theorem pinned_pattern_misses_seven_groups :
    ¬ Lang (addressShapeN 5) (decode (ofStr "::2:3:4:5:6:7:abcd")) := by
  intro h
  have hc := run_complete h (fun q => if q.2.isEmpty then some () else none) (by simp)
  have hn : run (addressShapeN 5) ([], decode (ofStr "::2:3:4:5:6:7:abcd") ++ [])
      (fun q => if q.2.isEmpty then some () else none) = none := by decide +kernel
  rw [hn] at hc
  simp at hc

/-- … so even the repeating scrubber leaves it in the line. -/
theorem pinned_pattern_leaks_seven_groups :
    scrub true (fullShapeN 5) (addressShapeN 5) (ofStr "x ::2:3:4:5:6:7:abcd\n")
      = ofStr "x ::2:3:4:5:6:7:abcd\n" := by decide +kernel

/-- **F3**: one pass leaves the second of two addresses that share a delimiter. -/
theorem pinned_second_address_survives :
    scrubPinned (ofStr "1.2.3.4 5.6.7.8\n") = ofStr "[scrubbed] 5.6.7.8\n" := by decide +kernel

/-- **F3**, consecutive lines scrubbed as one block (`^` is not a line anchor and the first match has
consumed the newline). -/
theorem pinned_consecutive_lines_leak :
    (writes false scrubPinned [] [ofStr "1.2.3.4\n5.6.7.8\n"]).1 = [ofStr "[scrubbed]\n5.6.7.8\n"] := by
  decide +kernel

/-- **Split dependence** of the pinned writer: the same stream in one write and in two writes. -/
theorem pinned_split_dependent :
    (writes false scrubPinned [] [ofStr "1.2.3.4\n5.6.7.8\n"]).1.flatten
      ≠ (writes false scrubPinned [] [ofStr "1.2.3.4\n", ofStr "5.6.7.8\n"]).1.flatten := by
  decide +kernel

/-- Repeating the pass alone does not make the block-wise writer split independent (DESIGN §5.7 (ii)):
with the true delimiter consumed, the pass can match inside the brackets and strand the port. -/
theorem repeating_alone_is_split_dependent :
    (writes false scrubFixed [] [ofStr "1.2.3.4\n[::1]:80\n"]).1.flatten
      ≠ (writes false scrubFixed [] [ofStr "1.2.3.4\n", ofStr "[::1]:80\n"]).1.flatten := by
  decide +kernel

end Snowflake.Safelog.C07
