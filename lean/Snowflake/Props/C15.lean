import Snowflake.Proofs.Peers
/-!
# C15 — client bounds its peers, survives failed rendezvous, always shuts down

Property theorems about the interleaving model `Snowflake.Peers` (`Model/Peers.lean`) of
`client/lib/peers.go`, `connectLoop` / `SnowflakeConn.Close` and peer construction in
`client/lib/webrtc.go`.  `Reachable fx max s`: `s` is reachable from the initial state under *any*
interleaving of any number of `Collect` / `connectLoop`, `Pop`, `End` goroutines, peers closing on
their own and every outcome of `Catch`, for the skeleton selected by `fx` and capacity `max`.

Clauses that hold for the pinned and the repaired skeleton alike are stated for every `fx`.  The
three clauses that are false on the pinned tree (F8, F9, F10 of DESIGN.md §6) are proved for the
repaired skeleton `Fix.all` and refuted for `Fix.pinned` by kernel-checked witness schedules.
-/
namespace Snowflake.Peers.C15
open Snowflake.TotalMap

/-! ## Bound on live peers -/

/-- **Never more than `max` live peers**: in every reachable state (any interleaving, any fix
level) the peers that are held and open number at most `max`. -/
theorem live_peers_le_max (fx : Fix) (max : Nat) (s : St) (h : Reachable fx max s) :
    (live s).length ≤ max :=
  Nat.le_trans (List.length_filter_le _ _) (safe_reachable h).len

/-- … and `live` is all of them: every peer ever constructed that is still open is in the active
list (so it is counted against `max` and will be closed by `End`). -/
theorem every_live_peer_is_held (fx : Fix) (max : Nat) (s : St) (h : Reachable fx max s) (p : Nat)
    (hp : p < s.next) (ho : s.closedP p = false) : p ∈ live s := by
  have := (safe_reachable h).tracked p hp ho
  simp [live, this, ho]

/-- While a `Catch` is in flight there is room for its result. -/
theorem catch_only_below_max (fx : Fix) (max : Nat) (s : St) (h : Reachable fx max s) (c : Nat)
    (hc : s.col c = .catching) : s.active.length < max :=
  (safe_reachable h).room c hc

/-! ## Pop -/

/-- **Pop never hands over a closed peer**: every peer returned by `Pop` was open at the
hand-over check (`handed` logs the peer with its `closed` flag at that instant). -/
theorem pop_never_returns_closed_at_handover (fx : Fix) (max : Nat) (s : St) (h : Reachable fx max s) :
    ∀ x ∈ s.handed, x.2 = false :=
  (safe_reachable h).handed

/-! ## End -/

/-- **End returns** (repaired skeleton).  In every reachable state, for every `End` goroutine `e`
that has been called and has not returned, and for *every* outcome `o` of the `Catch` that may be
in flight, the explicit schedule `endSched s e o` is enabled and lets `e` return.  The schedule
moves only `e`, the `Once` runner and the current lock holder; it has at most 6 labels, contains
no `Pop` label and at most one `Catch` return — i.e. `End` is never blocked, it waits at most for
the rendezvous attempt already in flight, and nobody has to drain the hand-over channel. -/
theorem end_returns (max : Nat) (s : St) (h : Reachable Fix.all max s) (e : Nat) (o : CatchEnv)
    (hp : (s.ends e).pending = true) :
    (∃ s', run Fix.all max s (endSched s e o) = some s' ∧ s'.ends e = .done) ∧
    (endSched s e o).length ≤ 6 ∧ (∀ l ∈ endSched s e o, l.isPop = false) ∧
    ((endSched s e o).filter Lab.isCatch).length ≤ 1 :=
  ⟨end_sched_completes max s e o (fixed_reachable h).1 (fixed_reachable h).2 hp, end_sched_shape s e o⟩

/-- **End closes everything** (any fix level): once some `End` has returned, every peer ever
constructed is closed, the active list is empty and the hand-over channel is closed. -/
theorem end_closes_all (fx : Fix) (max : Nat) (s : St) (h : Reachable fx max s) (e : Nat)
    (hd : s.ends e = .done) :
    (∀ p, p < s.next → s.closedP p = true) ∧ s.active = [] ∧ s.chanClosed = true ∧ s.melt = true := by
  have hs := safe_reachable h
  have hdone := hs.endsDone e hd
  exact ⟨hs.doneClosed hdone, hs.doneActive hdone, hs.doneChan hdone, hs.doneMelt hdone⟩

/-- **No rendezvous after End** (any fix level): once some `End` has returned no `Catch` is in
flight, no peer is waiting to be handed over … -/
theorem no_collect_after_end (fx : Fix) (max : Nat) (s : St) (h : Reachable fx max s) (e : Nat)
    (hd : s.ends e = .done) (c : Nat) : s.col c ≠ .catching ∧ ∀ p, s.col c ≠ .sending p := by
  have hs := safe_reachable h
  have hb := hs.doneBusy (hs.endsDone e hd) c
  constructor
  · intro hc; simp [hc, CPC.busy] at hb
  · intro p hc; simp [hc, CPC.busy] at hb

/-- … and no label starts one: the number of `Catch` calls never changes again. -/
theorem no_catch_started_after_end (fx : Fix) (max : Nat) (s s' : St) (h : Reachable fx max s) (e : Nat)
    (hd : s.ends e = .done) (l : Lab) (hs : step fx max s l = some s') : s'.catches = s.catches := by
  have hsafe := safe_reachable h
  have hm := hsafe.doneMelt (hsafe.endsDone e hd)
  cases l <;> simp only [step] at hs <;> (repeat' split at hs) <;> (try cases hs) <;> simp_all

/-- The collection loop can stop as soon as `melt` is closed: a `connectLoop` goroutine whose
`Collect` has returned has its `Melted()` arm enabled. -/
theorem connect_loop_can_stop (fx : Fix) (max : Nat) (s : St) (h : Reachable fx max s) (e c : Nat)
    (hd : s.ends e = .done) (r : Res) (hc : s.col c = .ret r) :
    ∃ s', step fx max s (.lMelted c) = some s' ∧ s'.col c = .stopped := by
  have hsafe := safe_reachable h
  have hm := hsafe.doneMelt (hsafe.endsDone e hd)
  simp [step, hc, hm]

/-- **No panic** in the repaired skeleton, whatever the interleaving and whatever the outcomes of
peer construction. -/
theorem no_panic (max : Nat) (s : St) (h : Reachable Fix.all max s) : s.panic = none :=
  (fixed_reachable h).2.noPanic

/-- **End is idempotent** (repaired skeleton): after one `End` has returned, a further `End` /
`Close` returns at once and nothing panics; together with `end_returns` (which covers every `End`
goroutine, also concurrent ones) and `no_panic`. -/
theorem end_idempotent (max : Nat) (s : St) (h : Reachable Fix.all max s) (e1 e2 : Nat)
    (hd : s.ends e1 = .done) (ha : s.ends e2 = .absent) :
    ∃ s', step Fix.all max s (.eCall e2) = some s' ∧ s'.ends e2 = .done ∧ s'.panic = none ∧
      s'.closedP = s.closedP ∧ s'.chanClosed = s.chanClosed := by
  have hi := fixed_reachable h
  have ho := hi.2.doneOnce (hi.1.endsDone e1 hd)
  simp [step, ha, ho, Fix.all, hi.2.noPanic]

/-! ## Failed peer construction -/

/-- **A failed `Catch` is an error, never a panic** (repaired `connect`): every failing step of peer
construction — unusable ICE configuration included — yields an error value. -/
theorem failed_catch_is_error (e : CatchEnv) (he : e ≠ .ok) : connect true e = .err := by
  cases e <;> simp_all [connect, prepare, afterPrepare]

/-- … and the collector then returns the error with the lock released, so the loop continues. -/
theorem failed_catch_releases_lock (max : Nat) (s : St) (c : Nat) (e : CatchEnv) (he : e ≠ .ok)
    (hc : s.col c = .catching) :
    ∃ s', step Fix.all max s (.cCatch c e) = some s' ∧ s'.col c = .ret .catchErr ∧ s'.lock = none ∧
      s'.panic = s.panic := by
  simp [step, hc, Fix.all, failed_catch_is_error e he]

/-! ## Non-vacuity -/

/-- A run of the repaired skeleton in which peers are collected up to `max = 2`, one is popped,
a spare goes stale, `End` is called while a `Catch` is in flight, and everything ends closed. -/
example :
    (run Fix.all 2 init [.cCall 0, .cLock 0, .cCheck 0, .cCatch 0 .ok, .cSend 0, .pCall 0, .pRecv 0, .pCheck 0,
        .lTimer 0, .cLock 0, .cCheck 0, .cCatch 0 .ok, .cSend 0, .peerClose 1,
        .lTimer 0, .cLock 0, .cCheck 0, .eCall 0, .eMelt 0, .cCatch 0 .ok, .cMeltArm 0, .eLock 0, .eCrit 0,
        .eCall 1, .lMelted 0]).map
      (fun s => s.pop 0 == .got 0 && s.ends 0 == .done && s.ends 1 == .done && s.col 0 == .stopped &&
        s.closedP 0 && s.closedP 1 && s.closedP 2 && s.handed == [(0, false)] && s.panic == none)
    = some true := by decide +kernel

/-- The positive hypotheses are satisfiable: a reachable state with a pending `End`. -/
example : ∃ s, Reachable Fix.all 1 s ∧ (s.ends 0).pending = true :=
  ⟨_, Reach.step (.eCall 0) Reach.init rfl, rfl⟩

/-! ## The pinned skeleton: three kernel-checked refutations -/

/-- **F8** `End(); End()` on the pinned skeleton: the second `close(p.melt)` panics. -/
theorem pinned_end_twice_panics :
    (run Fix.pinned 1 init [.eCall 0, .eMelt 0, .eLock 0, .eCrit 0, .eCall 1, .eMelt 1]).map (·.panic)
      = some (some .closeClosedMelt) := by decide +kernel

/-- The same schedule with the `Once` repair: the second call returns, no panic. -/
theorem fixed_end_twice_ok :
    (run Fix.all 1 init [.eCall 0, .eMelt 0, .eLock 0, .eCrit 0, .eCall 1]).map (fun s => s.panic == none && s.ends 1 == .done)
      = some true := by decide +kernel

/-- Hence `no_panic` is false for the pinned skeleton. -/
theorem pinned_no_panic_fails : ¬ ∀ s, Reachable Fix.pinned 1 s → s.panic = none := by
  intro h
  have hr : ∃ s, run Fix.pinned 1 init [.eCall 0, .eMelt 0, .eLock 0, .eCrit 0, .eCall 1, .eMelt 1] = some s ∧
      s.panic = some .closeClosedMelt := by
    have := pinned_end_twice_panics
    cases hrun : run Fix.pinned 1 init [.eCall 0, .eMelt 0, .eLock 0, .eCrit 0, .eCall 1, .eMelt 1] with
    | none => simp [hrun] at this
    | some s => exact ⟨s, rfl, by simpa [hrun] using this⟩
  obtain ⟨s, hrun, hp⟩ := hr
  have := h s (Reach.runL Reach.init _ hrun)
  simp [hp] at this

/-- The F9 schedule: `max = 2`; peer 0 is collected and popped (in use); two spares are collected
and go stale; the next `Collect` purges them from the active list, catches peer 3 and blocks on the
full hand-over channel while holding `collectLock`; then `End` is called. -/
def f9Schedule : List Lab :=
  [.cCall 0, .cLock 0, .cCheck 0, .cCatch 0 .ok, .cSend 0, .pCall 0, .pRecv 0, .pCheck 0,
   .lTimer 0, .cLock 0, .cCheck 0, .cCatch 0 .ok, .cSend 0, .peerClose 1,
   .lTimer 0, .cLock 0, .cCheck 0, .cCatch 0 .ok, .cSend 0, .peerClose 2,
   .lTimer 0, .cLock 0, .cCheck 0, .cCatch 0 .ok, .eCall 0, .eMelt 0]

/-- Decidable rendering of `F9Stuck 2 s 0 0` plus "only one live spare beside the peer in use". -/
def f9Check (s : St) : Bool :=
  s.lock == some (.col 0) && s.col 0 == .sending 3 && s.chan == [1, 2] && !s.chanClosed &&
  s.ends 0 == .wantLock && s.melt && (live s == [0, 3])

theorem pinned_f9_reaches_stuck : (run Fix.pinned 2 init f9Schedule).map f9Check = some true := by
  decide +kernel

/-- **F9** `End` is blocked for good on the pinned skeleton: there is a reachable state (2 live peers
out of `max = 2`, `End` called) from which **no** continuation without a channel receive by `Pop` —
however long, whatever the other goroutines, peers and `Catch` outcomes do — lets `End` return. -/
theorem pinned_end_blocked_forever :
    ∃ s, Reachable Fix.pinned 2 s ∧ (s.ends 0).pending = true ∧ (live s).length ≤ 2 ∧
      ∀ ls s', (∀ l ∈ ls, l.isRecv = false) → run Fix.pinned 2 s ls = some s' → s'.ends 0 ≠ .done := by
  have hw := pinned_f9_reaches_stuck
  cases hrun : run Fix.pinned 2 init f9Schedule with
  | none => simp [hrun] at hw
  | some s =>
    simp only [hrun, Option.map_some, Option.some.injEq] at hw
    have hreach : Reachable Fix.pinned 2 s := Reach.runL Reach.init _ hrun
    simp only [f9Check, Bool.and_eq_true, beq_iff_eq, Bool.not_eq_true'] at hw
    obtain ⟨⟨⟨⟨⟨⟨h1, h2⟩, h3⟩, h4⟩, h5⟩, _⟩, h7⟩ := hw
    have hstuck : F9Stuck 2 s 0 0 :=
      ⟨h1, by simp [h2, CPC.busy], by simp [h3], h4, h5⟩
    refine ⟨s, hreach, by simp [h5, EPC.pending], by simp [h7], ?_⟩
    -- the stuck situation is preserved by every label that is not a channel receive
    have key : ∀ ls s0 s', Reachable Fix.pinned 2 s0 → F9Stuck 2 s0 0 0 → (∀ l ∈ ls, l.isRecv = false) →
        run Fix.pinned 2 s0 ls = some s' → F9Stuck 2 s' 0 0 := by
      intro ls
      induction ls with
      | nil => intro s0 s' _ hst _ hr; simp [run] at hr; exact hr ▸ hst
      | cons l ls ih =>
        intro s0 s' hr0 hst hall hr
        simp only [run, runL] at hr
        cases hs : step Fix.pinned 2 s0 l with
        | none => simp [hs] at hr
        | some s1 =>
          simp only [hs] at hr
          exact ih s1 s' (Reach.step l hr0 hs)
            (f9_stuck_step Fix.pinned 2 s0 s1 0 0 l rfl (safe_reachable hr0) hst hs (hall l (List.mem_cons_self ..)))
            (fun l' hl' => hall l' (List.mem_cons_of_mem _ hl')) hr
    intro ls s' hall hr hdone
    have := (key ls s s' hreach hstuck hall hr).waiting
    rw [hdone] at this
    cases this

/-- Hence `end_returns` is false for the pinned skeleton (no `Pop`-free schedule at all, let alone
`endSched`). -/
theorem pinned_end_returns_fails :
    ¬ ∀ s, Reachable Fix.pinned 2 s → ∀ e, (s.ends e).pending = true →
        ∃ ls s', (∀ l ∈ ls, l.isPop = false) ∧ run Fix.pinned 2 s ls = some s' ∧ s'.ends e = .done := by
  intro h
  obtain ⟨s, hr, hp, _, hno⟩ := pinned_end_blocked_forever
  obtain ⟨ls, s', hall, hrun, hd⟩ := h s hr 0 hp
  refine hno ls s' (fun l hl => ?_) hrun hd
  have := hall l hl
  cases l <;> simp_all [Lab.isPop, Lab.isRecv]

/-- With the `select` repair the same prefix continues to a returned `End`, without any `Pop`. -/
theorem fixed_f9_end_returns :
    (run Fix.all 2 init (f9Schedule ++ [.cMeltArm 0, .eLock 0, .eCrit 0])).map
      (fun s => s.ends 0 == .done && s.col 0 == .ret .melted && s.closedP 0 && s.closedP 3 && s.panic == none)
    = some true := by decide +kernel

/-- **F10** an unusable ICE configuration on the pinned skeleton: `NewPeerConnection` fails, `c.pc`
stays nil, `connect` dereferences it before looking at the error. -/
theorem pinned_bad_ice_panics :
    connect false .pcFail = .panic ∧
    (run Fix.pinned 1 init [.cCall 0, .cLock 0, .cCheck 0, .cCatch 0 .pcFail]).map (·.panic)
      = some (some .nilDeref) := by decide +kernel

/-- With the error check first it is an ordinary error and the lock is released. -/
theorem fixed_bad_ice_is_error :
    (run Fix.all 1 init [.cCall 0, .cLock 0, .cCheck 0, .cCatch 0 .pcFail]).map
      (fun s => s.panic == none && s.col 0 == .ret .catchErr && s.lock == none) = some true := by decide +kernel

/-- Hence `failed_catch_is_error` is false for the pinned `connect`. -/
theorem pinned_failed_catch_is_error_fails : ¬ ∀ e, e ≠ CatchEnv.ok → connect false e = .err := by
  intro h; have := h .pcFail (by decide); simp [connect, prepare] at this

/-- Each repair is needed on its own: with only the other two applied the defect is still there. -/
theorem each_fix_needed :
    (run ⟨false, true, true⟩ 1 init [.eCall 0, .eMelt 0, .eLock 0, .eCrit 0, .eCall 1, .eMelt 1]).map (·.panic)
      = some (some .closeClosedMelt)
    ∧ (run ⟨true, false, true⟩ 2 init f9Schedule).map f9Check = some true
    ∧ connect false .pcFail = .panic := by decide +kernel

end Snowflake.Peers.C15
