import Snowflake.Proofs.Json
import Snowflake.Model.Messages
/-!
# C12 — broker messages round-trip and invalid ones are rejected

Property theorems about `Snowflake.Messages` (the model of `common/messages/{proxy,client}.go` and
`common/bridgefingerprint/fingerprint.go` over the `encoding/json` model).  Field values are
arbitrary `List Char` strings (every valid-UTF-8 Go string), integers range over Go's `int`.
-/
namespace Snowflake.Messages.C12
open Snowflake Snowflake.Json

/-! ### Shared lemmas -/

/-- `Unmarshal` of what `Marshal` wrote binds exactly the written members. -/
theorem unmarshal_marshal (init : Struct) (fs : List MField) :
    unmarshalStruct init (marshalObj fs) = finishBind (bindObj init ((keptFields fs).map toJsonKV)) := by
  unfold unmarshalStruct
  rw [parse_marshalObj]

theorem getD_ofText (s : Text) : (ofText s).map (·.getD Utf8.replacement) = s := by
  simp only [ofText, List.map_map]; exact map_getD_some s

/-- documented default: missing NAT means unknown -/
def normNat (nat : Text) : Text := if nat = [] then natUnknown else nat
/-- documented default: unrecognised proxy type means unknown -/
def normType (t : Text) : Text := if knownProxyTypes.contains t then t else proxyUnknown
/-- the NAT values the decoders accept -/
def NatValid (nat : Text) : Prop := nat = [] ∨ nat = natUnknown ∨ nat = natRestricted ∨ nat = natUnrestricted
/-- Go's `int` (64 bits) -/
def IntRange (i : Int) : Prop := -(2 ^ 63 : Int) ≤ i ∧ i < (2 ^ 63 : Int)

theorem natSwitch_valid (nat : Text) (h : NatValid nat) : natSwitch nat = some (normNat nat) := by
  rcases h with h | h | h | h <;> subst h <;> decide

theorem natSwitch_some (nat r : Text) (h : natSwitch nat = some r) : NatValid nat ∧ r = normNat nat := by
  unfold natSwitch at h
  unfold NatValid normNat
  by_cases h1 : nat = []
  · simp only [h1, if_true, Option.some.injEq] at h; subst h; simp [h1]
  · simp only [h1, if_false] at h ⊢
    by_cases h2 : nat = natUnknown
    · simp only [h2, if_true, Option.some.injEq] at h; subst h; simp [h2]
    · simp only [h2, if_false] at h
      by_cases h3 : nat = natRestricted
      · simp only [h3, if_true, Option.some.injEq] at h; subst h; simp [h3]
      · simp only [h3, if_false] at h
        by_cases h4 : nat = natUnrestricted
        · simp only [h4, if_true, Option.some.injEq] at h; subst h; simp [h4]
        · simp only [h4, if_false] at h; cases h

theorem majorVersion_version : majorVersion version = .ok majorOne := by decide

theorem splitOn_head (sep : Char) (v : Text) :
    ∃ xs, splitOn sep v = v.takeWhile (fun c => c ≠ sep) :: xs := by
  induction v with
  | nil => exact ⟨[], rfl⟩
  | cons c r ih =>
    obtain ⟨xs, hx⟩ := ih
    by_cases h : c = sep
    · exact ⟨splitOn sep r, by simp [splitOn, h]⟩
    · exact ⟨xs, by simp [splitOn, h, hx]⟩

/-- **Major version** = the text before the first `.`; indexing the result of `strings.Split` never
panics. -/
def major (v : Text) : Text := v.takeWhile (fun c => c ≠ '.')

theorem majorVersion_eq (v : Text) : majorVersion v = .ok (major v) := by
  obtain ⟨xs, hx⟩ := splitOn_head '.' v
  simp [majorVersion, index, hx, major]

/-- closes `f data ≠ .panic` after unfolding: split every `match`/`if`, no branch ends in `panic` -/
macro "no_panic" : tactic => `(tactic| ((try dsimp only); (repeat' split); all_goals (intro h; cases h)))

/-- the simp set that evaluates binding and field access on concrete member names -/
macro "eval_msg" "[" ts:Lean.Parser.Tactic.simpLemma,* "]" : tactic =>
  `(tactic| simp (config := {decide := true}) [keptFields, toJsonKV, MVal.toJson, MVal.isEmpty, getD_ofText, bindObj,
    bindMember, resolve, storeAt, FVal.store, finishBind, Struct.getStr, Struct.getInt, Struct.getOptStr, $ts,*])

/-! ### ProxyPollRequest -/

/-- what `Unmarshal` makes of an encoded poll request -/
theorem poll_bind (sid ptype nat pattern : Text) (clients : Int) (hc : IntRange clients) :
    ∃ st, unmarshalStruct pollReqInit
        (encodeProxyPollRequestWithRelayPrefix (ofText sid) (ofText ptype) (ofText nat) clients (ofText pattern)) = some st ∧
      st.getStr "Version".toList = version ∧ st.getStr "Sid".toList = sid ∧ st.getStr "NAT".toList = nat ∧
      st.getStr "Type".toList = ptype ∧ st.getInt "Clients".toList = clients ∧
      st.getOptStr "AcceptedRelayPattern".toList = some pattern := by
  have hi := parseInt64_renderInt clients hc.1 hc.2
  refine ⟨[("Sid".toList, .str sid), ("Version".toList, .str version), ("Type".toList, .str ptype),
    ("NAT".toList, .str nat), ("Clients".toList, .int clients), ("AcceptedRelayPattern".toList, .optStr (some pattern))],
    ?_, rfl, rfl, rfl, rfl, rfl, rfl⟩
  unfold encodeProxyPollRequestWithRelayPrefix
  rw [unmarshal_marshal]
  eval_msg [hi, pollReqInit]

/-- **Round trip, proxy poll request.** Under exactly the validity predicate the decoder enforces
(non-empty session id, NAT empty or one of the three names) every poll request decodes to its
fields with the documented defaults (missing NAT ↦ unknown, unrecognised type ↦ unknown); the
proxy is reported as relay-pattern aware. -/
theorem proxy_poll_rt (sid ptype nat pattern : Text) (clients : Int) (hc : IntRange clients)
    (hsid : sid ≠ []) (hnat : NatValid nat) :
    decodeProxyPollRequestWithRelayPrefix
        (encodeProxyPollRequestWithRelayPrefix (ofText sid) (ofText ptype) (ofText nat) clients (ofText pattern))
      = .ok { sid := sid, proxyType := normType ptype, natType := normNat nat, clients := clients,
              relayPrefix := pattern, relayPrefixAware := true } := by
  obtain ⟨st, hst, g1, g2, g3, g4, g5, g6⟩ := poll_bind sid ptype nat pattern clients hc
  unfold decodeProxyPollRequestWithRelayPrefix
  rw [hst]
  simp only [g1, g2, g3, g4, g5, g6, majorVersion_version, natSwitch_valid nat hnat]
  simp [hsid, normType]

/-- the predicate is inhabited -/
example : ("sid".toList ≠ []) ∧ NatValid "restricted".toList ∧ IntRange 8 := by
  refine ⟨by decide, Or.inr (Or.inr (Or.inl rfl)), ⟨by decide, by decide⟩⟩

/-- Round trip through the legacy pair `EncodeProxyPollRequest` / `DecodeProxyPollRequest`. -/
theorem proxy_poll_legacy_rt (sid ptype nat : Text) (clients : Int) (hc : IntRange clients)
    (hsid : sid ≠ []) (hnat : NatValid nat) :
    decodeProxyPollRequest (encodeProxyPollRequest (ofText sid) (ofText ptype) (ofText nat) clients)
      = .ok (sid, normType ptype, normNat nat, clients) := by
  have : decodeProxyPollRequestWithRelayPrefix
      (encodeProxyPollRequestWithRelayPrefix (ofText sid) (ofText ptype) (ofText nat) clients []) = _ :=
    proxy_poll_rt sid ptype nat [] clients hc hsid hnat
  unfold decodeProxyPollRequest encodeProxyPollRequest
  rw [this]
  simp

/-- The legacy decoder rejects a poll that carries a relay pattern (`ErrExtraInfo`). -/
theorem rejects_extra_info_poll (sid ptype nat pattern : Text) (clients : Int) (hc : IntRange clients)
    (hsid : sid ≠ []) (hnat : NatValid nat) (hp : pattern ≠ []) :
    decodeProxyPollRequest
        (encodeProxyPollRequestWithRelayPrefix (ofText sid) (ofText ptype) (ofText nat) clients (ofText pattern))
      = .err := by
  unfold decodeProxyPollRequest
  rw [proxy_poll_rt sid ptype nat pattern clients hc hsid hnat]
  simp [hp]

/-- **Totality, proxy poll request**: no input makes the decoder panic. -/
theorem poll_total (data : Text) : decodeProxyPollRequestWithRelayPrefix data ≠ .panic := by
  unfold decodeProxyPollRequestWithRelayPrefix
  simp only [majorVersion_eq]
  no_panic

theorem poll_legacy_total (data : Text) : decodeProxyPollRequest data ≠ .panic := by
  unfold decodeProxyPollRequest
  have := poll_total data
  split
  · split <;> (intro h; cases h)
  · intro h; cases h
  · rename_i hp; exact absurd hp this

/-- **Acceptance is sound, proxy poll request**: for *every* input text, whatever the decoder
accepts has major version 1, a non-empty session id, a NAT type among the three names (or empty,
reported as unknown) and a proxy type that is known or reported as "unknown"; the pattern is
reported as unsupported exactly when the member was absent or `null`. -/
theorem poll_accepts_only_valid (data : Text) (m : PollRequest)
    (h : decodeProxyPollRequestWithRelayPrefix data = .ok m) :
    ∃ message, unmarshalStruct pollReqInit data = some message ∧
      major (message.getStr "Version".toList) = majorOne ∧
      m.sid = message.getStr "Sid".toList ∧ m.sid ≠ [] ∧
      NatValid (message.getStr "NAT".toList) ∧ m.natType = normNat (message.getStr "NAT".toList) ∧
      m.proxyType = normType (message.getStr "Type".toList) ∧
      m.clients = message.getInt "Clients".toList ∧
      m.relayPrefixAware = (message.getOptStr "AcceptedRelayPattern".toList).isSome ∧
      m.relayPrefix = (message.getOptStr "AcceptedRelayPattern".toList).getD [] := by
  unfold decodeProxyPollRequestWithRelayPrefix at h
  cases hm : unmarshalStruct pollReqInit data with
  | none => rw [hm] at h; cases h
  | some message =>
    refine ⟨message, rfl, ?_⟩
    rw [hm] at h
    simp only [majorVersion_eq] at h
    split at h
    · cases h
    · rename_i hv
      split at h
      · cases h
      · rename_i hs
        split at h
        · cases h
        · rename_i nat hn
          obtain ⟨hv1, hv2⟩ := natSwitch_some _ _ hn
          simp only [Res.ok.injEq] at h
          subst h
          refine ⟨Decidable.of_not_not hv, rfl, hs, hv1, hv2, rfl, rfl, rfl, ?_⟩
          cases message.getOptStr "AcceptedRelayPattern".toList <;> rfl

/-- A NAT type in the result is always one of the three names. -/
theorem poll_nat_is_a_name (data : Text) (m : PollRequest)
    (h : decodeProxyPollRequestWithRelayPrefix data = .ok m) :
    m.natType = natUnknown ∨ m.natType = natRestricted ∨ m.natType = natUnrestricted := by
  obtain ⟨message, _, _, _, _, hv, hn, _⟩ := poll_accepts_only_valid data m h
  rw [hn]
  rcases hv with hv | hv | hv | hv <;> rw [hv] <;> decide

/-- `rejects_*`, proxy poll request: a major version other than "1", a missing (empty) session id,
a NAT type outside the three names (and not empty) are errors — for every input text. -/
theorem rejects_poll (data : Text) (message : Struct)
    (hm : unmarshalStruct pollReqInit data = some message)
    (hbad : major (message.getStr "Version".toList) ≠ majorOne ∨ message.getStr "Sid".toList = [] ∨
      ¬ NatValid (message.getStr "NAT".toList)) :
    decodeProxyPollRequestWithRelayPrefix data = .err := by
  cases hd : decodeProxyPollRequestWithRelayPrefix data with
  | err => rfl
  | panic => exact absurd hd (poll_total data)
  | ok m =>
    obtain ⟨message', hm', hv, hs, hs', hn, _⟩ := poll_accepts_only_valid data m hd
    rw [hm] at hm'; cases hm'
    rcases hbad with hb | hb | hb
    · exact absurd hv hb
    · exact absurd (hs ▸ hb) hs'
    · exact absurd hn hb

/-- Any input `Unmarshal` refuses (not JSON, trailing data, nesting deeper than 10000, a top-level
value that is neither object nor null, a member of the wrong JSON type, an `int` out of range) is an
error. -/
theorem rejects_unmarshal_poll (data : Text) (h : unmarshalStruct pollReqInit data = none) :
    decodeProxyPollRequestWithRelayPrefix data = .err := by
  unfold decodeProxyPollRequestWithRelayPrefix
  rw [h]

/-! ### ProxyPollResponse -/

theorem pollresp_bind (status offer nat url : Text) :
    ∃ st, unmarshalStruct pollRespInit
        (marshalObj [{ name := "Status".toList, val := .str (ofText status) },
                     { name := "Offer".toList, val := .str (ofText offer) },
                     { name := "NAT".toList, val := .str (ofText nat) },
                     { name := "RelayURL".toList, val := .str (ofText url) }]) = some st ∧
      st.getStr "Status".toList = status ∧ st.getStr "Offer".toList = offer ∧ st.getStr "NAT".toList = nat ∧
      st.getStr "RelayURL".toList = url := by
  refine ⟨[("Status".toList, .str status), ("Offer".toList, .str offer), ("NAT".toList, .str nat),
    ("RelayURL".toList, .str url)], ?_, rfl, rfl, rfl, rfl⟩
  rw [unmarshal_marshal]
  eval_msg [pollRespInit]

/-- **Round trip, poll response with a client match**: the offer, the NAT type (empty ↦ unknown) and
the relay URL come back; valid iff the offer is non-empty. -/
theorem proxy_poll_resp_match_rt (offer nat url reason : Text) (ho : offer ≠ []) :
    decodePollResponseWithRelayURL
        (encodePollResponseWithRelayURL (ofText offer) true (ofText nat) (ofText url) (ofText reason))
      = .ok offer (normNat nat) url := by
  obtain ⟨st, hst, g1, g2, g3, g4⟩ := pollresp_bind statusClientMatch offer nat url
  unfold decodePollResponseWithRelayURL encodePollResponseWithRelayURL
  simp only [if_true]
  rw [hst]
  simp only [g1, g2, g3, g4]
  simp [ho, normNat, show statusClientMatch ≠ [] by decide]

/-- **Round trip, "no match"**: decodes to an empty offer, NAT unknown, no relay URL. -/
theorem proxy_poll_resp_nomatch_rt (offer nat url : Text) :
    decodePollResponseWithRelayURL
        (encodePollResponseWithRelayURL (ofText offer) false (ofText nat) (ofText url) (ofText statusNoMatch))
      = .ok [] natUnknown [] := by
  obtain ⟨st, hst, g1, g2, g3, g4⟩ := pollresp_bind statusNoMatch [] [] []
  unfold decodePollResponseWithRelayURL encodePollResponseWithRelayURL
  simp only [Bool.false_eq_true, if_false]
  rw [show (MVal.str ([] : List (Option Char))) = MVal.str (ofText []) from rfl, hst]
  simp only [g1, g2, g3, g4]
  simp [show statusNoMatch ≠ [] by decide, show statusNoMatch ≠ statusClientMatch by decide]

/-- **Round trip, failure reason**: any other non-empty status comes back as the error text, with an
empty offer. -/
theorem proxy_poll_resp_failure_rt (offer nat url reason : Text) (h0 : reason ≠ [])
    (h1 : reason ≠ statusClientMatch) (h2 : reason ≠ statusNoMatch) :
    decodePollResponseWithRelayURL
        (encodePollResponseWithRelayURL (ofText offer) false (ofText nat) (ofText url) (ofText reason))
      = .failure reason natUnknown [] := by
  obtain ⟨st, hst, g1, g2, g3, g4⟩ := pollresp_bind reason [] [] []
  unfold decodePollResponseWithRelayURL encodePollResponseWithRelayURL
  simp only [Bool.false_eq_true, if_false]
  rw [show (MVal.str ([] : List (Option Char))) = MVal.str (ofText []) from rfl, hst]
  simp only [g1, g2, g3, g4]
  simp [h0, h1, h2]

/-- the three predicates are inhabited (`StrTimedOut` is such a failure reason) -/
example : "o".toList ≠ [] := by decide
example : "timed out waiting for answer!".toList ≠ [] ∧ "timed out waiting for answer!".toList ≠ statusClientMatch ∧
    "timed out waiting for answer!".toList ≠ statusNoMatch := by decide

/-- Legacy pair `EncodePollResponse` / `DecodePollResponse`. -/
theorem proxy_poll_resp_legacy_rt (offer nat : Text) (ho : offer ≠ []) :
    decodePollResponse (encodePollResponse (ofText offer) true (ofText nat)) = .ok offer (normNat nat) ∧
    decodePollResponse (encodePollResponse (ofText offer) false (ofText nat)) = .ok [] natUnknown := by
  constructor
  · have : decodePollResponseWithRelayURL (encodePollResponseWithRelayURL (ofText offer) true (ofText nat) []
        (ofText statusNoMatch)) = _ := proxy_poll_resp_match_rt offer nat [] statusNoMatch ho
    unfold decodePollResponse encodePollResponse
    rw [this]; simp
  · have : decodePollResponseWithRelayURL (encodePollResponseWithRelayURL (ofText offer) false (ofText nat) []
        (ofText statusNoMatch)) = _ := proxy_poll_resp_nomatch_rt offer nat []
    unfold decodePollResponse encodePollResponse
    rw [this]; simp

/-- The legacy decoder rejects a response that carries a relay URL. -/
theorem rejects_extra_info_resp (offer nat url : Text) (ho : offer ≠ []) (hu : url ≠ []) :
    decodePollResponse (encodePollResponseWithRelayURL (ofText offer) true (ofText nat) (ofText url) [])
      = .err := by
  have : decodePollResponseWithRelayURL (encodePollResponseWithRelayURL (ofText offer) true (ofText nat)
      (ofText url) []) = _ := proxy_poll_resp_match_rt offer nat url [] ho
  unfold decodePollResponse
  rw [this]; simp [hu]

theorem pollresp_total (data : Text) : decodePollResponseWithRelayURL data ≠ .panic := by
  unfold decodePollResponseWithRelayURL
  no_panic

theorem pollresp_legacy_total (data : Text) : decodePollResponse data ≠ .panic := by
  unfold decodePollResponse
  have := pollresp_total data
  split
  · split <;> (intro h; cases h)
  · split <;> (intro h; cases h)
  · intro h; cases h
  · rename_i hp; exact absurd hp this

/-- **Acceptance is sound, poll response**: an accepted match has a non-empty offer; an accepted
non-match has status "no match"; a reported failure reason is the (non-empty) status. -/
theorem pollresp_accepts_only_valid (data : Text) :
    (∀ offer nat url, decodePollResponseWithRelayURL data = .ok offer nat url →
      ∃ message, unmarshalStruct pollRespInit data = some message ∧ nat ≠ [] ∧
        ((message.getStr "Status".toList = statusClientMatch ∧ offer = message.getStr "Offer".toList ∧ offer ≠ [])
         ∨ (message.getStr "Status".toList = statusNoMatch ∧ offer = []))) ∧
    (∀ reason nat url, decodePollResponseWithRelayURL data = .failure reason nat url →
      ∃ message, unmarshalStruct pollRespInit data = some message ∧ nat ≠ [] ∧
        reason = message.getStr "Status".toList ∧ reason ≠ [] ∧ reason ≠ statusClientMatch ∧
        reason ≠ statusNoMatch) := by
  unfold decodePollResponseWithRelayURL
  cases hm : unmarshalStruct pollRespInit data with
  | none =>
    dsimp only
    exact ⟨fun _ _ _ h => (by cases h), fun _ _ _ h => (by cases h)⟩
  | some message =>
    dsimp only
    have hnat : (if message.getStr "NAT".toList = [] then natUnknown else message.getStr "NAT".toList) ≠ [] := by
      split
      · decide
      · assumption
    constructor
    · intro offer nat url h
      refine ⟨message, rfl, ?_⟩
      split at h
      · cases h
      · split at h
        · rename_i hs
          split at h
          · cases h
          · rename_i ho
            simp only [PollResponse.ok.injEq] at h
            obtain ⟨h1, h2, _⟩ := h
            subst h1 h2
            exact ⟨hnat, Or.inl ⟨hs, rfl, ho⟩⟩
        · split at h
          · cases h
          · rename_i hs
            simp only [PollResponse.ok.injEq] at h
            obtain ⟨h1, h2, _⟩ := h
            subst h1 h2
            exact ⟨hnat, Or.inr ⟨Decidable.of_not_not hs, rfl⟩⟩
    · intro reason nat url h
      refine ⟨message, rfl, ?_⟩
      split at h
      · cases h
      · rename_i h0
        split at h
        · split at h <;> cases h
        · rename_i h1
          split at h
          · rename_i h2
            simp only [PollResponse.failure.injEq] at h
            obtain ⟨e1, e2, _⟩ := h
            subst e1 e2
            exact ⟨hnat, rfl, h0, h1, h2⟩
          · cases h

/-- `rejects_*`, poll response: an empty status, and a client match without offer, are errors. -/
theorem rejects_pollresp (data : Text) (message : Struct)
    (hm : unmarshalStruct pollRespInit data = some message)
    (hbad : message.getStr "Status".toList = [] ∨
      (message.getStr "Status".toList = statusClientMatch ∧ message.getStr "Offer".toList = [])) :
    decodePollResponseWithRelayURL data = .err := by
  unfold decodePollResponseWithRelayURL
  rw [hm]
  rcases hbad with hb | ⟨hb, ho⟩
  · simp only [hb, if_true]
  · simp only [hb, ho, if_true]
    split <;> rfl

theorem rejects_unmarshal_pollresp (data : Text) (h : unmarshalStruct pollRespInit data = none) :
    decodePollResponseWithRelayURL data = .err := by
  unfold decodePollResponseWithRelayURL
  rw [h]

/-! ### ProxyAnswerRequest / ProxyAnswerResponse -/

theorem answer_req_bind (answer sid : Text) :
    ∃ st, unmarshalStruct answerReqInit (encodeAnswerRequest (ofText answer) (ofText sid)) = some st ∧
      st.getStr "Version".toList = version ∧ st.getStr "Sid".toList = sid ∧ st.getStr "Answer".toList = answer := by
  refine ⟨[("Version".toList, .str version), ("Sid".toList, .str sid), ("Answer".toList, .str answer)], ?_, rfl, rfl, rfl⟩
  unfold encodeAnswerRequest
  rw [unmarshal_marshal]
  eval_msg [answerReqInit]

/-- **Round trip, answer request**: valid iff session id and answer are non-empty. -/
theorem answer_req_rt (answer sid : Text) (ha : answer ≠ []) (hs : sid ≠ []) :
    decodeAnswerRequest (encodeAnswerRequest (ofText answer) (ofText sid)) = .ok (answer, sid) := by
  obtain ⟨st, hst, g1, g2, g3⟩ := answer_req_bind answer sid
  unfold decodeAnswerRequest
  rw [hst]
  simp only [g1, g2, g3, majorVersion_version]
  simp [ha, hs]

example : "a".toList ≠ [] ∧ "s".toList ≠ [] := by decide

theorem answer_req_total (data : Text) : decodeAnswerRequest data ≠ .panic := by
  unfold decodeAnswerRequest
  simp only [majorVersion_eq]
  no_panic

/-- **Acceptance is sound, answer request.** -/
theorem answer_req_accepts_only_valid (data : Text) (answer sid : Text)
    (h : decodeAnswerRequest data = .ok (answer, sid)) :
    ∃ message, unmarshalStruct answerReqInit data = some message ∧
      major (message.getStr "Version".toList) = majorOne ∧
      sid = message.getStr "Sid".toList ∧ answer = message.getStr "Answer".toList ∧ sid ≠ [] ∧ answer ≠ [] := by
  unfold decodeAnswerRequest at h
  cases hm : unmarshalStruct answerReqInit data with
  | none => rw [hm] at h; cases h
  | some message =>
    refine ⟨message, rfl, ?_⟩
    rw [hm] at h
    simp only [majorVersion_eq] at h
    split at h
    · cases h
    · rename_i hv
      split at h
      · cases h
      · rename_i hs
        simp only [Res.ok.injEq, Prod.mk.injEq] at h
        obtain ⟨h1, h2⟩ := h
        subst h1 h2
        simp only [Bool.or_eq_true, decide_eq_true_eq, not_or] at hs
        exact ⟨Decidable.of_not_not hv, rfl, rfl, hs.1, hs.2⟩

/-- `rejects_*`, answer request: a major version other than "1", an empty session id or an empty
answer are errors. -/
theorem rejects_answer_req (data : Text) (message : Struct)
    (hm : unmarshalStruct answerReqInit data = some message)
    (hbad : major (message.getStr "Version".toList) ≠ majorOne ∨ message.getStr "Sid".toList = [] ∨
      message.getStr "Answer".toList = []) :
    decodeAnswerRequest data = .err := by
  cases hd : decodeAnswerRequest data with
  | err => rfl
  | panic => exact absurd hd (answer_req_total data)
  | ok m =>
    obtain ⟨answer, sid⟩ := m
    obtain ⟨message', hm', hv, hs, ha, hs', ha'⟩ := answer_req_accepts_only_valid data answer sid hd
    rw [hm] at hm'; cases hm'
    rcases hbad with hb | hb | hb
    · exact absurd hv hb
    · exact absurd (hs ▸ hb) hs'
    · exact absurd (ha ▸ hb) ha'

theorem rejects_unmarshal_answer_req (data : Text) (h : unmarshalStruct answerReqInit data = none) :
    decodeAnswerRequest data = .err := by
  unfold decodeAnswerRequest
  rw [h]

/-- **Round trip, answer response.** -/
theorem answer_resp_rt (success : Bool) : decodeAnswerResponse (encodeAnswerResponse success) = .ok success := by
  cases success <;> decide +kernel

theorem answer_resp_total (data : Text) : decodeAnswerResponse data ≠ .panic := by
  unfold decodeAnswerResponse
  no_panic

/-- `rejects_*`, answer response: an empty status is an error; acceptance reports success exactly for
the status "success". -/
theorem answer_resp_accepts_only_valid (data : Text) (b : Bool) (h : decodeAnswerResponse data = .ok b) :
    ∃ message, unmarshalStruct answerRespInit data = some message ∧
      message.getStr "Status".toList ≠ [] ∧ (b = true ↔ message.getStr "Status".toList = statusSuccess) := by
  unfold decodeAnswerResponse at h
  cases hm : unmarshalStruct answerRespInit data with
  | none => rw [hm] at h; cases h
  | some message =>
    refine ⟨message, rfl, ?_⟩
    rw [hm] at h
    simp only at h
    split at h
    · cases h
    · rename_i hs
      simp only [Res.ok.injEq] at h
      subst h
      exact ⟨hs, by simp⟩

theorem rejects_unmarshal_answer_resp (data : Text) (h : unmarshalStruct answerRespInit data = none) :
    decodeAnswerResponse data = .err := by
  unfold decodeAnswerResponse
  rw [h]

/-! ### ClientPollRequest -/

theorem splitN2_version (body : Text) : splitN2 (clientVersion ++ '\n' :: body) = [clientVersion, body] := by
  simp [clientVersion, splitN2]

theorem client_req_bind (offer nat fp : Text) :
    ∃ st, unmarshalStruct clientReqInit
        (marshalObj [{ name := "offer".toList, val := .str (ofText offer) },
                     { name := "nat".toList, val := .str (ofText nat) },
                     { name := "fingerprint".toList, val := .str (ofText fp) }]) = some st ∧
      st.getStr "offer".toList = offer ∧ st.getStr "nat".toList = nat ∧ st.getStr "fingerprint".toList = fp := by
  refine ⟨[("offer".toList, .str offer), ("nat".toList, .str nat), ("fingerprint".toList, .str fp)], ?_, rfl, rfl, rfl⟩
  rw [unmarshal_marshal]
  eval_msg [clientReqInit]

/-- documented default: missing fingerprint means the default bridge -/
abbrev normFingerprint (fp : Text) : Text := fingerprintOrDefault fp

theorem encode_fingerprint_default (fp : Text) :
    (if (ofText fp).isEmpty then ofText defaultBridgeFingerprint else ofText fp) = ofText (normFingerprint fp) := by
  cases fp <;> simp [ofText, fingerprintOrDefault]

/-- **Round trip, client poll request.** Valid iff the offer is non-empty, the NAT type is empty or
one of the three names and the fingerprint is empty or the hex form of 20 or 32 bytes; the
defaults (NAT unknown, default bridge fingerprint) are applied — the fingerprint default already by
the encoder. -/
theorem client_req_rt (offer nat fp : Text) (ho : offer ≠ []) (hn : NatValid nat)
    (hf : fp = [] ∨ fingerprintOk fp = true) :
    decodeClientPollRequest (encodeClientPollRequest (ofText offer) (ofText nat) (ofText fp))
      = .ok { offer := offer, nat := normNat nat, fingerprint := normFingerprint fp } := by
  obtain ⟨st, hst, g1, g2, g3⟩ := client_req_bind offer nat (normFingerprint fp)
  have hfp : normFingerprint fp ≠ [] := by
    unfold normFingerprint fingerprintOrDefault; split
    · decide
    · assumption
  have hok : fingerprintOk (normFingerprint fp) = true := by
    unfold normFingerprint fingerprintOrDefault; split
    · decide +kernel
    · rename_i h; rcases hf with hf | hf
      · exact absurd hf h
      · exact hf
  unfold decodeClientPollRequest encodeClientPollRequest
  simp only [encode_fingerprint_default, splitN2_version]
  simp only [List.length_cons, List.length_nil, index, List.getElem?_cons_zero, List.getElem?_cons_succ]
  have hid : fingerprintOrDefault (normFingerprint fp) = normFingerprint fp := by
    show (if normFingerprint fp = [] then _ else _) = _
    rw [if_neg hfp]
  simp only [show ¬ (0 + 1 + 1 < 2) by omega, if_false, ne_eq, not_true_eq_false, hst, g1, g2, g3, ho,
    natSwitch_valid nat hn, hid, hok, Bool.not_true, Bool.false_eq_true]

example : "o".toList ≠ [] ∧ NatValid [] ∧ fingerprintOk "2B280B23E1107BB62ABFC40DDCC8824814F80A72".toList = true := by
  refine ⟨by decide, Or.inl rfl, by decide +kernel⟩

theorem splitN2_length (data : Text) : (splitN2 data).length = 1 ∨ (splitN2 data).length = 2 := by
  induction data with
  | nil => left; rfl
  | cons c r ih =>
    unfold splitN2
    split
    · right; rfl
    · split
      · right; rfl
      · left; rfl

theorem client_req_total (data : Text) : decodeClientPollRequest data ≠ .panic := by
  unfold decodeClientPollRequest
  dsimp only
  split
  · intro h; cases h
  · rename_i hl
    have h2 : (splitN2 data).length = 2 := by
      rcases splitN2_length data with h | h <;> omega
    match hs : splitN2 data, h2 with
    | [a, b], _ =>
      simp only [index, List.getElem?_cons_zero, List.getElem?_cons_succ]
      no_panic

/-- **Acceptance is sound, client poll request**: the version line is "1.0", the offer is non-empty,
the NAT type is one of the three names, the fingerprint is the hex form of 20 or 32 bytes. -/
theorem client_req_accepts_only_valid (data : Text) (m : ClientRequest)
    (h : decodeClientPollRequest data = .ok m) :
    ∃ body message, splitN2 data = [clientVersion, body] ∧ unmarshalStruct clientReqInit body = some message ∧
      m.offer = message.getStr "offer".toList ∧ m.offer ≠ [] ∧
      NatValid (message.getStr "nat".toList) ∧ m.nat = normNat (message.getStr "nat".toList) ∧
      m.fingerprint = normFingerprint (message.getStr "fingerprint".toList) ∧ fingerprintOk m.fingerprint = true := by
  unfold decodeClientPollRequest at h
  dsimp only at h
  split at h
  · cases h
  · rename_i hl
    have h2 : (splitN2 data).length = 2 := by
      rcases splitN2_length data with h | h <;> omega
    match hs : splitN2 data, h2 with
    | [a, b], _ =>
      rw [hs] at h
      simp only [index, List.getElem?_cons_zero, List.getElem?_cons_succ] at h
      split at h
      · cases h
      · rename_i hv
        cases hm : unmarshalStruct clientReqInit b with
        | none => rw [hm] at h; cases h
        | some message =>
          rw [hm] at h
          dsimp only at h
          split at h
          · cases h
          · rename_i ho
            split at h
            · cases h
            · rename_i hf
              split at h
              · cases h
              · rename_i nat hn
                obtain ⟨hv1, hv2⟩ := natSwitch_some _ _ hn
                simp only [Res.ok.injEq] at h
                subst h
                have ha : a = clientVersion := Decidable.of_not_not hv
                subst ha
                refine ⟨b, message, rfl, hm, rfl, ho, hv1, hv2, rfl, ?_⟩
                simpa using hf

/-- `rejects_*`, client poll request: no version line, a version other than "1.0", a missing offer, a
NAT type outside the three names, a fingerprint that is not 20 or 32 hex-encoded bytes are errors. -/
theorem rejects_client_req (data : Text) :
    (∀ x, splitN2 data = [x] → decodeClientPollRequest data = .err) ∧
    (∀ v body, splitN2 data = [v, body] → v ≠ clientVersion → decodeClientPollRequest data = .err) ∧
    (∀ body, splitN2 data = [clientVersion, body] → unmarshalStruct clientReqInit body = none →
      decodeClientPollRequest data = .err) ∧
    (∀ body message, splitN2 data = [clientVersion, body] → unmarshalStruct clientReqInit body = some message →
      (message.getStr "offer".toList = [] ∨ ¬ NatValid (message.getStr "nat".toList) ∨
        fingerprintOk (normFingerprint (message.getStr "fingerprint".toList)) = false) →
      decodeClientPollRequest data = .err) := by
  have key : ∀ m, decodeClientPollRequest data = .ok m → False ∨ True := fun _ _ => Or.inr trivial
  refine ⟨?_, ?_, ?_, ?_⟩
  · intro x hx
    unfold decodeClientPollRequest
    simp [hx]
  · intro v body hs hv
    cases hd : decodeClientPollRequest data with
    | err => rfl
    | panic => exact absurd hd (client_req_total data)
    | ok m =>
      obtain ⟨b, msg, hs', _⟩ := client_req_accepts_only_valid data m hd
      rw [hs] at hs'
      simp only [List.cons.injEq, and_true] at hs'
      exact absurd hs'.1 hv
  · intro body hs hm
    cases hd : decodeClientPollRequest data with
    | err => rfl
    | panic => exact absurd hd (client_req_total data)
    | ok m =>
      obtain ⟨b, msg, hs', hm', _⟩ := client_req_accepts_only_valid data m hd
      rw [hs] at hs'
      simp only [List.cons.injEq, and_true, true_and] at hs'
      subst hs'
      rw [hm] at hm'; cases hm'
  · intro body message hs hm hbad
    cases hd : decodeClientPollRequest data with
    | err => rfl
    | panic => exact absurd hd (client_req_total data)
    | ok m =>
      obtain ⟨b, msg, hs', hm', ho, ho', hn, _, hf, hf'⟩ := client_req_accepts_only_valid data m hd
      rw [hs] at hs'
      simp only [List.cons.injEq, and_true, true_and] at hs'
      subst hs'
      rw [hm] at hm'; cases hm'
      rcases hbad with hb | hb | hb
      · exact absurd (ho ▸ hb) ho'
      · exact absurd hn hb
      · rw [hf] at hf'; rw [hf'] at hb; cases hb

/-! ### ClientPollResponse -/

/-- **Round trip, client poll response** (`omitempty` on both members): valid iff answer or error is
non-empty. -/
theorem client_resp_rt (answer error : Text) (h : answer ≠ [] ∨ error ≠ []) :
    decodeClientPollResponse (encodeClientPollResponse (ofText answer) (ofText error)) = .ok (answer, error) := by
  unfold decodeClientPollResponse encodeClientPollResponse
  rw [unmarshal_marshal]
  cases answer with
  | nil =>
    cases error with
    | nil => simp at h
    | cons e es => eval_msg [clientRespInit, ofText, map_getD_some]
  | cons a as =>
    cases error with
    | nil => eval_msg [clientRespInit, ofText, map_getD_some]
    | cons e es => eval_msg [clientRespInit, ofText, map_getD_some]

example : ("a".toList ≠ [] ∨ ([] : Text) ≠ []) := Or.inl (by decide)

/-- a response with neither answer nor error (encoded as `{}`) is rejected -/
theorem rejects_empty_response_encoded : decodeClientPollResponse (encodeClientPollResponse [] []) = .err := by
  decide +kernel

theorem client_resp_total (data : Text) : decodeClientPollResponse data ≠ .panic := by
  unfold decodeClientPollResponse
  no_panic

/-- **Acceptance is sound, client poll response**: never both empty. -/
theorem client_resp_accepts_only_valid (data : Text) (answer error : Text)
    (h : decodeClientPollResponse data = .ok (answer, error)) :
    ∃ message, unmarshalStruct clientRespInit data = some message ∧
      answer = message.getStr "answer".toList ∧ error = message.getStr "error".toList ∧
      (answer ≠ [] ∨ error ≠ []) := by
  unfold decodeClientPollResponse at h
  cases hm : unmarshalStruct clientRespInit data with
  | none => rw [hm] at h; cases h
  | some message =>
    refine ⟨message, rfl, ?_⟩
    rw [hm] at h
    dsimp only at h
    split at h
    · cases h
    · rename_i hs
      simp only [Res.ok.injEq, Prod.mk.injEq] at h
      obtain ⟨h1, h2⟩ := h
      subst h1 h2
      refine ⟨rfl, rfl, ?_⟩
      simp only [Bool.and_eq_true, decide_eq_true_eq, not_and] at hs
      by_cases he : message.getStr "error".toList = []
      · exact Or.inl (hs he)
      · exact Or.inr he

/-- `rejects_*`, client poll response: neither answer nor error ⇒ error, for every input. -/
theorem rejects_empty_response (data : Text) (message : Struct)
    (hm : unmarshalStruct clientRespInit data = some message)
    (he : message.getStr "error".toList = []) (ha : message.getStr "answer".toList = []) :
    decodeClientPollResponse data = .err := by
  unfold decodeClientPollResponse
  rw [hm]
  simp only [he, ha, decide_true, Bool.and_self, if_true]

theorem rejects_unmarshal_client_resp (data : Text) (h : unmarshalStruct clientRespInit data = none) :
    decodeClientPollResponse data = .err := by
  unfold decodeClientPollResponse
  rw [h]

/-! ### What `Unmarshal` refuses, for every struct -/

/-- not JSON (syntax error, trailing data, nesting deeper than 10000) ⇒ `Unmarshal` fails -/
theorem unmarshal_non_json (init : Struct) (data : Text) (h : parse data = none) :
    unmarshalStruct init data = none := by
  unfold unmarshalStruct; rw [h]

/-- a top-level value that is neither an object nor `null` ⇒ `Unmarshal` fails -/
theorem unmarshal_wrong_toplevel (init : Struct) (data : Text) (j : Json) (h : parse data = some j)
    (hobj : ∀ kvs, j ≠ .obj kvs) (hnull : j ≠ .null) : unmarshalStruct init data = none := by
  unfold unmarshalStruct; rw [h]
  cases j with
  | obj kvs => exact absurd rfl (hobj kvs)
  | null => exact absurd rfl hnull
  | _ => rfl

/-- top-level `null` leaves the zero struct, which every decoder rejects -/
theorem rejects_null (data : Text) (h : parse data = some .null) :
    decodeProxyPollRequestWithRelayPrefix data = .err ∧ decodePollResponseWithRelayURL data = .err ∧
    decodeAnswerRequest data = .err ∧ decodeAnswerResponse data = .err ∧ decodeClientPollResponse data = .err := by
  have hu : ∀ init, unmarshalStruct init data = some init := by
    intro init; unfold unmarshalStruct; rw [h]
  refine ⟨?_, ?_, ?_, ?_, ?_⟩
  · unfold decodeProxyPollRequestWithRelayPrefix; rw [hu]; decide
  · unfold decodePollResponseWithRelayURL; rw [hu]; decide
  · unfold decodeAnswerRequest; rw [hu]; decide
  · unfold decodeAnswerResponse; rw [hu]; decide
  · unfold decodeClientPollResponse; rw [hu]; decide

theorem bindMember_false (st : Struct) (kv : Text × Json) : (bindMember (st, false) kv).2 = false := by
  unfold bindMember
  repeat' split
  all_goals rfl

theorem foldl_bindMember_false (kvs : List (Text × Json)) (st : Struct) :
    (kvs.foldl bindMember (st, false)).2 = false := by
  induction kvs generalizing st with
  | nil => rfl
  | cons kv kvs ih =>
    simp only [List.foldl_cons]
    have := bindMember_false st kv
    generalize bindMember (st, false) kv = r at this
    obtain ⟨st', b⟩ := r
    simp only at this; subst this
    exact ih st'

/-- whether a JSON value is acceptable for a field depends only on the field's Go type -/
def typeOk : FVal → Json → Bool
  | .str _, .str _ => true
  | .str _, .null => true
  | .int _, .num lit => (parseInt64 lit).isSome
  | .int _, .null => true
  | .optStr _, .str _ => true
  | .optStr _, .null => true
  | _, _ => false

theorem store_isSome (v : FVal) (j : Json) : (v.store j).isSome = typeOk v j := by
  cases v <;> cases j <;> simp [FVal.store, typeOk]
  split <;> simp_all

/-- same Go type -/
def sameKind : FVal → FVal → Bool
  | .str _, .str _ => true
  | .int _, .int _ => true
  | .optStr _, .optStr _ => true
  | _, _ => false

theorem store_kind (v v' : FVal) (j : Json) (h : v.store j = some v') : sameKind v v' = true := by
  cases v with
  | str s =>
    cases j <;> simp only [FVal.store] at h <;> (cases h <;> rfl)
  | int i =>
    cases j with
    | num lit =>
      simp only [FVal.store] at h
      split at h
      · simp only [Option.some.injEq] at h; subst h; rfl
      · cases h
    | null => simp only [FVal.store, Option.some.injEq] at h; subst h; rfl
    | _ => simp only [FVal.store] at h; cases h
  | optStr o =>
    cases j <;> simp only [FVal.store] at h <;> (cases h <;> rfl)

/-- two structs with the same field names and the same field types, in the same order -/
def sameShape : Struct → Struct → Bool
  | [], [] => true
  | (n, v) :: r, (n', v') :: r' => n = n' && sameKind v v' && sameShape r r'
  | _, _ => false

theorem sameKind_refl (v : FVal) : sameKind v v = true := by cases v <;> rfl
theorem sameShape_refl (st : Struct) : sameShape st st = true := by
  induction st with
  | nil => rfl
  | cons f r ih => obtain ⟨n, v⟩ := f; simp [sameShape, sameKind_refl, ih]

theorem sameKind_trans {a b c : FVal} (h1 : sameKind a b = true) (h2 : sameKind b c = true) : sameKind a c = true := by
  cases a <;> cases b <;> cases c <;> simp_all [sameKind]

theorem typeOk_kind {a b : FVal} (h : sameKind a b = true) (j : Json) : typeOk a j = typeOk b j := by
  cases a <;> cases b <;> simp_all [sameKind] <;> cases j <;> rfl

theorem sameShape_trans : ∀ {a b c : Struct}, sameShape a b = true → sameShape b c = true → sameShape a c = true
  | [], [], [], _, _ => rfl
  | (n, v) :: r, (n', v') :: r', (n'', v'') :: r'', h1, h2 => by
    simp only [sameShape, Bool.and_eq_true, decide_eq_true_eq] at h1 h2 ⊢
    exact ⟨⟨h1.1.1.trans h2.1.1, sameKind_trans h1.1.2 h2.1.2⟩, sameShape_trans h1.2 h2.2⟩
  | [], _ :: _, _, h1, _ => by simp [sameShape] at h1
  | _ :: _, [], _, h1, _ => by simp [sameShape] at h1
  | [], [], _ :: _, _, h2 => by simp [sameShape] at h2
  | _ :: _, _ :: _, [], _, h2 => by simp [sameShape] at h2

theorem sameShape_names : ∀ {a b : Struct}, sameShape a b = true → a.map (·.1) = b.map (·.1)
  | [], [], _ => rfl
  | (n, v) :: r, (n', v') :: r', h => by
    simp only [sameShape, Bool.and_eq_true, decide_eq_true_eq] at h
    simp only [List.map_cons, h.1.1, sameShape_names h.2]
  | [], _ :: _, h => by simp [sameShape] at h
  | _ :: _, [], h => by simp [sameShape] at h

/-- field resolution looks at the field names only -/
def resolveN (ns : List Text) (k : Text) : Option Text :=
  match ns.find? (fun n => n = k) with
  | some n => some n
  | none => ns.find? (fun n => foldName n = foldName k)

theorem resolve_names (st : Struct) (k : Text) : resolve st k = resolveN (st.map (·.1)) k := by
  unfold resolve resolveN
  simp only [List.find?_map, Function.comp_def]
  cases st.find? (fun f => decide (f.1 = k)) with
  | some f => rfl
  | none =>
    simp only [Option.map_none]
    cases st.find? (fun f => decide (foldName f.1 = foldName k)) <;> rfl

theorem resolve_shape {a b : Struct} (h : sameShape a b = true) (k : Text) : resolve a k = resolve b k := by
  rw [resolve_names, resolve_names, sameShape_names h]

/-- the current value of the (first) field with a given name -/
def fieldOf : Struct → Text → Option FVal
  | [], _ => none
  | (n, v) :: r, name => if n = name then some v else fieldOf r name

theorem fieldOf_shape : ∀ {a b : Struct}, sameShape a b = true → ∀ (n : Text) (v : FVal), fieldOf a n = some v →
    ∃ v', fieldOf b n = some v' ∧ sameKind v v' = true
  | [], [], _, n, v, hf => by simp [fieldOf] at hf
  | (m, w) :: r, (m', w') :: r', h, n, v, hf => by
    simp only [sameShape, Bool.and_eq_true, decide_eq_true_eq] at h
    obtain ⟨⟨hm, hk⟩, hr⟩ := h
    subst hm
    simp only [fieldOf] at hf ⊢
    by_cases hn : m = n
    · simp only [hn, if_true, Option.some.injEq] at hf ⊢
      subst hf
      exact ⟨w', rfl, hk⟩
    · simp only [hn, if_false] at hf ⊢
      exact fieldOf_shape hr n v hf
  | [], _ :: _, h, _, _, _ => by simp [sameShape] at h
  | _ :: _, [], h, _, _, _ => by simp [sameShape] at h

theorem storeAt_shape : ∀ (st st' : Struct) (n : Text) (j : Json), storeAt n j st = some st' → sameShape st st' = true
  | [], st', n, j, h => by simp only [storeAt, Option.some.injEq] at h; subst h; rfl
  | (m, w) :: r, st', n, j, h => by
    simp only [storeAt] at h
    split at h
    · split at h
      · rename_i w' hw
        simp only [Option.some.injEq] at h; subst h
        simp [sameShape, store_kind w w' j hw, sameShape_refl]
      · cases h
    · split at h
      · rename_i r' hr
        simp only [Option.some.injEq] at h; subst h
        simp [sameShape, sameKind_refl, storeAt_shape r r' n j hr]
      · cases h

theorem storeAt_wrong_type : ∀ (st : Struct) (n : Text) (j : Json) (v : FVal), fieldOf st n = some v →
    typeOk v j = false → storeAt n j st = none
  | [], n, j, v, hf, _ => by simp [fieldOf] at hf
  | (m, w) :: r, n, j, v, hf, ht => by
    simp only [fieldOf] at hf
    simp only [storeAt]
    by_cases hn : m = n
    · simp only [hn, if_true, Option.some.injEq] at hf ⊢
      subst hf
      have := store_isSome w j
      rw [ht] at this
      cases hs : w.store j with
      | none => rfl
      | some x => rw [hs] at this; cases this
    · simp only [hn, if_false] at hf ⊢
      rw [storeAt_wrong_type r n j v hf ht]

/-- **Wrong field type ⇒ error**, for every struct and every object: if some member resolves (exactly
or by case folding) to a field whose Go type does not accept the member's JSON value — a string field
given a number, bool, array or object; an `int` field given a non-integer literal, a literal outside
the int64 range, or a non-number — then `Unmarshal` reports an error, whatever else the object holds. -/
theorem bind_wrong_type (init : Struct) (kvs : List (Text × Json)) :
    ∀ (st : Struct) (ok : Bool), sameShape init st = true →
    (∃ kv ∈ kvs, ∃ n v, resolve init kv.1 = some n ∧ fieldOf init n = some v ∧ typeOk v kv.2 = false) →
    (kvs.foldl bindMember (st, ok)).2 = false := by
  induction kvs with
  | nil => intro st ok _ ⟨kv, hmem, _⟩; cases hmem
  | cons kv0 kvs ih =>
    intro st ok hsh ⟨kv, hmem, n, v, hr, hf, ht⟩
    simp only [List.foldl_cons]
    rcases List.mem_cons.mp hmem with hh | ht'
    · subst hh
      have hr' : resolve st kv.1 = some n := by rw [← resolve_shape hsh]; exact hr
      obtain ⟨v', hf', hk⟩ := fieldOf_shape hsh n v hf
      have ht2 : typeOk v' kv.2 = false := by rw [← typeOk_kind hk]; exact ht
      have hst := storeAt_wrong_type st n kv.2 v' hf' ht2
      have : bindMember (st, ok) kv = (st, false) := by
        simp only [bindMember, hr', hst]
      rw [this]
      exact foldl_bindMember_false kvs st
    · have hnext : ∃ st' ok', bindMember (st, ok) kv0 = (st', ok') ∧ sameShape init st' = true := by
        unfold bindMember
        dsimp only
        split
        · exact ⟨st, ok, rfl, hsh⟩
        · rename_i n0 _
          split
          · rename_i st' hs
            exact ⟨st', ok, rfl, sameShape_trans hsh (storeAt_shape st st' n0 kv0.2 hs)⟩
          · exact ⟨st, false, rfl, hsh⟩
      obtain ⟨st', ok', he, hsh'⟩ := hnext
      rw [he]
      exact ih st' ok' hsh' ⟨kv, ht', n, v, hr, hf, ht⟩

/-- `rejects_*`: a member of the wrong JSON type for its field makes `Unmarshal` — hence every
decoder, see `rejects_unmarshal_*` — return an error. -/
theorem unmarshal_wrong_field_type (init : Struct) (data : Text) (kvs : List (Text × Json))
    (hp : parse data = some (.obj kvs))
    (hbad : ∃ kv ∈ kvs, ∃ n v, resolve init kv.1 = some n ∧ fieldOf init n = some v ∧ typeOk v kv.2 = false) :
    unmarshalStruct init data = none := by
  unfold unmarshalStruct
  rw [hp]
  have := bind_wrong_type init kvs init true (sameShape_refl init) hbad
  show finishBind (bindObj init kvs) = none
  unfold bindObj
  revert this
  generalize List.foldl bindMember (init, true) kvs = r
  intro this
  obtain ⟨st, b⟩ := r
  simp only at this; subst this
  rfl

/-- non-vacuity: `{"sid":"x","CLIENTS":"8"}` has a string where the `int` field `Clients` is meant -/
example : ∃ kv ∈ [("sid".toList, Json.str "x".toList), ("CLIENTS".toList, Json.str "8".toList)],
    ∃ n v, resolve pollReqInit kv.1 = some n ∧ fieldOf pollReqInit n = some v ∧ typeOk v kv.2 = false :=
  ⟨("CLIENTS".toList, .str "8".toList), by simp, "Clients".toList, .int 0, by decide, by decide, rfl⟩

/-! ### Absent members keep the zero value -/

theorem storeAt_other : ∀ (st st' : Struct) (n m : Text) (j : Json), storeAt m j st = some st' → m ≠ n →
    fieldOf st' n = fieldOf st n
  | [], st', n, m, j, h, _ => by simp only [storeAt, Option.some.injEq] at h; subst h; rfl
  | (x, w) :: r, st', n, m, j, h, hne => by
    simp only [storeAt] at h
    split at h
    · rename_i hx
      split at h
      · simp only [Option.some.injEq] at h; subst h
        have : x ≠ n := by rw [hx]; exact hne
        simp only [fieldOf, this, if_false]
      · cases h
    · split at h
      · rename_i r' hr
        simp only [Option.some.injEq] at h; subst h
        simp only [fieldOf, storeAt_other r r' n m j hr hne]
      · cases h

/-- A field that no member of the object resolves to keeps the value it had. -/
theorem bind_absent (init : Struct) (n : Text) (kvs : List (Text × Json)) :
    ∀ (st : Struct) (ok : Bool), sameShape init st = true → (∀ kv ∈ kvs, resolve init kv.1 ≠ some n) →
    fieldOf (kvs.foldl bindMember (st, ok)).1 n = fieldOf st n := by
  induction kvs with
  | nil => intro st ok _ _; rfl
  | cons kv0 kvs ih =>
    intro st ok hsh hno
    simp only [List.foldl_cons]
    have h0 : resolve st kv0.1 ≠ some n := by
      rw [← resolve_shape hsh]; exact hno kv0 (List.mem_cons_self ..)
    have hnext : ∃ st' ok', bindMember (st, ok) kv0 = (st', ok') ∧ sameShape init st' = true ∧
        fieldOf st' n = fieldOf st n := by
      unfold bindMember
      dsimp only
      split
      · exact ⟨st, ok, rfl, hsh, rfl⟩
      · rename_i n0 hr0
        split
        · rename_i st' hs
          refine ⟨st', ok, rfl, sameShape_trans hsh (storeAt_shape st st' n0 kv0.2 hs), ?_⟩
          apply storeAt_other st st' n n0 kv0.2 hs
          intro e; subst e; exact h0 hr0
        · exact ⟨st, false, rfl, hsh, rfl⟩
    obtain ⟨st', ok', he, hsh', hf⟩ := hnext
    rw [he, ih st' ok' hsh' (fun kv hk => hno kv (List.mem_cons_of_mem _ hk)), hf]

theorem getStr_fieldOf (st : Struct) (n : Text) :
    st.getStr n = match fieldOf st n with
      | some (.str s) => s
      | _ => [] := by
  unfold Struct.getStr
  induction st with
  | nil => rfl
  | cons f r ih =>
    obtain ⟨m, w⟩ := f
    simp only [List.find?_cons, fieldOf]
    by_cases h : m = n
    · simp only [h, decide_true, if_true]
      cases w <;> rfl
    · simp only [h, decide_false, if_false]
      exact ih

/-- After `Unmarshal` of an object none of whose members resolves to the string field `n`, the field
still holds the value it was initialised with. -/
theorem unmarshal_absent_str (init : Struct) (data : Text) (kvs : List (Text × Json)) (n : Text) (message : Struct)
    (hp : parse data = some (.obj kvs)) (hno : ∀ kv ∈ kvs, resolve init kv.1 ≠ some n)
    (hm : unmarshalStruct init data = some message) : message.getStr n = init.getStr n := by
  unfold unmarshalStruct at hm
  rw [hp] at hm
  have := bind_absent init n kvs init true (sameShape_refl init) hno
  change finishBind (bindObj init kvs) = some message at hm
  unfold bindObj at hm
  revert this hm
  generalize List.foldl bindMember (init, true) kvs = r
  intro this hm
  obtain ⟨st, b⟩ := r
  cases b with
  | false => cases hm
  | true =>
    simp only [finishBind, Option.some.injEq] at hm
    subst hm
    rw [getStr_fieldOf, getStr_fieldOf, this]

/-- **Missing session id ⇒ error**: a poll request object without any member that resolves to `Sid`
(exactly or by case folding) is rejected. -/
theorem rejects_absent_sid (data : Text) (kvs : List (Text × Json)) (hp : parse data = some (.obj kvs))
    (hno : ∀ kv ∈ kvs, resolve pollReqInit kv.1 ≠ some "Sid".toList) :
    decodeProxyPollRequestWithRelayPrefix data = .err := by
  cases hm : unmarshalStruct pollReqInit data with
  | none => exact rejects_unmarshal_poll data hm
  | some message =>
    refine rejects_poll data message hm (Or.inr (Or.inl ?_))
    rw [unmarshal_absent_str pollReqInit data kvs _ message hp hno hm]
    rfl

/-- **Missing answer ⇒ error** (answer request). -/
theorem rejects_absent_answer (data : Text) (kvs : List (Text × Json)) (hp : parse data = some (.obj kvs))
    (hno : ∀ kv ∈ kvs, resolve answerReqInit kv.1 ≠ some "Answer".toList) :
    decodeAnswerRequest data = .err := by
  cases hm : unmarshalStruct answerReqInit data with
  | none => exact rejects_unmarshal_answer_req data hm
  | some message =>
    refine rejects_answer_req data message hm (Or.inr (Or.inr ?_))
    rw [unmarshal_absent_str answerReqInit data kvs _ message hp hno hm]
    rfl

/-- **Missing offer ⇒ error** (client poll request body). -/
theorem rejects_absent_offer (data body : Text) (kvs : List (Text × Json))
    (hs : splitN2 data = [clientVersion, body]) (hp : parse body = some (.obj kvs))
    (hno : ∀ kv ∈ kvs, resolve clientReqInit kv.1 ≠ some "offer".toList) :
    decodeClientPollRequest data = .err := by
  cases hm : unmarshalStruct clientReqInit body with
  | none => exact (rejects_client_req data).2.2.1 body hs hm
  | some message =>
    refine (rejects_client_req data).2.2.2 body message hs hm (Or.inl ?_)
    rw [unmarshal_absent_str clientReqInit body kvs _ message hp hno hm]
    rfl

/-- **Neither answer nor error ⇒ error** (client poll response), at the level of object members. -/
theorem rejects_absent_answer_and_error (data : Text) (kvs : List (Text × Json)) (hp : parse data = some (.obj kvs))
    (hna : ∀ kv ∈ kvs, resolve clientRespInit kv.1 ≠ some "answer".toList)
    (hne : ∀ kv ∈ kvs, resolve clientRespInit kv.1 ≠ some "error".toList) :
    decodeClientPollResponse data = .err := by
  cases hm : unmarshalStruct clientRespInit data with
  | none => exact rejects_unmarshal_client_resp data hm
  | some message =>
    refine rejects_empty_response data message hm ?_ ?_
    · rw [unmarshal_absent_str clientRespInit data kvs _ message hp hne hm]; rfl
    · rw [unmarshal_absent_str clientRespInit data kvs _ message hp hna hm]; rfl

/-! ### The fingerprint test in plain terms -/

theorem hexDecodeString_spec : ∀ (n : Nat) (s : Text), s.length ≤ n →
    (∀ bs, hexDecodeString s = some bs → s.length = 2 * bs.length ∧ ∀ c ∈ s, (hexVal c).isSome = true) ∧
    (s.length % 2 = 0 → (∀ c ∈ s, (hexVal c).isSome = true) → ∃ bs, hexDecodeString s = some bs)
  | _, [], _ => ⟨fun bs h => by simp only [hexDecodeString, Option.some.injEq] at h; subst h; simp,
                 fun _ _ => ⟨[], rfl⟩⟩
  | _, [_], _ => ⟨fun bs h => by simp [hexDecodeString] at h, fun h _ => by simp at h⟩
  | 0, _ :: _ :: _, h => by simp at h
  | n + 1, a :: b :: r, hl => by
    have ih := hexDecodeString_spec n r (by simp only [List.length_cons] at hl; omega)
    constructor
    · intro bs h
      simp only [hexDecodeString] at h
      cases ha : hexVal a with
      | none => simp [ha] at h
      | some x =>
        cases hb : hexVal b with
        | none => simp [ha, hb] at h
        | some y =>
          cases hr : hexDecodeString r with
          | none => simp [ha, hb, hr] at h
          | some bs' =>
            simp only [ha, hb, hr, Option.some.injEq] at h
            subst h
            obtain ⟨h1, h2⟩ := ih.1 bs' hr
            refine ⟨by simp only [List.length_cons, h1]; omega, ?_⟩
            intro c hc
            simp only [List.mem_cons] at hc
            rcases hc with hc | hc | hc
            · subst hc; simp [ha]
            · subst hc; simp [hb]
            · exact h2 c hc
    · intro hev hall
      have ha := hall a (by simp)
      have hb := hall b (by simp)
      obtain ⟨bs', hr⟩ := ih.2 (by simp only [List.length_cons] at hev; omega)
        (fun c hc => hall c (by simp [hc]))
      cases hxa : hexVal a with
      | none => simp [hxa] at ha
      | some x =>
        cases hxb : hexVal b with
        | none => simp [hxb] at hb
        | some y => exact ⟨(x * 16 + y) :: bs', by simp [hexDecodeString, hxa, hxb, hr]⟩

/-- **The fingerprint test**: accepted iff the text consists of 40 or 64 hexadecimal digits (either
case), i.e. is the hex form of 20 or 32 bytes. -/
theorem fingerprintOk_iff (s : Text) :
    fingerprintOk s = true ↔ (s.length = 40 ∨ s.length = 64) ∧ ∀ c ∈ s, (hexVal c).isSome = true := by
  have sp := hexDecodeString_spec s.length s (Nat.le_refl _)
  unfold fingerprintOk fingerprintLenBad
  constructor
  · intro h
    cases hd : hexDecodeString s with
    | none => simp [hd] at h
    | some bs =>
      obtain ⟨h1, h2⟩ := sp.1 bs hd
      simp only [hd, Bool.not_eq_true', Bool.and_eq_false_imp, bne_iff_ne, ne_eq, bne_eq_false_iff_eq] at h
      refine ⟨?_, h2⟩
      by_cases h20 : bs.length = 20
      · left; omega
      · right; have := h h20; omega
  · intro ⟨hl, hall⟩
    obtain ⟨bs, hd⟩ := sp.2 (by rcases hl with h | h <;> omega) hall
    obtain ⟨h1, _⟩ := sp.1 bs hd
    simp only [hd, Bool.not_eq_true', Bool.and_eq_false_imp, bne_iff_ne, ne_eq, bne_eq_false_iff_eq]
    intro h20
    rcases hl with h | h <;> omega

/-! ### On raw bytes -/

/-- The round trips hold verbatim on raw bytes for every valid-UTF-8 Go string: `[]byte`/`string`
conversions, `Marshal`, the UTF-8 encoded message, `Unmarshal`. (Shown for the poll request; the
other five follow in the same way from `Utf8.decodeLossy_encode` and `Utf8.decodeItems_encode`.) -/
theorem proxy_poll_rt_bytes (sid ptype nat pattern : Text) (clients : Int) (hc : IntRange clients)
    (hsid : sid ≠ []) (hnat : NatValid nat) :
    decodeProxyPollRequestWithRelayPrefix (Utf8.decodeLossy (Utf8.encode
        (encodeProxyPollRequestWithRelayPrefix (Utf8.decodeItems (Utf8.encode sid)) (Utf8.decodeItems (Utf8.encode ptype))
          (Utf8.decodeItems (Utf8.encode nat)) clients (Utf8.decodeItems (Utf8.encode pattern)))))
      = .ok { sid := sid, proxyType := normType ptype, natType := normNat nat, clients := clients,
              relayPrefix := pattern, relayPrefixAware := true } := by
  simp only [Utf8.decodeLossy_encode, Utf8.decodeItems_encode]
  exact proxy_poll_rt sid ptype nat pattern clients hc hsid hnat

/-! ### Totality -/

/-- **No decoder panics**, on any input text (hence on any byte string: bytes reach the model through
`Utf8.decodeLossy`).  In the model a panic can arise only from indexing the results of
`strings.Split` / `bytes.SplitN`; both are shown to be in range. -/
theorem decoders_total (data : Text) :
    decodeProxyPollRequestWithRelayPrefix data ≠ .panic ∧ decodeProxyPollRequest data ≠ .panic ∧
    decodePollResponseWithRelayURL data ≠ .panic ∧ decodePollResponse data ≠ .panic ∧
    decodeAnswerRequest data ≠ .panic ∧ decodeAnswerResponse data ≠ .panic ∧
    decodeClientPollRequest data ≠ .panic ∧ decodeClientPollResponse data ≠ .panic :=
  ⟨poll_total data, poll_legacy_total data, pollresp_total data, pollresp_legacy_total data,
   answer_req_total data, answer_resp_total data, client_req_total data, client_resp_total data⟩

/-! ### Concrete documents (kernel-evaluated) -/

example : decodeProxyPollRequestWithRelayPrefix
    "{\"Sid\":\"ymbcCMto7KHNGYlp\",\"Version\":\"1.2\",\"Type\":\"standalone\",\"NAT\":\"restricted\",\"Clients\":8}".toList
    = .ok { sid := "ymbcCMto7KHNGYlp".toList, proxyType := "standalone".toList, natType := natRestricted, clients := 8,
            relayPrefix := [], relayPrefixAware := false } := by decide +kernel
example : decodeProxyPollRequestWithRelayPrefix "{\"Sid\":\"x\",\"Version\":\"2.0\"}".toList = .err := by decide +kernel
example : decodeProxyPollRequestWithRelayPrefix "{\"Sid\":\"x\",\"Version\":\"1.0\",\"Clients\":1.5}".toList = .err := by
  decide +kernel
example : decodeProxyPollRequestWithRelayPrefix "{\"sid\":\"x\",\"VERſION\":\"1\",\"AcceptedRelayPattern\":null}".toList
    = .ok { sid := "x".toList, proxyType := proxyUnknown, natType := natUnknown, clients := 0, relayPrefix := [],
            relayPrefixAware := false } := by decide +kernel
example : decodeClientPollRequest "1.0\n{\"offer\":\"o\",\"fingerprint\":\"zz\"}".toList = .err := by decide +kernel
example : decodeClientPollRequest "1.1\n{\"offer\":\"o\"}".toList = .err := by decide +kernel
example : decodeClientPollResponse "{}".toList = .err := by decide +kernel
example : decodePollResponseWithRelayURL "[]".toList = .err := by decide +kernel

/-! ## No two valid messages share an encoding (corollaries of the round trips)

The broker pairs a client with a proxy by what these messages carry; were two different valid messages encoded
alike, the receiving side could not tell which offer, answer, session id, relay URL or fingerprint was meant. -/

theorem answer_req_injective (a s a' s' : Text) (ha : a ≠ []) (hs : s ≠ []) (ha' : a' ≠ []) (hs' : s' ≠ [])
    (h : encodeAnswerRequest (ofText a) (ofText s) = encodeAnswerRequest (ofText a') (ofText s')) :
    a = a' ∧ s = s' := by
  have h1 := answer_req_rt a s ha hs
  have h2 := answer_req_rt a' s' ha' hs'
  rw [h, h2] at h1
  injection h1 with e
  exact ⟨(Prod.mk.inj e).1.symm, (Prod.mk.inj e).2.symm⟩

theorem client_resp_injective (a e a' e' : Text) (h1 : a ≠ [] ∨ e ≠ []) (h2 : a' ≠ [] ∨ e' ≠ [])
    (h : encodeClientPollResponse (ofText a) (ofText e) = encodeClientPollResponse (ofText a') (ofText e')) :
    a = a' ∧ e = e' := by
  have g1 := client_resp_rt a e h1
  have g2 := client_resp_rt a' e' h2
  rw [h, g2] at g1
  injection g1 with e
  exact ⟨(Prod.mk.inj e).1.symm, (Prod.mk.inj e).2.symm⟩

theorem poll_resp_match_injective (o n u r o' n' u' r' : Text) (ho : o ≠ []) (ho' : o' ≠ [])
    (h : encodePollResponseWithRelayURL (ofText o) true (ofText n) (ofText u) (ofText r)
       = encodePollResponseWithRelayURL (ofText o') true (ofText n') (ofText u') (ofText r')) :
    o = o' ∧ normNat n = normNat n' ∧ u = u' := by
  have g1 := proxy_poll_resp_match_rt o n u r ho
  have g2 := proxy_poll_resp_match_rt o' n' u' r' ho'
  rw [h, g2] at g1
  injection g1 with e1 e2 e3
  exact ⟨e1.symm, e2.symm, e3.symm⟩

theorem client_req_injective (o n f o' n' f' : Text) (ho : o ≠ []) (ho' : o' ≠ []) (hn : NatValid n) (hn' : NatValid n')
    (hf : f = [] ∨ fingerprintOk f = true) (hf' : f' = [] ∨ fingerprintOk f' = true)
    (h : encodeClientPollRequest (ofText o) (ofText n) (ofText f)
       = encodeClientPollRequest (ofText o') (ofText n') (ofText f')) :
    o = o' ∧ normNat n = normNat n' ∧ normFingerprint f = normFingerprint f' := by
  have g1 := client_req_rt o n f ho hn hf
  have g2 := client_req_rt o' n' f' ho' hn' hf'
  rw [h, g2] at g1
  injection g1 with e
  injection e with e1 e2 e3
  exact ⟨e1.symm, e2.symm, e3.symm⟩
theorem answer_resp_injective (a b : Bool) (h : encodeAnswerResponse a = encodeAnswerResponse b) : a = b := by
  have h1 := answer_resp_rt a
  have h2 := answer_resp_rt b
  rw [h, h2] at h1
  injection h1 with e
  exact e.symm

theorem proxy_poll_injective (sid ty nat pat sid' ty' nat' pat' : Text) (c c' : Int) (hc : IntRange c) (hc' : IntRange c')
    (hs : sid ≠ []) (hs' : sid' ≠ []) (hn : NatValid nat) (hn' : NatValid nat')
    (h : encodeProxyPollRequestWithRelayPrefix (ofText sid) (ofText ty) (ofText nat) c (ofText pat)
       = encodeProxyPollRequestWithRelayPrefix (ofText sid') (ofText ty') (ofText nat') c' (ofText pat')) :
    sid = sid' ∧ normType ty = normType ty' ∧ normNat nat = normNat nat' ∧ c = c' ∧ pat = pat' := by
  have g1 := proxy_poll_rt sid ty nat pat c hc hs hn
  have g2 := proxy_poll_rt sid' ty' nat' pat' c' hc' hs' hn'
  rw [h, g2] at g1
  injection g1 with e
  injection e with e1 e2 e3 e4 e5 e6
  exact ⟨e1.symm, e2.symm, e3.symm, e4.symm, e5.symm⟩
end Snowflake.Messages.C12
