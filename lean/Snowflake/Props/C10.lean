import Snowflake.Proofs.AmpDecode
/-!
# C10 — AMP armor round-trips and survives cache-style rewriting

Property theorems about `Snowflake.Model.Amp` (the model of `/repo/common/amp/armor_encoder.go`,
`armor_decoder.go`, on top of `Base/Base64.lean`).  Helper lemmas live in `Proofs/Base64.lean`,
`Proofs/Amp.lean`, `Proofs/AmpDecode.lean`.
-/
namespace Snowflake.Amp.C10
open Snowflake.Base64 (Bytes)
open Snowflake.Amp

/-! ## Encoder -/

/-- **Write chunking does not matter.**  Whatever the sequence of `Write` calls (empty ones included),
`NewArmorEncoder … Close` produces the armor of the concatenated payload. -/
theorem encode_chunking_independent (cs : List Bytes) : encodeChunks cs = armor cs.flatten := by
  unfold armor
  rw [encodeChunks_eq, encodeChunks_eq]
  simp

/-- A byte of the standard base64 alphabet, or `=`. -/
def isB64 (c : UInt8) : Bool := (Base64.std.val c).isSome || c == 61

/-- Text of a `pre` element with words `e`: a newline, then every word followed by a newline. -/
def elemText (e : List Bytes) : Bytes := [10] ++ renderWords e

theorem renderElem_eq (e : List Bytes) : renderElem e = openTag ++ elemText e ++ closeTag ++ [10] := by
  simp [renderElem, elemText, preOpen, preClose, openTag, closeTag]

theorem renderWords_length_le : ∀ (e : List Bytes), (∀ w ∈ e, w.length ≤ bytesPerChunk) →
    (renderWords e).length ≤ e.length * (bytesPerChunk + 1) := by
  intro e
  induction e with
  | nil => intro _; simp [renderWords]
  | cons w ws ih =>
    intro h
    have h1 := h w (List.mem_cons_self ..)
    have h2 := ih (fun x hx => h x (List.mem_cons_of_mem _ hx))
    simp only [renderWords, List.map_cons, List.flatten_cons, List.length_append, List.length_cons,
      List.length_nil] at h2 ⊢
    simp only [bytesPerChunk] at *
    omega

theorem b64_bytes (p : Bytes) : ∀ c ∈ (48 :: Base64.encode Base64.std p), isB64 c = true := by
  intro c hc
  rcases List.mem_cons.mp hc with rfl | hc
  · decide
  · exact Base64.encode_all Base64.std isB64 (by decide) (by decide) p c hc

/-- **Shape of the armor.**  The armored document is the fixed boilerplate around at least one `pre`
element; each element is `<pre>\n(word\n)+</pre>\n` with at most `chunksPerElement` words of 1 to
`bytesPerChunk` base64 bytes, its text is at most 32 737 bytes — below `elementSizeLimit` = 32 KiB with
the two bytes of look-ahead the decoder's tokenizer needs —, and the words, concatenated, are the
version byte `'0'` followed by the standard base64 of the payload (so the first word begins with
`'0'`). -/
theorem armor_shape (p : Bytes) :
    ∃ elems : List (List Bytes),
      armor p = boilerplateStart ++ (elems.map renderElem).flatten ++ boilerplateEnd
      ∧ elems ≠ []
      ∧ elems.flatten.flatten = 48 :: Base64.encode Base64.std p
      ∧ ∀ e ∈ elems, e ≠ [] ∧ e.length ≤ chunksPerElement
          ∧ (elemText e).length ≤ 32737 ∧ (elemText e).length + 2 < elementSizeLimit
          ∧ ∀ w ∈ e, 1 ≤ w.length ∧ w.length ≤ bytesPerChunk ∧ ∀ c ∈ w, isB64 c = true := by
  obtain ⟨elems, h1, h2, h3⟩ := body_shape (48 :: Base64.encode Base64.std p)
  refine ⟨elems, ?_, ?_, h2, ?_⟩
  · unfold armor
    have e1 : [p].flatten = p := by simp
    rw [encodeChunks_eq, e1, h1]
  · intro h0; subst h0; simp at h2
  · intro e he
    obtain ⟨g1, g2, g3⟩ := h3 e he
    have hlen := renderWords_length_le e (fun w hw => (g3 w hw).2)
    have hl : (elemText e).length ≤ 32737 := by
      simp only [elemText, List.length_append, List.length_cons, List.length_nil]
      simp only [bytesPerChunk, chunksPerElement] at *
      have : e.length * 33 ≤ 992 * 33 := Nat.mul_le_mul_right _ g2
      omega
    refine ⟨g1, g2, hl, by simp only [elementSizeLimit]; omega, ?_⟩
    intro w hw
    refine ⟨List.length_pos_iff.mpr (g3 w hw).1, (g3 w hw).2, ?_⟩
    intro c hc
    apply b64_bytes p
    rw [← h2]
    exact List.mem_flatten.mpr ⟨w, List.mem_flatten.mpr ⟨e, he, hw⟩, hc⟩

/-! ## Decoder on laid-out documents -/

/-- A `pre` element written as `<pre> lead w₁ s₁ … wₖ sₖ </pre>` and what follows it up to the next
element (or the end of the document). -/
structure PreElem where
  lead : Bytes
  items : List Item
  filler : Bytes

def PreElem.seg (e : PreElem) : Seg := ⟨layText e.lead e.items, e.filler⟩

/-- `lead` and the separators are runs of ASCII whitespace (separators non-empty, except possibly the
last), words are non-empty and free of whitespace, the text stays below the tokenizer's limit, and
what follows the element is harmless (`Neutral`). -/
def PreElem.Ok (e : PreElem) : Prop :=
  AllWs e.lead ∧ ItemsOk e.items ∧ (layText e.lead e.items).length + 2 < elementSizeLimit ∧ Neutral e.filler

def document (pre : Bytes) (es : List PreElem) : Bytes := pre ++ renderSegs (es.map PreElem.seg)

def wordsOf (es : List PreElem) : List Bytes := (es.map (fun e => e.items.map Item.word)).flatten

theorem itemsOk_mem : ∀ (items : List Item), ItemsOk items → ∀ i ∈ items, i.word ≠ [] ∧ NoWs i.word ∧ AllWs i.sep := by
  intro items
  induction items with
  | nil => intro _ i hi; cases hi
  | cons a r ih =>
    intro hok i hi
    cases r with
    | nil =>
      simp only [List.mem_singleton] at hi; subst hi
      exact hok
    | cons b r =>
      obtain ⟨h1, h2, h3, _, h5⟩ := hok
      rcases List.mem_cons.mp hi with rfl | hi
      · exact ⟨h1, h2, h3⟩
      · exact ih h5 i hi

theorem ws_not_lt (c : UInt8) (h : isASCIIWhitespace c = true) : c ≠ 60 := by
  intro h0; subst h0; revert h; decide

theorem b64_not_lt (c : UInt8) (h : isB64 c = true) : c ≠ 60 := by
  intro h0; subst h0; revert h; decide

/-- **Master theorem for the decoder.**  Any document consisting of a harmless prefix and `pre`
elements laid out with arbitrary ASCII whitespace, each followed by harmless bytes, whose words
concatenate to `'0'` + base64 of `p`, decodes to exactly `p` — for every sequence of positive read
sizes on the returned reader. -/
theorem layout_decodes (sizes : Nat → Nat) (hs : ∀ i, 1 ≤ sizes i) (p : Bytes) (pre : Bytes) (es : List PreElem)
    (hpre : Neutral pre) (hes : ∀ e ∈ es, e.Ok)
    (hw : (wordsOf es).flatten = 48 :: Base64.encode Base64.std p) :
    decode sizes (document pre es) = .read p none := by
  have hwordbytes : ∀ e ∈ es, ∀ i ∈ e.items, ∀ c ∈ i.word, c ≠ 60 := by
    intro e he i hi c hc
    apply b64_not_lt
    apply b64_bytes p
    rw [← hw]
    refine List.mem_flatten.mpr ⟨i.word, ?_, hc⟩
    exact List.mem_flatten.mpr ⟨e.items.map Item.word, List.mem_map_of_mem he, List.mem_map_of_mem hi⟩
  have hsegs : ∀ s ∈ es.map PreElem.seg, s.Ok := by
    intro s hs'
    obtain ⟨e, he, rfl⟩ := List.mem_map.mp hs'
    obtain ⟨g1, g2, g3, g4⟩ := hes e he
    refine ⟨?_, g3, g4⟩
    intro c hc
    simp only [PreElem.seg, layText, List.mem_append, List.mem_flatten, List.mem_map] at hc
    rcases hc with hc | ⟨l, ⟨i, hi, rfl⟩, hc⟩
    · exact ws_not_lt c (g1 c hc)
    · simp only [Item.bytes, List.mem_append] at hc
      rcases hc with hc | hc
      · exact hwordbytes e he i hi c hc
      · exact ws_not_lt c ((itemsOk_mem e.items g2 i hi).2.2 c hc)
  unfold document
  rw [decode_layout sizes pre _ hpre hsegs]
  have hwords : ((es.map PreElem.seg).map (fun s => words s.text)).flatten = wordsOf es := by
    unfold wordsOf
    congr 1
    rw [List.map_map]
    apply List.map_congr_left
    intro e he
    obtain ⟨g1, g2, _, _⟩ := hes e he
    exact words_layText e.lead e.items g1 g2
  rw [hwords]
  apply openAndRead_good sizes hs _ p _ hw
  intro w hw'
  obtain ⟨l, hl, hwl⟩ := List.mem_flatten.mp hw'
  obtain ⟨e, he, rfl⟩ := List.mem_map.mp hl
  obtain ⟨i, hi, rfl⟩ := List.mem_map.mp hwl
  exact (itemsOk_mem e.items (hes e he).2.1 i hi).1

/-! ## The armor as a laid-out document -/

/-- The layout `NewArmorEncoder` produces: lead and separators are single newlines, elements are
followed by a newline, the last one also by the boilerplate trailer. -/
def mkElems : List (List Bytes) → List PreElem
  | [] => []
  | [e] => [⟨[10], e.map (fun w => ⟨w, [10]⟩), [10] ++ boilerplateEnd⟩]
  | e :: e' :: r => ⟨[10], e.map (fun w => ⟨w, [10]⟩), [10]⟩ :: mkElems (e' :: r)

theorem layText_armor (e : List Bytes) : layText [10] (e.map (fun w => (⟨w, [10]⟩ : Item))) = elemText e := by
  simp [layText, elemText, renderWords, Item.bytes, List.map_map, Function.comp_def]

theorem mkElems_render : ∀ (elems : List (List Bytes)), elems ≠ [] →
    (elems.map renderElem).flatten ++ boilerplateEnd = renderSegs ((mkElems elems).map PreElem.seg) := by
  intro elems
  induction elems with
  | nil => intro h; exact absurd rfl h
  | cons e r ih =>
    intro _
    cases r with
    | nil =>
      simp only [mkElems, List.map_cons, List.map_nil, List.flatten_cons, List.flatten_nil, List.append_nil,
        renderSegs, Seg.bytes, PreElem.seg, layText_armor, renderElem_eq]
      simp
    | cons e' r =>
      have := ih (by simp)
      simp only [mkElems, List.map_cons, List.flatten_cons, renderSegs, Seg.bytes, PreElem.seg, layText_armor,
        renderElem_eq, List.append_assoc] at this ⊢
      rw [this]

theorem mkElems_words : ∀ (elems : List (List Bytes)), wordsOf (mkElems elems) = elems.flatten := by
  intro elems
  induction elems with
  | nil => rfl
  | cons e r ih =>
    cases r with
    | nil => simp [mkElems, wordsOf, List.map_map, Function.comp_def]
    | cons e' r =>
      simp only [wordsOf] at ih
      simp [mkElems, wordsOf, List.map_map, Function.comp_def, ih]

theorem itemsOk_armor : ∀ (e : List Bytes), (∀ w ∈ e, w ≠ [] ∧ NoWs w) → ItemsOk (e.map (fun w => (⟨w, [10]⟩ : Item))) := by
  intro e
  induction e with
  | nil => intro _; trivial
  | cons w r ih =>
    intro h
    have hw := h w (List.mem_cons_self ..)
    have hnl : AllWs [10] := by intro c hc; simp only [List.mem_singleton] at hc; subst hc; decide
    cases r with
    | nil => exact ⟨hw.1, hw.2, hnl⟩
    | cons w' r =>
      exact ⟨hw.1, hw.2, hnl, by simp, ih (fun x hx => h x (List.mem_cons_of_mem _ hx))⟩

/-- The tokenizer on the boilerplate header: evaluated by the kernel on the literal (tied to the source
in `Tie/Amp.lean`).  It ends in plain text state, has delivered no `pre` tag and is far below the
buffer limit. -/
theorem boilerplateStart_neutral : Neutral boilerplateStart :=
  neutral_of_check _ (by decide +kernel)

theorem nl_neutral : Neutral [10] := neutral_of_check _ (by decide +kernel)

theorem nl_trailer_neutral : Neutral ([10] ++ boilerplateEnd) := neutral_of_check _ (by decide +kernel)

theorem b64_noWs (c : UInt8) (h : isB64 c = true) : isASCIIWhitespace c = false := by
  have key : ∀ n : Fin 256, isB64 (UInt8.ofNat n.val) = true → isASCIIWhitespace (UInt8.ofNat n.val) = false := by
    decide +kernel
  have e : UInt8.ofNat c.toNat = c := by simp
  have := key ⟨c.toNat, c.toNat_lt⟩
  simp only [e] at this
  exact this h

/-- **Round trip.**  For every payload `p` and every sequence of positive buffer sizes used to read the
decoder, `NewArmorDecoder` on the armor of `p` succeeds and reading it to the end returns exactly `p`
followed by a clean `io.EOF`. -/
theorem roundtrip (p : Bytes) (sizes : Nat → Nat) (hs : ∀ i, 1 ≤ sizes i) :
    decode sizes (armor p) = .read p none := by
  obtain ⟨elems, h1, h2, h3, h4⟩ := armor_shape p
  have hdoc : armor p = document boilerplateStart (mkElems elems) := by
    rw [h1, List.append_assoc, mkElems_render elems h2]; rfl
  rw [hdoc]
  apply layout_decodes sizes hs p _ _ boilerplateStart_neutral
  · -- every element of the armor layout is well formed
    have key : ∀ (els : List (List Bytes)), (∀ e ∈ els, e ∈ elems) → ∀ x ∈ mkElems els, x.Ok := by
      intro els
      induction els with
      | nil => intro _ x hx; cases hx
      | cons e r ih =>
        intro hsub x hx
        have he := hsub e (List.mem_cons_self ..)
        obtain ⟨_, _, _, g4, g5⟩ := h4 e he
        have hitems : ItemsOk (e.map (fun w => (⟨w, [10]⟩ : Item))) :=
          itemsOk_armor e (fun w hw => ⟨List.length_pos_iff.mp (g5 w hw).1,
            fun c hc => b64_noWs c ((g5 w hw).2.2 c hc)⟩)
        have hlead : AllWs [10] := by intro c hc; simp only [List.mem_singleton] at hc; subst hc; decide
        cases r with
        | nil =>
          simp only [mkElems, List.mem_singleton] at hx; subst hx
          exact ⟨hlead, hitems, by rw [layText_armor]; exact g4, nl_trailer_neutral⟩
        | cons e' r =>
          simp only [mkElems, List.mem_cons] at hx
          rcases hx with rfl | hx
          · exact ⟨hlead, hitems, by rw [layText_armor]; exact g4, nl_neutral⟩
          · exact ih (fun y hy => hsub y (List.mem_cons_of_mem _ hy)) x (by simpa [mkElems] using hx)
    exact key elems (fun e he => he)
  · rw [mkElems_words, h3]

/-- **No two payloads share an armor.**  The armor encoder is injective: a cache or decoder can never be
handed one document that stands for two different payloads (corollary of `roundtrip`). -/
theorem armor_injective (p q : Bytes) (h : armor p = armor q) : p = q := by
  have h1 : decode (fun _ => 1) (armor p) = .read p none := roundtrip p (fun _ => 1) (fun _ => Nat.le_refl 1)
  have h2 : decode (fun _ => 1) (armor q) = .read q none := roundtrip q (fun _ => 1) (fun _ => Nat.le_refl 1)
  have h3 : decode (fun _ => 1) (armor p) = decode (fun _ => 1) (armor q) := congrArg _ h
  have h4 : (Result.read p none) = .read q none := h1.symm.trans (h3.trans h2)
  injection h4

/-- For the streaming encoder: two sequences of `Write` calls that produce the same document wrote the same
bytes in total (only the chunking may differ). -/
theorem encoder_writes_unambiguous (a b : List Bytes) (h : encodeChunks a = encodeChunks b) :
    a.flatten = b.flatten := by
  rw [encode_chunking_independent, encode_chunking_independent] at h
  exact armor_injective _ _ h

/-- **Re-separation with ASCII whitespace.**  Take the words of the armor of `p` (or any other split of
`'0'` + base64(`p`) into non-empty words) and write them into `pre` elements with *any* runs of
`\t \n \f \r space` before, between and after them (between two words at least one), any harmless bytes
— in particular any whitespace — after each element, and the boilerplate around: as long as every
element's text stays below the tokenizer limit the decoder's result is that of the original armor. -/
theorem whitespace_invariant (p : Bytes) (sizes : Nat → Nat) (hs : ∀ i, 1 ≤ sizes i) (es : List PreElem)
    (hes : ∀ e ∈ es, e.Ok) (hw : (wordsOf es).flatten = 48 :: Base64.encode Base64.std p) :
    decode sizes (document boilerplateStart es) = decode sizes (armor p) := by
  rw [roundtrip p sizes hs, layout_decodes sizes hs p _ es boilerplateStart_neutral hes hw]

/-- A whitespace run (short enough) after an element is harmless; so is one followed by the trailer. -/
theorem ws_filler_neutral (s : Bytes) (h : AllWs s) (hl : s.length + 2 < elementSizeLimit) : Neutral s :=
  neutral_text s (fun c hc => ws_not_lt c (h c hc)) hl

theorem feed_trailer (b : Bytes) (n : Nat) (hn : n + 2 < elementSizeLimit) :
    ∃ evs, feed elementSizeLimit (txt b n) boilerplateEnd = some (TState.fresh, textTok b ++ evs) ∧ noPre evs = true :=
  feed_markup boilerplateEnd (by show markupCheck boilerplateEnd = true; decide +kernel) b n hn

theorem ws_trailer_neutral (s : Bytes) (h : AllWs s) (hl : s.length + 2 < elementSizeLimit) :
    Neutral (s ++ boilerplateEnd) := by
  have f1 := feed_text elementSizeLimit s [] 0 (fun c hc => ws_not_lt c (h c hc)) (by omega)
  obtain ⟨evs, f2, hnp⟩ := feed_trailer (s.reverse ++ []) (0 + s.length) (by omega)
  refine ⟨[], 0, [] ++ (textTok (s.reverse ++ []) ++ evs), ?_, by simp [elementSizeLimit], ?_⟩
  · rw [fresh_eq]
    exact feed_append _ _ _ _ _ _ _ _ f1 (by rw [← fresh_eq]; exact f2)
  · simp [noPre_append, noPre_textTok, hnp]

/-- **Markup outside the `pre` elements.**  Replace the boilerplate header by any admissible sequence of
pieces — `<`-free text and complete markup that is not a `pre` tag (`Markup`: comments, doctype,
processing instructions, start / end / self-closing tags with any attributes, whole raw-text elements,
…), no text run reaching the buffer limit — and put any such sequence after each element: the decoder's
result is unchanged.  (The boilerplate itself is such a sequence: `boilerplate_pieces`.) -/
theorem outside_markup_invariant (p : Bytes) (sizes : Nat → Nat) (hs : ∀ i, 1 ≤ sizes i)
    (pre : List Piece) (hpre : PiecesOk 0 pre)
    (es : List PreElem) (fillers : PreElem → List Piece)
    (hfill : ∀ e ∈ es, e.filler = piecesBytes (fillers e) ∧ PiecesOk 0 (fillers e))
    (hes : ∀ e ∈ es, AllWs e.lead ∧ ItemsOk e.items ∧ (layText e.lead e.items).length + 2 < elementSizeLimit)
    (hw : (wordsOf es).flatten = 48 :: Base64.encode Base64.std p) :
    decode sizes (document (piecesBytes pre) es) = decode sizes (armor p) := by
  rw [roundtrip p sizes hs]
  apply layout_decodes sizes hs p _ es (neutral_pieces pre hpre) _ hw
  intro e he
  obtain ⟨g1, g2, g3⟩ := hes e he
  obtain ⟨f1, f2⟩ := hfill e he
  exact ⟨g1, g2, g3, by rw [f1]; exact neutral_pieces _ f2⟩

/-- The boilerplate header itself is an admissible sequence of pieces: each line is complete markup
(the `style`/`noscript` line as a whole), followed by a newline. -/
def splitLines : Bytes → Bytes → List Bytes
  | [], cur => [cur.reverse]
  | c :: r, cur => if c == 10 then cur.reverse :: splitLines r [] else splitLines r (c :: cur)

def boilerplatePieces : List Piece :=
  ((splitLines boilerplateStart []).dropLast.map (fun l => [Piece.markup l, Piece.text [10]])).flatten

def piecesCheck : Nat → List Piece → Bool
  | n, [] => decide (n + 2 < elementSizeLimit)
  | n, .text t :: r => t.all (fun c => c != 60) && piecesCheck (n + t.length) r
  | n, .markup g :: r => decide (n + 2 < elementSizeLimit) && markupCheck g && piecesCheck 0 r

theorem piecesOk_of_check : ∀ (ps : List Piece) (n : Nat), piecesCheck n ps = true → PiecesOk n ps := by
  intro ps
  induction ps with
  | nil => intro n h; simp only [piecesCheck, decide_eq_true_eq] at h; exact h
  | cons p r ih =>
    intro n h
    cases p with
    | text t =>
      simp only [piecesCheck, Bool.and_eq_true, List.all_eq_true, bne_iff_ne, ne_eq] at h
      exact ⟨h.1, ih _ h.2⟩
    | markup g =>
      simp only [piecesCheck, Bool.and_eq_true, decide_eq_true_eq] at h
      exact ⟨h.1.1, h.1.2, ih _ h.2⟩

theorem boilerplate_pieces : piecesBytes boilerplatePieces = boilerplateStart ∧ PiecesOk 0 boilerplatePieces :=
  ⟨by decide +kernel, piecesOk_of_check _ _ (by decide +kernel)⟩

/-! ## Errors -/

/-- After a harmless prefix and well-formed elements: if what follows makes `decodeToWriter` return an
error (from whatever plain-text state the tokenizer is in), the caller of the decoder gets an error. -/
theorem decode_error_after (sizes : Nat → Nat) (pre : Bytes) (segs : List Seg) (rest : Bytes) (hpre : Neutral pre)
    (hok : ∀ s ∈ segs, s.Ok)
    (h : ∀ b n, n + 2 < elementSizeLimit →
      (scan false (run elementSizeLimit (txt b n) rest).1 (run elementSizeLimit (txt b n) rest).2).2 ≠ none) :
    (decode sizes (pre ++ renderSegs segs ++ rest)).isError = true := by
  obtain ⟨b, n, hn, hsc⟩ := scan_prefix pre segs rest hpre hok
  apply decode_error_of_scan
  rw [hsc]
  exact h b n hn

/-- **Unknown version.**  If the first word of the first non-empty element starts with a byte other
than `'0'`, `NewArmorDecoder` fails with `ErrUnknownVersion` of that byte. -/
theorem errors_classified_unknown_version (sizes : Nat → Nat) (pre : Bytes) (segs : List Seg) (hpre : Neutral pre)
    (hok : ∀ s ∈ segs, s.Ok) (v : UInt8) (w : Bytes) (rest : List Bytes)
    (hw : (segs.map (fun s => words s.text)).flatten = (v :: w) :: rest) (hv : v ≠ 48) :
    decode sizes (pre ++ renderSegs segs) = .initErr (.unknownVersion v) := by
  rw [decode_layout sizes pre segs hpre hok, hw]
  simp [openAndRead, hv]

/-- **Stray `</pre>`** (an end tag outside any `pre` element) is an error; before any armor text it is
the error `NewArmorDecoder` itself returns. -/
theorem errors_classified_stray (sizes : Nat → Nat) (pre : Bytes) (segs : List Seg) (rest : Bytes) (hpre : Neutral pre)
    (hok : ∀ s ∈ segs, s.Ok) :
    (decode sizes (pre ++ renderSegs segs ++ (closeTag ++ rest))).isError = true := by
  apply decode_error_after sizes pre segs _ hpre hok
  intro b n hn
  rw [run_feed _ _ _ _ _ _ (feed_close b n hn)]
  simp only [List.append_assoc]
  rw [scan_text_inactive]
  simp [scan]

theorem errors_classified_stray_first (sizes : Nat → Nat) (pre rest : Bytes) (hpre : Neutral pre) :
    decode sizes (pre ++ (closeTag ++ rest)) = .initErr .strayPre := by
  obtain ⟨b, n, evs, hf, hn, hnp⟩ := hpre
  unfold decode tokenize
  rw [run_feed _ _ _ _ _ _ hf, run_feed _ _ _ _ _ _ (feed_close b n hn)]
  simp only [List.append_assoc]
  rw [scan_noPre _ _ _ hnp, scan_text_inactive]
  simp [scan, openAndRead]

/-- **Nested `<pre>`** is an error. -/
theorem errors_classified_nested (sizes : Nat → Nat) (pre : Bytes) (segs : List Seg) (t rest : Bytes) (hpre : Neutral pre)
    (hok : ∀ s ∈ segs, s.Ok) (ht : ∀ c ∈ t, c ≠ 60) (hl : t.length + 2 < elementSizeLimit) :
    (decode sizes (pre ++ renderSegs segs ++ (openTag ++ t ++ openTag ++ rest))).isError = true := by
  apply decode_error_after sizes pre segs _ hpre hok
  intro b n hn
  have f1 := feed_open b n hn
  have f2 : feed elementSizeLimit TState.fresh t = some (txt t.reverse t.length, []) := by
    have := feed_text elementSizeLimit t [] 0 ht (by omega)
    simpa [fresh_eq] using this
  have f3 := feed_open t.reverse t.length hl
  have f123 := feed_append _ _ _ _ _ _ _ _ (feed_append _ _ _ _ _ _ _ _ f1 f2) f3
  rw [run_feed _ _ _ _ _ _ f123]
  simp only [List.append_assoc, List.append_nil]
  rw [scan_text_inactive]
  simp only [List.cons_append, List.nil_append, scan, beq_self_eq_true, if_true, Bool.false_eq_true, if_false]
  rw [words_textTok]
  simp [scan]

/-- **Missing `</pre>`** (the document ends inside a `pre` element) is an error. -/
theorem errors_classified_missing (sizes : Nat → Nat) (pre : Bytes) (segs : List Seg) (t : Bytes) (hpre : Neutral pre)
    (hok : ∀ s ∈ segs, s.Ok) (ht : ∀ c ∈ t, c ≠ 60) (hl : t.length + 2 < elementSizeLimit) :
    (decode sizes (pre ++ renderSegs segs ++ (openTag ++ t))).isError = true := by
  apply decode_error_after sizes pre segs _ hpre hok
  intro b n hn
  have f1 := feed_open b n hn
  have f2 : feed elementSizeLimit TState.fresh t = some (txt t.reverse t.length, []) := by
    have := feed_text elementSizeLimit t [] 0 ht (by omega)
    simpa [fresh_eq] using this
  have f12 := feed_append _ _ _ _ _ _ _ _ f1 f2
  have := run_feed _ _ _ _ _ [] f12
  rw [List.append_nil] at this
  rw [this]
  have hfl : run elementSizeLimit (txt t.reverse t.length) [] = (textTok t.reverse, .eof) := rfl
  rw [hfl]
  simp only [List.append_assoc, List.append_nil]
  rw [scan_text_inactive]
  simp only [List.cons_append, List.nil_append, scan, beq_self_eq_true, if_true, Bool.false_eq_true, if_false]
  have := words_textTok t [] .eof
  rw [List.append_nil] at this
  rw [this]
  simp [scan]

/-- **Oversized token.**  Whenever the tokenizer hits its buffer limit (a token of `elementSizeLimit`
bytes or more, look-ahead included) the decoder reports an error. -/
theorem errors_classified_exceeded (sizes : Nat → Nat) (doc : Bytes) (h : (tokenize doc).2 = .exceeded) :
    (decode sizes doc).isError = true := by
  apply decode_error_of_scan
  rw [h]
  exact scan_exceeded _ _

/-- In particular a `pre` element with `elementSizeLimit` or more bytes of text is an error. -/
theorem errors_classified_oversized_element (sizes : Nat → Nat) (pre : Bytes) (segs : List Seg) (t rest : Bytes)
    (hpre : Neutral pre) (hok : ∀ s ∈ segs, s.Ok) (ht : ∀ c ∈ t, c ≠ 60) (hl : elementSizeLimit ≤ t.length) :
    (decode sizes (pre ++ renderSegs segs ++ (openTag ++ t ++ rest))).isError = true := by
  apply decode_error_after sizes pre segs _ hpre hok
  intro b n hn
  have f1 := feed_open b n hn
  rw [List.append_assoc, run_feed _ _ _ _ _ _ f1]
  simp only []
  have hx : (run elementSizeLimit TState.fresh (t ++ rest)).2 = .exceeded := by
    rw [fresh_eq]
    exact run_text_exceeds elementSizeLimit (by simp [elementSizeLimit]) t rest [] 0 ht (by simp [elementSizeLimit]) (by omega)
  rw [hx]
  exact scan_exceeded _ _

/-- **Bad base64.**  If any word after the version byte contains a byte that is neither in the standard
base64 alphabet nor `=` (words cannot contain line breaks), the decoder reports an error — whatever the
word boundaries and the read sizes.  (Truncated base64 and misplaced padding are covered by evaluated
instances below and, for padding in the middle, by `stream_padding_quirk`.) -/
theorem errors_classified_bad_base64 (sizes : Nat → Nat) (pre : Bytes) (segs : List Seg) (hpre : Neutral pre)
    (hok : ∀ s ∈ segs, s.Ok) (w : Bytes) (rest : List Bytes)
    (hw : (segs.map (fun s => words s.text)).flatten = (48 :: w) :: rest)
    (b : UInt8) (hb : b ∈ (w :: rest).flatten) (hbad : Base64.isBad Base64.std b = true) :
    (decode sizes (pre ++ renderSegs segs)).isError = true := by
  rw [decode_layout sizes pre segs hpre hok, hw]
  exact openAndRead_bad sizes w rest none b hb hbad

/-- **Any error of the scanning loop reaches the caller**: whatever has been written to the pipe, if
`decodeToWriter` returns an error (stray / nested / unterminated `pre`, buffer limit) then
`NewArmorDecoder` fails or the returned reader ends with an error — never with a clean `io.EOF`.
Together with totality (every function of the model is total: `decode` is defined on all byte
strings) this is the classification "data or an error". -/
theorem errors_classified_read_error (sizes : Nat → Nat) (ws : List Bytes) (e : Err) :
    (openAndRead sizes ws (some e)).isError = true := openAndRead_error sizes ws e

/-! ## Non-vacuity and evaluated instances -/

/-- The armor of "hi", decoded with a 3-byte read buffer (an instance of `roundtrip`, evaluated). -/
example : decode (fun _ => 3) (armor [104, 105]) = .read [104, 105] none := by decide +kernel

/-- `<pre>\r\n \t0aG\f\fk=</pre> \t<pre> </pre>\n` between the boilerplate: re-separated armor of "hi". -/
example : decode (fun _ => 512) (boilerplateStart ++ [60, 112, 114, 101, 62, 13, 10, 32, 9, 48, 97, 71, 12, 12, 107, 61, 60, 47, 112, 114, 101, 62, 32, 9, 60, 112, 114, 101, 62, 32, 60, 47, 112, 114, 101, 62, 10] ++ boilerplateEnd)
    = .read [104, 105] none := by decide +kernel

/-- Markup before and after the element: a comment containing `<pre>`, a tag with `>` in a quoted
attribute value, a script whose text contains `<pre>`, a self-closing tag, a style element containing
`</pre>`, text. -/
example : decode (fun _ => 512)
    ([60, 33, 45, 45, 32, 60, 112, 114, 101, 62, 120, 60, 47, 112, 114, 101, 62, 32, 45, 45, 62, 60, 112, 32, 99, 108, 97, 115, 115, 61, 34, 97, 62, 98, 34, 62, 60, 115, 99, 114, 105, 112, 116, 62, 118, 97, 114, 32, 115, 61, 39, 60, 112, 114, 101, 62, 39, 59, 60, 47, 115, 99, 114, 105, 112, 116, 62] ++ preOpen ++ [48, 97, 71, 107, 61, 10] ++ preClose ++ [60, 98, 114, 47, 62, 60, 33, 45, 45, 120, 45, 45, 62, 60, 115, 116, 121, 108, 101, 62, 60, 47, 112, 114, 101, 62, 60, 47, 115, 116, 121, 108, 101, 62, 32, 116, 101, 120, 116, 32])
    = .read [104, 105] none := by decide +kernel

/-- Each of those is `Markup` / admissible in the sense of `outside_markup_invariant`. -/
example : piecesCheck 0 [.markup [60, 33, 45, 45, 32, 60, 112, 114, 101, 62, 120, 60, 47, 112, 114, 101, 62, 32, 45, 45, 62, 60, 112, 32, 99, 108, 97, 115, 115, 61, 34, 97, 62, 98, 34, 62, 60, 115, 99, 114, 105, 112, 116, 62, 118, 97, 114, 32, 115, 61, 39, 60, 112, 114, 101, 62, 39, 59, 60, 47, 115, 99, 114, 105, 112, 116, 62], .text [32, 10], .markup [60, 98, 114, 47, 62, 60, 33, 45, 45, 120, 45, 45, 62, 60, 115, 116, 121, 108, 101, 62, 60, 47, 112, 114, 101, 62, 60, 47, 115, 116, 121, 108, 101, 62], .text [32, 116, 32]] = true := by
  decide +kernel

/-- Malformed documents (instances of the `errors_classified_*` theorems, evaluated): unknown version,
stray, nested, missing `</pre>`, bad base64 character, truncated base64. -/
example : decode (fun _ => 512) [60, 112, 114, 101, 62, 49, 97, 71, 107, 61, 60, 47, 112, 114, 101, 62] = .initErr (.unknownVersion 49) := by decide +kernel
example : decode (fun _ => 512) [60, 47, 112, 114, 101, 62, 60, 112, 114, 101, 62, 48, 97, 71, 107, 61, 60, 47, 112, 114, 101, 62] = .initErr .strayPre := by decide +kernel
example : decode (fun _ => 512) [60, 112, 114, 101, 62, 48, 97, 71, 107, 61, 60, 112, 114, 101, 62, 60, 47, 112, 114, 101, 62, 60, 47, 112, 114, 101, 62] = .read [104, 105] (some .nestedPre) := by decide +kernel
example : decode (fun _ => 512) [60, 112, 114, 101, 62, 48, 97, 71, 107, 61] = .read [104, 105] (some .missingPre) := by decide +kernel
example : decode (fun _ => 512) [60, 112, 114, 101, 62, 48, 97, 71, 33, 107, 61, 60, 47, 112, 114, 101, 62] = .read [] (some .corrupt) := by decide +kernel
example : decode (fun _ => 512) [60, 112, 114, 101, 62, 48, 97, 71, 107, 60, 47, 112, 114, 101, 62] = .read [] (some .unexpectedEOF) := by decide +kernel
example : decode (fun _ => 512) [] = .initErr .eof := by decide +kernel

/-- A quirk of Go's streaming base64 decoder that the model reproduces (and the harness confirms on
the real code): padding in the *middle* of the text is an error only if more text follows it in the same
`Decode` call, which depends on the word boundaries and on the caller's read size.  The same words read
with a 512-byte buffer give "hi" and `CorruptInputError`, with a 1-byte buffer "hihi" and no error.
Real armor never contains padding before its end, so `roundtrip` is unaffected. -/
theorem stream_padding_quirk :
    decode (fun _ => 512) [60, 112, 114, 101, 62, 48, 97, 71, 107, 61, 97, 71, 107, 61, 60, 47, 112, 114, 101, 62] = .read [104, 105] (some .corrupt)
    ∧ decode (fun _ => 1) [60, 112, 114, 101, 62, 48, 97, 71, 107, 61, 97, 71, 107, 61, 60, 47, 112, 114, 101, 62] = .read [104, 105, 104, 105] none := by
  decide +kernel

end Snowflake.Amp.C10
