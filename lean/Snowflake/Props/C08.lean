import Snowflake.Model.Util
import Snowflake.Proofs.IP
/-!
# C08 — local addresses are stripped from SDP, nothing else is lost

Theorems about `Snowflake.Model.Util` (tied to the source in `Tie/Util.lean`: the translated
`util.IsLocal` equals `isLocal`; the filter loop is tied by a statement listing and differential runs;
the application of the filter to what `Negotiate` / `sendAnswer` send is tied in
`Tie/StripAppliedClient.lean` / `Tie/StripAppliedProxy.lean` by data-flow facts about their regenerated
statement lists, and by differential runs of the two real functions).

`partial` by design (DESIGN §5.8): pion's SDP parser / marshaller and `ice.UnmarshalCandidate` are not
modelled — they enter through `view`; "no input makes `StripLocalAddresses` panic" is therefore not a
theorem (harness evidence only).
-/
namespace Snowflake.Util.C08
open Snowflake.GoStr Snowflake.IP

/-! ## address classification -/

/-- the 32-bit value of a dotted quad -/
def v4val (a b c d : UInt8) : Nat := a.toNat * 16777216 + b.toNat * 65536 + c.toNat * 256 + d.toNat

/-- 10/8 ∪ 172.16/12 ∪ 192.168/16 ∪ 100.64/10 ∪ 169.254/16 as intervals of 32-bit values -/
def local4 (x : Nat) : Prop :=
  (0x0A000000 ≤ x ∧ x ≤ 0x0AFFFFFF) ∨ (0xAC100000 ≤ x ∧ x ≤ 0xAC1FFFFF) ∨ (0xC0A80000 ≤ x ∧ x ≤ 0xC0A8FFFF)
    ∨ (0x64400000 ≤ x ∧ x ≤ 0x647FFFFF) ∨ (0xA9FE0000 ≤ x ∧ x ≤ 0xA9FEFFFF)

theorem local4_iff (a b c d : UInt8) :
    local4 (v4val a b c d) ↔
      (a.toNat = 10 ∨ (a.toNat = 172 ∧ 16 ≤ b.toNat ∧ b.toNat ≤ 31) ∨ (a.toNat = 192 ∧ b.toNat = 168)
        ∨ (a.toNat = 100 ∧ 64 ≤ b.toNat ∧ b.toNat ≤ 127) ∨ (a.toNat = 169 ∧ b.toNat = 254)) := by
  have ha := a.toNat_lt
  have hb := b.toNat_lt
  have hc := c.toNat_lt
  have hd := d.toNat_lt
  unfold local4 v4val
  omega

/-- **IPv4 (4-byte form).**  `IsLocal` holds exactly on the five ranges — every boundary
(9.255.255.255/10.0.0.0/10.255.255.255/11.0.0.0, 172.15/172.16/172.31/172.32, 192.167/192.168/192.169,
100.63/100.64/100.127/100.128, 169.253/169.254/169.255) is inside the quantifier. -/
theorem isLocal_spec_v4 (a b c d : UInt8) : isLocal [a, b, c, d] = true ↔ local4 (v4val a b c d) := by
  rw [local4_iff]
  simp only [isLocal, to4, idx, List.length_cons, List.length_nil]
  simp only [Nat.reduceAdd, if_true, Bool.or_eq_true, Bool.and_eq_true, beq_iff_eq, decide_eq_true_eq,
    List.getD_cons_zero, List.getD_cons_succ]
  omega

/-- **IPv4-mapped (16-byte form `::ffff:a.b.c.d`)**: same ranges. -/
theorem isLocal_spec_mapped (a b c d : UInt8) :
    isLocal (v4InV6Prefix ++ [a, b, c, d]) = true ↔ local4 (v4val a b c d) := by
  rw [local4_iff]
  have : to4 (v4InV6Prefix ++ [a, b, c, d]) = some [a, b, c, d] := by
    simp [to4, v4InV6Prefix, idx]
  simp only [isLocal, this, idx]
  simp only [Bool.or_eq_true, Bool.and_eq_true, beq_iff_eq, decide_eq_true_eq,
    List.getD_cons_zero, List.getD_cons_succ]
  omega

/-- **IPv6 (16 bytes, not IPv4-mapped)**: exactly `fc00::/7`, i.e. first byte `fc` or `fd`
(`fb…` and `fe…` are outside). -/
theorem isLocal_spec_v6 (ip : List UInt8) (h16 : ip.length = 16) (hn : to4 ip = none) :
    isLocal ip = true ↔ (0xfc ≤ (idx ip 0).toNat ∧ (idx ip 0).toNat ≤ 0xfd) := by
  simp [isLocal, hn, h16]

/-- Slices that are neither 4 nor 16 bytes long are never local. -/
theorem isLocal_other_len (ip : List UInt8) (h4 : ip.length ≠ 4) (h16 : ip.length ≠ 16) : isLocal ip = false := by
  have : to4 ip = none := by simp [to4, h4, h16]
  simp [isLocal, this, h16]

/-- **`isLocal_spec`** — all forms at once: an address is local iff it is an IPv4 address (4-byte or
IPv4-mapped 16-byte form) whose 32-bit value lies in 10/8 ∪ 172.16/12 ∪ 192.168/16 ∪ 100.64/10 ∪
169.254/16, or a 16-byte non-mapped address in `fc00::/7`. -/
theorem isLocal_spec (ip : List UInt8) :
    isLocal ip = true ↔
      (∃ a b c d, (ip = [a, b, c, d] ∨ ip = v4InV6Prefix ++ [a, b, c, d]) ∧ local4 (v4val a b c d))
      ∨ (ip.length = 16 ∧ to4 ip = none ∧ 0xfc ≤ (idx ip 0).toNat ∧ (idx ip 0).toNat ≤ 0xfd) := by
  by_cases h4 : ip.length = 4
  · obtain ⟨a, b, c, d, rfl⟩ := len4 ip h4
    rw [isLocal_spec_v4]
    constructor
    · intro h; exact Or.inl ⟨a, b, c, d, Or.inl rfl, h⟩
    · rintro (⟨a', b', c', d', h | h, hl⟩ | ⟨h, _⟩)
      · simp only [List.cons.injEq, and_true] at h
        obtain ⟨rfl, rfl, rfl, rfl⟩ := h; exact hl
      · have := congrArg List.length h; simp [v4InV6Prefix] at this
      · simp at h
  · by_cases h16 : ip.length = 16
    · rcases to4_16 ip h16 with ⟨a, b, c, d, rfl, h4'⟩ | hn
      · rw [isLocal_spec_mapped]
        constructor
        · intro h; exact Or.inl ⟨a, b, c, d, Or.inr rfl, h⟩
        · rintro (⟨a', b', c', d', h | h, hl⟩ | ⟨_, h, _⟩)
          · have := congrArg List.length h; simp [v4InV6Prefix] at this
          · have := List.append_cancel_left h
            simp only [List.cons.injEq, and_true] at this
            obtain ⟨rfl, rfl, rfl, rfl⟩ := this; exact hl
          · rw [h4'] at h; cases h
      · rw [isLocal_spec_v6 ip h16 hn]
        constructor
        · intro h; exact Or.inr ⟨h16, hn, h⟩
        · rintro (⟨a', b', c', d', h | h, _⟩ | ⟨_, _, h⟩)
          · subst h; simp at h16
          · subst h; simp [to4, v4InV6Prefix, idx] at hn
          · exact h
    · rw [isLocal_other_len ip h4 h16]
      constructor
      · intro h; cases h
      · rintro (⟨a', b', c', d', h | h, _⟩ | ⟨h, _⟩)
        · subst h; simp at h4
        · subst h; simp [v4InV6Prefix] at h16
        · exact absurd h h16

/-- `IsLoopback` on a 16-byte address (what `net.ParseIP` returns): `::ffff:127.x.y.z` or `::1`. -/
theorem isLoopback_spec (ip : List UInt8) (h16 : ip.length = 16) :
    isLoopback ip = true ↔ (∃ b c d, ip = v4InV6Prefix ++ [127, b, c, d]) ∨ ip = ipv6loopback := by
  rcases to4_16 ip h16 with ⟨a, b, c, d, rfl, h4⟩ | hn
  · simp only [isLoopback, h4, idx, List.getD_cons_zero, beq_iff_eq]
    constructor
    · rintro rfl; exact Or.inl ⟨b, c, d, rfl⟩
    · rintro (⟨b', c', d', h⟩ | h)
      · have := List.append_cancel_left h
        simp only [List.cons.injEq, and_true] at this
        exact this.1
      · simp [v4InV6Prefix, ipv6loopback] at h
  · have hl : ipv6loopback.length = 16 := rfl
    simp only [isLoopback, hn, equal, h16, hl, if_true, beq_iff_eq]
    constructor
    · intro h; exact Or.inr h
    · rintro (⟨b', c', d', h⟩ | h)
      · subst h; simp [to4, v4InV6Prefix, idx] at hn
      · exact h

/-! ## the candidate filter -/

/-- **Specification predicate**: the attribute is an ICE candidate that pion parses, of type host, whose
address text parses to an IP that is local, unspecified or loopback. -/
def Bad (i : CandInfo) : Prop :=
  i.isCandidate = true ∧ i.parsesOK = true ∧ i.isHost = true ∧
    ∃ ip, parseIP i.addr = some ip ∧ (isLocal ip = true ∨ isUnspecified ip = true ∨ isLoopback ip = true)

/-- the same as a Boolean test (for `List.filter`) -/
def bad (i : CandInfo) : Bool :=
  i.isCandidate && i.parsesOK && i.isHost &&
    match parseIP i.addr with
    | some ip => isLocal ip || isUnspecified ip || isLoopback ip
    | none => false

theorem bad_iff (i : CandInfo) : bad i = true ↔ Bad i := by
  unfold bad Bad
  cases hp : parseIP i.addr with
  | none => simp
  | some ip => simp [and_assoc, or_assoc]

section filter
variable {α : Type} (view : α → CandInfo)

/-- the loop, with its nested guards, is a filter by the specification predicate -/
theorem stripLoop_eq (acc attrs : List α) :
    stripLoop view acc attrs = acc ++ attrs.filter (fun a => !bad (view a)) := by
  induction attrs generalizing acc with
  | nil => simp [stripLoop]
  | cons a rest ih =>
    rw [stripLoop, List.filter_cons]
    split
    · split
      · split
        · split
          · have : bad (view a) = true := by simp_all [bad]
            simp [this, ih]
          · have : bad (view a) = false := by simp_all [bad]
            simp [this, ih]
        · have : bad (view a) = false := by simp_all [bad]
          simp [this, ih]
      · have : bad (view a) = false := by
          rename_i h1 h2
          simp only [bad]
          cases hp : (view a).parsesOK <;> cases hh : (view a).isHost <;> simp_all
        simp [this, ih]
    · have : bad (view a) = false := by simp_all [bad]
      simp [this, ih]

/-- **`strip_removes_only`**: the result is the original attribute list minus exactly the `Bad`
attributes — same order, same multiplicities, nothing else removed or altered. -/
theorem strip_removes_only (attrs : List α) : strip view attrs = attrs.filter (fun a => !bad (view a)) := by
  simp [strip, stripLoop_eq]

/-- **`strip_removes_all`**: no attribute of the result is a host candidate whose address parses to a
local, loopback or unspecified IP. -/
theorem strip_removes_all (attrs : List α) : ∀ a ∈ strip view attrs, ¬ Bad (view a) := by
  intro a ha
  rw [strip_removes_only, List.mem_filter] at ha
  rw [← bad_iff]; simpa using ha.2

/-- every attribute that is not `Bad` survives -/
theorem strip_keeps_others (attrs : List α) : ∀ a ∈ attrs, ¬ Bad (view a) → a ∈ strip view attrs := by
  intro a ha hb
  rw [strip_removes_only, List.mem_filter]
  rw [← bad_iff] at hb
  exact ⟨ha, by simpa using hb⟩

/-- order preserved: the result is a sublist of the input -/
theorem strip_sublist (attrs : List α) : (strip view attrs).Sublist attrs := by
  rw [strip_removes_only]; exact List.filter_sublist

/-- **`strip_idempotent`** -/
theorem strip_idempotent (attrs : List α) : strip view (strip view attrs) = strip view attrs := by
  simp [strip_removes_only, List.filter_filter]

/-- Stripping looks at one attribute at a time: no state is carried from one attribute (or one media section)
to the next, so stripping a concatenation is the concatenation of the strippings. -/
theorem strip_append (a b : List α) : strip view (a ++ b) = strip view a ++ strip view b := by
  simp [strip_removes_only]

/-- **Nothing else is lost, exactly**: the list comes back unchanged iff it held no `Bad` attribute. -/
theorem strip_unchanged_iff (attrs : List α) : strip view attrs = attrs ↔ ∀ a ∈ attrs, ¬ Bad (view a) := by
  rw [strip_removes_only, List.filter_eq_self]
  constructor
  · intro h a ha; rw [← bad_iff]; simpa using h a ha
  · intro h a ha; have := h a ha; rw [← bad_iff] at this; simpa using this

/-- Accounting: survivors plus removed `Bad` attributes are all the attributes (multiplicities included). -/
theorem strip_count (attrs : List α) :
    (strip view attrs).length + (attrs.filter (fun a => bad (view a))).length = attrs.length := by
  rw [strip_removes_only]
  induction attrs with
  | nil => rfl
  | cons a r ih =>
    simp only [List.filter_cons]
    cases bad (view a) <;> simp <;> omega

/-- In terms of the ranges: a surviving, parseable host candidate's address is outside every local
range (`isLocal_spec`), is not loopback and not unspecified. -/
theorem strip_survivor_not_local (attrs : List α) (a : α) (ha : a ∈ strip view attrs)
    (hc : (view a).isCandidate = true) (hp : (view a).parsesOK = true) (hh : (view a).isHost = true)
    (ip : List UInt8) (hip : parseIP (view a).addr = some ip) :
    isLocal ip = false ∧ isUnspecified ip = false ∧ isLoopback ip = false := by
  have := strip_removes_all view attrs a ha
  unfold Bad at this
  cases h1 : isLocal ip <;> cases h2 : isUnspecified ip <;> cases h3 : isLoopback ip <;>
    first
    | exact ⟨rfl, rfl, rfl⟩
    | exact absurd ⟨hc, hp, hh, ip, hip, by simp [h1, h2, h3]⟩ this

/-! ### whole description -/

variable {μ σ : Type}

/-- Everything but the media attributes is untouched: session part, number and order of media sections,
and each section's other fields. -/
theorem stripSdp_untouched (d : Sdp α μ σ) :
    (stripSdp view d).session = d.session
    ∧ (stripSdp view d).media.length = d.media.length
    ∧ (stripSdp view d).media.map (·.other) = d.media.map (·.other) := by
  simp [stripSdp, List.map_map, Function.comp_def]

/-- Each media section's attributes are filtered as in `strip_removes_only`. -/
theorem stripSdp_attrs (d : Sdp α μ σ) :
    (stripSdp view d).media.map (·.attrs) = d.media.map (fun m => m.attrs.filter (fun a => !bad (view a))) := by
  simp [stripSdp, List.map_map, Function.comp_def, strip_removes_only]

theorem stripSdp_removes_all (d : Sdp α μ σ) :
    ∀ m ∈ (stripSdp view d).media, ∀ a ∈ m.attrs, ¬ Bad (view a) := by
  intro m hm a ha
  simp only [stripSdp, List.mem_map] at hm
  obtain ⟨m0, _, rfl⟩ := hm
  exact strip_removes_all view m0.attrs a ha

theorem stripSdp_idempotent (d : Sdp α μ σ) : stripSdp view (stripSdp view d) = stripSdp view d := by
  simp [stripSdp, List.map_map, Function.comp_def, strip_idempotent]

/-! ### what leaves the process

`leaves view keep d` is the description `Negotiate` / `sendAnswer` serialise into the request to the
broker (tied to the two functions in `Tie/StripAppliedClient.lean`: `negotiate_strips_under_flag`,
`negotiate_sends_serialised`, and `Tie/StripAppliedProxy.lean`: `sendAnswer_strips_under_flag`,
`sendAnswer_sends_serialised`).  The clause of the property about what is *sent* is the composition of
that definition with the theorems above. -/

variable {τ : Type}

/-- `leaves` is the two-way choice and nothing else: the untouched description when local addresses are
explicitly kept, otherwise the same type with the stripped SDP — whatever stripping removed. -/
theorem leaves_eq (keep : Bool) (d : Desc τ α μ σ) :
    leaves view keep d = if keep then d else ⟨d.type, stripSdp view d.sdp⟩ := by
  cases keep <;> rfl

/-- Local addresses explicitly kept: the description leaves untouched. -/
theorem leaves_kept (d : Desc τ α μ σ) : leaves view true d = d := rfl

/-- **Unless local addresses are explicitly kept, no local host candidate leaves the process**: no
media-level attribute of the sent description is an ICE candidate that parses, is of type host and has
an address that parses to a local (RFC 1918 / 6598 / 3927 / 4193), unspecified or loopback IP. -/
theorem leaves_no_local (d : Desc τ α μ σ) :
    ∀ m ∈ (leaves view false d).sdp.media, ∀ a ∈ m.attrs, ¬ Bad (view a) :=
  stripSdp_removes_all view d.sdp

/-- The same in terms of the ranges (`isLocal_spec`): a host candidate of the sent description whose
address is an IP literal lies outside every local range and is neither loopback nor unspecified. -/
theorem leaves_survivor_not_local (d : Desc τ α μ σ) (m : Media α μ) (hm : m ∈ (leaves view false d).sdp.media)
    (a : α) (ha : a ∈ m.attrs)
    (hc : (view a).isCandidate = true) (hp : (view a).parsesOK = true) (hh : (view a).isHost = true)
    (ip : List UInt8) (hip : parseIP (view a).addr = some ip) :
    isLocal ip = false ∧ isUnspecified ip = false ∧ isLoopback ip = false := by
  have := leaves_no_local view d m hm a ha
  unfold Bad at this
  cases h1 : isLocal ip <;> cases h2 : isUnspecified ip <;> cases h3 : isLoopback ip <;>
    first
    | exact ⟨rfl, rfl, rfl⟩
    | exact absurd ⟨hc, hp, hh, ip, hip, by simp [h1, h2, h3]⟩ this

/-- **Everything else is preserved, in order**, with either value of the flag: the type, the session
part, number / order / other fields of the media sections; and each section's attributes are the
original ones minus exactly the `Bad` ones (all of them when local addresses are kept). -/
theorem leaves_preserves (keep : Bool) (d : Desc τ α μ σ) :
    (leaves view keep d).type = d.type
    ∧ (leaves view keep d).sdp.session = d.sdp.session
    ∧ (leaves view keep d).sdp.media.length = d.sdp.media.length
    ∧ (leaves view keep d).sdp.media.map (·.other) = d.sdp.media.map (·.other)
    ∧ (leaves view keep d).sdp.media.map (·.attrs)
        = d.sdp.media.map (fun m => if keep then m.attrs else m.attrs.filter (fun a => !bad (view a))) := by
  cases keep
  · have h := stripSdp_untouched view d.sdp
    exact ⟨rfl, h.1, h.2.1, h.2.2, by simpa [leaves] using stripSdp_attrs view d.sdp⟩
  · simp [leaves]

/-- **No fall-back**: a description all of whose candidates are local host candidates leaves with no
candidate at all — the sent description is never the unstripped one because stripping "removed too
much". -/
theorem leaves_all_local (d : Desc τ α μ σ) (h : ∀ m ∈ d.sdp.media, ∀ a ∈ m.attrs, Bad (view a)) :
    ∀ m ∈ (leaves view false d).sdp.media, m.attrs = [] := by
  intro m hm
  simp only [leaves, Bool.not_false, if_true, stripSdp, List.mem_map] at hm
  obtain ⟨m0, hm0, rfl⟩ := hm
  simp only [strip_removes_only, List.filter_eq_nil_iff]
  intro a ha
  have := (bad_iff (view a)).mpr (h m0 hm0 a ha)
  simp [this]

/-- **`sent_description_spec`** — the clause of C08 about the description a client or proxy sends to
the broker, for both values of the flag. -/
theorem sent_description_spec (keep : Bool) (d : Desc τ α μ σ) :
    (keep = true → leaves view keep d = d)
    ∧ (keep = false → ∀ m ∈ (leaves view keep d).sdp.media, ∀ a ∈ m.attrs, ¬ Bad (view a))
    ∧ (leaves view keep d).type = d.type
    ∧ (leaves view keep d).sdp.session = d.sdp.session
    ∧ (leaves view keep d).sdp.media.map (·.other) = d.sdp.media.map (·.other)
    ∧ (leaves view keep d).sdp.media.map (·.attrs)
        = d.sdp.media.map (fun m => if keep then m.attrs else m.attrs.filter (fun a => !bad (view a))) := by
  have hp := leaves_preserves view keep d
  refine ⟨?_, ?_, hp.1, hp.2.1, hp.2.2.2.1, hp.2.2.2.2⟩
  · rintro rfl; rfl
  · rintro rfl; exact leaves_no_local view d

end filter

/-! ## Non-vacuity -/

private def mk (host : Bool) (addr : String) : CandInfo := ⟨true, true, host, ofString addr⟩

/-- the repository's own test vector (eight local addresses of all kinds) plus boundary neighbours,
other candidate types, an unparseable candidate and a non-candidate attribute -/
example :
    strip id [mk true "8.8.8.8", mk true "192.168.0.100", mk true "100.127.50.5", mk true "169.254.250.88",
        mk true "fdf8:f53b:82e4::53", mk true "0.0.0.0", mk true "::", mk true "127.0.0.1", mk true "::1",
        mk true "172.15.255.255", mk true "172.16.0.0", mk true "172.31.255.255", mk true "172.32.0.0",
        mk true "100.63.255.255", mk true "100.128.0.0", mk true "fbff::1", mk true "fe00::1",
        mk true "::ffff:10.1.2.3", mk false "10.0.0.1", ⟨true, false, false, []⟩, ⟨false, false, false, []⟩,
        mk true "abc.local"]
      = [mk true "8.8.8.8", mk true "172.15.255.255", mk true "172.32.0.0", mk true "100.63.255.255",
        mk true "100.128.0.0", mk true "fbff::1", mk true "fe00::1", mk false "10.0.0.1",
        ⟨true, false, false, []⟩, ⟨false, false, false, []⟩, mk true "abc.local"] := by
  decide +kernel

/-- an all-local answer (the hypothesis of `leaves_all_local` is satisfiable, and `leaves` really
distinguishes the two values of the flag): stripped to nothing unless kept; a server-reflexive candidate
with a private address is not a host candidate and leaves -/
example :
    (leaves id false (⟨"answer", (), [⟨(), [mk true "10.1.2.3", mk true "fd00::2", mk true "127.0.0.1"]⟩]⟩ : Desc String CandInfo Unit Unit)).sdp.media.map (·.attrs)
      = [[]]
    ∧ (leaves id true (⟨"answer", (), [⟨(), [mk true "10.1.2.3", mk true "fd00::2", mk true "127.0.0.1"]⟩]⟩ : Desc String CandInfo Unit Unit)).sdp.media.map (·.attrs)
      = [[mk true "10.1.2.3", mk true "fd00::2", mk true "127.0.0.1"]]
    ∧ (leaves id false (⟨"offer", (), [⟨(), [mk true "192.168.1.7", mk false "192.168.1.7", mk true "192.0.2.2"]⟩]⟩ : Desc String CandInfo Unit Unit)).sdp.media.map (·.attrs)
      = [[mk false "192.168.1.7", mk true "192.0.2.2"]] := by
  decide +kernel

example : ∀ m ∈ [(⟨(), [mk true "10.1.2.3", mk true "::1"]⟩ : Media CandInfo Unit)], ∀ a ∈ m.attrs, Bad (id a) := by
  intro m hm a ha
  rw [← bad_iff]
  simp only [List.mem_singleton] at hm
  subst hm
  simp only [List.mem_cons, List.mem_nil_iff, or_false] at ha
  rcases ha with rfl | rfl <;> decide +kernel

example : isLocal [172, 31, 255, 255] = true ∧ isLocal [172, 32, 0, 0] = false ∧ isLocal [100, 63, 255, 255] = false
    ∧ isLocal [100, 64, 0, 0] = true ∧ isLocal [0xfb, 0xff, 0, 0, 0, 0, 0, 0, 0, 0, 0, 0, 0, 0, 0, 1] = false
    ∧ isLocal [0xfd, 0, 0, 0, 0, 0, 0, 0, 0, 0, 0, 0, 0, 0, 0, 1] = true := by decide +kernel

end Snowflake.Util.C08
