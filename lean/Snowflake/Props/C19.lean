import Snowflake.Proofs.Metrics
/-!
# C19 — published broker counts are rounded up to 8 and never too low

Property theorems about `Snowflake.Model.Metrics` (the model of `broker/metrics.go`,
`broker/prometheus.go`, the counter call sites of `broker/ipc.go`, `common/ipsetsink` and
`common/ipsetsink/sinkcluster`).  Helper lemmas live in `Proofs/Metrics.lean`.

Level: proof-partial.  Modelled, not verified: float64 exactness of `binCount` below 2^53 (stated at
`Metrics.binCount`, sampled by the harness); HyperLogLog++ (abstracted as an exact finite set),
gob/JSON encoding of the journal, HMAC-SHA3 as the masking function parameter `m`.
-/
namespace Snowflake.Metrics.C19

/-! ## Rounding -/

/-- **Rounding clause.** `ceil8 n` is a multiple of 8, never below `n`, never more than 7 above. -/
theorem ceil8_spec (n : Nat) : 8 ∣ ceil8 n ∧ n ≤ ceil8 n ∧ ceil8 n < n + 8 :=
  ⟨ceil8_dvd n, ceil8_ge n, ceil8_lt n⟩

/-- Rounding is monotone: a larger true count is never published as a smaller number. -/
theorem ceil8_mono (a b : Nat) (h : a ≤ b) : ceil8 a ≤ ceil8 b := by
  unfold ceil8; omega

/-- Rounding an already rounded value changes nothing (publishing twice cannot inflate a count). -/
theorem ceil8_idem (n : Nat) : ceil8 (ceil8 n) = ceil8 n := by
  unfold ceil8; omega

/-- A published `0` means exactly "no events": a non-zero count is never hidden as zero, and zero is never
published as `8`. -/
theorem ceil8_zero_iff (n : Nat) : ceil8 n = 0 ↔ n = 0 := by
  unfold ceil8; omega

/-- The published value is the true one exactly for multiples of 8. -/
theorem ceil8_fixed_iff (n : Nat) : ceil8 n = n ↔ 8 ∣ n := by
  unfold ceil8; omega

/-- **What a published count reveals**: two true counts are published as the same number exactly when they
fall in the same bucket `8k-7 … 8k` — the published number determines the bucket and nothing more. -/
theorem ceil8_bucket (a b : Nat) : ceil8 a = ceil8 b ↔ (a + 7) / 8 = (b + 7) / 8 := by
  unfold ceil8; omega

/-- The three requirements single out one value: anything published that satisfies them *is*
`ceil8` of the true count (so "equals the true number rounded up to the next multiple of 8"). -/
theorem rounded_unique (t v : Nat) : RoundedOK t v ↔ v = ceil8 t := roundedOK_iff t v

/-- **Metrics log, event counts.** For every history of requests and period ends, each of the eight
event counts `printMetrics` publishes is `ceil8` of the number of requests of that kind since the
last period end (kinds given by the declarative table `hits`, independent of the increments). -/
theorem log_counts_rounded (h : List Op) :
    (h.foldl Counters.op Counters.zero).publish = (trueCounts (sinceZero h [])).map ceil8 := by
  have h1 := foldl_op_sinceZero h []
  simp only [List.foldl_nil] at h1
  rw [h1]
  unfold Counters.publish
  rw [foldl_apply_counts]
  simp [Counters.zero, trueCounts, binCount]

/-- Each published log count satisfies the rounding clause w.r.t. the true count. -/
theorem log_counts_ok (h : List Op) (k : Nat) (hk : k < 8) :
    RoundedOK ((trueCounts (sinceZero h [])).getD k 0) (((h.foldl Counters.op Counters.zero).publish).getD k 0) := by
  rw [log_counts_rounded, roundedOK_iff]
  have : k = 0 ∨ k = 1 ∨ k = 2 ∨ k = 3 ∨ k = 4 ∨ k = 5 ∨ k = 6 ∨ k = 7 := by omega
  rcases this with e | e | e | e | e | e | e | e <;> subst e <;> simp [trueCounts]

/-! ## `roundedCounter` -/

/-- **Serialised `Inc`.** After any number `k` of serialised `Inc()` calls on a fresh counter,
`total = k` and `value = ceil8 total`. -/
theorem rounded_serial (k : Nat) : RC.incN k RC.zero = ⟨k, ceil8 k⟩ := by
  have := incN_exact k 0
  simpa [RC.zero, ceil8] using this

/-- In the interleaving model, a thread running one `Inc()` of the *pinned* body alone from a
quiescent state performs exactly the serial `Inc` (the LTS refines the serial function). -/
theorem lts_solo_inc_is_serial (total value : Nat) :
    let s0 : St 1 := ⟨total, value, none, fun _ => .idle, 0⟩
    let s := run false (List.replicate (if total + 1 > value then 4 else 3) 0) s0
    Quiescent s ∧ s.done = 1 ∧ (⟨s.total, s.value⟩ : RC) = (⟨total, value⟩ : RC).inc := by
  by_cases h : total + 1 > value
  · simp [run, step, finish, RC.inc, incGuard, h, Quiescent, upd, List.replicate]
  · simp [run, step, finish, RC.inc, incGuard, h, Quiescent, upd, List.replicate]

/-- **Concurrent `Inc`, repaired body** (`Inc` holds the counter's mutex from entry to return; `Write`
reads under the same mutex).  For *every* number of threads and *every* schedule, whenever the
mutex is free — in particular whenever a scrape can read the counter, and at every quiescent
state — `total` is the number of completed `Inc()` calls and `value` is its `ceil8`:
a multiple of 8, never below the truth, never more than 7 above. -/
theorem rounded_concurrent (n : Nat) (sched : List (Fin n)) :
    let s := run true sched (St.init n)
    s.lock = none → s.total = s.done ∧ s.value = ceil8 s.total ∧ RoundedOK s.total s.value := by
  intro s hl
  have hinv : Inv s := inv_run sched _ (inv_init n)
  have hd := hinv.data
  rw [hl] at hd
  exact ⟨hd.2, hd.1, (roundedOK_iff _ _).2 hd.1⟩

/-- Quiescent states of the repaired model are lock-free, hence satisfy the rounding clause. -/
theorem rounded_concurrent_quiescent (n : Nat) (sched : List (Fin n)) :
    let s := run true sched (St.init n)
    Quiescent s → s.total = s.done ∧ RoundedOK s.total s.value := by
  intro s hq
  have hinv : Inv s := inv_run sched _ (inv_init n)
  have := rounded_concurrent n sched (quiescent_lock_free hinv hq)
  exact ⟨this.1, this.2.2⟩

/-- Mutual exclusion in the repaired model: at most the mutex holder is inside `Inc`. -/
theorem repaired_mutex (n : Nat) (sched : List (Fin n)) (t : Fin n) :
    let s := run true sched (St.init n)
    s.pc t ≠ .idle → s.lock = some t :=
  (inv_run sched _ (inv_init n)).excl t

/-- Non-vacuity: in the repaired model three threads interleave (including attempts to enter while
the mutex is held, which stutter) and complete three `Inc()` calls: total 3, published 8. -/
example :
    let s := run true ([0, 1, 2, 0, 0, 0, 0, 0, 1, 2, 1, 1, 1, 1, 2, 2, 2, 2, 2] : List (Fin 3)) (St.init 3)
    Quiescent s ∧ s.total = 3 ∧ s.value = 8 ∧ s.done = 3 := by decide +kernel

/-- **Negative witness (F13), pinned body.** Two concurrent `Inc()` on a fresh counter: both add to
`total`, both read `total > value`, both add 8.  At quiescence total = 2, published 16: the
rounding clause `value < total + 8` is violated. -/
theorem pinned_concurrent_overshoot :
    let s := run false ([0, 1, 0, 1, 0, 1, 0, 1] : List (Fin 2)) (St.init 2)
    Quiescent s ∧ s.total = 2 ∧ s.value = 16 ∧ s.done = 2 ∧ ¬ RoundedOK s.total s.value := by
  decide +kernel

/-- The schedule observed on the real code (DESIGN §6 F13): eight serial `Inc()`, two racing ones,
two more serial ones — total 12, published 24 (the correct figure is 16). -/
theorem pinned_total12_published24 :
    let sched : List (Fin 2) := List.replicate 25 0 ++ [0, 1, 0, 1, 0, 1, 0, 1] ++ List.replicate 6 0
    let s := run false sched (St.init 2)
    Quiescent s ∧ s.total = 12 ∧ s.value = 24 ∧ ceil8 12 = 16 ∧ ¬ RoundedOK s.total s.value := by
  decide +kernel

/-- The pinned body is also wrong *between* its two steps for an observer (`Write` takes no lock):
after the add to `total` and before the add to `value` the published figure is below the truth. -/
theorem pinned_observable_undershoot :
    let s := run false ([0] : List (Fin 1)) (St.init 1)
    s.total = 1 ∧ s.value = 0 ∧ ¬ RoundedOK s.total s.value := by
  decide +kernel

/-! ## Per-period unique addresses -/

/-- **Unique once per type.** After any sequence of `UpdateCountryStats` calls in one period
(with or without a geoip database): the recorded (type, address) pairs are duplicate-free and are
exactly the pairs that were polled — so an address contributes once per proxy type however often
it polls; unknown types share one set. -/
theorem unique_once_per_type (geo : Bool) (us : List Upd) :
    let s := Stats.run geo us
    s.seen.Nodup
    ∧ (∀ b, (s.typeSet b).Nodup)
    ∧ (∀ b a, a ∈ s.typeSet b ↔ ∃ u ∈ us, bucket u.ty = b ∧ u.addr = a) := by
  intro s
  have h := statsInv_run geo us
  refine ⟨h.nodup, ?_, ?_⟩
  · intro b
    unfold Stats.typeSet
    have hf : (s.seen.filter (fun p => p.1 = b)).Nodup := h.nodup.sublist List.filter_sublist
    unfold List.Nodup
    rw [List.pairwise_map]
    refine List.Pairwise.imp_of_mem ?_ hf
    intro x y hx hy hne hxy
    rw [List.mem_filter] at hx hy
    have hx1 : x.1 = b := by simpa using hx.2
    have hy1 : y.1 = b := by simpa using hy.2
    exact hne (Prod.ext (hx1.trans hy1.symm) hxy)
  · intro b a
    unfold Stats.typeSet
    rw [← h.mem b a]
    simp only [List.mem_map, List.mem_filter, decide_eq_true_eq]
    constructor
    · rintro ⟨p, ⟨hp, hb⟩, ha⟩
      have : p = (b, a) := Prod.ext hb ha
      rw [← this]; exact hp
    · intro hp
      exact ⟨(b, a), ⟨hp, rfl⟩, rfl⟩

/-- **Totals are sums of per-type set sizes.** `snowflake-ips-total` as computed by `printMetrics`
(`len(unknown) + Σ_known len(proxies[t])`) is the number of recorded (type, address) pairs; with a
geoip database the country counts add up to the same number (each pair counted for one country). -/
theorem totals_are_sums (geo : Bool) (us : List Upd) :
    let s := Stats.run geo us
    s.total = s.seen.length ∧ (geo = true → s.ccs.length = s.total) := by
  intro s
  have h := statsInv_run geo us
  have ht : s.total = s.seen.length := by
    have := total_list s.seen (statsInv_bucketOK h)
    unfold Stats.total Stats.typeSet
    simp only [List.length_map]
    exact this
  exact ⟨ht, fun hg => by rw [ht]; exact h.ccs hg⟩

/-- NAT figures: the three NAT sets are duplicate-free, contain only addresses that polled with that
NAT class, and (with geoip) every recorded address is in at least one of them. -/
theorem nat_sets_sound (geo : Bool) (us : List Upd) :
    let s := Stats.run geo us
    (s.natR.Nodup ∧ s.natU.Nodup ∧ s.natX.Nodup)
    ∧ (∀ a ∈ s.natR, ∃ u ∈ us, u.addr = a ∧ u.nat = natRestricted)
    ∧ (∀ a ∈ s.natU, ∃ u ∈ us, u.addr = a ∧ u.nat = natUnrestricted)
    ∧ (∀ a ∈ s.natX, ∃ u ∈ us, u.addr = a ∧ u.nat ≠ natRestricted ∧ u.nat ≠ natUnrestricted)
    ∧ (geo = true → ∀ b a, a ∈ s.typeSet b → a ∈ s.natR ∨ a ∈ s.natU ∨ a ∈ s.natX) := by
  intro s
  have h := statsInv_run geo us
  refine ⟨h.natNodup, h.natR, h.natU, h.natX, ?_⟩
  intro hg b a ha
  unfold Stats.typeSet at ha
  simp only [List.mem_map, List.mem_filter, decide_eq_true_eq] at ha
  obtain ⟨p, ⟨hp, _⟩, hpa⟩ := ha
  exact h.natCover hg p.1 a (by rw [← hpa]; exact hp)

/-- Non-vacuity: the same address polling twice as `standalone`, once as `webext`, once with an
unknown type: three pairs, total 3, one per type. -/
example :
    let st : Str := [115, 116, 97, 110, 100, 97, 108, 111, 110, 101]
    let we : Str := [119, 101, 98, 101, 120, 116]
    let s := Stats.run true [⟨1, st, natRestricted, [67, 65]⟩, ⟨1, st, natUnrestricted, [67, 65]⟩,
      ⟨1, we, [], [67, 65]⟩, ⟨1, [120], natUnrestricted, [67, 65]⟩]
    s.total = 3 ∧ (s.typeSet (some st)).length = 1 ∧ (s.typeSet none).length = 1 ∧ s.ccCount [67, 65] = 3
      ∧ s.natR = [1] ∧ s.natU = [1] ∧ s.natX = [1] := by decide +kernel

/-! ## Distinct-IP journal -/

/-- **Window selection.** `ClusterCounter{from,to}.Count` includes exactly the chunks with
`from ≤ start ∧ end ≤ to`: `ChunkIncluded` is their number and the merged sketch contains a value
iff one of *those* chunks contains it. -/
theorem window_selects (frm to : Nat) (journal : List Chunk) :
    (count frm to journal).chunkIncluded = (journal.filter (fun c => decide (frm ≤ c.start ∧ c.stop ≤ to))).length
    ∧ ∀ x, x ∈ (countLoop frm to journal ([], 0)).1 ↔ ∃ c ∈ journal, (frm ≤ c.start ∧ c.stop ≤ to) ∧ x ∈ c.vals := by
  obtain ⟨h1, _, h3⟩ := countLoop_spec frm to journal [] 0
  refine ⟨?_, ?_⟩
  · simp only [count, h1, selected, Chunk.inWindow]; omega
  · intro x; rw [h3 x]; simp [Chunk.inWindow]

/-- **Merged count is exact** (exact-sketch abstraction): `Sum` is the length of a duplicate-free
list whose members are exactly the masked values occurring in the chunks inside the window, i.e.
the number of distinct masked values recorded in those chunks. -/
theorem merged_count_exact (frm to : Nat) (journal : List Chunk) :
    ∃ merged : List Nat, merged.Nodup
      ∧ (∀ x, x ∈ merged ↔ ∃ c ∈ journal, c.inWindow frm to ∧ x ∈ c.vals)
      ∧ (count frm to journal).sum = merged.length := by
  obtain ⟨_, h2, h3⟩ := countLoop_spec frm to journal [] 0
  exact ⟨(countLoop frm to journal ([], 0)).1, h2 List.nodup_nil, fun x => by rw [h3 x]; simp, rfl⟩

/-- **The repaired reader is exact or says so.** With the scanner's error checked, `Count` either
returns an error — and then some journal line really exceeds the line limit — or its result is
the count over *all* chunks of the journal (to which `window_selects` / `merged_count_exact`
apply): it never silently stops in the middle. -/
theorem reader_exact_or_error (limit frm to : Nat) (lines : List Line) :
    match countChecked limit frm to lines with
    | none => ∃ l ∈ lines, l.len > limit
    | some r => r = count frm to (lines.map (·.chunk)) ∧ ∀ l ∈ lines, l.len ≤ limit := by
  unfold countChecked
  cases h : (scan limit lines).2 with
  | true =>
    simp only [h, if_true]
    exact (scan_err limit lines).1 h
  | false =>
    simp only [h, Bool.false_eq_true, if_false]
    refine ⟨by rw [scan_ok limit lines h], ?_⟩
    intro l hl
    apply Classical.byContradiction
    intro hn
    have : (scan limit lines).2 = true := (scan_err limit lines).2 ⟨l, hl, by omega⟩
    rw [h] at this
    cases this

/-- **Negative witness (reader), pinned body.** A chunk whose line is longer than the default
scanner limit (64 KiB; about 22 000 distinct addresses in one interval) makes the pinned reader
stop silently: it reports 0 addresses in 0 chunks although both chunks lie inside the window and
hold 4 distinct values — and no error.  The repaired reader (limit 16 MiB) counts them. -/
theorem pinned_reader_silently_drops :
    let lines : List Line := [⟨⟨0, 1, [1, 2, 3]⟩, 70000⟩, ⟨⟨1, 2, [4]⟩, 100⟩]
    countUnchecked defaultScanLimit 0 10 lines = ⟨0, 0⟩
    ∧ count 0 10 (lines.map (·.chunk)) = ⟨4, 2⟩
    ∧ countChecked readerLimit 0 10 lines = some ⟨4, 2⟩ := by decide +kernel

/-- **Only hashes are stored.** The writer's state and journal are a function of the *masked*
values (and the times) only: running it on addresses with masking function `m` is the same as
running it on the masked values; two address sequences with equal masked values give equal
journals. -/
theorem only_hashes_stored {α : Type} (m : α → Nat) (interval : Nat) (w : Writer) (ops ops' : List (WOp α)) :
    Writer.run m interval w ops = Writer.run id interval w (ops.map (WOp.mask m))
    ∧ (ops.map (WOp.mask m) = ops'.map (WOp.mask m) →
        (Writer.run m interval w ops).journal = (Writer.run m interval w ops').journal) := by
  refine ⟨run_mask m interval ops w, ?_⟩
  intro h
  rw [run_mask m interval ops w, run_mask m interval ops' w, h]

/-- Every chunk the writer emits is a duplicate-free set of masked values (so its sketch count is
the number of distinct addresses added since the previous chunk, up to masking collisions). -/
theorem writer_chunks_are_sets {α : Type} (m : α → Nat) (interval : Nat) (now0 : Nat) (ops : List (WOp α)) :
    ∀ c ∈ (Writer.run m interval ⟨now0, [], []⟩ ops).journal, c.vals.Nodup :=
  (clean_run m interval ops ⟨now0, [], []⟩ ⟨List.nodup_nil, by simp⟩).2

/-- Non-vacuity: three chunks, windows on and around the boundaries. -/
example :
    let w := Writer.run (fun (a : Nat) => a % 100) 10 ⟨0, [], []⟩
      [.add 1 1, .add 2 101, .add 3 2, .flush 5, .add 6 2, .add 20 3, .add 21 4, .flush 30]
    w.journal = [⟨0, 5, [1, 2]⟩, ⟨5, 20, [2]⟩, ⟨20, 30, [3, 4]⟩]
    ∧ count 0 30 w.journal = ⟨4, 3⟩ ∧ count 0 29 w.journal = ⟨2, 2⟩ ∧ count 1 30 w.journal = ⟨3, 2⟩
    ∧ count 5 20 w.journal = ⟨1, 1⟩ ∧ count 6 19 w.journal = ⟨0, 0⟩ := by decide +kernel

end Snowflake.Metrics.C19
