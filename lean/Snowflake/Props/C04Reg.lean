import Snowflake.Model.BrokerReg
/-!
# C04, "no ghost proxies" — for arbitrary session ids

`Props/C04.lean` proves `quiescent_clean` on the full broker LTS under the assumption that the session ids of
concurrent polls are pairwise distinct.  Here the clause is proved again on the reduced registration model
(`Model/BrokerReg.lean`) **without** that assumption: whatever ids the polls use — the same id polling again
while its earlier poll is still queued, or still matched with a client —

* the gauge always equals the number of polls that currently hold a registration (`gauge_counts_registrations`),
  in particular it never goes negative (`gauge_nonneg`);
* the id map only ever names polls that hold a registration (`map_names_registered`);
* once every poll has completed the gauge is zero and the id map is empty (`quiescent_clean_any_sids`).
-/
namespace Snowflake.BrokerReg.C04

open Snowflake.BrokerReg

def pollOf : Ev → Nat
  | .add p | .timeout p | .pop p | .cleanup p => p

theorem liveCount_zero {f : Nat → Phase} : ∀ n, (∀ p, p < n → live (f p) = false) → liveCount f n = 0 := by
  intro n
  induction n with
  | zero => intro _; rfl
  | succ n ih =>
    intro h
    simp [liveCount, ih (fun p hp => h p (by omega)), h n (by omega)]

theorem inv_init (sid : Nat → Nat) (N : Nat) : Inv sid init N := by
  refine ⟨fun _ _ => rfl, ?_, ?_, ?_⟩
  · have h0 : liveCount init.phase N = 0 := liveCount_zero N (fun _ _ => rfl)
    rw [h0]; rfl
  · intro t p h; simp [init] at h
  · intro t p h; simp [init] at h

theorem live_set_other {f : Nat → Phase} {p q : Nat} {x : Phase} (h : q ≠ p) : setPhase f p x q = f q := by
  simp [setPhase, h]

theorem live_set_self {f : Nat → Phase} {p : Nat} {x : Phase} : setPhase f p x p = x := by
  simp [setPhase]

/-- changing the phase of a registered poll `p < N` and clearing `sid p` in the map when it stops being live -/
theorem inv_step {sid : Nat → Nat} {s s' : St} {N : Nat} (hi : Inv sid s N) (e : Ev) (he : pollOf e < N)
    (hs : step sid s e = some s') : Inv sid s' N := by
  cases e with
  | add p =>
    simp only [step] at hs
    split at hs
    · rename_i hph
      cases hs
      refine ⟨?_, ?_, ?_, ?_⟩
      · intro q hq
        have : q ≠ p := by simp [pollOf] at he; omega
        simp only; rw [live_set_other this]; exact hi.fresh_above q hq
      · simp only
        rw [liveCount_set s.phase p .queued N (by simpa [pollOf] using he), hi.gauge_eq, hph]
        simp [live]
      · intro t q h
        simp only [setMap] at h
        simp only
        by_cases hqp : q = p
        · subst hqp; rw [live_set_self]; rfl
        · rw [live_set_other hqp]
          split at h
          · cases h; exact absurd rfl hqp
          · exact hi.map_live t q h
      · intro t q h
        simp only [setMap] at h
        split at h
        · rename_i ht; cases h; exact ht.symm
        · exact hi.map_sid t q h
    · cases hs
  | timeout p =>
    simp only [step] at hs
    split at hs
    · rename_i hph
      cases hs
      refine ⟨?_, ?_, ?_, ?_⟩
      · intro q hq
        have : q ≠ p := by simp [pollOf] at he; omega
        simp only; rw [live_set_other this]; exact hi.fresh_above q hq
      · simp only
        rw [liveCount_set s.phase p .done N (by simpa [pollOf] using he), hi.gauge_eq, hph]
        simp [live]
      · intro t q h
        simp only [setMap] at h
        split at h
        · cases h
        · rename_i ht
          have hqp : q ≠ p := by
            intro hqp; subst hqp; exact ht (hi.map_sid t q h).symm
          simp only; rw [live_set_other hqp]; exact hi.map_live t q h
      · intro t q h
        simp only [setMap] at h
        split at h
        · cases h
        · exact hi.map_sid t q h
    · cases hs
  | pop p =>
    simp only [step] at hs
    split at hs
    · rename_i hph
      cases hs
      refine ⟨?_, ?_, ?_, hi.map_sid⟩
      · intro q hq
        have : q ≠ p := by simp [pollOf] at he; omega
        simp only; rw [live_set_other this]; exact hi.fresh_above q hq
      · simp only
        rw [liveCount_set s.phase p .popped N (by simpa [pollOf] using he), hi.gauge_eq, hph]
        simp [live]
      · intro t q h
        simp only
        by_cases hqp : q = p
        · subst hqp; rw [live_set_self]; rfl
        · rw [live_set_other hqp]; exact hi.map_live t q h
    · cases hs
  | cleanup p =>
    simp only [step] at hs
    split at hs
    · rename_i hph
      cases hs
      refine ⟨?_, ?_, ?_, ?_⟩
      · intro q hq
        have : q ≠ p := by simp [pollOf] at he; omega
        simp only; rw [live_set_other this]; exact hi.fresh_above q hq
      · simp only
        rw [liveCount_set s.phase p .done N (by simpa [pollOf] using he), hi.gauge_eq, hph]
        simp [live]
      · intro t q h
        simp only [setMap] at h
        split at h
        · cases h
        · rename_i ht
          have hqp : q ≠ p := by
            intro hqp; subst hqp; exact ht (hi.map_sid t q h).symm
          simp only; rw [live_set_other hqp]; exact hi.map_live t q h
      · intro t q h
        simp only [setMap] at h
        split at h
        · cases h
        · exact hi.map_sid t q h
    · cases hs

theorem inv_run {sid : Nat → Nat} {N : Nat} : ∀ (evs : List Ev) (s s' : St), Inv sid s N → (∀ e ∈ evs, pollOf e < N) →
    run sid s evs = some s' → Inv sid s' N := by
  intro evs
  induction evs with
  | nil => intro s s' hi _ h; simp [run] at h; subst h; exact hi
  | cons e es ih =>
    intro s s' hi hb h
    simp only [run] at h
    split at h
    · rename_i s1 hs1
      exact ih s1 s' (inv_step hi e (hb e (List.mem_cons_self ..)) hs1) (fun e' he' => hb e' (List.mem_cons_of_mem _ he')) h
    · cases h

/-- **The gauge counts registrations**, whatever session ids the polls use. -/
theorem gauge_counts_registrations (sid : Nat → Nat) (N : Nat) (evs : List Ev) (s : St)
    (hb : ∀ e ∈ evs, pollOf e < N) (h : run sid init evs = some s) :
    s.gauge = (liveCount s.phase N : Int) :=
  (inv_run evs init s (inv_init sid N) hb h).gauge_eq

theorem gauge_nonneg (sid : Nat → Nat) (N : Nat) (evs : List Ev) (s : St)
    (hb : ∀ e ∈ evs, pollOf e < N) (h : run sid init evs = some s) : 0 ≤ s.gauge := by
  rw [gauge_counts_registrations sid N evs s hb h]; exact Int.natCast_nonneg _

/-- the id map only names polls that hold a registration, under their own id -/
theorem map_names_registered (sid : Nat → Nat) (N : Nat) (evs : List Ev) (s : St)
    (hb : ∀ e ∈ evs, pollOf e < N) (h : run sid init evs = some s) (t p : Nat) (hm : s.map t = some p) :
    live (s.phase p) = true ∧ sid p = t :=
  ⟨(inv_run evs init s (inv_init sid N) hb h).map_live t p hm, (inv_run evs init s (inv_init sid N) hb h).map_sid t p hm⟩

/-- **No ghost proxies, for arbitrary session ids.**  Once every poll has completed (none is queued or held by a
running client request) the gauge is zero and the id map is empty. -/
theorem quiescent_clean_any_sids (sid : Nat → Nat) (N : Nat) (evs : List Ev) (s : St)
    (hb : ∀ e ∈ evs, pollOf e < N) (h : run sid init evs = some s)
    (hq : ∀ p, p < N → live (s.phase p) = false) :
    s.gauge = 0 ∧ ∀ t, s.map t = none := by
  have hi := inv_run evs init s (inv_init sid N) hb h
  refine ⟨by rw [hi.gauge_eq, liveCount_zero N hq]; rfl, ?_⟩
  intro t
  cases hm : s.map t with
  | none => rfl
  | some p =>
    exfalso
    have hl := hi.map_live t p hm
    rcases Nat.lt_or_ge p N with hp | hp
    · rw [hq p hp] at hl; cases hl
    · rw [hi.fresh_above p hp] at hl; simp [live] at hl

/-! ## Non-vacuity: the two histories the seeded changes used -/

/-- the same id polls twice, unmatched; both time out -/
example : (run (fun _ => 7) init [.add 0, .add 1, .timeout 0, .timeout 1]).map (fun s => (s.gauge, s.map 7)) = some (0, none) := by
  decide +kernel

/-- a matched proxy polls again under its id while the client still waits; the client's request ends, then the
second poll times out -/
example : (run (fun _ => 7) init [.add 0, .pop 0, .add 1, .cleanup 0, .timeout 1]).map (fun s => (s.gauge, s.map 7)) = some (0, none) := by
  decide +kernel

/-- in between, the second poll is registered although the id map no longer names it: the gauge still counts it -/
example : (run (fun _ => 7) init [.add 0, .pop 0, .add 1, .cleanup 0]).map (fun s => (s.gauge, s.map 7)) = some (1, none) := by
  decide +kernel

end Snowflake.BrokerReg.C04
