import Snowflake.Model.BrokerHttp
/-!
# C14 — every HTTP request to the broker gets a well-formed response

Theorems about `Snowflake.Model.BrokerHttp`, the model of the handlers in `/repo/broker/http.go` and
`/repo/broker/amp.go` around the IPC core (which is abstract here: *every* core behaviour is
quantified over).  Bounded time of the core calls is C04.
-/
namespace Snowflake.BrokerHttp.C14

def okStatus (s : Nat) : Prop := s = 200 ∨ s = 400 ∨ s = 404 ∨ s = 500 ∨ s = 503 ∨ s = 504

/-- **Proxy poll / proxy answer endpoints always respond**, with 200, 400 or 500. -/
theorem proxy_always_responds (isOptions tooLarge : Bool) (core : CoreRes) :
    ∃ s b, serve isOptions (proxyShell tooLarge core) = .reply s b ∧ (s = 200 ∨ s = 400 ∨ s = 500) := by
  unfold serve proxyShell
  cases isOptions <;> cases tooLarge <;> cases core <;> simp

/-- **The client endpoint always responds** (repaired shim): for every body, header value, encoder and
core behaviour the outcome is a reply with one of the six status codes — never a dropped connection. -/
theorem client_always_responds (isOptions tooLarge : Bool) (body natHeader : Bytes)
    (encodeReq : Bytes → Bytes → Option Bytes) (core : Bytes → ClientCore) :
    ∃ s b, serve isOptions (clientShell true tooLarge body natHeader encodeReq core) = .reply s b ∧ okStatus s := by
  unfold serve clientShell legacyMap okStatus
  cases isOptions <;> simp
  cases tooLarge <;> simp
  split
  · split
    · simp
    · split
      · simp
      · split
        · simp
        · repeat' split
          all_goals simp
  · split <;> simp

/-- Bodies over the limit are refused with 400 on all three POST endpoints, whatever they contain. -/
theorem oversized_body_is_400 (body natHeader : Bytes) (encodeReq : Bytes → Bytes → Option Bytes)
    (core : Bytes → ClientCore) (pcore : CoreRes) (fixed : Bool) :
    clientShell fixed true body natHeader encodeReq core = .reply 400 []
    ∧ proxyShell true pcore = .reply 400 [] := by
  simp [clientShell, proxyShell]

/-- **A legacy request is treated exactly like its versioned equivalent.** If the shim's encoding of
`(body, NAT header)` is `arg` — which is not itself a legacy body — then the core is called with exactly
the `Arg.Body` the versioned request `arg` would give it, the versioned request is answered `200` with
the core's response, and the legacy request is answered with the image of that same response under the
status map (`""`→200+answer, no proxies→503, timed out→504, anything else→400). -/
theorem legacy_equiv (body natHeader arg : Bytes) (encodeReq : Bytes → Bytes → Option Bytes)
    (core : Bytes → ClientCore) (hleg : isLegacy body = true) (harg : encodeReq body natHeader = some arg)
    (hver : isLegacy arg = false) (r : ClientResp) (raw : Bytes) (hcore : core arg = .resp r raw)
    (hdec : ¬ (r.answer = [] ∧ r.error = [])) :
    clientShell true false arg natHeader encodeReq core = .reply 200 raw
    ∧ clientShell true false body natHeader encodeReq core = legacyMap true r := by
  constructor
  · simp [clientShell, hver, hcore]
  · simp [clientShell, hleg, harg, hcore, hdec]

/-- …and when the core fails, both forms get 500. -/
theorem legacy_equiv_err (body natHeader arg : Bytes) (encodeReq : Bytes → Bytes → Option Bytes)
    (core : Bytes → ClientCore) (hleg : isLegacy body = true) (harg : encodeReq body natHeader = some arg)
    (hver : isLegacy arg = false) (hcore : core arg = .err) :
    clientShell true false arg natHeader encodeReq core = .reply 500 []
    ∧ clientShell true false body natHeader encodeReq core = .reply 500 [] := by
  constructor
  · simp [clientShell, hver, hcore]
  · simp [clientShell, hleg, harg, hcore]

/-- The legacy status map is total on the repaired tree and hits each arm. -/
theorem legacyMap_total (r : ClientResp) : ∃ s b, legacyMap true r = .reply s b ∧ (s = 200 ∨ s = 503 ∨ s = 504 ∨ s = 400) := by
  unfold legacyMap
  repeat' split
  all_goals simp_all

/-- AMP endpoint: 200 or 500. -/
theorem amp_status (hasPrefix : Bool) (decoded : Option Bytes) (core : Bytes → ClientCore) :
    ampShell hasPrefix decoded core = 200 ∨ ampShell hasPrefix decoded core = 500 := by
  unfold ampShell
  cases hasPrefix <;> simp
  cases decoded <;> simp
  split <;> simp

/-- The shell keeps no state: the reply is a function of the request and of what the core returned
for it (there is no shell state a request could poison). Stated as congruence. -/
theorem no_poison (fixed tooLarge : Bool) (body natHeader : Bytes) (encodeReq : Bytes → Bytes → Option Bytes)
    (core1 core2 : Bytes → ClientCore) (h : ∀ b, core1 b = core2 b) :
    clientShell fixed tooLarge body natHeader encodeReq core1 = clientShell fixed tooLarge body natHeader encodeReq core2 := by
  have : core1 = core2 := funext h
  rw [this]

/-! ## The pinned shim drops the connection (finding F7) -/

/-- F7: legacy body with an invalid `Snowflake-NAT-Type`: the core answers `{"error":"invalid NAT type"}`,
the pinned shim hits `default: panic("unknown error")`. -/
theorem pinned_legacy_invalid_nat_drops :
    clientShell false false "{}".toUTF8.toList "bogus".toUTF8.toList (fun o n => some (o ++ n))
      (fun _ => .resp ⟨[], "invalid NAT type".toUTF8.toList⟩ []) = .dropped
    ∧ clientShell true false "{}".toUTF8.toList "bogus".toUTF8.toList (fun o n => some (o ++ n))
      (fun _ => .resp ⟨[], "invalid NAT type".toUTF8.toList⟩ []) = .reply 400 [] := by
  decide +kernel

end Snowflake.BrokerHttp.C14
