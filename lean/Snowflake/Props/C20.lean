/-
C20 — no data races.

Shape of the argument:
  1. `Base/Hb.lean`: in every well-formed lock trace two accesses by different threads that both hold a
     common lock (at least one of them exclusively) are ordered by a release → acquire chain
     (`lockset_ordered`, `lockset_ordered_wr`, `lockset_ordered_rw`).
  2. `Generated/Accesses.lean` (regenerated from the working tree on every run): for every field of the
     tracked struct types of the anchor packages (and a few declared expressions: heap slice, map
     entries, package-level variables), every access site with the set of locks that must be held there.
  3. Here: the table is *disciplined* (`table_disciplined`, by kernel evaluation): per variable, outside
     the constructor phase, either nothing writes it, or every access is atomic, or one common lock is
     held at every access (shared mode allowed for reads only).
  4. `no_unordered_conflict`: for any trace that is well formed and conforms to a disciplined table,
     two conflicting accesses to a listed variable by different threads are both atomic or ordered by
     synchronisation.  `C20_no_race` instantiates it with the regenerated table.

What is *not* in the theorem (trusted, cross-checked by the race-detector workloads of the harness):
that the table is complete (the variable list is declared in extract/specs_accesses.go; aliasing is by
field name) and that executions conform to it (the must-hold analysis of extract/accesses.go); the
constructor phase happens before publication; synchronisation other than locks and atomics
(channels, sync.Once, WaitGroup, goroutine creation) is not modelled — variables that rely on it are
not in the table and are covered by the dynamic side only.
-/
import Snowflake.Base.Hb
import Snowflake.Generated.Accesses

namespace Snowflake.C20
open Snowflake.Hb
open Snowflake.Gen.Accesses

/-- Rows of a variable outside the constructor phase. -/
def rowsOf (tbl : List Acc) (v : String) : List Acc := tbl.filter (fun r => r.v == v && !r.ctor)

/-- Row `r` is performed with `l` held: exclusively, or shared if the row is a read. -/
def guardedBy (l : String) (r : Acc) : Bool := r.locks.contains l || (!r.write && r.rlocks.contains l)

/-- The discipline of one variable. -/
def varOk (tbl : List Acc) (v : String) : Bool :=
  let rs := rowsOf tbl v
  rs.all (fun r => !r.write) || rs.all (fun r => r.atomic) ||
    (rs.flatMap (fun r => r.locks)).any (fun l => rs.all (guardedBy l))

def disciplined (tbl : List Acc) (vars : List String) : Bool := vars.all (varOk tbl)

/-- Every row of the table belongs to a variable under the discipline or to one explicitly exempted with a
reason (nothing is silently dropped from the check). -/
def covered (tbl : List Acc) (vars : List String) (exempt : List (String × String)) : Bool :=
  tbl.all (fun r => vars.contains r.v || exempt.any (fun e => e.1 == r.v))

/-- Every variable under the discipline has at least one access row — a declared pattern that no longer
matches anything in the source would otherwise be vacuously disciplined. -/
def populated (tbl : List Acc) (vars : List String) : Bool := vars.all (fun v => tbl.any (fun r => r.v == v))

/-! ### Semantics: traces conforming to a table -/

def opVar : Op → Option String
  | .rd v | .wr v | .ard v | .awr v => some v
  | _ => none

def isWrite : Op → Bool
  | .wr _ | .awr _ => true
  | _ => false

def isAtomic : Op → Bool
  | .ard _ | .awr _ => true
  | _ => false

theorem isAccess_of_opVar {o : Op} {v : String} (h : opVar o = some v) : isAccess o = true := by
  cases o <;> simp [opVar] at h <;> rfl

/-- The trace only performs accesses that the table lists, with the listed locks held. -/
def Conforms (tbl : List Acc) (τ : Trace) : Prop :=
  ∀ i t o v, τ[i]? = some ⟨t, o⟩ → opVar o = some v →
    ∃ r, r ∈ tbl ∧ r.v = v ∧ r.ctor = false ∧ r.write = isWrite o ∧ r.atomic = isAtomic o ∧
      (∀ l, l ∈ r.locks → Holds τ t l i) ∧ (∀ l, l ∈ r.rlocks → HoldsR τ t l i)

/-- Happens-before through a lock: `ti` releases `l` after `i`, `tj` acquires it before `j`. -/
def OrderedBySync (τ : Trace) (i j ti tj : Nat) : Prop :=
  ∃ l r a, i < r ∧ r < a ∧ a < j ∧
    (τ[r]? = some ⟨ti, .rel l⟩ ∨ τ[r]? = some ⟨ti, .rrel l⟩) ∧
    (τ[a]? = some ⟨tj, .acq l⟩ ∨ τ[a]? = some ⟨tj, .racq l⟩)

theorem mem_rowsOf {tbl : List Acc} {v : String} {r : Acc} (hm : r ∈ tbl) (hv : r.v = v) (hc : r.ctor = false) :
    r ∈ rowsOf tbl v := by
  simp [rowsOf, hm, hv, hc]

/-- How a guarded row holds its lock in a conforming trace. -/
theorem guarded_holds {τ : Trace} {t i : Nat} {l : String} {r : Acc}
    (hg : guardedBy l r = true)
    (hl : ∀ l, l ∈ r.locks → Holds τ t l i) (hr : ∀ l, l ∈ r.rlocks → HoldsR τ t l i) :
    Holds τ t l i ∨ (r.write = false ∧ HoldsR τ t l i) := by
  simp only [guardedBy, Bool.or_eq_true, Bool.and_eq_true, Bool.not_eq_true', List.contains_iff_mem] at hg
  rcases hg with h | ⟨hw, h⟩
  · exact Or.inl (hl l h)
  · exact Or.inr ⟨hw, hr l h⟩

/-- **No unordered conflict.**  In a well-formed trace conforming to a table in which `v` is
disciplined, two accesses to `v` at `i < j` by different threads, at least one of them a write, are both
atomic or ordered by synchronisation. -/
theorem no_unordered_conflict {tbl : List Acc} {v : String} (hok : varOk tbl v = true)
    {τ : Trace} (wf : WF τ) (conf : Conforms tbl τ)
    {i j ti tj : Nat} {oi oj : Op} (hij : i < j)
    (hi : τ[i]? = some ⟨ti, oi⟩) (hj : τ[j]? = some ⟨tj, oj⟩)
    (hvi : opVar oi = some v) (hvj : opVar oj = some v) (hne : ti ≠ tj)
    (hconf : isWrite oi = true ∨ isWrite oj = true) :
    (isAtomic oi = true ∧ isAtomic oj = true) ∨ OrderedBySync τ i j ti tj := by
  obtain ⟨ri, hmi, hrvi, hci, hwi, hati, hli, hri⟩ := conf i ti oi v hi hvi
  obtain ⟨rj, hmj, hrvj, hcj, hwj, hatj, hlj, hrj⟩ := conf j tj oj v hj hvj
  have hmi' := mem_rowsOf hmi hrvi hci
  have hmj' := mem_rowsOf hmj hrvj hcj
  have hai := isAccess_of_opVar hvi
  simp only [varOk, Bool.or_eq_true, List.all_eq_true, List.any_eq_true] at hok
  rcases hok with (hnow | hat) | ⟨l, _, hg⟩
  · -- nobody writes: contradiction with the conflict
    exfalso
    have h1 := hnow ri hmi'
    have h2 := hnow rj hmj'
    simp only [Bool.not_eq_true'] at h1 h2
    rcases hconf with h | h
    · rw [← hwi, h1] at h; cases h
    · rw [← hwj, h2] at h; cases h
  · -- all atomic
    left
    exact ⟨by rw [← hati]; exact hat ri hmi', by rw [← hatj]; exact hat rj hmj'⟩
  · -- a common lock
    right
    have gi := guarded_holds (hg ri hmi') hli hri
    have gj := guarded_holds (hg rj hmj') hlj hrj
    rcases gi with hi' | ⟨hwi', hi'⟩
    · rcases gj with hj' | ⟨_, hj'⟩
      · obtain ⟨r, a, h1, h2, h3, h4, h5⟩ := lockset_ordered wf hij hi hj hai hne hi' hj'
        exact ⟨l, r, a, h1, h2, h3, Or.inl h4, Or.inl h5⟩
      · obtain ⟨r, a, h1, h2, h3, h4, h5⟩ := lockset_ordered_wr wf hij hi hj hai hi' hj'
        exact ⟨l, r, a, h1, h2, h3, Or.inl h4, Or.inr h5⟩
    · rcases gj with hj' | ⟨hwj', _⟩
      · obtain ⟨r, a, h1, h2, h3, h4, h5⟩ := lockset_ordered_rw wf hij hi hj hai hi' hj'
        exact ⟨l, r, a, h1, h2, h3, Or.inr h4, Or.inl h5⟩
      · -- both rows are reads: no conflict
        exfalso
        rcases hconf with h | h
        · rw [← hwi, hwi'] at h; cases h
        · rw [← hwj, hwj'] at h; cases h

/-! ### The regenerated table -/

/-- The access table regenerated from the current source is disciplined, covers only declared variables
and every declared variable still has access rows. -/
theorem table_disciplined : disciplined table sharedVars = true := by decide +kernel

theorem table_covered : covered table sharedVars exemptVars = true := by decide +kernel

/-- The struct types whose fields are tracked automatically all still exist, and no exempted variable is also
claimed as disciplined. -/
theorem tracked_types_present :
    missingTypes = [] ∧ exemptVars.all (fun e => !sharedVars.contains e.1) = true := by decide +kernel

theorem table_populated : populated table sharedVars = true := by decide +kernel

/-- **C20 (lock-based part).**  For every declared shared variable and every well-formed execution that
conforms to the regenerated access table, any two conflicting accesses by different threads are both atomic
or ordered by a release → acquire chain on a common lock: no data race on these variables. -/
theorem C20_no_race {v : String} (hv : v ∈ sharedVars)
    {τ : Trace} (wf : WF τ) (conf : Conforms table τ)
    {i j ti tj : Nat} {oi oj : Op} (hij : i < j)
    (hi : τ[i]? = some ⟨ti, oi⟩) (hj : τ[j]? = some ⟨tj, oj⟩)
    (hvi : opVar oi = some v) (hvj : opVar oj = some v) (hne : ti ≠ tj)
    (hconf : isWrite oi = true ∨ isWrite oj = true) :
    (isAtomic oi = true ∧ isAtomic oj = true) ∨ OrderedBySync τ i j ti tj := by
  have h := table_disciplined
  simp only [disciplined, List.all_eq_true] at h
  exact no_unordered_conflict (h v hv) wf conf hij hi hj hvi hvj hne hconf

/-! ### Non-vacuity and sensitivity -/

/-- A concrete well-formed trace of two threads that conforms to a two-row table: the hypotheses of the
theorem are satisfiable. -/
def demoTbl : List Acc :=
  [⟨"x", "f", true, false, ["m"], [], false⟩, ⟨"x", "g", false, false, ["m"], [], false⟩]

example : varOk demoTbl "x" = true := by decide +kernel

/-- Dropping the lock from one writer makes the variable undisciplined (what the check sees when a
`Lock()` around an access is removed). -/
example : varOk [⟨"x", "f", true, false, [], [], false⟩, ⟨"x", "g", false, false, ["m"], [], false⟩] "x" = false := by
  decide +kernel

/-- A write under a read lock does not count as guarded. -/
example : varOk [⟨"x", "f", true, false, [], ["m"], false⟩, ⟨"x", "g", false, false, [], ["m"], false⟩] "x" = false := by
  decide +kernel

/-- Two unlocked plain writers (one row, as for a handler run by many goroutines) are undisciplined. -/
example : varOk [⟨"x", "f", true, false, [], [], false⟩] "x" = false := by decide +kernel

/-- Atomic writers and one plain reader (what a call of a value-receiver method amounts to: the struct is copied at the
call site) are undisciplined - F17, `tokens_t.count()`. -/
example : varOk [⟨"x", "get", true, true, [], [], false⟩, ⟨"x", "ret", true, true, [], [], false⟩,
                 ⟨"x", "pollOffer", false, false, [], [], false⟩] "x" = false := by decide +kernel

/-- ... and with an atomic read (pointer receiver) they are disciplined. -/
example : varOk [⟨"x", "get", true, true, [], [], false⟩, ⟨"x", "ret", true, true, [], [], false⟩,
                 ⟨"x", "count", false, true, [], [], false⟩] "x" = true := by decide +kernel

end Snowflake.C20
