import Snowflake.Proofs.BrokerReach
/-!
# C02 — the broker never cross-wires offers, answers or bridges

Theorems about every reachable state of the broker model `Snowflake.Model.Broker` (repaired
skeleton; any number of polls, clients and answers; any interleaving; any timer firings; any bridge
list).  Ghost fields: `popBy p = some c` – client `c`'s `matchSnowflake` popped poll `p`;
`offerFrom p = some c` – `p`'s waiter received `c`'s offer (this is what the poll's HTTP reply
carries); `(cs c).res = answer a` – client `c` was answered with what answer request `a` posted;
`(as a).sid` – the session id that request named.
-/
namespace Snowflake.Broker.C02
open Snowflake.Broker

variable {bridge : Nat → Option Nat} {st : St}

/-- **Answers are not cross-wired.** An answer returned to client `c` was posted (by request `a`) for
exactly the session `p` whose poll was handed `c`'s own offer. -/
theorem returned_answer_is_matched_proxys (hr : Reachable bridge st) (c a : Nat)
    (h : (st.cs c).res = .answer a) :
    ∃ p, (st.as a).sid = p ∧ (st.ss p).popBy = some c ∧ (st.ss p).offerFrom = some c := by
  have hi := inv_reachable hr
  obtain ⟨p, hsf, hsid, _, _⟩ := hi.res.cans c a h
  have hpop := (hi.link.sf c p).mp hsf
  refine ⟨p, hsid, hpop, ?_⟩
  have hc := hi.link.cres c (by rw [h]; simp)
  obtain ⟨hcases, _, _⟩ := hi.link.popBy c p hpop
  rcases hcases with e | e | e | ⟨_, _, e⟩
  · rcases hc with hc | ⟨q, hc⟩ <;> rw [e] at hc <;> cases hc
  · rcases hc with hc | ⟨q, hc⟩ <;> rw [e] at hc <;> cases hc
  · exact (hi.link.fin c p e).2.1
  · exact e

/-- **Each offer is handed to at most one poll.** -/
theorem offer_handed_at_most_once (hr : Reachable bridge st) (c p1 p2 : Nat)
    (h1 : (st.ss p1).offerFrom = some c) (h2 : (st.ss p2).offerFrom = some c) : p1 = p2 := by
  have hi := inv_reachable hr
  have e1 := (hi.link.sf c p1).mpr ((hi.sess p1).offer c h1)
  have e2 := (hi.link.sf c p2).mpr ((hi.sess p2).offer c h2)
  rw [e1] at e2; exact Option.some.inj e2

/-- **Each poll receives at most one offer**, and its reply carries exactly that one: the record of
the offer received is single-valued, the handler that got an offer got that one, and a `matched`
reply names it. -/
theorem poll_reply_carries_its_one_offer (hr : Reachable bridge st) (p : Nat) :
    (∀ c, (st.ss p).h = .gotOffer c → (st.ss p).offerFrom = some c)
    ∧ (∀ c u, (st.ss p).res = .matched c u → (st.ss p).offerFrom = some c)
    ∧ (∀ c, (st.ss p).offerFrom = some c → (st.ss p).popBy = some c) := by
  have hi := inv_reachable hr
  exact ⟨fun c h => ((hi.sess p).got c h).2.1, fun c u h => (hi.sess p).resMatched c u h,
    fun c h => (hi.sess p).offer c h⟩

/-- **The relay URL is the one configured for the bridge the client named.** -/
theorem relay_url_is_bridge_of_fingerprint (hr : Reachable bridge st) (p c u : Nat)
    (h : (st.ss p).res = .matched c u) : bridge (st.cs c).fp = some u := by
  have hi := inv_reachable hr
  rw [← bridge_reachable hr]; exact hi.res.url p c u h

/-- **A client naming a fingerprint absent from the bridge list is never matched to any proxy.** -/
theorem unknown_fingerprint_never_matched (hr : Reachable bridge st) (c : Nat)
    (h : bridge (st.cs c).fp = none) : ∀ p, (st.ss p).popBy ≠ some c ∧ (st.ss p).offerFrom ≠ some c := by
  have hi := inv_reachable hr
  intro p
  have key : (st.ss p).popBy ≠ some c := by
    intro hp
    have := (hi.link.popBy c p hp).2.2
    rw [bridge_reachable hr, h] at this; cases this
  exact ⟨key, fun ho => key ((hi.sess p).offer c ho)⟩

/-! ## Non-vacuity: a concrete history reaches a state where client 101 is answered -/

def demoLabels : List Lab :=
  [.pollArrive 1 .unrestricted 0, .add 1, .clientArrive 101 .unknown 0, .cMatch 101 1, .wOffer 1 101,
   .wFwd 1, .hRespond 1, .ansArrive 201 1, .aLookup 201, .aSend 201, .cRecv 101, .cFin 101]

def demoBridge : Nat → Option Nat := fun fp => if fp = 0 then some 100 else none

example : (runL true (init demoBridge) demoLabels).map
    (fun st => ((st.cs 101).res, (st.ss 1).res, (st.ss 1).inMap, st.gauge)) =
    some (.answer 201, .matched 101 100, false, 0) := by decide +kernel

end Snowflake.Broker.C02
