import Snowflake.Proofs.Server
/-!
# C05 — the server binds packets to sessions by ClientID; sessions never mix

Theorems about every reachable state of `Snowflake.Model.Server` (any number of carriers, any
interleaving of deliveries, cuts, handler steps, KCP reads and writes; any byte content).
-/
namespace Snowflake.Server.C05
open Snowflake.Server Snowflake.Encap

structure Inv (st : St) : Prop where
  cok : ∀ q, COK st.token (st.cs q)
  gok : GOK st
  gok2 : GOK2 st

theorem inv_init (token : Bytes) (qs : Nat) : Inv (init token qs) := by
  refine ⟨fun _ => cok_default token, ?_, ?_⟩
  · constructor <;> simp [init]
  · constructor; simp [init]

theorem inv_step {st st' : St} (l : Lab) (hs : step st l = some st') (hi : Inv st) : Inv st' :=
  ⟨cok_step l hs hi.cok, gok_step l hs hi.cok hi.gok hi.gok2, gok2_step l hs hi.gok2 hi.gok⟩

theorem inv_reachable {token : Bytes} {qs : Nat} {st : St} (h : Reachable token qs st) : Inv st := by
  induction h with
  | init => exact inv_init token qs
  | step l _ hs ih => exact inv_step l hs ih

theorem token_reachable {token : Bytes} {qs : Nat} {st : St} (h : Reachable token qs st) : st.token = token := by
  induction h with
  | init => rfl
  | step l _ hs ih => rw [(token_step l hs).1, ih]

variable {token : Bytes} {qs : Nat} {st : St}

/-- **Upstream attribution.** Every packet waiting in the shared incoming queue under tag `id` was
decoded on a carrier whose byte stream began with the token followed by exactly that `id`. -/
theorem incoming_tag_is_carrier_prefix (hr : Reachable token qs st) (p : Bytes) (id : CID)
    (h : (p, id) ∈ st.inq) :
    ∃ k, (st.cs k).presented = some id ∧ (token ++ id) <+: (st.cs k).allIn ∧ p ∈ (st.cs k).queued := by
  have hi := inv_reachable hr
  obtain ⟨k, hk⟩ := hi.gok.inq p id h
  have h1 := hi.gok.hist p id k hk
  refine ⟨k, h1.1, ?_, h1.2⟩
  have hc := (hi.cok k).some id h1.1
  rw [(hi.cok k).split, hc, token_reachable hr]
  exact ⟨(st.cs k).frames ++ (st.cs k).buf, by simp⟩

/-- **Upstream exactness.** What a carrier passed to `QueueIncoming` is exactly the sequence of
complete data chunks of a *prefix* of the bytes it delivered after its 16-byte preface: a cut at any
byte offset yields the packets before the cut, never a partial, altered, merged or reordered one. -/
theorem upstream_exact (hr : Reachable token qs st) (k : Nat) (id : CID)
    (h : (st.cs k).presented = some id) :
    ∃ fr, (token ++ id ++ fr) <+: (st.cs k).allIn ∧ decodeAll fr = ((st.cs k).queued, .eof) := by
  have hi := inv_reachable hr
  refine ⟨(st.cs k).frames, ?_, frames_decode (hi.cok k).frames⟩
  rw [(hi.cok k).split, (hi.cok k).some id h, token_reachable hr]
  exact ⟨(st.cs k).buf, rfl⟩

/-- **No token, no packets.** A carrier that has not presented the token and a ClientID contributed
nothing to the incoming queue and was sent nothing; and presenting means the stream really began
with the token. -/
theorem no_token_no_packets (hr : Reachable token qs st) (k : Nat) :
    ((st.cs k).presented = none → (st.cs k).queued = [] ∧ (st.cs k).written = [])
    ∧ (∀ id, (st.cs k).presented = some id → token <+: (st.cs k).allIn) := by
  have hi := inv_reachable hr
  refine ⟨fun h => ⟨((hi.cok k).none h).1, ((hi.cok k).none h).2.1⟩, ?_⟩
  intro id h
  rw [(hi.cok k).split, (hi.cok k).some id h, token_reachable hr]
  exact ⟨id ++ (st.cs k).frames ++ (st.cs k).buf, by simp⟩

/-- **Downstream attribution.** The packets framed onto a carrier that presented `id` are, in order,
packets KCP addressed to that very `id` (a sub-sequence of what `WriteTo(_, id)` enqueued). -/
theorem downstream_only_to_same_id (hr : Reachable token qs st) (k : Nat) (id : CID)
    (h : (st.cs k).presented = some id) : List.Sublist (st.cs k).written (st.enq id) := by
  have hi := inv_reachable hr
  exact (hi.gok.written k id h).trans (List.take_sublist _ _)

/-- **Isolation** (corollary): nothing reaches a carrier of session `id` through this layer unless KCP
addressed it to `id`; in particular a packet enqueued only for another session never does. -/
theorem isolation (hr : Reachable token qs st) (k : Nat) (id : CID) (p : Bytes)
    (h : (st.cs k).presented = some id) (hp : p ∈ (st.cs k).written) : p ∈ st.enq id :=
  (downstream_only_to_same_id hr k id h).subset hp

/-- **Per-session FIFO, no duplication.** The outgoing queue of `id` is exactly what was enqueued for
`id` minus what has been taken, in order. -/
theorem outgoing_fifo (hr : Reachable token qs st) (id : CID) :
    st.outq id = (st.enq id).drop (st.deq id) ∧ st.deq id ≤ (st.enq id).length :=
  ⟨(inv_reachable hr).gok.fifo id, (inv_reachable hr).gok2.deqle id⟩

/-- **The queue survives carrier changes.** Carriers opening, delivering bytes, being cut, and
handler steps never touch any outgoing queue: packets queued for `id` while no carrier is attached
stay queued for the next carrier that presents `id`. -/
theorem queue_survives_carrier_change {st' : St} (l : Lab) (hs : step st l = some st')
    (hl : match l with | .open _ | .recv _ _ | .cut _ | .hStep _ => True | _ => False) :
    st'.outq = st.outq := by
  cases l <;> simp only at hl <;> simp only [step, hStep] at hs <;> (repeat' split at hs) <;>
    (try cases hs) <;> rfl

/-! ## Non-vacuity: two carriers of two sessions, one cut mid-frame -/

def tok : Bytes := [0x12, 0x93, 0x60, 0x5d, 0x27, 0x81, 0x75, 0xf5]
def idA : CID := [1, 1, 1, 1, 1, 1, 1, 1]
def idB : CID := [1, 1, 1, 1, 1, 1, 1, 2]

example :
    (runL (init tok 4)
      [.open 0, .open 1, .recv 0 (tok ++ idA ++ [0x82, 7, 7, 0x81]), .recv 1 (tok ++ idB ++ [0x81, 9]),
       .hStep 0, .hStep 0, .hStep 0, .hStep 1, .hStep 1, .hStep 1, .cut 0, .hStep 0,
       .kcpWrite [5] idB, .wStep 1]).map
      (fun st => st.inq == [([7, 7], idA), ([9], idB)] && (st.cs 0).queued == [[7, 7]]
        && (st.cs 0).pc == .closed && (st.cs 1).written == [[5]] && st.outq idA == [] && (st.cs 0).written == [])
    = some true := by decide +kernel

end Snowflake.Server.C05
