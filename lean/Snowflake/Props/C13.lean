import Snowflake.Proofs.Json
import Snowflake.Model.SessionDesc
/-!
# C13 — untrusted session descriptions cannot crash client or proxy

Property theorems about `Snowflake.SessionDesc` (the model of `common/util/util.go`
`SerializeSessionDescription` / `DeserializeSessionDescription`).

Not covered here: the clause about extracting a peer address from SDP text
(`proxy/lib/webrtcconn.go remoteIPFromSDP`) belongs to the IP/SDP work package.
-/
namespace Snowflake.SessionDesc.C13
open Snowflake Snowflake.Json

/-- The two members `Marshal` writes parse back to exactly those members. -/
theorem unmarshal_serialize (t : SDPType) (sdp : List (Option Char)) :
    unmarshalMap (serialize t sdp)
      = some [("type".toList, .str t.name), ("sdp".toList, .str (sdp.map (·.getD Utf8.replacement)))] := by
  unfold unmarshalMap serialize
  rw [parse_marshalObj]
  have hn : (ofText t.name).map (·.getD Utf8.replacement) = t.name := by
    simp only [ofText, List.map_map]; exact map_getD_some _
  simp [keptFields, toJsonKV, MVal.toJson, MVal.isEmpty, anyOverflowKV, Json.hasOverflow, hn]

/-- Deserialising a serialised description, for an SDP given as any Go string (offending bytes
included): the type comes back, the text comes back with each offending byte replaced by U+FFFD. -/
theorem roundtrip_items (fixed : Bool) (t : SDPType) (ht : t ≠ .other) (sdp : List (Option Char)) :
    deserialize fixed (serialize t sdp) = .ok t (sdp.map (·.getD Utf8.replacement)) := by
  unfold deserialize
  rw [unmarshal_serialize]
  cases t <;> first | exact absurd rfl ht | rfl

/-- **Round trip.** For each of the four SDP types and *every* SDP text, deserialising the
serialised description yields the same type and the same text — on the pinned and on the repaired
function alike. -/
theorem sdp_roundtrip (fixed : Bool) (t : SDPType) (ht : t ≠ .other) (sdp : Text) :
    deserialize fixed (serialize t (ofText sdp)) = .ok t sdp := by
  rw [roundtrip_items fixed t ht]
  simp only [ofText, List.map_map, map_getD_some]

/-- **Distinct descriptions have distinct serialisations**: type and SDP text are both recoverable, so no two
descriptions can be confused on the wire (corollary of `sdp_roundtrip`). -/
theorem serialize_injective (t u : SDPType) (ht : t ≠ .other) (hu : u ≠ .other) (a b : Text)
    (h : serialize t (ofText a) = serialize u (ofText b)) : t = u ∧ a = b := by
  have h1 := sdp_roundtrip true t ht a
  have h2 := sdp_roundtrip true u hu b
  rw [h, h2] at h1
  injection h1 with e1 e2
  exact ⟨e1.symm, e2.symm⟩
/-- Same statement on raw bytes: a valid-UTF-8 Go string survives `[]byte`/`string` conversions,
`Marshal`, and `Unmarshal` of the UTF-8 encoded JSON text. -/
theorem sdp_roundtrip_bytes (fixed : Bool) (t : SDPType) (ht : t ≠ .other) (sdp : Text) :
    deserialize fixed (Utf8.decodeLossy (Utf8.encode
        (serialize t (Utf8.decodeItems (Utf8.encode sdp))))) = .ok t sdp := by
  rw [Utf8.decodeLossy_encode, Utf8.decodeItems_encode]
  exact sdp_roundtrip fixed t ht sdp

/-- A description whose type is none of the four defined values is written with the name
"unknown" and is rejected (an error, not a panic) when read back. -/
theorem other_type_rejected (fixed : Bool) (sdp : List (Option Char)) :
    deserialize fixed (serialize .other sdp) = .err := by
  unfold deserialize
  rw [unmarshal_serialize]
  rfl

theorem assertString_total (j : Json) (k : Text → Outcome) (hk : ∀ s, k s ≠ .panic) :
    assertString true j k ≠ .panic := by
  unfold assertString
  split
  · exact hk _
  · simp

theorem construct_total (tv sv : Json) : construct true tv sv ≠ .panic := by
  unfold construct
  apply assertString_total
  intro ts
  split
  · simp
  · apply assertString_total
    intro s
    simp

/-- **Totality (repaired function).** For every text — any JSON value at top level, `type`/`sdp`
members of any JSON type, missing or duplicated members, non-JSON — deserialisation returns a
description or an error; it never panics. -/
theorem deserialize_total (msg : Text) : deserialize true msg ≠ .panic := by
  unfold deserialize
  split
  · simp
  · split
    · simp
    · split
      · simp
      · exact construct_total _ _

/-- The same for arbitrary bytes (invalid UTF-8 included). -/
theorem deserialize_total_bytes (msg : Utf8.Bytes) : deserialize true (Utf8.decodeLossy msg) ≠ .panic :=
  deserialize_total _

set_option linter.unusedSimpArgs false in
theorem construct_conservative (tv sv : Json) (h : construct false tv sv ≠ .panic) :
    construct true tv sv = construct false tv sv := by
  unfold construct at h ⊢
  cases tv <;> simp only [assertString] at h ⊢ <;> try (exact absurd rfl h)
  split
  · rfl
  · rename_i stype hs
    simp only [hs] at h
    cases sv <;> simp only [assertString] at h ⊢ <;> try (exact absurd rfl h)

set_option linter.unusedSimpArgs false in
theorem construct_panic_err (tv sv : Json) (h : construct false tv sv = .panic) :
    construct true tv sv = .err := by
  unfold construct at h ⊢
  cases tv <;> simp only [assertString] at h ⊢ <;> try rfl
  split
  · rfl
  · rename_i stype hs
    simp only [hs] at h
    cases sv <;> simp only [assertString] at h ⊢ <;> first | rfl | exact absurd h (by simp)

/-- The repair changes nothing but the panics: wherever the pinned function returns, the repaired
one returns the same. -/
theorem repair_conservative (msg : Text) (h : deserialize false msg ≠ .panic) :
    deserialize true msg = deserialize false msg := by
  unfold deserialize at h ⊢
  split
  · rfl
  · split
    · rfl
    · split
      · rfl
      · simp only [*] at h
        exact construct_conservative _ _ h

/-- Where the pinned function panics the repaired one returns an error. -/
theorem repair_turns_panic_into_error (msg : Text) (h : deserialize false msg = .panic) :
    deserialize true msg = .err := by
  unfold deserialize at h ⊢
  split
  · rfl
  · split
    · rfl
    · split
      · rfl
      · simp only [*] at h
        exact construct_panic_err _ _ h

/-! ### Non-vacuity -/

example : deserialize true "{\"type\":\"offer\",\"sdp\":\"v=0\\r\\n\"}".toList = .ok .offer "v=0\r\n".toList := by
  decide +kernel
example : serialize .answer (ofText "a<b\n".toList) = "{\"type\":\"answer\",\"sdp\":\"a\\u003cb\\n\"}".toList := by
  decide +kernel
example : deserialize true "{\"type\":\"Offer\",\"sdp\":\"\"}".toList = .err := by decide +kernel
example : deserialize true " { \"sdp\" : \"x\", \"type\":\"offer\", \"type\":\"rollback\" } ".toList = .ok .rollback "x".toList := by
  decide +kernel
example : deserialize true "{\"type\":\"offer\",\"sdp\":\"\",\"x\":1e999}".toList = .err := by decide +kernel
example : deserialize true "null".toList = .err := by decide +kernel

/-! ### The pinned function is *not* total (defect F6): kernel-checked negative witnesses -/

/-- `{"type":1,"sdp":""}` panics in the pinned function. -/
theorem pinned_panics_type_number : deserialize false "{\"type\":1,\"sdp\":\"\"}".toList = .panic := by
  decide +kernel

/-- `{"type":"offer","sdp":1}` panics in the pinned function. -/
theorem pinned_panics_sdp_number : deserialize false "{\"type\":\"offer\",\"sdp\":1}".toList = .panic := by
  decide +kernel

/-- `{"type":null,"sdp":null}` panics in the pinned function. -/
theorem pinned_panics_null_members : deserialize false "{\"type\":null,\"sdp\":null}".toList = .panic := by
  decide +kernel

/-- Hence totality fails for the pinned function. -/
theorem pinned_not_total : ¬ ∀ msg, deserialize false msg ≠ .panic :=
  fun h => h _ pinned_panics_type_number

/-- An unknown type name is an error before the `sdp` assertion is reached: no panic. -/
example : deserialize false "{\"type\":\"x\",\"sdp\":1}".toList = .err := by decide +kernel

end Snowflake.SessionDesc.C13
