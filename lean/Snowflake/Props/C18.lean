import Snowflake.Model.ClientAddr
import Snowflake.Proofs.IP
import Snowflake.Proofs.ClientAddr
/-!
# C18 — the bridge is told the right client address or none

Theorems about `Snowflake.Model.ClientAddr` (`clientAddr`, the ClientID → address ring map) and
`Snowflake.Base.IP` (Go's `net.ParseIP` / `net.IP.String`).  Tied to the source by
`Tie/ServerLib.lean` (statement listings, capacity constant) and by `harness/c18_serverlib_test.go`.

The `attribution` clause of DESIGN §5.18 (which `Set`/`Get` the HTTP handler and the KCP accept path
perform, and in which order) is `Props/C18Attr.lean` over `Model/Attribution.lean`; it builds on the ring
theorems below (`ring_get_spec`, `ring_remembers`, `ring_forgets`, `ring_get_own`).
-/
namespace Snowflake.ClientAddr.C18
open Snowflake.GoStr Snowflake.IP

/-! ## the sanitiser -/

theorem joinHostPort_ne_nil (h p : Str) : joinHostPort h p ≠ [] := by
  unfold joinHostPort; split <;> simp

/-- **Sanitiser, both directions.**  The result is empty *iff* the parameter is empty, does not parse
as an IP address, or parses to an unspecified address (`0.0.0.0`, `::ffff:0.0.0.0`, `::`); otherwise
it is `JoinHostPort(ip.String(), "1")` for the address `ip` that `net.ParseIP` returned. -/
theorem clientAddr_spec (s : Str) :
    (clientAddr s = [] ↔ s = [] ∨ parseIP s = none ∨ ∃ ip, parseIP s = some ip ∧ isUnspecified ip = true)
    ∧ (∀ ip, s ≠ [] → parseIP s = some ip → isUnspecified ip = false →
        clientAddr s = joinHostPort (render ip) [49]) := by
  unfold clientAddr
  by_cases hs : s = []
  · simp [hs]
  · simp only [hs, if_false, false_or]
    cases hp : parseIP s with
    | none => simp
    | some ip =>
      by_cases hu : isUnspecified ip = true
      · simp [hu]
      · simp [hu, joinHostPort_ne_nil]

/-- **Go's text of an address parses back to the same address** — for every 16-byte address (the form
`net.ParseIP` returns): IPv4-mapped ones through the dotted quad, all others through `appendTo6` with
its `::` compression, whichever zero run is compressed.  (Full strength; nothing is left partial.) -/
theorem render_parses_back (ip : List UInt8) (h : ip.length = 16) : parseIP (render ip) = some ip :=
  parseIP_render_16 ip h

/-- 4-byte addresses print as a dotted quad that parses to the same address in 16-byte form. -/
theorem render_parses_back_v4 (ip : List UInt8) (h : ip.length = 4) :
    parseIP (render ip) = some (v4InV6Prefix ++ ip) :=
  parseIP_render_4 ip h

/-- Every result of `net.ParseIP` has 16 bytes. -/
theorem parseIP_len16 (s : Str) (ip : List UInt8) (h : parseIP s = some ip) : ip.length = 16 :=
  parseIP_length h

/-- `IsUnspecified` on a 16-byte address: exactly `::ffff:0.0.0.0` and `::`. -/
theorem isUnspecified_iff (ip : List UInt8) (h : ip.length = 16) :
    isUnspecified ip = true ↔ ip = ipv4zero ∨ ip = ipv6unspecified := by
  have h1 : ipv4zero.length = 16 := rfl
  have h2 : ipv6unspecified.length = 16 := rfl
  simp [isUnspecified, equal, h, h1, h2]

/-- The sanitised value depends on the *address* the parameter denotes, not on how it was spelled: two
non-empty spellings of one address (`::ffff:1.2.3.4` / `1.2.3.4`, upper or lower case, with or without zero
compression) tell the bridge the same thing. -/
theorem clientAddr_depends_on_address_only (s t : Str) (hs : s ≠ []) (ht : t ≠ []) (h : parseIP s = parseIP t) :
    clientAddr s = clientAddr t := by
  unfold clientAddr
  simp only [hs, ht, if_false, h]

/-- **The bridge is told that address or none.**  A non-empty result names — with stub port 1 — an
address whose text parses back to exactly the specified 16-byte address that the `client_ip` parameter
denotes. -/
theorem clientAddr_tells_that_address (s : Str) (hne : clientAddr s ≠ []) :
    ∃ ip, parseIP s = some ip ∧ ip.length = 16 ∧ ip ≠ ipv4zero ∧ ip ≠ ipv6unspecified
      ∧ clientAddr s = joinHostPort (render ip) [49] ∧ parseIP (render ip) = some ip := by
  have hspec := clientAddr_spec s
  have hs : s ≠ [] := fun h => hne (hspec.1.mpr (Or.inl h))
  cases hp : parseIP s with
  | none => exact absurd (hspec.1.mpr (Or.inr (Or.inl hp))) hne
  | some ip =>
    have hl := parseIP_length hp
    have hu : isUnspecified ip = false := by
      cases hu : isUnspecified ip with
      | false => rfl
      | true => exact absurd (hspec.1.mpr (Or.inr (Or.inr ⟨ip, hp, hu⟩))) hne
    have hnot : ¬ (ip = ipv4zero ∨ ip = ipv6unspecified) := by
      rw [← isUnspecified_iff ip hl, hu]; simp
    exact ⟨ip, rfl, hl, fun h => hnot (Or.inl h), fun h => hnot (Or.inr h), hspec.2 ip hs hp hu,
      render_parses_back ip hl⟩

/-! ## the bounded ClientID → address map -/

section ring
variable {K V : Type} [DecidableEq K] (k0 : K) (v0 : V)

/-- the map after running `ops` on a fresh map of capacity `n` -/
def after (n : Nat) (ops : List (Op K V)) : Ring K V := (runRing k0 v0 (Ring.new k0 v0 n) ops).2

/-- the `set`s of an operation sequence, in order -/
def sets : List (Op K V) → List (K × V)
  | [] => []
  | Op.set k v :: ops => (k, v) :: sets ops
  | Op.get _ :: ops => sets ops

omit [DecidableEq K] in
theorem history_eq (R : List (K × V)) (ops : List (Op K V)) : history R ops = (sets ops).reverse ++ R := by
  induction ops generalizing R with
  | nil => simp [history, sets]
  | cons op ops ih => cases op <;> simp [history, sets, ih]

/-- **Refinement (main theorem).**  For *every* capacity `n ≥ 0` and *every* sequence of `Set`/`Get`
operations, the ring map answers every `Get` exactly like the specification "log of the last `n`
sets, newest first": the value of the most recent `Set` of that ClientID among the last `n` `Set`s,
else absent — never another ClientID's address. -/
theorem ring_refines_log (n : Nat) (ops : List (Op K V)) :
    (runRing k0 v0 (Ring.new k0 v0 n) ops).1 = (runLog n [] ops).1 := by
  simpa using (run_refines ops (abs_new (k0 := k0) (v0 := v0) n)).1

/-- State form of the refinement: after any operation sequence, `Get k` reads the newest entry for `k`
among the last `n` sets (`(sets ops).reverse` is the history, newest first). -/
theorem ring_get_spec (n : Nat) (ops : List (Op K V)) (k : K) :
    Ring.get k0 v0 (after k0 v0 n ops) k = logGet ((sets ops).reverse.take n) k := by
  have h := (run_refines ops (abs_new (k0 := k0) (v0 := v0) n)).2.1
  rw [after, h.get_eq k, history_eq, List.append_nil]

/-- **Bounded memory.**  After any operation sequence the buffer still has exactly `n` slots and the
index holds at most `n` ClientIDs, without duplicates. -/
theorem ring_bounded (n : Nat) (ops : List (Op K V)) :
    (after k0 v0 n ops).entries.length = n ∧ (after k0 v0 n ops).current.length ≤ n := by
  have h := ((run_refines ops (abs_new (k0 := k0) (v0 := v0) n)).2.1).size_le
  exact ⟨h.2, h.1⟩

/-- **No out-of-range access.**  `m.entries[m.oldest]` in `Set` and `m.entries[i]` in `Get` are always
inside the buffer: the model's defaults for out-of-range reads are never used, and the Go code cannot
panic there. -/
theorem ring_indices_in_range (n : Nat) (ops : List (Op K V)) :
    (n = 0 ∨ (after k0 v0 n ops).oldest < n)
    ∧ ∀ k i, (after k0 v0 n ops).current.get k = some i → i < (after k0 v0 n ops).entries.length := by
  have h := (run_refines ops (abs_new (k0 := k0) (v0 := v0) n)).2.1
  have hr := h.in_range
  have hl := h.size_le.2
  exact ⟨hr.1, fun k i hk => by rw [after, hl]; exact hr.2 k i hk⟩

/-- **Capacity 0 stores nothing.** -/
theorem ring_capacity_zero (ops : List (Op K V)) (k : K) : Ring.get k0 v0 (after k0 v0 0 ops) k = none := by
  rw [ring_get_spec]; simp [logGet]

/-- **Not forgotten early.**  If fewer than `n` sets (of other ClientIDs) followed the last `Set k v`,
`Get k` returns `v`. -/
theorem ring_remembers (n : Nat) (pre post : List (Op K V)) (k : K) (v : V)
    (hother : ∀ e ∈ sets post, e.1 ≠ k) (hfew : (sets post).length < n) :
    Ring.get k0 v0 (after k0 v0 n (pre ++ Op.set k v :: post)) k = some v := by
  rw [ring_get_spec]
  have hs : sets (pre ++ Op.set k v :: post) = sets pre ++ (k, v) :: sets post := by
    induction pre with
    | nil => rfl
    | cons op pre ih => cases op <;> simp [sets, ih]
  rw [hs]
  apply logGet_first _ k (sets post).length v
  · rw [List.getElem?_take, if_pos hfew]
    simp
  · intro d hd v' hc
    rw [List.getElem?_take, if_pos (by omega)] at hc
    simp only [List.reverse_append, List.reverse_cons, List.append_assoc] at hc
    rw [List.getElem?_append_left (by simpa using hd)] at hc
    have := List.mem_of_getElem? hc
    exact hother _ (List.mem_reverse.mp this) rfl

/-- **Oldest forgotten first.**  Once `n` or more sets of other ClientIDs have followed the last
`Set k`, `Get k` reports absent. -/
theorem ring_forgets (n : Nat) (pre post : List (Op K V)) (k : K) (v : V)
    (hother : ∀ e ∈ sets post, e.1 ≠ k) (hmany : n ≤ (sets post).length) :
    Ring.get k0 v0 (after k0 v0 n (pre ++ Op.set k v :: post)) k = none := by
  rw [ring_get_spec]
  have hs : sets (pre ++ Op.set k v :: post) = sets pre ++ (k, v) :: sets post := by
    induction pre with
    | nil => rfl
    | cons op pre ih => cases op <;> simp [sets, ih]
  rw [hs]
  apply logGet_none
  intro d v' hc
  rw [List.getElem?_take] at hc
  split at hc
  · simp only [List.reverse_append, List.reverse_cons, List.append_assoc] at hc
    rw [List.getElem?_append_left (by simp; omega)] at hc
    have := List.mem_of_getElem? hc
    exact hother _ (List.mem_reverse.mp this) rfl
  · cases hc

/-- A returned address was stored under the *same* ClientID (never another session's address). -/
theorem ring_get_own (n : Nat) (ops : List (Op K V)) (k : K) (v : V)
    (h : Ring.get k0 v0 (after k0 v0 n ops) k = some v) : (k, v) ∈ sets ops := by
  rw [ring_get_spec] at h
  have := logGet_some_mem h
  exact List.mem_reverse.mp (List.mem_of_mem_take this)

end ring

/-! ## Non-vacuity and sensitivity -/

/-- capacity 2, colliding ids (including the all-zero id 0, the key of a never-written slot) -/
example :
    (runRing 0 0 (Ring.new 0 0 2) [Op.get 0, Op.set 1 5, Op.get 0, Op.set 2 6, Op.get 1, Op.set 3 7,
        Op.get 1, Op.get 2, Op.get 3, Op.set 0 8, Op.get 0, Op.set 0 9, Op.set 4 1, Op.get 0, Op.set 5 2, Op.get 0]).1
      = [none, none, some 5, none, some 6, some 7, some 8, some 9, none] := by decide +kernel

/-- The guard `i == m.oldest` of the delete is essential: without it, re-setting a ClientID and then
overwriting its *older* slot would forget the newer entry although it is among the last `n` sets. -/
def setNoGuard (m : Ring Nat Nat) (k v : Nat) : Ring Nat Nat :=
  if m.entries.length = 0 then m
  else
    let old := (m.entries.getD m.oldest (0, 0)).1
    { entries := m.entries.set m.oldest (k, v)
      oldest := (m.oldest + 1) % m.entries.length
      current := (m.current.delete old).set k m.oldest }

example :
    let m := setNoGuard (setNoGuard (setNoGuard (setNoGuard (Ring.new 0 0 3) 1 10) 1 11) 2 12) 3 13
    Ring.get 0 0 m 1 = none ∧ logGet [(3, 13), (2, 12), (1, 11)] 1 = some 11 := by decide +kernel

/-- Dropping the delete altogether would hand out another ClientID's address. -/
def setNoDelete (m : Ring Nat Nat) (k v : Nat) : Ring Nat Nat :=
  if m.entries.length = 0 then m
  else
    { entries := m.entries.set m.oldest (k, v)
      oldest := (m.oldest + 1) % m.entries.length
      current := m.current.set k m.oldest }

example : Ring.get 0 0 (setNoDelete (setNoDelete (Ring.new 0 0 1) 1 10) 2 20) 1 = some 20 := by decide +kernel

/-- the sanitiser on concrete inputs -/
example : clientAddr (ofString "1.2.3.4") = ofString "1.2.3.4:1"
    ∧ clientAddr (ofString "::ffff:1.2.3.4") = ofString "1.2.3.4:1"
    ∧ clientAddr (ofString "2001:db8:0:0:1:0:0:1") = ofString "[2001:db8::1:0:0:1]:1"
    ∧ clientAddr (ofString "0.0.0.0") = [] ∧ clientAddr (ofString "::") = [] ∧ clientAddr (ofString "::ffff:0:0") = []
    ∧ clientAddr (ofString "fe80::1%eth0") = [] ∧ clientAddr (ofString "1.2.3.4:80") = []
    ∧ clientAddr (ofString "01.2.3.4") = [] ∧ clientAddr [] = [] := by decide +kernel

end Snowflake.ClientAddr.C18
