/-
C17 — "the server-side queue connection delivers packets … without blocking (dropping when a queue is full)":
a `WriteTo` must return normally whatever the periodic sweep does to the client's queue in the meantime.

  * `pinned_write_can_panic`   – the pinned shape (look-up under the lock, send after it) has a schedule that
                                 sends on a closed channel, for every timeout: F18, kernel-checked.
  * `repaired_never_panics`    – with look-up and send in one critical section no schedule of any number of
                                 writers, sweeps and clock steps ever sends on a closed channel.
  * `repaired_record_open`     – … and the queue the map holds for the address is never a closed one (what
                                 `OutgoingQueue` hands to the carrier's write loop is open until the sweep closes it).
-/
import Snowflake.Model.QueueSweep

namespace Snowflake.C17Sweep
open Snowflake.QueueSweep

theorem inv_init : Inv init :=
  ⟨rfl, (by intro g seen h; cases h), (by intro g seen h; cases h), (by intro g h; cases h)⟩

theorem sendQueue_none {s : St} (h : s.cur = none) :
    sendQueue s = ({ s with cur := some (s.nextGen, s.now), nextGen := s.nextGen + 1 }, s.nextGen) := by
  simp [sendQueue, h]

theorem sendQueue_some {s : St} {g seen : Nat} (h : s.cur = some (g, seen)) :
    sendQueue s = ({ s with cur := some (g, s.now) }, g) := by
  simp [sendQueue, h]

theorem inv_sendQueue {s : St} (h : Inv s) :
    Inv (sendQueue s).1 ∧ (sendQueue s).2 ∉ (sendQueue s).1.closedGens := by
  cases hc : s.cur with
  | none =>
    rw [sendQueue_none hc]
    refine ⟨⟨h.no_panic, ?_, ?_, ?_⟩, ?_⟩
    · intro g seen hg
      simp only [Option.some.injEq, Prod.mk.injEq] at hg
      intro hm
      have := h.closed_old g hm
      omega
    · intro g seen hg
      simp only [Option.some.injEq, Prod.mk.injEq] at hg
      show g < s.nextGen + 1
      omega
    · intro g hm
      have := h.closed_old g hm
      show g < s.nextGen + 1
      omega
    · intro hm
      have := h.closed_old _ hm
      omega
  | some p =>
    obtain ⟨g, seen⟩ := p
    rw [sendQueue_some hc]
    refine ⟨⟨h.no_panic, ?_, ?_, h.closed_old⟩, ?_⟩
    · intro g' seen' hg
      simp only [Option.some.injEq, Prod.mk.injEq] at hg
      rw [← hg.1]
      exact h.cur_open g seen hc
    · intro g' seen' hg
      simp only [Option.some.injEq, Prod.mk.injEq] at hg
      rw [← hg.1]
      exact h.cur_old g seen hc
    · exact h.cur_open g seen hc

theorem inv_step (timeout : Nat) {s : St} (h : Inv s) {e : Ev} (he : Repaired e = true) : Inv (step timeout s e) := by
  cases e with
  | tick d => exact ⟨h.no_panic, h.cur_open, h.cur_old, h.closed_old⟩
  | sweep =>
    unfold step
    cases hc : s.cur with
    | none => simpa [hc] using h
    | some p =>
      obtain ⟨g, seen⟩ := p
      simp only
      split
      · refine ⟨h.no_panic, ?_, ?_, ?_⟩
        · intro g' seen' hg; cases hg
        · intro g' seen' hg; cases hg
        · intro g' hm
          rcases List.mem_cons.mp hm with heq | hin
          · rw [heq]; exact h.cur_old g seen hc
          · exact h.closed_old g' hin
      · exact h
  | lookup w => cases he
  | send w => cases he
  | trySend w =>
    unfold step
    obtain ⟨hi, hopen⟩ := inv_sendQueue h
    refine ⟨?_, hi.cur_open, hi.cur_old, hi.closed_old⟩
    show ((sendQueue s).1.panicked || (sendQueue s).1.closedGens.contains (sendQueue s).2) = false
    rw [hi.no_panic]
    cases hcg : (sendQueue s).1.closedGens.contains (sendQueue s).2 with
    | false => rfl
    | true => exact absurd (List.contains_iff_mem.mp hcg) hopen

theorem inv_run (timeout : Nat) : ∀ (es : List Ev) (s : St), Inv s → (∀ e ∈ es, Repaired e = true) → Inv (run timeout s es) := by
  intro es
  induction es with
  | nil => intro s h _; exact h
  | cons e es ih =>
    intro s h hall
    exact ih _ (inv_step timeout h (hall e (List.mem_cons_self ..))) (fun e' he' => hall e' (List.mem_cons_of_mem _ he'))

/-- **Repaired code.** Any number of writers, sweeps and clock steps, in any order, for any timeout: no send
ever hits a closed channel. -/
theorem repaired_never_panics (timeout : Nat) (es : List Ev) (h : ∀ e ∈ es, Repaired e = true) :
    (run timeout init es).panicked = false :=
  (inv_run timeout es init inv_init h).no_panic

/-- … and the queue recorded for the address is never one that was closed. -/
theorem repaired_record_open (timeout : Nat) (es : List Ev) (h : ∀ e ∈ es, Repaired e = true) (g seen : Nat)
    (hc : (run timeout init es).cur = some (g, seen)) : g ∉ (run timeout init es).closedGens :=
  (inv_run timeout es init inv_init h).cur_open g seen hc

/-- **Pinned code (F18).** For every timeout there is a schedule of one writer and one sweep that sends on a
closed channel: look the queue up, be descheduled for the timeout, the sweep closes the queue, send. -/
theorem pinned_write_can_panic (timeout : Nat) :
    (run timeout init [.lookup 0, .tick timeout, .sweep, .send 0]).panicked = true := by
  simp [run, step, sendQueue, init, setHolding]

/-- Non-vacuity of the repaired theorem: a schedule with two writers, a sweep that really expires the record
(the closed list is not empty afterwards) and a write after it. -/
example : (run 5 init [.trySend 0, .trySend 1, .tick 7, .sweep, .trySend 0]).closedGens = [0]
    ∧ (run 5 init [.trySend 0, .trySend 1, .tick 7, .sweep, .trySend 0]).cur = some (1, 7)
    ∧ (run 5 init [.trySend 0, .trySend 1, .tick 7, .sweep, .trySend 0]).panicked = false := by decide

/-- The same schedule in the pinned shape with the writer caught between its two steps panics. -/
example : (run 5 init [.lookup 0, .send 0, .lookup 1, .tick 7, .sweep, .send 1]).panicked = true := by decide

end Snowflake.C17Sweep
