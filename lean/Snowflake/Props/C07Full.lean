import Snowflake.Props.C07
import Snowflake.Tie.SafelogF4
/-!
# C07, the part that needs the F4 repair (`ipv6Compressed` with up to seven groups beside `::`)

Kept in its own module: if the widening is not applied and F4 is recorded as a known finding instead, this
module and `Tie/SafelogF4.lean` are dropped from the registry and `coverage_partial` /
`scrub_clean_go_partial` of `Props/C07.lean` are what is claimed.
-/
namespace Snowflake.Safelog.C07
open Snowflake.Rx Snowflake.Safelog
set_option maxRecDepth 100000

/-- **Coverage** (clause "every IPv4 or IPv6 address (bare, bracketed, with or without a port, compressed or
IPv4-embedded)"): every spelling of the independent grammar `AddrGo` — dotted quad; eight groups; six groups
and a dotted quad; one `::` with at most seven groups around it, possibly ending in a dotted quad; each
bare, `[v6]`, `v4:port`, `[v6]:port` — is in the language of the regenerated `addressPattern`. -/
theorem coverage (a : List Tok) (h : AddrGo a) : Lang addrRx a := by
  obtain ⟨n, hn, he⟩ := Tie.Safelog.compressed_covers_seven_groups
  have := L_addrGo hn h [] []
  rw [← he] at this
  exact matches_of_eraseCaps _ this


theorem coverage_ipv6_compressed (l r : Nat) (a : List Tok) (hlr : l + r ≤ 7) (h : V6Comp l r a) :
    Lang addrRx a := coverage _ (Or.inr (Or.inl (Or.inr (Or.inr (Or.inl ⟨l, r, hlr, h⟩)))))

/-- A Go-spelled address standing exposed in a text. -/
def ExposedGo (toks : List Tok) : Prop :=
  ∃ pre a post, toks = pre ++ (a ++ post) ∧ AddrGo a ∧ LeftOK pre ∧ RightOK post

/-- **No address Go prints or accepts survives** the repaired scrubber, in any byte string. -/
theorem scrub_clean_go (l : Bytes) : ¬ ExposedGo (decode (scrubFixed l)) := by
  rintro ⟨pre, a, post, hx, ha, hl, hr⟩
  exact scrub_clean l ⟨pre, a, post, hx, coverage a ha, hl, hr⟩

/-- Seven groups beside `::` (the F4 spelling) are found by the current pattern; the inner replacement
prefers the `ipv6Address` alternative, which covers all but the last group — the address is gone, a
stranded `:abcd` stays (not an address; recorded in the report, not claimed). -/
example : scrubFixed (ofStr "x ::2:3:4:5:6:7:abcd\n") = ofStr "x [scrubbed]:abcd\n" := by decide +kernel


end Snowflake.Safelog.C07
