import Snowflake.Proofs.BrokerReach
/-!
# C03 — matches respect NAT compatibility, availability and load order

Theorems about the broker model `Snowflake.Model.Broker` (repaired skeleton).  `waiting st u p`:
poll `p` waits in heap `u` (`true` = the heap of unrestricted proxies).  A proxy is pushed on heap
`pushU nat` (`AddSnowflake`), a client of NAT type `n` is served from heap `wantU n`
(`matchSnowflake`); both functions are tied to the source in `Tie/Broker.lean`.
-/
namespace Snowflake.Broker.C03
open Snowflake.Broker

variable {bridge : Nat → Option Nat} {st st' : St}

theorem compat (n m : NatT) (h : wantU n = pushU m) :
    (n ≠ .unrestricted → m = .unrestricted) ∧ (n = .unrestricted → m ≠ .unrestricted) := by
  cases n <;> cases m <;> revert h <;> decide

/-- **NAT compatibility.** In every reachable state, if client `c` was matched with proxy `p` then:
a restricted or unknown client got a proxy that reported unrestricted; an unrestricted client got a
proxy from the restricted/unknown pool. -/
theorem match_compatible (hr : Reachable bridge st) (c p : Nat) (h : (st.ss p).popBy = some c) :
    ((st.cs c).nat ≠ .unrestricted → (st.ss p).nat = .unrestricted)
    ∧ ((st.cs c).nat = .unrestricted → (st.ss p).nat ≠ .unrestricted) := by
  have hi := inv_reachable hr
  have h1 := (hi.link.popBy c p h).2.1
  have h2 := (hi.sess p).heapU ((hi.sess p).popped (by rw [h]; rfl)).2
  rw [h2] at h1
  exact compat _ _ h1

/-- Every poll that waits in a heap is in the enumeration the guards quantify over. -/
theorem waiting_mem (hr : Reachable bridge st) (u : Bool) (q : Nat) (h : waiting st u q = true) :
    q ∈ st.polls := by
  have hi := inv_reachable hr
  apply hi.list.mem
  intro ha
  have := ((hi.sess q).absent ha).2.1
  simp [waiting, this] at h

/-- **Refusal only when the eligible pool is empty.** Whenever the broker answers a client with "no
proxies" (`cDeny` fires), no proxy at all is waiting in the pool the client is eligible for. -/
theorem denied_only_if_pool_empty (hr : Reachable bridge st) (c : Nat)
    (hs : step true st (.cDeny c) = some st') :
    ∀ q, waiting st (wantU (st.cs c).nat) q = false := by
  intro q
  simp only [step] at hs
  split at hs
  · rename_i hg
    have hall := hg.2.2
    cases hw : waiting st (wantU (st.cs c).nat) q with
    | false => rfl
    | true =>
      have hm := waiting_mem hr _ q hw
      have := List.all_eq_true.mp hall q hm
      simp [hw] at this
  · cases hs

/-- **Load order.** Whenever a client is matched (`cMatch c p` fires), `p` waits in the client's
eligible pool and no proxy waiting in that pool reported fewer clients. -/
theorem match_is_min_clients (hr : Reachable bridge st) (c p : Nat)
    (hs : step true st (.cMatch c p) = some st') :
    waiting st (wantU (st.cs c).nat) p = true
    ∧ ∀ q, waiting st (wantU (st.cs c).nat) q = true → (st.ss p).clients ≤ (st.ss q).clients := by
  simp only [step] at hs
  split at hs
  · rename_i hg
    refine ⟨hg.2.2.1, ?_⟩
    intro q hw
    have hm := waiting_mem hr _ q hw
    have := List.all_eq_true.mp hg.2.2.2 q hm
    simpa [hw] using this
  · cases hs

/-- A finite non-empty selection has a `clients`-minimal element. -/
theorem exists_min (L : List Nat) (f : Nat → Nat) (P : Nat → Bool) (h : ∃ q ∈ L, P q = true) :
    ∃ p ∈ L, P p = true ∧ ∀ q ∈ L, P q = true → f p ≤ f q := by
  induction L with
  | nil => obtain ⟨q, hq, _⟩ := h; cases hq
  | cons x xs ih =>
    by_cases hx : ∃ q ∈ xs, P q = true
    · obtain ⟨p, hp, hPp, hmin⟩ := ih hx
      by_cases hPx : P x = true
      · by_cases hle : f x ≤ f p
        · refine ⟨x, List.mem_cons_self .., hPx, ?_⟩
          intro q hq hPq
          rcases List.mem_cons.mp hq with e | e
          · subst e; exact Nat.le_refl _
          · exact Nat.le_trans hle (hmin q e hPq)
        · refine ⟨p, List.mem_cons_of_mem _ hp, hPp, ?_⟩
          intro q hq hPq
          rcases List.mem_cons.mp hq with e | e
          · subst e; omega
          · exact hmin q e hPq
      · refine ⟨p, List.mem_cons_of_mem _ hp, hPp, ?_⟩
        intro q hq hPq
        rcases List.mem_cons.mp hq with e | e
        · subst e; exact absurd hPq hPx
        · exact hmin q e hPq
    · obtain ⟨q, hq, hPq⟩ := h
      rcases List.mem_cons.mp hq with e | e
      · subst e
        refine ⟨q, List.mem_cons_self .., hPq, ?_⟩
        intro r hr hPr
        rcases List.mem_cons.mp hr with e | e
        · subst e; exact Nat.le_refl _
        · exact absurd ⟨r, e, hPr⟩ hx
      · exact absurd ⟨q, e, hPq⟩ hx

/-- **Availability.** A validated client at `matchSnowflake` is either matched (with a minimal
waiting proxy of its eligible pool, which exists whenever that pool is non-empty) or denied (which
is possible exactly when the pool is empty): the two outcomes are exhaustive and exclusive. -/
theorem match_or_deny (hr : Reachable bridge st) (c : Nat) (hpc : (st.cs c).pc = .start)
    (hb : (st.bridge (st.cs c).fp).isSome) :
    ((∃ q, waiting st (wantU (st.cs c).nat) q = true) →
        ∃ p, (step true st (.cMatch c p)).isSome ∧ step true st (.cDeny c) = none)
    ∧ ((∀ q, waiting st (wantU (st.cs c).nat) q = false) →
        (step true st (.cDeny c)).isSome ∧ ∀ p, step true st (.cMatch c p) = none) := by
  constructor
  · rintro ⟨q, hq⟩
    have hqm := waiting_mem hr _ q hq
    obtain ⟨p, hp, hPp, hmin⟩ := exists_min st.polls (fun x => (st.ss x).clients)
      (waiting st (wantU (st.cs c).nat)) ⟨q, hqm, hq⟩
    refine ⟨p, ?_, ?_⟩
    · have hall : st.polls.all (fun q => !(waiting st (wantU (st.cs c).nat) q)
          || decide ((st.ss p).clients ≤ (st.ss q).clients)) = true := by
        apply List.all_eq_true.mpr
        intro r hr
        cases hw : waiting st (wantU (st.cs c).nat) r with
        | false => simp
        | true => simpa using hmin r hr hw
      simp [step, hpc, hb, hPp, hall]
    · have : ¬ (st.polls.all (fun q => !(waiting st (wantU (st.cs c).nat) q)) = true) := by
        intro hall
        have := List.all_eq_true.mp hall q hqm
        simp [hq] at this
      simp [step, this]
  · intro hnone
    constructor
    · have hall : st.polls.all (fun q => !(waiting st (wantU (st.cs c).nat) q)) = true := by
        apply List.all_eq_true.mpr; intro r _; simp [hnone r]
      simp [step, hpc, hb, hall]
    · intro p; simp [step, hnone p]

end Snowflake.Broker.C03
