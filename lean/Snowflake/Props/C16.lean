import Snowflake.Proofs.ProxySlots
/-!
# C16 — proxy honours its capacity and never leaks a session slot

Property theorems about the interleaving model `Snowflake.ProxySlots` (`Model/ProxySlots.lean`) of
`proxy/lib/tokens.go` and of `Start` / `runSession` / `datachannelHandler` in `proxy/lib/snowflake.go`.
`Reachable fixed N s`: `s` is reachable under *any* interleaving of the poll loop (one session at a
time, every stage may fail), the `OnDataChannel` callbacks (any time after the peer connection
exists, also while the timeout arm is being taken), and any number of overlapping handler
goroutines, for capacity `N` (`0` = unlimited).

`released_exactly_once` is false on the pinned tree (F11 of DESIGN.md §6); it is proved for the
repaired skeleton (`fixed = true`: one per-session `sync.Once` shared by the release sites that can
run once the peer connection exists) and refuted for the pinned one by kernel-checked schedules.
-/
namespace Snowflake.ProxySlots.C16
open Snowflake.TotalMap

/-! ## Capacity -/

/-- **Never more than `N` sessions hold a slot** (`N ≥ 1`).  `held` lists, without repetition,
exactly the sessions that have taken a slot (`tokens.get()` completed) and not released it. -/
theorem in_use_le_capacity (N : Nat) (hN : 1 ≤ N) (s : St) (h : Reachable true N s) :
    s.held.length ≤ N ∧ s.held.Nodup ∧
    ∀ i, i ∈ s.held ↔ ((s.ss i).lp ≠ .absent ∧ (s.ss i).lp ≠ .acquiring ∧ (s.ss i).rets = 0) := by
  have hi := inv_reachable h
  have hN' : N ≠ 0 := by omega
  refine ⟨?_, hi.nodup, hi.heldIff⟩
  have := hi.cap hN'
  rw [hi.chanN hN'] at this
  exact this

/-- The token channel holds exactly one token per session holding a slot; a `tokens.ret()` never
blocks (so it never takes another session's token). -/
theorem tokens_match_sessions (N : Nat) (s : St) (h : Reachable true N s) :
    (N ≠ 0 → s.chLen = s.held.length) ∧ ∀ i, (s.ss i).lp ≠ .inRet ∧ (s.ss i).h ≠ .inRet :=
  ⟨(inv_reachable h).chanN, fun i => ⟨(inv_reachable h).noInRetL i, (inv_reachable h).noInRetH i⟩⟩

/-! ## Exactly one release -/

/-- **Every session releases its slot exactly once**: never more than one `tokens.ret()` per
session, and a session that is over (`runSession` returned on whichever of its exit paths — failed
poll, bad relay URL, rejected relay URL, failed peer connection, failed answer, timeout, data
channel opened — and no handler activity left or possible) has executed exactly one. -/
theorem released_exactly_once (N : Nat) (s : St) (h : Reachable true N s) (i : Nat) :
    (s.ss i).rets ≤ 1 ∧ ((s.ss i).finished = true → (s.ss i).rets = 1) := by
  have hi := inv_reachable h
  have hle : (s.ss i).rets ≤ 1 := by
    by_cases hc : (s.ss i).cb = .unarmed
    · rw [hi.unarmedRets i hc]; split <;> omega
    · rw [hi.armedRets i hc]; split <;> omega
  refine ⟨hle, ?_⟩
  intro hf
  simp only [Sess.finished, Bool.and_eq_true, Bool.or_eq_true, beq_iff_eq] at hf
  obtain ⟨hlp, hcb⟩ := hf
  by_cases hc : (s.ss i).cb = .unarmed
  · rw [hi.unarmedRets i hc]; simp [hlp]
  · rw [hi.armedRets i hc]
    cases ho : (s.ss i).once with
    | true => simp
    | false =>
      have := hi.retNoOnce i hlp hc ho
      rcases hcb with (hcb | hcb) | hcb
      · exact absurd hcb hc
      · rw [this.1] at hcb; cases hcb
      · rcases this.2 with h2 | h2 <;> rw [h2] at hcb <;> simp at hcb

/-- Which exits release: a session that has returned without a peer connection ever existing has
released; one whose peer connection existed has released iff its `Once` is consumed. -/
theorem release_accounting (N : Nat) (s : St) (h : Reachable true N s) (i : Nat) :
    ((s.ss i).cb = .unarmed → (s.ss i).rets = if (s.ss i).lp = .returned then 1 else 0) ∧
    ((s.ss i).cb ≠ .unarmed → (s.ss i).rets = if (s.ss i).once then 1 else 0) :=
  ⟨(inv_reachable h).unarmedRets i, (inv_reachable h).armedRets i⟩

/-! ## Quiescence -/

/-- **Full capacity after quiescence**: when every session that was ever started is over, no slot is
held, the token channel is empty (all `N` slots free) and the client counter is 0. -/
theorem full_capacity_after_quiescence (N : Nat) (s : St) (h : Reachable true N s)
    (hq : ∀ i, (s.ss i).lp = .absent ∨ (s.ss i).finished = true) :
    s.held = [] ∧ s.chLen = 0 ∧ s.clients = 0 := by
  have hi := inv_reachable h
  have hheld : s.held = [] := by
    apply List.eq_nil_iff_forall_not_mem.2
    intro i hm
    obtain ⟨h1, _, h3⟩ := (hi.heldIff i).1 hm
    rcases hq i with hq | hq
    · exact h1 hq
    · have := (released_exactly_once N s h i).2 hq
      omega
  have hacq : acqOf s = 0 := by
    unfold acqOf
    cases hc : s.cur with
    | none => rfl
    | some i =>
      simp only
      split
      · rename_i hl
        rcases hq i with hq | hq
        · rw [hq] at hl; cases hl
        · simp [Sess.finished, hl] at hq
      · rfl
  refine ⟨hheld, ?_, ?_⟩
  · by_cases hN : N = 0
    · exact hi.chan0 hN
    · rw [hi.chanN hN, hheld]; rfl
  · rw [hi.clients, hheld, hacq]; rfl

/-! ## Reported load -/

/-- The expression `(count / 8) * 8` is a multiple of 8 and, for a non-negative count, at most the
count; on naturals it is the translated Go expression (`Tie/ProxyLib.lean`). -/
theorem load_arith (c : Int) : (8 : Int) ∣ load c ∧ (0 ≤ c → load c ≤ c) ∧ ∀ n : Nat, load (n : Int) = (loadNat n : Int) :=
  ⟨load_dvd c, load_le c, load_nat⟩

/-- The reported load is the count rounded *down* to a multiple of 8: it understates by fewer than 8
(so the broker learns the count's bucket `8k … 8k+7` and nothing finer), … -/
theorem loadNat_within_8 (n : Nat) : loadNat n ≤ n ∧ n < loadNat n + 8 := by
  unfold loadNat; omega

/-- … it is monotone (more clients never report as fewer), … -/
theorem loadNat_mono (a b : Nat) (h : a ≤ b) : loadNat a ≤ loadNat b := by
  unfold loadNat; omega

/-- … and it is zero exactly while fewer than 8 clients are served. -/
theorem loadNat_zero_iff (n : Nat) : loadNat n = 0 ↔ n < 8 := by
  unfold loadNat; omega

/-- The same bound for the Go `int` expression on every non-negative count. -/
theorem load_within_8 (c : Int) (hc : 0 ≤ c) : load c ≤ c ∧ c < load c + 8 := by
  obtain ⟨n, rfl⟩ := Int.eq_ofNat_of_zero_le hc
  rw [(load_arith (n : Int)).2.2 n]
  have := loadNat_within_8 n
  omega

/-- **The load reported in every poll is a multiple of 8 and does not exceed the slots in use.**
`polls` logs every poll sent with the number of sessions holding a slot at that moment. -/
theorem load_multiple_of_8_le_in_use (N : Nat) (s : St) (h : Reachable true N s) :
    ∀ x ∈ s.polls, (8 : Int) ∣ x.1 ∧ x.1 ≤ (x.2 : Int) :=
  (inv_reachable h).polls

/-- The counter is the number of slots held, plus one exactly while the poll loop is blocked inside
`tokens.get()` (when it is not polling); it is never negative. -/
theorem count_is_slots_held (N : Nat) (s : St) (h : Reachable true N s) :
    s.clients = (s.held.length : Int) + (acqOf s : Int) ∧ acqOf s ≤ 1 ∧ 0 ≤ s.clients ∧
    (∀ i, (s.ss i).lp = .stage .poll → s.clients = (s.held.length : Int)) := by
  have hi := inv_reachable h
  have hle : acqOf s ≤ 1 := by
    unfold acqOf; split
    · split <;> omega
    · omega
  refine ⟨hi.clients, hle, ?_, ?_⟩
  · rw [hi.clients]; omega
  · intro i hl
    have hc := hi.curOf i (by simp [hl]) (by simp [hl])
    have : acqOf s = 0 := by simp [acqOf, hc, hl]
    rw [hi.clients, this]; rfl

/-! ## Non-vacuity -/

/-- One run of the repaired skeleton with capacity 2 through five exit paths — rejected relay URL,
failed answer, timeout with the callback firing while the timeout arm is taken (the F11 schedule),
a connected session whose handler ends — ends with every session released once and everything
free. -/
example :
    (run true 2 init
      ((Ev.fail .checkRelay).labels 0 ++ (Ev.fail .sendAnswer).labels 1 ++ Ev.race.labels 2 ++
        Ev.connect.labels 3 ++ Ev.timeout.labels 4 ++ (Ev.handlerEnd 3).labels 0)).map
      (fun s => ((List.range 5).all fun i => (s.ss i).finished && (s.ss i).rets == 1) &&
        s.clients == 0 && s.chLen == 0 && s.held == [] && s.polls.length == 5)
    = some true := by decide +kernel

/-- Capacity is really limiting: with `N = 1` and one connected session the next `get` is blocked
(counter 2, one slot held) until the handler ends. -/
example :
    (run true 1 init (Ev.connect.labels 0 ++ [.lStart 1])).map
      (fun s => s.clients == 2 && s.held == [0] && (step true 1 s (.lAcquire 1)).isNone &&
        ((run true 1 s [.hEnd 0, .hRelease 0, .lAcquire 1]).map fun t => t.clients == 1 && t.held == [1]) == some true)
    = some true := by decide +kernel

/-! ## The pinned skeleton: kernel-checked refutations (F11) -/

/-- The F11 schedule for session `i`: the answer is sent, the 20 s timer arm of the `select` is
taken, the `OnDataChannel` callback runs while `pc.Close()` is under way and starts the handler;
the timeout arm releases the slot; the handler ends (relay unreachable or copy loop over) and its
deferred `tokens.ret()` releases again. -/
def f11 (i : Nat) : List Lab := Ev.race.labels i

/-- **F11** on the pinned skeleton the session executes `tokens.ret()` twice; the counter is −1 and
the second `ret` is blocked on the empty token channel. -/
theorem pinned_double_release :
    (run false 1 init (f11 0)).map
      (fun s => (s.ss 0).rets == 2 && s.clients == -1 && (s.ss 0).h == .inRet && (s.ss 0).finished == false
        && (s.ss 0).lp == .returned)
    = some true := by decide +kernel

/-- … the blocked `ret` then takes the token of the next session, and a further session is admitted
although the only slot is taken: **two sessions hold a slot with capacity 1**. -/
def f11Overrun : List Lab := f11 0 ++ Ev.connect.labels 1 ++ [.hRetRecv 0] ++ Ev.connect.labels 2

theorem pinned_capacity_overrun :
    (run false 1 init f11Overrun).map
      (fun s => s.held == [2, 1] && s.chLen == 1 && (s.ss 1).h == .running && (s.ss 2).h == .running && s.clients == 1)
    = some true := by decide +kernel

/-- … or, when the handler's release comes first, the timeout arm's `ret` blocks the poll loop for
good: no label at all is enabled for the loop or for session 0 (capacity 1, nothing else running). -/
theorem pinned_poll_loop_blocked :
    (run false 1 init ([.lStart 0, .lAcquire 0, .lPoll 0] ++ List.replicate 5 (.lOk 0) ++
        [.cbFire 0, .lTimeout 0, .hEnd 0, .hRelease 0, .lRelease 0])).map
      (fun s => (s.ss 0).lp == .inRet && s.cur == some 0 && s.chLen == 0 && (s.ss 0).rets == 2 &&
        ([Lab.lStart 1, .lAcquire 0, .lPoll 0, .lOk 0, .lFail 0, .lData 0, .lTimeout 0, .lRelease 0, .lRetRecv 0,
          .cbFire 0, .cbDead 0, .hEnd 0, .hRelease 0, .hRetRecv 0].all fun l => (step false 1 s l).isNone))
    = some true := by decide +kernel

/-- Hence `released_exactly_once` and `in_use_le_capacity` are false for the pinned skeleton. -/
theorem pinned_released_exactly_once_fails :
    ¬ ∀ s, Reachable false 1 s → ∀ i, (s.ss i).rets ≤ 1 := by
  intro hall
  have hw := pinned_double_release
  cases hrun : run false 1 init (f11 0) with
  | none => simp [hrun] at hw
  | some s =>
    simp only [hrun, Option.map_some, Option.some.injEq, Bool.and_eq_true, beq_iff_eq] at hw
    have := hall s (Reach.runL Reach.init _ hrun) 0
    omega

theorem pinned_in_use_le_capacity_fails :
    ¬ ∀ s, Reachable false 1 s → s.held.length ≤ 1 := by
  intro hall
  have hw := pinned_capacity_overrun
  cases hrun : run false 1 init f11Overrun with
  | none => simp [hrun] at hw
  | some s =>
    simp only [hrun, Option.map_some, Option.some.injEq, Bool.and_eq_true, beq_iff_eq] at hw
    have := hall s (Reach.runL Reach.init _ hrun)
    rw [hw.1.1.1.1] at this
    simp at this

/-- The same schedule on the repaired skeleton: one release, session over, everything free. -/
theorem fixed_race_single_release :
    (run true 1 init (f11 0)).map
      (fun s => (s.ss 0).rets == 1 && s.clients == 0 && (s.ss 0).h == .done && (s.ss 0).finished && s.chLen == 0)
    = some true := by decide +kernel

end Snowflake.ProxySlots.C16
