import Snowflake.Proofs.Heap
import Snowflake.Proofs.ClientMap
import Snowflake.Proofs.QueueConn
import Snowflake.Proofs.Redial
/-!
# C17 — turbotunnel packet adapters: no surfaced errors, leaks or aliasing

Property theorems about the three models of `common/turbotunnel`:

* (b) `Snowflake.Model.ClientMap` — `clientMapInner` over Go's `container/heap` (`Base/Heap.lean`);
* (c) `Snowflake.Model.QueueConn` — `QueuePacketConn`;
* (d) `Snowflake.Model.Redial` — interleaving LTS of `RedialPacketConn`, parameterised by the
  capacities of the two error channels of `exchange`.

(a) The heap theory itself (`Proofs/Heap.lean`) is re-exported at the top for the audit.
Helper lemmas live in `Proofs/*.lean`; the ties to the source in `Tie/Turbotunnel.lean`.
-/
namespace Snowflake.C17
open Snowflake

/-! ## (a) `container/heap` -/
section HeapTheory
open Snowflake.Heap
variable {α : Type} (key : α → Int)

/-- `Push` keeps the heap order and adds exactly the pushed element. -/
theorem heap_push (a : Array α) (x : α) (h : IsHeap key a) :
    IsHeap key (push (arrI key) a x) ∧ (push (arrI key) a x).Perm (a.push x) :=
  ⟨(push_spec key a x h).1, push_perm key a x⟩

/-- `Pop` returns the root, which is `less`-minimal, keeps the heap order and removes exactly that
element. -/
theorem heap_pop (a : Array α) (h : IsHeap key a) (hne : 0 < a.size) :
    (pop (arrI key) a).2 = some a[0]
    ∧ (∀ x ∈ a, key a[0] ≤ key x)
    ∧ IsHeap key (pop (arrI key) a).1
    ∧ a.Perm ((pop (arrI key) a).1.push a[0]) := by
  obtain ⟨p1, p2, _, p4⟩ := pop_spec key a h hne
  refine ⟨by rw [p1]; simp [hne], ?_, p2, p4⟩
  intro x hx
  obtain ⟨k, hk, rfl⟩ := Array.mem_iff_getElem.mp hx
  have := root_min key a a.size h k hk
  rwa [keyAt_lt key a 0 hne, keyAt_lt key a k hk] at this

/-- `Remove(i)` returns the element at `i`, keeps the heap order and removes exactly that element. -/
theorem heap_remove (a : Array α) (i : Nat) (h : IsHeap key a) (hi : i < a.size) :
    (remove (arrI key) a i).2 = some a[i]
    ∧ IsHeap key (remove (arrI key) a i).1
    ∧ a.Perm ((remove (arrI key) a i).1.push a[i]) := by
  obtain ⟨p1, p2, _, p4⟩ := remove_spec key a i h hi
  exact ⟨by rw [p1]; simp [hi], p2, p4⟩

/-- `Fix(i)` after overwriting the element at `i` of a heap restores the heap order and keeps the
elements. -/
theorem heap_fix (b : Array α) (i : Nat) (x : α) (hi : i < b.size) (h : IsHeap key b) :
    IsHeap key (fix (arrI key) (b.set i x hi) i) ∧ (fix (arrI key) (b.set i x hi) i).Perm (b.set i x hi) := by
  have r := fix_spec key (b.set i x hi) i (by simpa using hi) (fix_pre_of_set key b i x hi h)
  exact ⟨r.1, r.2.2⟩

/-- `Init` establishes the heap order on any array and keeps the elements. -/
theorem heap_init (a : Array α) : IsHeap key (init (arrI key) a) ∧ (init (arrI key) a).Perm a :=
  ⟨(init_spec key a).1, (init_spec key a).2.2⟩

/-- **Index bookkeeping**, generically: for any implementation of `heap.Interface` whose `Swap`
hook refines the array swap and preserves an implementation invariant `Inv` (such as "every
element's stored index equals its position"), `Fix` — and likewise `up`, `down`, the bodies of `Push`,
`Pop`, `Remove`: `push_refines`, `popPrep_refines`, `removePrep_refines` — computes the same array as
the plain heap and preserves `Inv`. -/
theorem heap_bookkeeping {σ : Type} {I : Iface σ α} {abs : σ → Array α} {Inv : σ → Prop}
    (R : Refines key I abs Inv) (s : σ) (i : Nat) (hi : Inv s) (hlt : i < (abs s).size) :
    abs (fix I s i) = fix (arrI key) (abs s) i ∧ Inv (fix I s i) :=
  fix_refines key R s i hi hlt

/-- **Index bookkeeping for elements with an `index` field** (`broker.SnowflakeHeap` style hooks:
`Swap` stores both new positions, `Push` stores `len`, `Pop` stores −1): if every element's stored
index equals its position, the same holds after `Push`, `Fix`, `Pop`, `Remove`, and the element
returned by `Pop`/`Remove` has index −1 (`none`).  (`idx_push`, `idx_fix`, `idx_pop`, `idx_remove` in
`Proofs/Heap.lean` also state that, forgetting the indices, the array is the plain heap's result, so
order, multiset and minimality transfer.) -/
theorem heap_index_bookkeeping (X : Indexed α) (L : X.Lawful key) (a : Array α) (h : IdxOk X a) :
    (∀ x, IdxOk X (push (idxI key X) a x))
    ∧ (∀ i, i < a.size → IdxOk X (fix (idxI key X) a i))
    ∧ (0 < a.size → IdxOk X (pop (idxI key X) a).1
        ∧ ∀ y, (pop (idxI key X) a).2 = some y → X.getIdx y = none)
    ∧ (∀ i, i < a.size → IdxOk X (remove (idxI key X) a i).1
        ∧ ∀ y, (remove (idxI key X) a i).2 = some y → X.getIdx y = none) :=
  ⟨fun x => (idx_push key X L a x h).1,
   fun i hi => (idx_fix key X L a i h hi).1,
   fun hne => ⟨(idx_pop key X L a h hne).1, (idx_pop key X L a h hne).2.1⟩,
   fun i hi => ⟨(idx_remove key X L a i h hi).1, (idx_remove key X L a i h hi).2.1⟩⟩

end HeapTheory

/-! ## (b) the client map -/
section ClientMapProps
open Snowflake.ClientMap Snowflake.Heap

/-- **byAddr and byAge hold the same records** after any sequence of `SendQueue` / `removeExpired` /
queue operations with any clock values: every record's address is mapped to its position, every map
entry points at the record with that address, the two lengths agree (so `Len()` cannot panic), the
age order is a heap, and `Push` never saw a duplicate address. -/
theorem byAddr_byAge_consistent (ops : List Op) :
    (∀ i r, (run ops).byAge[i]? = some r → (run ops).byAddr.get r.addr = some i)
    ∧ (∀ a i, (run ops).byAddr.get a = some i → ∃ r, (run ops).byAge[i]? = some r ∧ r.addr = a)
    ∧ (run ops).byAddr.size = (run ops).byAge.size
    ∧ IsHeap Rec.lastSeen (run ops).byAge
    ∧ (run ops).panicked = false := by
  have g := run_good ops
  exact ⟨g.cons.fwd, g.cons.bwd, g.cons.size, g.heap, g.nopanic⟩

/-- **Kept while seen.** A record (address, last-seen time *and queue contents*) whose idle time
`now − lastSeen` is below the timeout survives `removeExpired now timeout` unchanged, and its queue
is not closed by that sweep. -/
theorem kept_while_seen (ops : List Op) (now timeout : Int) (r : Rec)
    (hr : r ∈ (run ops).byAge) (hseen : now - r.lastSeen < timeout) :
    r ∈ (removeExpired (run ops) now timeout).byAge
    ∧ ∃ removed, (removeExpired (run ops) now timeout).closed = (run ops).closed ++ removed ∧ r ∉ removed := by
  obtain ⟨_, removed, hc, _, hrem, hkeep⟩ := removeExpired_spec (run ops) now timeout (run_good ops)
  have hne : ¬ Expired now timeout r := by unfold Expired; omega
  exact ⟨(hkeep r).2 ⟨hr, hne⟩, removed, hc, fun h => hne ((hrem r).1 h).2⟩

/-- `SendQueue(a, t)` keeps every record with its queue contents; only the `LastSeen` of `a`'s own
record changes (to `t`). -/
theorem sendQueue_keeps_records (ops : List Op) (a : Nat) (t : Int) (r : Rec) (hr : r ∈ (run ops).byAge) :
    (if r.addr = a then { r with lastSeen := t } else r) ∈ (sendQueue (run ops) a t).byAge :=
  sendQueue_keeps (run ops) a t (run_good ops) r hr

/-- **Removed exactly when idle.** `removeExpired now timeout` removes precisely the records with
`now − lastSeen ≥ timeout` and closes precisely their queues (appended to the log of closed queues);
everything else stays, as the same multiset of records. -/
theorem removed_exactly_when_idle (ops : List Op) (now timeout : Int) :
    ∃ removed : List Rec,
      (removeExpired (run ops) now timeout).closed = (run ops).closed ++ removed
      ∧ (run ops).byAge.toList.Perm ((removeExpired (run ops) now timeout).byAge.toList ++ removed)
      ∧ (∀ r, r ∈ removed ↔ r ∈ (run ops).byAge ∧ now - r.lastSeen ≥ timeout)
      ∧ (∀ r, r ∈ (removeExpired (run ops) now timeout).byAge ↔ r ∈ (run ops).byAge ∧ now - r.lastSeen < timeout) := by
  obtain ⟨_, removed, hc, hp, hrem, hkeep⟩ := removeExpired_spec (run ops) now timeout (run_good ops)
  refine ⟨removed, hc, hp, hrem, ?_⟩
  intro r
  rw [hkeep r]
  unfold Expired
  constructor <;> rintro ⟨h1, h2⟩ <;> exact ⟨h1, by omega⟩

/-- **Sweep arithmetic.** With sweeps at `s0, s0 + h, s0 + 2h, …` (`h > 0`) and a record last seen at
`L ≥ s0`, some sweep falls into `[L + timeout, L + timeout + h)`. -/
theorem sweep_within (s0 h L timeout : Int) (hh : 0 < h) (hL : s0 ≤ L) (ht : 0 ≤ timeout) :
    ∃ k : Nat, L + timeout ≤ s0 + k * h ∧ s0 + k * h < L + timeout + h := by
  let d := L + timeout - s0
  have hd : 0 ≤ d := by omega
  refine ⟨((d + h - 1) / h).toNat, ?_, ?_⟩
  all_goals
    have hq : 0 ≤ (d + h - 1) / h := Int.ediv_nonneg (by omega) (by omega)
    rw [Int.toNat_of_nonneg hq]
    have h1 := Int.mul_ediv_add_emod (d + h - 1) h
    have h2 := Int.emod_nonneg (d + h - 1) (by omega : h ≠ 0)
    have h3 := Int.emod_lt_of_pos (d + h - 1) hh
    have e : (d + h - 1) / h * h = h * ((d + h - 1) / h) := Int.mul_comm _ _
    rw [e]
    omega

/-- **Idle records are removed within 1.5 × timeout** (nominal: sweeps every `timeout/2`,
`NewClientMap`'s loop): if a record was last seen at `L` and is not refreshed, the first sweep at or
after `L + timeout` happens before `L + timeout + timeout/2`, and that sweep removes the record and
closes its queue (`removed_exactly_when_idle`); no earlier sweep does (`kept_while_seen`). -/
theorem idle_removed_within_one_and_a_half (ops : List Op) (s0 timeout : Int) (r : Rec)
    (ht : 2 ≤ timeout) (hr : r ∈ (run ops).byAge) (hL : s0 ≤ r.lastSeen) :
    ∃ k : Nat,
      let now := s0 + k * (timeout / 2)
      r.lastSeen + timeout ≤ now ∧ 2 * (now - r.lastSeen) < 3 * timeout
      ∧ r ∉ (removeExpired (run ops) now timeout).byAge
      ∧ ∃ removed, (removeExpired (run ops) now timeout).closed = (run ops).closed ++ removed ∧ r ∈ removed := by
  have hh : 0 < timeout / 2 := by omega
  obtain ⟨k, h1, h2⟩ := sweep_within s0 (timeout / 2) r.lastSeen timeout hh hL (by omega)
  refine ⟨k, h1, by omega, ?_, ?_⟩
  · obtain ⟨_, _, _, _, hkeep⟩ := removed_exactly_when_idle ops (s0 + k * (timeout / 2)) timeout
    intro hin
    have := ((hkeep r).1 hin).2
    omega
  · obtain ⟨removed, hc, _, hrem, _⟩ := removed_exactly_when_idle ops (s0 + k * (timeout / 2)) timeout
    exact ⟨removed, hc, (hrem r).2 ⟨hr, by omega⟩⟩

end ClientMapProps


/-! ## (c) the queue connection -/
section QueueConnProps
open Snowflake.ClientMap Snowflake.QueueConn

/-- **FIFO, incoming.** Over any operation sequence from the initial state, the packets handed out by
`ReadFrom` followed by the packets still queued are exactly the packets `QueueIncoming` accepted, in
call order: nothing is reordered, duplicated, altered or lost once accepted. -/
theorem fifo_incoming_all (ops : List QueueConn.Op) :
    deliveredIn QueueConn.init ops ++ (QueueConn.run QueueConn.init ops).1.recvQ
      = acceptedIn QueueConn.init ops := by
  have := fifo_incoming ops QueueConn.init
  simpa [QueueConn.init] using this

/-- **FIFO per address.** For every client address, in both directions: deliveries from that address
are a prefix of what was accepted from it (incoming), and the packets taken from `OutgoingQueue(a)`
followed by those still queued for `a` are exactly the packets `WriteTo(·, a)` enqueued (outgoing).
(The outgoing statement is between sweeps: `removeExpired` is the subject of part (b).) -/
theorem fifo_per_address (ops : List QueueConn.Op) (a : Nat) :
    ((deliveredIn QueueConn.init ops).filter (fun x => x.2 == a)
        ++ ((QueueConn.run QueueConn.init ops).1.recvQ).filter (fun x => x.2 == a)
      = (acceptedIn QueueConn.init ops).filter (fun x => x.2 == a))
    ∧ (takenOut a QueueConn.init ops ++ queueOf (QueueConn.run QueueConn.init ops).1.clients a
      = acceptedOut a QueueConn.init ops) := by
  constructor
  · rw [← List.filter_append, fifo_incoming_all]
  · have := fifo_outgoing a ops QueueConn.init good_empty
    simpa [QueueConn.init, queueOf, recOf, ClientMap.empty, IdxMap.empty] using this

/-- **Copy on enqueue.** The packet `ReadFrom` hands out is the value the caller's buffer had when
`QueueIncoming` was called (the model stores values, so no later operation — in particular no later
reuse of the buffer for another packet — can change it): the delivered sequence is a prefix of the
sequence of accepted call-time values.  Same for `WriteTo`/`OutgoingQueue` per address. -/
theorem copy_on_enqueue (ops : List QueueConn.Op) (a : Nat) :
    deliveredIn QueueConn.init ops <+: acceptedIn QueueConn.init ops
    ∧ takenOut a QueueConn.init ops <+: acceptedOut a QueueConn.init ops :=
  ⟨⟨_, fifo_incoming_all ops⟩, ⟨_, (fifo_per_address ops a).2⟩⟩

/-- The receive queue never exceeds `queueSize`. -/
theorem recvQ_bounded (ops : List QueueConn.Op) : ∀ s : QueueConn.St, s.recvQ.length ≤ queueSize →
    (QueueConn.run s ops).1.recvQ.length ≤ queueSize := by
  induction ops with
  | nil => intro s h; exact h
  | cons op ops ih =>
    intro s h
    rw [run_cons]
    apply ih
    cases op with
    | incoming p a =>
      simp only [QueueConn.step, queueIncoming]
      split
      · exact h
      · split
        · simp; omega
        · exact h
    | write p a t => simp only [QueueConn.step, writeTo]; split <;> exact h
    | read n =>
      simp only [QueueConn.step, readFrom]
      split
      · exact h
      · split
        · rename_i heq; rw [heq] at h; simp at h ⊢; omega
        · exact h
    | out a t => exact h
    | close e => simp only [QueueConn.step, closeWithError]; split <;> exact h

/-- **Never blocks; full ⇒ drop.** `QueueIncoming` and `WriteTo` are total (they have no blocked
outcome) and leave a full queue unchanged; `ReadFrom` is the only operation that can wait, and it
does so exactly when the connection is open and nothing is queued. -/
theorem never_blocks (s : QueueConn.St) (p : Bytes) (a : Nat) (t : Int) (n : Nat) :
    (s.recvQ.length = queueSize → queueIncoming s p a = s)
    ∧ ((queueOf (sendQueue s.clients a t) a).length = queueSize → Good s.clients → s.closed = false →
        queueOf (writeTo s p a t).1.clients a = queueOf s.clients a ∧ (writeTo s p a t).2 = .ok p.length)
    ∧ ((readFrom s n).2 = .wouldBlock ↔ s.closed = false ∧ s.recvQ = []) := by
  refine ⟨?_, ?_, ?_⟩
  · intro h
    unfold queueIncoming
    split
    · rfl
    · simp [h]
  · intro h g hc
    have g' := (sendQueue_good s.clients a t g).1
    have hoff : (offer (sendQueue s.clients a t) a p).2 = false := by
      unfold queueOf at h
      unfold offer
      cases hg : (sendQueue s.clients a t).byAddr.get a with
      | none => rfl
      | some i =>
        cases hr : (sendQueue s.clients a t).byAge[i]? with
        | none => simp [hr]
        | some r =>
          have : recOf (sendQueue s.clients a t) a = some r := by simp [recOf, hg, hr]
          rw [this] at h
          simp only [Option.map_some, Option.getD_some] at h
          simp [hr, h]
    unfold writeTo
    simp only [hc, Bool.false_eq_true, if_false]
    refine ⟨?_, by first | rfl | trivial⟩
    rw [queueOf_offer _ a p g' a, hoff, queueOf_sendQueue _ a t g a]
    simp
  · unfold readFrom
    by_cases hc : s.closed = true
    · simp [hc]
    · cases hq : s.recvQ with
      | nil => simp [hc]
      | cons x rest => simp [hc]

/-- **Operations fail after Close**: `ReadFrom` and `WriteTo` return the stored error and change
nothing, `QueueIncoming` drops silently; and `closed` is permanent. -/
theorem ops_fail_after_close (s : QueueConn.St) (hc : s.closed = true) (p : Bytes) (a : Nat) (t : Int) (n : Nat) :
    readFrom s n = (s, .err s.theErr)
    ∧ writeTo s p a t = (s, .err s.theErr)
    ∧ queueIncoming s p a = s
    ∧ ∀ ops, (QueueConn.run s ops).1.closed = true ∧ (QueueConn.run s ops).1.err = s.err := by
  refine ⟨by simp [readFrom, hc], by simp [writeTo, hc], by simp [queueIncoming, hc], ?_⟩
  intro ops
  induction ops generalizing s with
  | nil => exact ⟨hc, rfl⟩
  | cons op ops ih =>
    rw [run_cons]
    have h1 : (QueueConn.step s op).1.closed = true ∧ (QueueConn.step s op).1.err = s.err := by
      cases op <;> simp [QueueConn.step, queueIncoming, writeTo, readFrom, takeOutgoing, closeWithError, hc]
    have := ih (QueueConn.step s op).1 h1.1
    exact ⟨this.1, this.2.trans h1.2⟩

/-- **Close once.** The first `Close`/`closeWithError` returns nil and stores the error
(`errClosedPacketConn` if nil was given); every later one returns an error wrapping the *first*
stored error and changes nothing — in particular it cannot replace the stored error. -/
theorem close_once (s : QueueConn.St) (e e' : Option Err) (hc : s.closed = false) :
    (closeWithError s e).2 = none
    ∧ (closeWithError s e).1.closed = true
    ∧ (closeWithError s e).1.theErr = e.getD .closedConn
    ∧ closeWithError (closeWithError s e).1 e' = ((closeWithError s e).1, some (e.getD .closedConn)) := by
  simp [closeWithError, hc, QueueConn.St.theErr]

end QueueConnProps

/-! ## (d) the redialing connection -/
section RedialProps
open Snowflake.Redial

/-- **Errors only after Close or a failed dial.** In every reachable state (any capacities, any
order of carrier read/write failures, any number of redials): if a `ReadFrom`/`WriteTo` of the
RedialPacketConn has returned an error then the connection is closed, and it is closed only because
the user called `Close` or a dial failed.  Carrier faults never surface. -/
theorem error_only_after_close_or_dialfail (capR capW : Nat) (s : Redial.St) (h : Reachable capR capW s) :
    (s.errSurfaced = true → s.closed = true) ∧ (s.closed = true → s.userClosed = true ∨ s.dialFailed = true) :=
  ⟨(inv_reachable capR capW s h).1.errClosed, (inv_reachable capR capW s h).1.closedWhy⟩

/-- **At most one active carrier**: two dialed carriers that have not been closed are the same one
(and it is the last one dialed, on which `exchange`/`conn.Close()` is currently running). -/
theorem at_most_one_active_carrier (capR capW : Nat) (s : Redial.St) (h : Reachable capR capW s) (j k : Nat)
    (hj : j < s.n) (hjo : s.cclosed j = false) (hk : k < s.n) (hko : s.cclosed k = false) :
    j = k ∧ j + 1 = s.n := by
  have i1 := (inv_reachable capR capW s h).1
  have a := i1.currentIsLast j (i1.openIsCurrent j hj hjo)
  have b := i1.currentIsLast k (i1.openIsCurrent k hk hko)
  omega

/-- **Every carrier is closed.** Whenever `dialLoop` is not inside `exchange(conn); conn.Close()` —
in particular when it dials again and when it has returned — every carrier it ever obtained has been
closed; and when it is inside, all earlier carriers have been. -/
theorem every_carrier_closed (capR capW : Nat) (s : Redial.St) (h : Reachable capR capW s) :
    ((s.main = .top ∨ s.main = .dialing ∨ s.main = .done) → ∀ k, k < s.n → s.cclosed k = true)
    ∧ (∀ k, k + 1 < s.n → s.cclosed k = true) := by
  have i1 := (inv_reachable capR capW s h).1
  constructor
  · intro hm k hk
    cases hc : s.cclosed k with
    | true => rfl
    | false =>
      rcases i1.openIsCurrent k hk hc with h' | h' <;> rcases hm with h2 | h2 | h2 <;> rw [h'] at h2 <;> cases h2
  · intro k hk
    cases hc : s.cclosed k with
    | true => rfl
    | false =>
      have := i1.currentIsLast k (i1.openIsCurrent k (by omega) hc)
      omega

/-- **No retained goroutine** (both error channels buffered, capacity ≥ 1 — the repaired code).
In every reachable state, for every closed carrier `k` (any order of read/write failure, any redial
count, with or without `Close`):
1. *never blocked*: if one of its two goroutines has not returned, one of them has an enabled step
   of its own (the reader always; the writer at the latest once the reader has returned) — in
   particular neither is blocked in a channel send with no receiver;
2. *bounded*: no step of anybody increases `rank s k ≤ 8`, every step of these two goroutines
   decreases it, and carrier `k` stays closed; hence under weak fairness both return after at most 8
   of their own steps;
3. *can finish*: a schedule of at most `rank s k` steps of these two goroutines alone leads to a
   state where both have returned. -/
theorem no_retained_goroutine (capR capW : Nat) (hR : 1 ≤ capR) (hW : 1 ≤ capW) (s : Redial.St)
    (h : Reachable capR capW s) (k : Nat) (hc : s.cclosed k = true) :
    (0 < rank s k → ∃ l ∈ groupLabels k, (Redial.step capR capW s l).isSome = true)
    ∧ (∀ l s', Redial.step capR capW s l = some s' →
        rank s' k ≤ rank s k ∧ (l ∈ groupLabels k → rank s' k < rank s k) ∧ s'.cclosed k = true)
    ∧ (∃ ls s', (∀ l ∈ ls, l ∈ groupLabels k) ∧ ls.length ≤ rank s k
        ∧ Redial.run capR capW s ls = some s' ∧ finished s' k) := by
  obtain ⟨i1, i2⟩ := inv_reachable capR capW s h
  have hk := i1.closedDialed k hc
  refine ⟨fun hr => group_progress capR capW hR hW s i2 k hk hr, ?_, ?_⟩
  · intro l s' hs
    obtain ⟨a, b, c, _⟩ := rank_step capR capW s s' l k hs hc hk
    exact ⟨a, b, c⟩
  · exact can_finish capR capW hR hW k (rank s k) s i2 hk hc (Nat.le_refl _)

/-- Rank 0 of a dialed carrier means both goroutines have returned. -/
theorem rank_zero_finished (capR capW : Nat) (s : Redial.St) (h : Reachable capR capW s) (k : Nat)
    (hk : k < s.n) (h0 : rank s k = 0) : finished s k := by
  have hp := (inv_reachable capR capW s h).2.present k hk
  unfold rank at h0
  unfold finished
  cases h1 : s.rd k <;> cases h2 : s.wr k <;> simp_all [rrank, wrank]

/-! ### Negative witnesses: the pinned tree (unbuffered error channels, candidate defect F12) -/

/-- F12, write side fails first: the writer's error is taken by `exchange`, the carrier is closed,
the reader's `ReadFrom` fails, and the reader blocks in `readErrCh <- err`. -/
def schedWriteFirst : List Label :=
  [.mTopDefault, .dialOk, .apiWrite, .rDefault 0, .wSelPkt 0, .writeFail 0, .wSendToMain 0, .wExit 0,
   .mClose 0, .readFail 0]

/-- **`no_retained_goroutine` is false for an unbuffered `readErrCh`** (pinned tree): the schedule
`schedWriteFirst` is executable, reaches a state where carrier 0 is closed and its reader sits in its
send, no step of carrier 0's goroutines is enabled, and in *every* continuation the reader is still
there — one goroutine retained per such redial. -/
theorem pinned_reader_leak_write_first (capW : Nat) :
    ∃ s, Redial.run 0 capW Redial.init schedWriteFirst = some s ∧ Reachable 0 capW s
      ∧ s.cclosed 0 = true ∧ LeakedReader s 0
      ∧ (∀ l ∈ groupLabels 0, Redial.step 0 capW s l = none)
      ∧ ∀ ls s', Redial.run 0 capW s ls = some s' → s'.rd 0 = .sending := by
  have hrun : holdsAfter 0 capW schedWriteFirst
      (fun s => s.cclosed 0 && decide (LeakedReader s 0)
        && (groupLabels 0).all (fun l => (Redial.step 0 capW s l).isNone)) = true := by
    simp only [holdsAfter, schedWriteFirst, Redial.run, Redial.step, Redial.init, Chan.ready, queueSize]
    simp [LeakedReader, groupLabels, upd]
  obtain ⟨s, h1, h2, h3⟩ := holdsAfter_spec 0 capW _ _ hrun
  simp only [Bool.and_eq_true, decide_eq_true_eq, List.all_eq_true, Option.isNone_iff_eq_none] at h3
  exact ⟨s, h1, h2, h3.1.1, h3.1.2, h3.2, fun ls s' hr => (leakedReader_forever capW ls s s' 0 h3.1.2 hr).1⟩

/-- F12 at `Close()` of a live carrier: the writer sees `closed`, `exchange` returns, the carrier is
closed, the reader's `ReadFrom` fails and it blocks in its send. -/
def schedCloseLive : List Label :=
  [.mTopDefault, .dialOk, .rDefault 0, .userClose, .wSelClosed 0, .wExit 0, .mRecvW 0, .mClose 0,
   .mTopClosed, .readFail 0]

theorem pinned_reader_leak_at_close :
    ∃ s, Redial.run 0 0 Redial.init schedCloseLive = some s ∧ Reachable 0 0 s
      ∧ s.main = .done ∧ LeakedReader s 0 := by
  have hrun : holdsAfter 0 0 schedCloseLive (fun s => decide (s.main = .done) && decide (LeakedReader s 0)) = true := by
    decide +kernel
  obtain ⟨s, h1, h2, h3⟩ := holdsAfter_spec 0 0 _ _ hrun
  simp only [Bool.and_eq_true, decide_eq_true_eq] at h3
  exact ⟨s, h1, h2, h3.1, h3.2⟩

/-- The mirror image for an unbuffered `writeErrCh`: the read side fails first while the writer is
inside `WriteTo`; `exchange` takes the reader's error and closes the carrier; the write then fails and
the writer blocks in `writeErrCh <- err` forever. -/
def schedReadFirstThenWrite : List Label :=
  [.mTopDefault, .dialOk, .apiWrite, .rDefault 0, .wSelPkt 0, .readFail 0, .rSendToMain 0, .rExit 0,
   .mClose 0, .writeFail 0]

theorem pinned_writer_leak_read_first (capR : Nat) :
    ∃ s, Redial.run capR 0 Redial.init schedReadFirstThenWrite = some s ∧ Reachable capR 0 s
      ∧ LeakedWriter s 0 ∧ ∀ ls s', Redial.run capR 0 s ls = some s' → s'.wr 0 = .sending := by
  have hrun : holdsAfter capR 0 schedReadFirstThenWrite (fun s => decide (LeakedWriter s 0)) = true := by
    simp only [holdsAfter, schedReadFirstThenWrite, Redial.run, Redial.step, Redial.init, Chan.ready, queueSize]
    simp [LeakedWriter, upd]
  obtain ⟨s, h1, h2, h3⟩ := holdsAfter_spec capR 0 _ _ hrun
  simp only [decide_eq_true_eq] at h3
  exact ⟨s, h1, h2, h3, fun ls s' hr => (leakedWriter_forever capR ls s s' 0 h3 hr).1⟩

/-- One retained goroutine *per redial*: two write-first carriers in a row leave two readers blocked. -/
theorem pinned_leak_per_redial :
    holdsAfter 0 0 (schedWriteFirst ++ [.mTopDefault, .dialOk, .apiWrite, .rDefault 1, .wSelPkt 1, .writeFail 1,
        .wSendToMain 1, .wExit 1, .mClose 1, .readFail 1])
      (fun s => decide (LeakedReader s 0) && decide (LeakedReader s 1)) = true := by
  decide +kernel

/-! ### Non-vacuity -/

/-- With capacity 1 the same write-first schedule continues: the reader's send is buffered, it
closes its channel and returns; both goroutines of carrier 0 have finished. -/
example : holdsAfter 1 1 (schedWriteFirst ++ [.rSend 0, .rExit 0])
    (fun s => decide (finished s 0) && s.cclosed 0 && decide (rank s 0 = 0)) = true := by decide +kernel

/-- The hypothesis `s.cclosed k` of `no_retained_goroutine` is reachable with work left to do. -/
example : holdsAfter 1 1 schedWriteFirst (fun s => s.cclosed 0 && decide (rank s 0 = 2)) = true := by
  decide +kernel

/-- A dial failure closes the connection and surfaces as an error; a carrier failure does not. -/
example : holdsAfter 1 1 [.mTopDefault, .dialFail, .apiWrite]
    (fun s => s.errSurfaced && s.dialFailed && !s.userClosed) = true := by decide +kernel
example : holdsAfter 1 1 (schedWriteFirst ++ [.apiWrite, .mTopDefault, .dialOk])
    (fun s => !s.errSurfaced && !s.closed && decide (s.n = 2) && s.cclosed 0 && !s.cclosed 1) = true := by
  decide +kernel

end RedialProps

/-! ## Non-vacuity of (a) -/
section HeapExamples
open Snowflake.Heap

/-- records (key, stored index) -/
def exIdx : Indexed (Int × Option Nat) := ⟨fun x => x.2, fun x v => (x.1, v)⟩

/-- Go's algorithms on a concrete heap with an index field: pushes, a remove in the middle and a pop
give the layouts Go gives, with every stored index equal to the position and −1 on the removed ones. -/
example :
    let I := idxI (fun x : Int × Option Nat => x.1) exIdx
    let h := [5, 3, 8, 1, 9, 2].foldl (fun a k => push I a ((k : Int), none)) #[]
    h.toList = [(1, some 0), (3, some 1), (2, some 2), (5, some 3), (9, some 4), (8, some 5)]
    ∧ (remove I h 1).2 = some (3, none)
    ∧ (remove I h 1).1.toList = [(1, some 0), (5, some 1), (2, some 2), (8, some 3), (9, some 4)]
    ∧ (pop I h).2 = some (1, none)
    ∧ (pop I h).1.toList = [(2, some 0), (3, some 1), (8, some 2), (5, some 3), (9, some 4)] := by
  decide +kernel

/-- `Init` on an arbitrary array. -/
example : (init (arrI (fun x : Int => x)) #[9, 4, 7, 1, 3, 8, 2]).toList = [1, 3, 2, 4, 9, 8, 7] := by
  decide +kernel

end HeapExamples

/-! ## Non-vacuity of (b) and (c) -/
section Examples
open Snowflake.ClientMap

/-- Three clients, refreshed out of order; a sweep at 25 with timeout 10 removes exactly the two idle
ones (in age order) and keeps the refreshed one with its queued packet. -/
example :
    let s := ClientMap.run [.send 1 0, .send 2 5, .send 3 7, .write 1 20 [0xAA], .sweep 25 10]
    (s.byAge.toList.map (fun r => (r.addr, r.lastSeen, r.queue)) = [(1, 20, [[0xAA]])])
    ∧ s.closed.map (·.addr) = [2, 3] ∧ s.byAddr.get 1 = some 0 ∧ s.byAddr.get 2 = none ∧ s.byAddr.size = 1 := by
  decide +kernel

/-- The heap really reorders: refreshing the root moves it below its children. -/
example :
    (ClientMap.run [.send 1 0, .send 2 1, .send 3 2, .send 1 9]).byAge.toList.map (·.addr) = [2, 1, 3] := by
  decide +kernel

open Snowflake.QueueConn in
/-- Queue connection: FIFO per address, truncating read, close-once. -/
example :
    (QueueConn.run QueueConn.init
      [.incoming [1] 7, .incoming [2, 2] 8, .incoming [3] 7, .read 1500, .read 1, .write [9] 7 0, .write [8] 7 1,
       .out 7 2, .close none, .close (some (.custom 3)), .read 10, .write [1] 7 3, .out 7 4]).2
    = [.none, .none, .none, .read (.ok [1] 7), .read (.ok [2] 8), .write (.ok 1), .write (.ok 1), .out (some [9]),
       .close none, .close (some .closedConn), .read (.err .closedConn), .write (.err .closedConn), .out (some [8])] := by
  decide +kernel

end Examples

end Snowflake.C17
