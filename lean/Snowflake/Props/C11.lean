import Snowflake.Proofs.AmpPath
import Snowflake.Props.C10
/-!
# C11 — rendezvous requests are faithfully encoded, fronted and bounded

Property theorems about `Snowflake.Model.AmpPath` (the model of `common/amp/path.go`, `cache.go`,
`broker/amp.go` next to `broker/http.go clientOffers`, and the response handling of
`client/lib/rendezvous_http.go` / `rendezvous_ampcache.go`).  Helper lemmas: `Proofs/AmpPath.lean`;
the base64 facts come from `Proofs/Base64.lean`, the armor round trip from `Props/C10.lean`.
-/
namespace Snowflake.AmpPath.C11
open Snowflake.Base64 (Bytes)
open Snowflake.AmpPath

/-! ## Path encoding -/

theorem rawUrl_slashFree (d : Bytes) : ∀ c ∈ Base64.encode Base64.rawUrl d, c ≠ sl :=
  fun c hc => (Base64.rawUrl_no_slash_plus d c hc).1

/-- **Path round trip.**  Whatever bytes — slashes included — stand between the version byte `'0'`
and the final slash, `DecodePath` returns the data encoded after it. -/
theorem path_roundtrip (pfx d : Bytes) :
    decodePath (48 :: (pfx ++ sl :: Base64.encode Base64.rawUrl d)) = .ok d := by
  simp [decodePath, afterLastSlash_append pfx _ (rawUrl_slashFree d), Base64.decode_encode Base64.rawUrl_good]

/-- In particular `DecodePath(EncodePath(d)) = d` for every cache-breaker. -/
theorem encodePath_decodePath (pad d : Bytes) : decodePath (encodePath pad d) = .ok d := by
  unfold encodePath
  simp only [List.append_assoc, List.singleton_append]
  exact path_roundtrip _ d

/-- **The cache-breaker never changes what is delivered**: two encoded paths that coincide — with whatever
(different) random paddings — carry the same request bytes. -/
theorem encodePath_data_unambiguous (pad pad' d d' : Bytes) (h : encodePath pad d = encodePath pad' d') : d = d' := by
  have h1 : decodePath (encodePath pad d) = .ok d := encodePath_decodePath pad d
  have h2 : decodePath (encodePath pad' d') = .ok d' := encodePath_decodePath pad' d'
  have h3 : decodePath (encodePath pad d) = decodePath (encodePath pad' d') := congrArg _ h
  have h4 := h1.symm.trans (h3.trans h2)
  injection h4
/-- **Path errors.**  The empty path, a wrong version byte, a path without slash and bad base64 after
the last slash are errors. -/
theorem path_errors :
    decodePath [] = .error .missingIndicator
    ∧ (∀ v rest, v ≠ 48 → decodePath (v :: rest) = .error (.unknownIndicator v))
    ∧ (∀ rest, (∀ c ∈ rest, c ≠ sl) → decodePath (48 :: rest) = .error .missingData)
    ∧ (∀ pfx t, (∀ c ∈ t, c ≠ sl) → Base64.decode Base64.rawUrl t = none →
        decodePath (48 :: (pfx ++ sl :: t)) = .error .corrupt) := by
  refine ⟨rfl, ?_, ?_, ?_⟩
  · intro v rest hv
    have : (v == 48) = false := by simp [hv]
    simp [decodePath, this]
  · intro rest h
    simp [decodePath, afterLastSlash_none rest h]
  · intro pfx t ht hd
    simp [decodePath, afterLastSlash_append pfx t ht, hd]

/-! ## The two broker endpoints -/

theorem hasPrefix_append (p x : Bytes) : GoStr.hasPrefix (p ++ x) p = true := by
  induction p with
  | nil => simp [GoStr.hasPrefix, List.isPrefixOf]
  | cons a p ih => simpa [GoStr.hasPrefix, List.isPrefixOf] using ih

/-- **AMP endpoint = armor ∘ core ∘ DecodePath.**  For every behaviour `core` of the poll handler
(`i.ClientOffers`, in whatever state and schedule the broker is), every poll `d` and every padding, a
request for `/amp/client/0<padding>/<base64url d>` is answered with the armor of what `core` answers
to `d`, or with status 500 when `core` fails. -/
theorem amp_endpoint (core : Bytes → Option Bytes) (pfx d : Bytes) :
    ampClientOffers core (ampPrefix ++ 48 :: (pfx ++ sl :: Base64.encode Base64.rawUrl d))
      = match core d with
        | some resp => .ok (Amp.armor resp)
        | none => .status 500 := by
  unfold ampClientOffers
  rw [hasPrefix_append, List.drop_left, path_roundtrip]
  rfl

/-- **The AMP endpoint returns, armored, exactly what POST returns.**  For a poll `d` within the POST
read limit that is not a legacy (`{`-initial) body: if POST answers 200 with body `r`, the AMP endpoint
answers 200 with a document that the armor decoder (C10) turns back into exactly `r`, for every
sequence of positive read sizes; if POST answers 500 so does the AMP endpoint. -/
theorem amp_equals_post (core : Bytes → Option Bytes) (pfx d : Bytes) (hlen : d.length ≤ brokerReadLimit)
    (hleg : d.head? ≠ some 123) (sizes : Nat → Nat) (hs : ∀ i, 1 ≤ sizes i) :
    match postClientOffers core d with
    | .ok r => ∃ doc, ampClientOffers core (ampPrefix ++ 48 :: (pfx ++ sl :: Base64.encode Base64.rawUrl d)) = .ok doc
                 ∧ Amp.decode sizes doc = .read r none
    | other => ampClientOffers core (ampPrefix ++ 48 :: (pfx ++ sl :: Base64.encode Base64.rawUrl d)) = other := by
  rw [amp_endpoint]
  unfold postClientOffers
  have h1 : ¬ (d.length > brokerReadLimit) := by omega
  have h2 : (d.head? == some 123) = false := by simp [hleg]
  simp only [h1, if_false, h2, Bool.false_eq_true]
  cases core d with
  | none => rfl
  | some r => exact ⟨Amp.armor r, rfl, Amp.C10.roundtrip r sizes hs⟩

/-- A path that cannot be decoded is answered with status 200 and the armored error message. -/
theorem amp_undecodable (core : Bytes → Option Bytes) (path : Bytes) (e : PathErr) (h : decodePath path = .error e)
    (sizes : Nat → Nat) (hs : ∀ i, 1 ≤ sizes i) :
    ∃ doc, ampClientOffers core (ampPrefix ++ path) = .ok doc ∧ Amp.decode sizes doc = .read cannotDecodeResponse none := by
  refine ⟨Amp.armor cannotDecodeResponse, ?_, Amp.C10.roundtrip _ sizes hs⟩
  unfold ampClientOffers
  rw [hasPrefix_append, List.drop_left, h]
  rfl

/-! ## Cache URL -/

/-- What a successful `CacheURL` has checked and what it returns. -/
theorem cacheURL_ok (pub : PubURL) (cache : CacheURLIn) (ct pfx : Bytes) (out : OutURL)
    (h : cacheURL pub cache ct pfx = .ok out) :
    (ct ≠ [] ∧ (pub.scheme = http ∨ pub.scheme = https) ∧ pub.hasUser = false
      ∧ (pub.port = [] ∨ (pub.scheme = http ∧ pub.port = [56, 48]) ∨ (pub.scheme = https ∧ pub.port = [52, 52, 51]))
      ∧ pub.hostname ≠ [] ∧ cache.rawQuery = [] ∧ cache.fragment = [])
    ∧ out = { scheme := cache.scheme, user := cache.user,
              host := (if cache.port = [] then pfx ++ [46] ++ cache.hostname
                       else joinHostPort (pfx ++ [46] ++ cache.hostname) cache.port),
              rawPath := pathJoin (pathComponents pub cache ct), rawQuery := pub.rawQuery, fragment := pub.fragment } := by
  unfold cacheURL at h
  simp only [] at h
  by_cases c1 : ct.isEmpty = true
  · simp [c1] at h
  · by_cases c2 : (!(pub.scheme == http || pub.scheme == https)) = true
    · simp [c1, c2] at h
    · by_cases c3 : pub.hasUser = true
      · simp [c1, c2, c3] at h
      · by_cases c4 : (!pub.port.isEmpty && !((pub.scheme == http && pub.port == [56, 48]) || (pub.scheme == https && pub.port == [52, 52, 51]))) = true
        · rw [if_neg c1, if_neg c2, if_neg c3, if_pos c4] at h; cases h
        · by_cases c5 : pub.hostname.isEmpty = true
          · rw [if_neg c1, if_neg c2, if_neg c3, if_neg c4, if_pos c5] at h; cases h
          · by_cases c6 : (!unescapeOk (pathJoin (pathComponents pub cache ct))) = true
            · rw [if_neg c1, if_neg c2, if_neg c3, if_neg c4, if_neg c5, if_pos c6] at h; cases h
            · by_cases c7 : (!cache.rawQuery.isEmpty) = true
              · rw [if_neg c1, if_neg c2, if_neg c3, if_neg c4, if_neg c5, if_neg c6, if_pos c7] at h; cases h
              · by_cases c8 : (!cache.fragment.isEmpty) = true
                · rw [if_neg c1, if_neg c2, if_neg c3, if_neg c4, if_neg c5, if_neg c6, if_neg c7, if_pos c8] at h; cases h
                · rw [if_neg c1, if_neg c2, if_neg c3, if_neg c4, if_neg c5, if_neg c6, if_neg c7, if_neg c8] at h
                  simp only [Except.ok.injEq] at h
                  refine ⟨⟨by simpa using c1, ?_, by simpa using c3, ?_, by simpa using c5, by simpa using c7,
                    by simpa using c8⟩, ?_⟩
                  · simp only [Bool.not_eq_true', Bool.or_eq_false_iff, not_and, Bool.not_eq_false] at c2
                    by_cases e : pub.scheme = http
                    · exact .inl e
                    · right
                      have := c2 (by simp [e])
                      simpa using this
                  · by_cases hp : pub.port = []
                    · exact .inl hp
                    · right
                      have hne : pub.port.isEmpty = false := by simp [hp]
                      simp only [hne, Bool.not_false, Bool.true_and, Bool.not_eq_true', Bool.not_eq_false] at c4
                      simpa using c4
                  · rw [← h]
                    by_cases hp : cache.port = []
                    · simp [hp]
                    · have hne : cache.port.isEmpty = false := by simp [hp]
                      simp [hp, hne]

/-- **Guards.**  Empty content type, a scheme other than http/https, userinfo, a non-default port, an
empty host, a cache URL with query or fragment: each is an error. -/
theorem cache_url_guards (pub : PubURL) (cache : CacheURLIn) (ct pfx : Bytes) (out : OutURL)
    (h : cacheURL pub cache ct pfx = .ok out) :
    ct ≠ [] ∧ (pub.scheme = http ∨ pub.scheme = https) ∧ pub.hasUser = false
    ∧ (pub.port = [] ∨ (pub.scheme = http ∧ pub.port = [56, 48]) ∨ (pub.scheme = https ∧ pub.port = [52, 52, 51]))
    ∧ pub.hostname ≠ [] ∧ cache.rawQuery = [] ∧ cache.fragment = [] :=
  (cacheURL_ok pub cache ct pfx out h).1

/-- **Shape, fields.**  Scheme and userinfo come from the cache URL, query and fragment from the
publisher URL, the host is `prefix.cachehost` (`[…]:port` resp. `:port` appended when the cache URL has
a port), the path is `path.Join` of the cache path, the escaped content type, `s` for https, the
escaped publisher host and the publisher path. -/
theorem cache_url_shape (pub : PubURL) (cache : CacheURLIn) (ct pfx : Bytes) (out : OutURL)
    (h : cacheURL pub cache ct pfx = .ok out) :
    out.scheme = cache.scheme ∧ out.user = cache.user ∧ out.rawQuery = pub.rawQuery ∧ out.fragment = pub.fragment
    ∧ out.host = (if cache.port = [] then pfx ++ [46] ++ cache.hostname else joinHostPort (pfx ++ [46] ++ cache.hostname) cache.port)
    ∧ out.rawPath = pathJoin (pathComponents pub cache ct) := by
  rw [(cacheURL_ok pub cache ct pfx out h).2]
  exact ⟨rfl, rfl, rfl, rfl, rfl, rfl⟩

/-- **Shape, path.**  When the cache path and the publisher path are absolute paths of normal elements
(no empty, `.` or `..` elements; either may be empty) and the escaped content type and host are normal
elements, the path is literally `cachePath/‹type›[/s]/‹host›‹pubPath›` — relative (no leading slash,
`URL.String()` supplies it) exactly when the cache URL has an empty path. -/
theorem cache_url_path (pub : PubURL) (cache : CacheURLIn) (ct pfx : Bytes) (out : OutURL)
    (h : cacheURL pub cache ct pfx = .ok out) (A P : List Bytes)
    (hA : cache.escapedPath = absPath A) (hP : pub.escapedPath = absPath P)
    (hAn : ∀ s ∈ A, NormalSeg s) (hPn : ∀ s ∈ P, NormalSeg s)
    (hct : NormalSeg (pathEscape ct)) (hhost : NormalSeg (pathEscape pub.hostname)) :
    out.rawPath = (if A = [] then [] else [sl])
      ++ joinSlash (A ++ ([pathEscape ct] ++ (if pub.scheme = https then [[115]] else []) ++ [pathEscape pub.hostname]) ++ P) := by
  rw [(cache_url_shape pub cache ct pfx out h).2.2.2.2.2]
  have hs : NormalSeg [115] := ⟨by simp, by decide, by decide, by intro c hc; simp at hc; subst hc; decide⟩
  have hmid : ∀ s ∈ ([pathEscape ct] ++ (if pub.scheme = https then [[115]] else []) ++ [pathEscape pub.hostname]), NormalSeg s := by
    intro s hs'
    simp only [List.mem_append, List.mem_singleton] at hs'
    rcases hs' with (h1 | h1) | h1
    · subst h1; exact hct
    · split at h1
      · simp only [List.mem_singleton] at h1; subst h1; exact hs
      · cases h1
    · subst h1; exact hhost
  have := pathJoin_normal A _ P hAn hmid hPn (by simp)
  rw [← this]
  unfold pathComponents
  rw [hA, hP]
  by_cases hsch : pub.scheme = https
  · simp [hsch]
  · have : (pub.scheme == https) = false := by simp [hsch]
    simp [hsch, this]

/-! ## Domain prefix -/

/-- **The domain prefix is a DNS label.**  With a 32-byte digest: the fallback is 52 characters of
`a–z2–7`; the prefix is the basic result whenever that exists and is at most 63 bytes long, otherwise
the fallback; it is at most 63 bytes long; and it contains no dot — for ASCII domains unconditionally
(`asc` is never consulted: the output of step 4 is ASCII and never starts with `xn--`), for
internationalised ones provided the punycode `idna.ToASCII` returns for the dot-free output of step 4
contains no dot. -/
theorem domain_prefix_label (domain digest : Bytes) (uni asc : Option Bytes) (hd : digest.length = 32)
    (hasc : ∀ a, asc = some a → ∀ c ∈ a, c ≠ 46) :
    (domainPrefixFallback digest).length = 52
    ∧ (∀ c ∈ domainPrefixFallback digest, isB32 c = true)
    ∧ (∀ p, domainPrefixBasic domain uni asc = some p → p.length ≤ 63 → domainPrefix domain digest uni asc = p)
    ∧ ((domainPrefixBasic domain uni asc = none ∨ ∃ p, domainPrefixBasic domain uni asc = some p ∧ 63 < p.length) →
        domainPrefix domain digest uni asc = domainPrefixFallback digest)
    ∧ (domainPrefix domain digest uni asc).length ≤ 63
    ∧ ∀ c ∈ domainPrefix domain digest uni asc, c ≠ 46 := by
  have hlen : (domainPrefixFallback digest).length = 52 := by
    unfold domainPrefixFallback; rw [base32_length, hd]; rfl
  have hfb : ∀ c ∈ domainPrefixFallback digest, isB32 c = true := base32_all digest
  have hfbdot : ∀ c ∈ domainPrefixFallback digest, c ≠ 46 := by
    intro c hc h0; subst h0; have := hfb 46 hc; revert this; decide
  have hbasicdot : ∀ p, domainPrefixBasic domain uni asc = some p → ∀ c ∈ p, c ≠ 46 := by
    intro p hp
    unfold domainPrefixBasic at hp
    simp only [] at hp
    split at hp
    · cases hp
    · rename_i u _
      split at hp
      · simp only [Option.some.injEq] at hp; subst hp; exact prefixMid_no_dot u
      · exact hasc p hp
  refine ⟨hlen, hfb, ?_, ?_, ?_, ?_⟩
  · intro p hp hl
    simp [domainPrefix, hp, hl]
  · intro h
    rcases h with h | ⟨p, hp, hl⟩
    · simp [domainPrefix, h]
    · have : ¬ p.length ≤ 63 := by omega
      simp [domainPrefix, hp, this]
  · unfold domainPrefix
    split
    · split
      · assumption
      · omega
    · omega
  · unfold domainPrefix
    split
    · rename_i p hp
      split
      · exact hbasicdot p hp
      · exact hfbdot
    · exact hfbdot

/-- On an ASCII domain without `xn--` labels the basic algorithm needs neither parameter and is the
AMP specification's: hyphens doubled, dots to hyphens, `0-…-0` around a result with hyphens at
positions 3 and 4. -/
theorem domain_prefix_basic_ascii (domain : Bytes) (uni asc : Option Bytes) (h : simpleDomain domain = true) :
    domainPrefixBasic domain uni asc = some (prefixMid domain) := by
  have hascii : isAscii domain = true := by
    simp only [simpleDomain, Bool.and_eq_true] at h; exact h.1
  have hmid : isAscii (prefixMid domain) = true := by
    simp only [isAscii, List.all_eq_true, decide_eq_true_eq] at hascii ⊢
    intro c hc
    unfold prefixMid at hc
    simp only [] at hc
    have hmap : ∀ c ∈ List.map (fun c => if c == 46 then 45 else c) (List.flatMap (fun c => if c == 45 then [45, 45] else [c]) domain), c < 128 := by
      intro c hc
      obtain ⟨x, hx, rfl⟩ := List.mem_map.mp hc
      obtain ⟨y, hy, hxy⟩ := List.mem_flatMap.mp hx
      have hy' := hascii y hy
      by_cases e1 : (x == 46) = true
      · simp [e1]
      · simp only [e1, Bool.false_eq_true, if_false]
        by_cases e2 : (y == 45) = true
        · simp only [e2, if_true, List.mem_cons, List.not_mem_nil, or_false, or_self] at hxy; subst hxy; decide
        · simp only [e2, Bool.false_eq_true, if_false, List.mem_singleton] at hxy; subst hxy; exact hy'
    split at hc
    · simp only [List.mem_append, List.mem_cons, List.not_mem_nil, or_false] at hc
      rcases hc with (h1 | h1) | h1
      · rcases h1 with rfl | rfl <;> decide
      · exact hmap c h1
      · rcases h1 with rfl | rfl <;> decide
    · exact hmap c hc
  simp [domainPrefixBasic, h, hmid]

/-! ## Fronting and bounded reads -/

/-- **Fronting.**  With a front configured the connection goes to the front and the broker (or cache)
host appears only in the `Host` header; without one both are the URL's host. -/
theorem fronting (front urlHost : Bytes) :
    (front ≠ [] → frontedRequest front urlHost = (front, urlHost))
    ∧ (front = [] → frontedRequest front urlHost = (urlHost, urlHost)) := by
  constructor
  · intro h; have : front.isEmpty = false := by simp [h]
    simp [frontedRequest, this]
  · intro h; subst h; rfl

/-- **Bounded read.**  `limitedRead` returns the complete body without error when it is within the
limit, and an error — together with exactly the first `limit` bytes, never more — when it is longer. -/
theorem limit_read (body : Bytes) (limit : Nat) :
    (body.length ≤ limit → limitedRead body limit = (body, none))
    ∧ (limit < body.length → limitedRead body limit = (body.take limit, some .unexpectedEOF)) := by
  unfold limitedRead
  constructor
  · intro h
    have : ¬ ((body.take (limit + 1)).length = limit + 1) := by simp only [List.length_take]; omega
    simp only [this, if_false]
    rw [List.take_of_length_le (by omega)]
  · intro h
    have : (body.take (limit + 1)).length = limit + 1 := by simp only [List.length_take]; omega
    simp only [this, if_true]
    rw [List.take_take]
    congr 2
    omega

/-- **Limit, HTTP rendezvous.**  A status other than 200 is an error; a body longer than the limit is
an error; and whenever there is an error `Negotiate` uses none of the returned bytes — so a truncated
body never becomes a result.  Without error the data is the complete body. -/
theorem limit (status : Nat) (body : Bytes) :
    (status ≠ 200 → (httpExchange status body).2 = some .unexpected)
    ∧ (status = 200 → clientReadLimit < body.length → (httpExchange status body).2 = some .unexpectedEOF)
    ∧ ((httpExchange status body).2 ≠ none → usedByNegotiate (httpExchange status body) = none)
    ∧ (∀ data, usedByNegotiate (httpExchange status body) = some data → data = body ∧ status = 200 ∧ body.length ≤ clientReadLimit) := by
  refine ⟨?_, ?_, ?_, ?_⟩
  · intro h; simp [httpExchange, h]
  · intro h hl; subst h
    simp [httpExchange, (limit_read body clientReadLimit).2 hl]
  · intro h
    unfold usedByNegotiate
    cases he : (httpExchange status body).2 with
    | none => exact absurd he h
    | some e => rfl
  · intro data h
    unfold usedByNegotiate at h
    by_cases hst : status = 200
    · subst hst
      by_cases hl : body.length ≤ clientReadLimit
      · have := (limit_read body clientReadLimit).1 hl
        simp only [httpExchange, ne_eq, not_true_eq_false, if_false, this, Option.some.injEq] at h
        exact ⟨h.symm, rfl, hl⟩
      · have := (limit_read body clientReadLimit).2 (by omega)
        simp [httpExchange, this] at h
    · simp [httpExchange, hst] at h

/-- **Limit, AMP cache rendezvous.**  A status other than 200, a `Location` header, and a body longer
than the limit are errors; any result that `Negotiate` uses is the complete decoding of a body within
the limit. -/
theorem limit_amp (sizes : Nat → Nat) (status : Nat) (loc : Bool) (body : Bytes) :
    (status ≠ 200 → (ampExchange sizes status loc body).2 = some .unexpected)
    ∧ (status = 200 → loc = true → (ampExchange sizes status loc body).2 = some .unexpected)
    ∧ (clientReadLimit < body.length → (ampExchange sizes status loc body).2 ≠ none)
    ∧ (∀ data, usedByNegotiate (ampExchange sizes status loc body) = some data →
        status = 200 ∧ loc = false ∧ body.length ≤ clientReadLimit ∧ Amp.decode sizes body = .read data none) := by
  refine ⟨?_, ?_, ?_, ?_⟩
  · intro h; simp [ampExchange, h]
  · intro h hl; subst h hl; simp [ampExchange]
  · intro hl
    have hlen : (body.take (clientReadLimit + 1)).length = clientReadLimit + 1 := by
      simp only [List.length_take]; omega
    unfold ampExchange
    simp only []
    split
    · simp
    · split
      · simp
      · split
        · simp
        · simp
        · simp [hlen]
  · intro data h
    unfold usedByNegotiate at h
    unfold ampExchange at h
    simp only [] at h
    by_cases hst : status = 200
    · by_cases hloc : loc = true
      · subst hst hloc; simp at h
      · have hloc' : loc = false := by simpa using hloc
        subst hst hloc'
        simp only [ne_eq, not_true_eq_false, if_false, Bool.false_eq_true] at h
        cases hdec : Amp.decode sizes (body.take (clientReadLimit + 1)) with
        | initErr e => rw [hdec] at h; simp at h
        | read o e =>
          cases e with
          | some e => rw [hdec] at h; simp at h
          | none =>
            rw [hdec] at h
            simp only [] at h
            by_cases hlen : (body.take (clientReadLimit + 1)).length = clientReadLimit + 1
            · rw [if_pos hlen] at h; simp at h
            · rw [if_neg hlen] at h
              simp only [Option.some.injEq] at h
              subst h
              have hle : body.length ≤ clientReadLimit := by
                simp only [List.length_take] at hlen; omega
              rw [List.take_of_length_le (by omega)] at hdec
              exact ⟨rfl, rfl, hle, hdec⟩
    · simp [hst] at h

/-! ## Non-vacuity and evaluated instances -/

/-- The example of doc.go: random padding `lgWHcwhXFjUm`, data "This is path-encoded data." -/
example : (decodePath [48, 108, 103, 87, 72, 99, 119, 104, 88, 70, 106, 85, 109, 47, 86, 71, 104, 112, 99, 121, 66, 112, 99,
    121, 66, 119, 89, 88, 82, 111, 76, 87, 86, 117, 89, 50, 57, 107, 90, 87, 81, 103, 90, 71, 70, 48, 89, 83, 52]).toOption
    = some [84, 104, 105, 115, 32, 105, 115, 32, 112, 97, 116, 104, 45, 101, 110, 99, 111, 100, 101, 100, 32,
      100, 97, 116, 97, 46] := by decide +kernel

/-- `en-us.example.com` → `0-en--us-example-com-0`; `example.com` → `example-com` (AMP specification). -/
example : domainPrefixBasic [101, 110, 45, 117, 115, 46, 101, 120, 97, 109, 112, 108, 101, 46, 99, 111, 109] none none
    = some [48, 45, 101, 110, 45, 45, 117, 115, 45, 101, 120, 97, 109, 112, 108, 101, 45, 99, 111, 109, 45, 48] := by
  decide +kernel

/-- `https://example.com/amp/x?q=1#f` through `https://cdn.ampproject.org/` with type `c`. -/
example : (cacheURL ⟨https, false, [101, 120, 46, 99, 111, 109], [], [47, 97, 109, 112, 47, 120], [113, 61, 49], [102]⟩
      ⟨https, [], [99, 100, 110, 46, 111, 114, 103], [], [47], [], []⟩ [99] [101, 120, 45, 99, 111, 109]).toOption
    = some ⟨https, [], [101, 120, 45, 99, 111, 109, 46, 99, 100, 110, 46, 111, 114, 103],
        [47, 99, 47, 115, 47, 101, 120, 46, 99, 111, 109, 47, 97, 109, 112, 47, 120], [113, 61, 49], [102]⟩ := by
  decide +kernel

/-- A publisher path with `..` elements climbs out of the `/c/s/host/` prefix (`path.Join` cleans
lexically).  The client never produces such a path (`ResolveReference` removes dot segments); recorded
as a property of the exported function, outside the hypotheses of `cache_url_path`. -/
theorem cache_url_dotdot_escapes :
    (cacheURL ⟨https, false, [101, 120, 46, 99, 111, 109], [], [47, 46, 46, 47, 46, 46, 47, 120], [], []⟩
      ⟨https, [], [99, 100, 110, 46, 111, 114, 103], [], [47], [], []⟩ [99] [101, 120, 45, 99, 111, 109]).toOption.map (·.rawPath)
    = some [47, 99, 47, 120] := by decide +kernel

end Snowflake.AmpPath.C11
