import Snowflake.Model.NameMatcher
/-!
# C06 — proxies relay only to bridges inside their accepted pattern

Theorems about `Snowflake.Model.NameMatcher` (tied to the source in `Tie/NameMatcher.lean`).
-/
namespace Snowflake.NameMatcher.C06
open Snowflake.GoStr

theorem hasSuffix_iff (s p : Str) : hasSuffix s p = true ↔ p <:+ s := by
  simp [hasSuffix]

/-- **Superset implies membership**, for *all* matchers (hence for all pairs of pattern strings,
with or without `^` and `$`, empty, overlapping suffixes) and all hostnames. -/
theorem superset_sound (m o : Matcher) (s : Str)
    (hsup : isSupersetOf m o = true) (hmem : isMember o s = true) : isMember m s = true := by
  unfold isSupersetOf at hsup
  unfold isMember at *
  cases hm : m.exact <;> cases ho : o.exact <;> simp only [hm, ho] at * <;>
    simp only [hasSuffix_iff, Bool.and_eq_true, beq_iff_eq, Bool.false_and, Bool.true_and,
      Bool.false_eq_true, if_true, if_false] at *
  · exact hsup.trans hmem
  · subst hmem; exact hsup
  · rw [hmem]; exact hsup.symm ▸ rfl
    
/-- Corollary for pattern strings. -/
theorem superset_sound_rules (a b h : Str)
    (hsup : isSupersetOf (new a) (new b) = true) (hmem : isMember (new b) h = true) :
    isMember (new a) h = true := superset_sound _ _ _ hsup hmem

/-- The superset judgement is reflexive: a proxy whose pattern *is* the broker's allowed pattern is accepted. -/
theorem superset_refl (m : Matcher) : isSupersetOf m m = true := by
  unfold isSupersetOf
  cases m.exact <;> simp [hasSuffix_iff]

/-- … and transitive (a preorder on matchers). -/
theorem superset_trans (a b c : Matcher) (h1 : isSupersetOf a b = true) (h2 : isSupersetOf b c = true) :
    isSupersetOf a c = true := by
  unfold isSupersetOf at *
  cases ha : a.exact <;> cases hb : b.exact <;> cases hc : c.exact <;> simp only [ha, hb, hc] at * <;>
    simp only [hasSuffix_iff, beq_iff_eq, Bool.false_and, Bool.true_and,
      Bool.false_eq_true, if_true, if_false] at *
  · exact h1.trans h2
  · exact h1.trans h2
  · rw [← h2]; exact h1
  · rw [h1, h2]

/-- **The judgement is also complete**: whenever `m` really accepts every hostname `o` accepts (over all
byte strings), `IsSupersetOf` says so — the broker rejects no proxy whose pattern does cover its own. -/
theorem superset_complete (m o : Matcher) (h : ∀ s, isMember o s = true → isMember m s = true) :
    isSupersetOf m o = true := by
  unfold isSupersetOf
  unfold isMember at h
  cases hm : m.exact <;> cases ho : o.exact <;> simp only [hm, ho] at * <;>
    simp only [hasSuffix_iff, beq_iff_eq, Bool.false_and, Bool.true_and,
      Bool.false_eq_true, if_true, if_false] at *
  · exact h _ (List.suffix_refl _)
  · exact h _ rfl
  · have h1 := h o.suffix (List.suffix_refl _)
    have h2 := h (0 :: o.suffix) (List.suffix_cons _ _)
    rw [← h1] at h2
    exact absurd (congrArg List.length h2) (by simp)
  · exact (h _ rfl).symm

/-- Exact characterisation of `IsSupersetOf` as inclusion of the accepted hostname sets. -/
theorem superset_iff (m o : Matcher) :
    isSupersetOf m o = true ↔ ∀ s, isMember o s = true → isMember m s = true :=
  ⟨fun h s hs => superset_sound m o s h hs, superset_complete m o⟩
/-- **Broker check is sound.** A poll that passes `CheckProxyRelayPattern` comes from a proxy whose
(declared, or for legacy proxies presumed) pattern accepts every hostname the broker's allowed
pattern accepts — so no relay inside the broker's allowed pattern is outside the proxy's consent. -/
theorem broker_check_sound (allowed presumed pattern : Str) (nonSupported : Bool) (host : Str)
    (hc : brokerCheck allowed presumed pattern nonSupported = true)
    (hh : isMember (new allowed) host = true) :
    isMember (new (if nonSupported then presumed else pattern)) host = true :=
  superset_sound _ _ _ hc hh

/-- **The broker check, exactly**: a poll passes `CheckProxyRelayPattern` iff the proxy's (declared or presumed)
pattern accepts every hostname the broker's allowed pattern accepts — neither too lenient (the property) nor
rejecting a proxy that does cover the allowed pattern. -/
theorem broker_check_iff (allowed presumed pattern : Str) (nonSupported : Bool) :
    brokerCheck allowed presumed pattern nonSupported = true ↔
      ∀ host, isMember (new allowed) host = true →
        isMember (new (if nonSupported then presumed else pattern)) host = true := by
  unfold brokerCheck
  exact superset_iff _ _

/-- A poll failing the check is exactly a poll whose pattern is not judged a superset. -/
theorem broker_rejects_iff (allowed presumed pattern : Str) (nonSupported : Bool) :
    brokerCheck allowed presumed pattern nonSupported = false ↔
      isSupersetOf (new (if nonSupported then presumed else pattern)) (new allowed) = false := Iff.rfl

/-- **Proxy acceptance.** If the proxy does not reject a broker-supplied, non-empty relay URL then the
URL's hostname is a member of the proxy's own pattern and its scheme is `wss` unless non-TLS relays
were explicitly allowed. -/
theorem proxy_accepts_only_member_and_wss (relayURL : Str) (member allow : Bool) (scheme : Str)
    (hne : relayURL ≠ []) (hacc : proxyRejects relayURL member allow scheme = false) :
    member = true ∧ (allow = true ∨ scheme = [119, 115, 115]) := by
  unfold proxyRejects at hacc
  cases member <;> cases allow <;> simp_all

/-- An empty relay URL (legacy broker) is never rejected here; the proxy then uses its own
configured relay (see `datachannelHandler`). -/
theorem empty_url_not_rejected (member allow : Bool) (scheme : Str) :
    proxyRejects [] member allow scheme = false := by
  simp [proxyRejects]

/-- Conversely every URL outside the pattern, and every non-`wss` URL without the explicit flag, is rejected. -/
theorem proxy_rejects_outside (relayURL : Str) (member allow : Bool) (scheme : Str) (hne : relayURL ≠ [])
    (h : member = false ∨ (allow = false ∧ scheme ≠ [119, 115, 115])) :
    proxyRejects relayURL member allow scheme = true := by
  unfold proxyRejects
  rcases h with h | ⟨h1, h2⟩
  · simp [h, hne]
  · simp [h1, h2, hne]

/-! ## Non-vacuity -/

/-- `snowflake.torproject.net$` ⊇ `^snowflake.torproject.net$`, and the member is accepted. -/
example :
    isSupersetOf (new (ofString "snowflake.torproject.net$")) (new (ofString "^snowflake.torproject.net$")) = true
    ∧ isMember (new (ofString "^snowflake.torproject.net$")) (ofString "snowflake.torproject.net") = true
    ∧ isMember (new (ofString "snowflake.torproject.net$")) (ofString "snowflake.torproject.net") = true := by
  decide +kernel

/-- The superset test is not trivially true. -/
example : isSupersetOf (new (ofString "^a.example$")) (new (ofString "example$")) = false := by decide +kernel

end Snowflake.NameMatcher.C06
