import Snowflake.Model.Attribution
import Snowflake.Props.C18
/-!
# C18, attribution clause — whose address a connection accepted by the server reports

Theorems about `Snowflake.Model.Attribution` (events `carrier id ip` / `establish s id` / `stream s` on top
of the ring map of `Model/ClientAddr.lean`).  They hold for *every* capacity and *every* event sequence:

* (a) `stream_address_fixed_at_establish`, `report_fixed_at_establish`: what a stream of session `s` reports
  is the result of the one `Get` performed when `s` was established — no later carrier (of any ClientID,
  its own included) and no later establishment of another session changes it;
* (b) `establish_get_spec`, `establish_remembers`, `establish_forgets`, `establish_no_carrier`: that `Get`
  returns the sanitised `client_ip` of the most recent carrier of the session's ClientID iff fewer than
  `capacity` carriers (of other ClientIDs, counted with repetition — every carrier performs one `Set`)
  arrived since, and otherwise *absent*;
* (c) `never_another_sessions_address`, `reported_address_is_own_sanitised_client_ip`: a reported address
  was presented — before the establishment — by a carrier with the session's own ClientID.

Tied to the source by `Tie/ServerLib.lean` (`acceptStreams_*`, `turbotunnel_*`, `serveHTTP_*`) and by
`harness/c18_attr_test.go` (real `Transport.Listen`, WebSocket carriers, KCP + smux sessions).
-/
namespace Snowflake.Attribution.C18
open Snowflake.ClientAddr Snowflake.ClientAddr.C18 Snowflake.GoStr Snowflake.IP

section
variable {S K I V : Type} [DecidableEq S] [DecidableEq K] (san : I → V) (k0 : K) (v0 : V)

/-- the server state after `evs` on a fresh server whose map has capacity `n` -/
def afterEv (n : Nat) (evs : List (Ev S K I)) : St S K V := (run san k0 v0 (init k0 v0 n) evs).2

/-- the addresses reported by the accepted connections (one per `stream` event), in order -/
def outputs (n : Nat) (evs : List (Ev S K I)) : List (Option (Option V)) := (run san k0 v0 (init k0 v0 n) evs).1

/-! ## structure of runs -/

theorem run_append (st : St S K V) (a b : List (Ev S K I)) :
    run san k0 v0 st (a ++ b)
      = ((run san k0 v0 st a).1 ++ (run san k0 v0 (run san k0 v0 st a).2 b).1,
         (run san k0 v0 (run san k0 v0 st a).2 b).2) := by
  induction a generalizing st with
  | nil => simp [run]
  | cons e a ih =>
    cases e with
    | carrier id ip => simp only [List.cons_append, run]; exact ih _
    | establish s id => simp only [List.cons_append, run]; exact ih _
    | stream s => simp only [List.cons_append, run, ih st, List.cons_append]

/-- The ring map only sees the carriers: it is the ring after the `Set`s of `ringOps`. -/
theorem run_ring (st : St S K V) (evs : List (Ev S K I)) :
    (run san k0 v0 st evs).2.ring = (runRing k0 v0 st.ring (ringOps san evs)).2 := by
  induction evs generalizing st with
  | nil => rfl
  | cons e evs ih =>
    cases e with
    | carrier id ip => simp only [run, ringOps, runRing]; rw [ih]; rfl
    | establish s id => simp only [run, ringOps]; rw [ih]; rfl
    | stream s => simp only [run, ringOps]; exact ih st

theorem afterEv_ring (n : Nat) (evs : List (Ev S K I)) :
    (afterEv san k0 v0 n evs).ring = after k0 v0 n (ringOps san evs) := by
  simp only [afterEv, after, run_ring]; rfl

omit [DecidableEq S] [DecidableEq K] in
theorem ringOps_append (a b : List (Ev S K I)) : ringOps san (a ++ b) = ringOps san a ++ ringOps san b := by
  induction a with
  | nil => rfl
  | cons e a ih => cases e <;> simp [ringOps, ih]

omit [DecidableEq S] [DecidableEq K] in
theorem sets_ringOps (evs : List (Ev S K I)) :
    sets (ringOps san evs) = (carriers evs).map (fun e => (e.1, san e.2)) := by
  induction evs with
  | nil => rfl
  | cons e evs ih => cases e <;> simp [ringOps, carriers, sets, ih]

omit [DecidableEq S] [DecidableEq K] in
theorem carriers_append (a b : List (Ev S K I)) : carriers (a ++ b) = carriers a ++ carriers b := by
  induction a with
  | nil => rfl
  | cons e a ih => cases e <;> simp [carriers, ih]

omit [DecidableEq S] [DecidableEq K] in
theorem established_append (a b : List (Ev S K I)) : established (a ++ b) = established a ++ established b := by
  induction a with
  | nil => rfl
  | cons e a ih => cases e <;> simp [established, ih]

/-- Events that do not establish `s` leave what `s` reports untouched — whatever carriers arrive and
whichever other sessions are established. -/
theorem report_unaffected (st : St S K V) (post : List (Ev S K I)) (s : S) (hno : s ∉ established post) :
    report (run san k0 v0 st post).2 s = report st s := by
  induction post generalizing st with
  | nil => rfl
  | cons e post ih =>
    cases e with
    | carrier id ip => simp only [run]; rw [ih _ (by simpa [established] using hno)]; rfl
    | establish s' id =>
      simp only [established, List.mem_cons, not_or] at hno
      simp only [run]; rw [ih _ hno.2]
      have : ¬ s' = s := fun h => hno.1 h.symm
      simp [step, report, sessGet, this]
    | stream s' => simp only [run]; exact ih st (by simpa [established] using hno)

/-- What the accepted connection of a `stream s` event reports is `report` of the state just before. -/
theorem outputs_stream (n : Nat) (evs : List (Ev S K I)) (s : S) :
    outputs san k0 v0 n (evs ++ [Ev.stream s]) = outputs san k0 v0 n evs ++ [report (afterEv san k0 v0 n evs) s] := by
  simp [outputs, afterEv, run_append, run]

/-- one output per `stream` event -/
theorem outputs_append (n : Nat) (a b : List (Ev S K I)) :
    outputs san k0 v0 n (a ++ b) = outputs san k0 v0 n a ++ (run san k0 v0 (afterEv san k0 v0 n a) b).1 := by
  simp [outputs, afterEv, run_append]

/-! ## (a) the address is fixed when the session is established -/

/-- **State form.**  After `establish s id`, and as long as `s` is not established anew, session `s`
reports the result of the `Get id` performed at that moment (`some none`: the nil address of a failed
lookup) — for every later sequence `post` of carriers of any ClientID (its own included), establishments
of other sessions and streams. -/
theorem report_fixed_at_establish (n : Nat) (pre post : List (Ev S K I)) (s : S) (id : K)
    (hno : s ∉ established post) :
    report (afterEv san k0 v0 n (pre ++ Ev.establish s id :: post)) s
      = some (Ring.get k0 v0 (afterEv san k0 v0 n pre).ring id) := by
  simp only [afterEv, run_append, run]
  rw [report_unaffected san k0 v0 _ post s hno]
  simp [step, report, sessGet]

/-- **Observable form.**  The connection accepted for a stream of `s` reports exactly that address. -/
theorem stream_address_fixed_at_establish (n : Nat) (pre post : List (Ev S K I)) (s : S) (id : K)
    (hno : s ∉ established post) :
    outputs san k0 v0 n (pre ++ Ev.establish s id :: post ++ [Ev.stream s])
      = outputs san k0 v0 n (pre ++ Ev.establish s id :: post)
        ++ [some (Ring.get k0 v0 (afterEv san k0 v0 n pre).ring id)] := by
  rw [outputs_stream, report_fixed_at_establish san k0 v0 n pre post s id hno]

/-- A session that was never established reports nothing, and conversely. -/
theorem report_none_iff (n : Nat) (evs : List (Ev S K I)) (s : S) :
    report (afterEv san k0 v0 n evs) s = none ↔ s ∉ established evs := by
  suffices h : ∀ (st : St S K V), report (run san k0 v0 st evs).2 s = none ↔ (report st s = none ∧ s ∉ established evs) by
    simpa [afterEv, init, report, sessGet] using h (init k0 v0 n)
  induction evs with
  | nil => intro st; simp [run, established]
  | cons e evs ih =>
    intro st
    cases e with
    | carrier id ip => simp only [run, established]; rw [ih]; rfl
    | establish s' id =>
      simp only [run, established, List.mem_cons, not_or]; rw [ih]
      by_cases h : s' = s
      · simp [step, report, sessGet, h]
      · have h' : ¬ s = s' := fun x => h x.symm
        simp [step, report, sessGet, h, h']
    | stream s' => simp only [run, established]; exact ih st

omit [DecidableEq K] in
/-- Every established session has a *last* establishment (so the theorems with a decomposition
`pre ++ establish s id :: post`, `s ∉ established post` cover every report that is not `none`). -/
theorem last_establish (evs : List (Ev S K I)) (s : S) (h : s ∈ established evs) :
    ∃ pre id post, evs = pre ++ Ev.establish s id :: post ∧ s ∉ established post := by
  induction evs with
  | nil => simp [established] at h
  | cons e evs ih =>
    by_cases hin : s ∈ established evs
    · obtain ⟨pre, id, post, he, hp⟩ := ih hin
      exact ⟨e :: pre, id, post, by simp [he], hp⟩
    · cases e with
      | carrier id ip => exact absurd (by simpa [established] using h) hin
      | stream s' => exact absurd (by simpa [established] using h) hin
      | establish s' id =>
        have : s = s' := by
          simp only [established, List.mem_cons] at h
          rcases h with h | h
          · exact h
          · exact absurd h hin
        subst this
        exact ⟨[], id, evs, rfl, hin⟩

/-! ## (b) which address the lookup at establishment finds -/

/-- **Specification of the lookup.**  The `Get id` performed when a session is established after the
events `pre` reads the bounded log of the carriers seen so far: the sanitised `client_ip` of the newest
carrier of `id` among the last `n` carriers, else absent. -/
theorem establish_get_spec (n : Nat) (pre : List (Ev S K I)) (id : K) :
    Ring.get k0 v0 (afterEv san k0 v0 n pre).ring id
      = logGet ((((carriers pre).map (fun e => (e.1, san e.2))).reverse).take n) id := by
  rw [afterEv_ring, ring_get_spec, sets_ringOps]

/-- **Most recent carrier wins.**  If `carrier id ip` is the most recent carrier of ClientID `id`
(`p2` has none) and fewer than `n` carriers arrived since, the lookup finds the sanitised `ip`. -/
theorem establish_remembers (n : Nat) (p1 p2 : List (Ev S K I)) (id : K) (ip : I)
    (hother : ∀ e ∈ carriers p2, e.1 ≠ id) (hfew : (carriers p2).length < n) :
    Ring.get k0 v0 (afterEv san k0 v0 n (p1 ++ Ev.carrier id ip :: p2)).ring id = some (san ip) := by
  rw [afterEv_ring, ringOps_append]
  simp only [ringOps]
  apply ring_remembers
  · intro e he
    rw [sets_ringOps] at he
    obtain ⟨c, hc, rfl⟩ := List.mem_map.mp he
    exact hother c hc
  · rw [sets_ringOps]; simpa using hfew

/-- **Forgotten, oldest first.**  Once `n` or more carriers of other ClientIDs arrived since the most
recent carrier of `id`, the lookup reports absent (the session gets the nil address — never a stale or
foreign one). -/
theorem establish_forgets (n : Nat) (p1 p2 : List (Ev S K I)) (id : K) (ip : I)
    (hother : ∀ e ∈ carriers p2, e.1 ≠ id) (hmany : n ≤ (carriers p2).length) :
    Ring.get k0 v0 (afterEv san k0 v0 n (p1 ++ Ev.carrier id ip :: p2)).ring id = none := by
  rw [afterEv_ring, ringOps_append]
  simp only [ringOps]
  apply ring_forgets
  · intro e he
    rw [sets_ringOps] at he
    obtain ⟨c, hc, rfl⟩ := List.mem_map.mp he
    exact hother c hc
  · rw [sets_ringOps]; simpa using hmany

/-- A returned address was stored by a carrier of the same ClientID that arrived before. -/
theorem establish_get_own (n : Nat) (pre : List (Ev S K I)) (id : K) (v : V)
    (h : Ring.get k0 v0 (afterEv san k0 v0 n pre).ring id = some v) :
    ∃ ip, (id, ip) ∈ carriers pre ∧ san ip = v := by
  rw [afterEv_ring] at h
  have hm := ring_get_own k0 v0 n _ id v h
  rw [sets_ringOps] at hm
  obtain ⟨c, hc, he⟩ := List.mem_map.mp hm
  cases c with
  | mk cid cip =>
    simp only [Prod.mk.injEq] at he
    exact ⟨cip, by rw [← he.1]; exact hc, he.2⟩

/-- No carrier of `id` so far: the lookup reports absent. -/
theorem establish_no_carrier (n : Nat) (pre : List (Ev S K I)) (id : K)
    (hnone : ∀ e ∈ carriers pre, e.1 ≠ id) :
    Ring.get k0 v0 (afterEv san k0 v0 n pre).ring id = none := by
  cases h : Ring.get k0 v0 (afterEv san k0 v0 n pre).ring id with
  | none => rfl
  | some v =>
    obtain ⟨ip, hip, _⟩ := establish_get_own san k0 v0 n pre id v h
    exact absurd rfl (hnone _ hip)

/-- **The attribution clause, end to end.**  A carrier of `id` with `client_ip = ip`; then events `p2`
with no carrier of `id` and fewer than `n` carriers at all; then session `s` with ClientID `id` is
established; then *anything* that does not establish `s` anew — in particular further carriers of `id`
with other `client_ip` values; then a stream of `s` is accepted: it reports the sanitised `ip`. -/
theorem attribution (n : Nat) (p1 p2 post : List (Ev S K I)) (s : S) (id : K) (ip : I)
    (hother : ∀ e ∈ carriers p2, e.1 ≠ id) (hfew : (carriers p2).length < n) (hno : s ∉ established post) :
    outputs san k0 v0 n (p1 ++ Ev.carrier id ip :: p2 ++ Ev.establish s id :: post ++ [Ev.stream s])
      = outputs san k0 v0 n (p1 ++ Ev.carrier id ip :: p2 ++ Ev.establish s id :: post) ++ [some (some (san ip))] := by
  rw [stream_address_fixed_at_establish san k0 v0 n _ post s id hno,
    establish_remembers san k0 v0 n p1 p2 id ip hother hfew]

/-! ## (c) never another session's address -/

/-- **Never another session's address.**  If session `s` (ClientID `id`) reports an address `v`, a
carrier that presented the *same* ClientID `id` before the establishment carried a `client_ip` whose
sanitised form is `v`. -/
theorem never_another_sessions_address (n : Nat) (pre post : List (Ev S K I)) (s : S) (id : K) (v : V)
    (hno : s ∉ established post)
    (h : report (afterEv san k0 v0 n (pre ++ Ev.establish s id :: post)) s = some (some v)) :
    ∃ ip, (id, ip) ∈ carriers pre ∧ san ip = v := by
  rw [report_fixed_at_establish san k0 v0 n pre post s id hno] at h
  exact establish_get_own san k0 v0 n pre id v (Option.some.inj h)

end

/-! ## with the real sanitiser -/

section
variable {S K : Type} [DecidableEq S] [DecidableEq K] (k0 : K)

/-- **The bridge is told the session's own address or none.**  With `clientAddr` as the sanitiser: a
non-empty address reported for session `s` is `JoinHostPort(ip.String(), "1")` of the valid, specified
address that the `client_ip` of a carrier with the session's own ClientID denotes. -/
theorem reported_address_is_own_sanitised_client_ip (n : Nat) (pre post : List (Ev S K Str)) (s : S) (id : K)
    (v : Str) (hno : s ∉ established post)
    (h : report (afterEv clientAddr k0 [] n (pre ++ Ev.establish s id :: post)) s = some (some v)) (hne : v ≠ []) :
    ∃ param ip, (id, param) ∈ carriers pre ∧ v = clientAddr param ∧ parseIP param = some ip ∧ ip.length = 16
      ∧ ip ≠ ipv4zero ∧ ip ≠ ipv6unspecified ∧ v = joinHostPort (render ip) [49] := by
  obtain ⟨param, hp, hv⟩ := never_another_sessions_address clientAddr k0 [] n pre post s id v hno h
  subst hv
  obtain ⟨ip, h1, h2, h3, h4, h5, _⟩ := clientAddr_tells_that_address param hne
  exact ⟨param, ip, hp, rfl, h1, h2, h3, h4, h5⟩

end

/-! ## Non-vacuity and sensitivity -/

/-- the sanitiser of the examples: `0` stands for an absent / bad `client_ip` -/
def sanEx (ip : Nat) : Nat := if ip = 0 then 0 else ip + 100

/-- Capacity 2.  Session 7 (ClientID 1) is established after carriers `1 ↦ 5`, `2 ↦ 6`; a later carrier of
ClientID 1 with another address (9), carriers of other ClientIDs that push ClientID 1 out of the map, and
the establishment of session 8 (ClientID 1 again: forgotten by now → nil address; then ClientID 3) do not
change what the streams of session 7 report.  Session 9 was never established. -/
example :
    outputs (S := Nat) sanEx 0 0 2
        [.carrier 1 5, .carrier 2 6, .establish 7 1, .stream 7, .carrier 1 9, .stream 7, .carrier 3 4, .carrier 2 0,
         .establish 8 1, .stream 8, .stream 7, .establish 8 3, .stream 8, .establish 6 2, .stream 6, .stream 9, .stream 7]
      = [some (some 105), some (some 105), some none, some (some 105), some (some 104), some (some 0), none,
         some (some 105)] := by decide +kernel

/-- hypotheses of `attribution` are satisfiable (and its conclusion is the non-trivial output) -/
example :
    let p2 : List (Ev Nat Nat Nat) := [.carrier 2 6, .stream 3]
    (∀ e ∈ carriers p2, e.1 ≠ 1) ∧ (carriers p2).length < 2 ∧ 7 ∉ established ([.carrier 1 9, .establish 8 1] : List (Ev Nat Nat Nat))
    ∧ outputs (S := Nat) sanEx 0 0 2 ([.carrier 1 5] ++ Ev.carrier 1 8 :: p2 ++ Ev.establish 7 1 :: [.carrier 1 9, .establish 8 1] ++ [.stream 7])
        = [none, some (some 108)] := by decide +kernel

/-- hypotheses of `establish_forgets` are satisfiable: two carriers of other ids, capacity 2 -/
example :
    let p2 : List (Ev Nat Nat Nat) := [.carrier 2 6, .carrier 3 6]
    (∀ e ∈ carriers p2, e.1 ≠ 1) ∧ 2 ≤ (carriers p2).length
    ∧ outputs (S := Nat) sanEx 0 0 2 ([] ++ Ev.carrier 1 8 :: p2 ++ [.establish 7 1, .stream 7]) = [some none] := by
  decide +kernel

/-- **Sensitivity.**  Looking the address up at every stream instead of once at establishment (the `Get`
inside the `AcceptStream` loop) is observably different: a second carrier of the same ClientID with another
`client_ip` changes the address between two streams of one session, and carriers of other sessions make
a later stream lose its address. -/
example :
    let evs : List (Ev Nat Nat Nat) := [.carrier 1 5, .establish 7 1, .stream 7, .carrier 1 9, .stream 7, .carrier 2 1, .carrier 3 1, .stream 7]
    outputs sanEx 0 0 2 evs = [some (some 105), some (some 105), some (some 105)]
    ∧ runLate sanEx 0 0 { ring := Ring.new 0 0 2, sess := [] } evs = [some (some 105), some (some 109), some none] := by
  decide +kernel

/-- with the real sanitiser: garbage, `0.0.0.0` and an absent parameter are stored as the empty address,
which is not the nil address of a failed lookup -/
example :
    outputs (S := Nat) (K := Nat) clientAddr 0 [] 4
        [.carrier 1 (ofString "1.2.3.4"), .carrier 2 (ofString "0.0.0.0"), .carrier 3 [], .carrier 4 (ofString "2001:db8::1"),
         .establish 1 1, .establish 2 2, .establish 3 3, .establish 4 4, .establish 5 5,
         .carrier 1 (ofString "9.9.9.9"), .stream 1, .stream 2, .stream 3, .stream 4, .stream 5]
      = [some (some (ofString "1.2.3.4:1")), some (some []), some (some []), some (some (ofString "[2001:db8::1]:1")),
         some none] := by decide +kernel

end Snowflake.Attribution.C18
