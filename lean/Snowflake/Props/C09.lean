import Snowflake.Proofs.Encap
/-!
# C09 — packet framing round-trips under any read fragmentation

Property theorems about `Snowflake.Model.Encap` (the model of
`/repo/common/encapsulation/encapsulation.go`).  Helper lemmas live in `Proofs/Encap.lean`.
-/
namespace Snowflake.Encap.C09

/-- Generalised over fuel: decoding an encoded item list gives back exactly the data chunks. -/
theorem roundtrip_fuel : ∀ (items : List Item), (∀ i ∈ items, i.ok) →
    ∀ fuel, (encodeItems items).length < fuel →
      decodeFuel fuel (encodeItems items) = (dataOf items, .eof) := by
  intro items
  induction items with
  | nil =>
    intro _ fuel hf
    cases fuel with
    | zero => omega
    | succ fuel => simp [encodeItems, decodeFuel, next, parsePrefix, dataOf]
  | cons it is ih =>
    intro hok fuel hf
    have hok' : ∀ i ∈ is, i.ok := fun i hi => hok i (List.mem_cons_of_mem _ hi)
    have hE : encodeItems (it :: is) = encodeItem it ++ encodeItems is := by
      simp [encodeItems]
    rw [hE] at hf ⊢
    cases fuel with
    | zero => omega
    | succ fuel =>
      cases it with
      | data d =>
        have hd : d.length < 1048576 := hok (.data d) (List.mem_cons_self ..)
        have hl : (encodeItems is).length < fuel := by
          obtain ⟨p, hp⟩ := dataPrefix_isSome hd
          have : 1 ≤ p.length := by
            unfold dataPrefix prefixFor at hp
            repeat' split at hp
            all_goals first | (cases hp; simp) | omega
          simp only [encodeItem, encodeData, hp, Option.getD_some, List.length_append] at hf
          omega
        simp only [decodeFuel, next_data d _ hd, ih hok' fuel hl, dataOf]
      | pad n =>
        simp only [encodeItem] at hf ⊢
        have h1 : next ((padding n ++ encodeItems is).length + 1) (padding n ++ encodeItems is)
            = next ((encodeItems is).length + 1) (encodeItems is) := by
          rw [next_padding n _ _ (by omega)]
          exact next_fuel _ _ _ (by simp only [List.length_append]; omega) (by omega)
        have h2 : decodeFuel (fuel + 1) (padding n ++ encodeItems is)
            = decodeFuel (fuel + 1) (encodeItems is) := by
          simp only [decodeFuel, h1]
        rw [h2, ih hok' (fuel + 1) (by simp only [List.length_append] at hf; omega)]
        simp [dataOf]

/-- **Round trip.** Any sequence of data chunks (each shorter than 2^20) and paddings decodes to
exactly the data chunks, in order, ending in a clean EOF; padding is invisible. -/
theorem roundtrip (items : List Item) (hok : ∀ i ∈ items, i.ok) :
    decodeAll (encodeItems items) = (dataOf items, .eof) :=
  roundtrip_fuel items hok _ (Nat.lt_succ_self _)

/-- **Fragmentation independence.** Reading through *any* contract-respecting `io.Reader`
(any script of short reads, zero-length reads and data-with-EOF reads, of any length) yields
the same chunks and the same final status as decoding the concatenated bytes. -/
theorem fragmentation_independent (data : Bytes) (sc : Script) (fuel : Nat) (hf : data.length < fuel) :
    readAll true fuel ⟨data, sc⟩ = decodeAll data := by
  rw [readAll_decode fuel data sc hf]
  exact decodeFuel_fuel _ _ _ hf (Nat.lt_succ_self _)

/-- Round trip through any fragmenting reader. -/
theorem roundtrip_fragmented (items : List Item) (hok : ∀ i ∈ items, i.ok) (sc : Script) :
    readAll true ((encodeItems items).length + 1) ⟨encodeItems items, sc⟩ = (dataOf items, .eof) := by
  rw [fragmentation_independent _ _ _ (Nat.lt_succ_self _), roundtrip items hok]

/-- **No two chunk sequences share an encoding.**  If two item sequences (data chunks and paddings, in any
mixture) produce the same bytes, they carry the same data chunks in the same order: a receiver can never be
made to read different packets from the bytes the sender meant (corollary of `roundtrip`). -/
theorem encoding_unambiguous (a b : List Item) (ha : ∀ i ∈ a, i.ok) (hb : ∀ i ∈ b, i.ok)
    (h : encodeItems a = encodeItems b) : dataOf a = dataOf b := by
  have h1 := roundtrip a ha
  have h2 := roundtrip b hb
  rw [h, h2] at h1
  exact (Prod.mk.inj h1).1.symm

theorem dataOf_append (a b : List Item) : dataOf (a ++ b) = dataOf a ++ dataOf b := by
  induction a with
  | nil => rfl
  | cons x xs ih => cases x <;> simp [dataOf, ih]

/-- **Streams concatenate.**  Writing one item sequence after another on the same stream (two writers taking
turns, or one writer over time) is the encoding of the concatenated sequence, and it decodes to the first
sequence's chunks followed by the second's: framing carries no state from one chunk to the next. -/
theorem streams_concatenate (a b : List Item) (ha : ∀ i ∈ a, i.ok) (hb : ∀ i ∈ b, i.ok) :
    encodeItems (a ++ b) = encodeItems a ++ encodeItems b ∧
    decodeAll (encodeItems a ++ encodeItems b) = (dataOf a ++ dataOf b, .eof) := by
  have e : encodeItems (a ++ b) = encodeItems a ++ encodeItems b := by
    simp [encodeItems]
  refine ⟨e, ?_⟩
  rw [← e, roundtrip (a ++ b) (by intro i hi; rcases List.mem_append.mp hi with h | h; exact ha i h; exact hb i h),
    dataOf_append]

/-- Non-vacuity of `encoding_unambiguous`: two different item sequences with the same data really can differ
(padding placement), and the theorem's conclusion is about their data only. -/
example : dataOf [Item.pad 3, .data [1], .pad 0] = dataOf [Item.data [1], .pad 5] := by decide

/-- **Padding is exact and invisible**: `WritePadding n` occupies exactly `n` bytes and decodes
to no data. -/
theorem padding_exact (n : Nat) :
    (padding n).length = n ∧ decodeAll (padding n) = ([], .eof) := by
  refine ⟨padding_length n, ?_⟩
  have := roundtrip [.pad n] (by intro i hi; simp at hi; subst hi; trivial)
  simpa [encodeItems, encodeItem, dataOf] using this

/-- **Size budget.** For every budget `n > 0`, a chunk of `MaxDataForSize n` bytes is encodable and
its encoding (prefix included) is at most `n` bytes long. -/
theorem maxData_fits (n : Nat) (hn : 0 < n) (d : Bytes) (hd : d.length = maxDataForSize n) :
    ∃ e, encodeData d = some e ∧ e.length ≤ n := by
  rw [maxDataForSize_eq] at hd
  have hlt : d.length < 1048576 := by split at hd <;> omega
  obtain ⟨p, hp, hpl⟩ := dataPrefix_some hlt
  refine ⟨p ++ d, by simp [encodeData, hp], ?_⟩
  simp only [List.length_append, hpl]
  rcases prefixLen_cases n with h1 | h1 | h1 <;> rcases prefixLen_cases d.length with h2 | h2 | h2 <;>
    split at hd <;> omega

/-- A larger budget never yields a smaller chunk size (the helper is monotone across the prefix-length
boundaries 64 and 8192, where it is flat for one step). -/
theorem maxData_mono (a b : Nat) (h : a ≤ b) : maxDataForSize a ≤ maxDataForSize b := by
  rw [maxDataForSize_eq, maxDataForSize_eq]
  rcases prefixLen_cases a with h1 | h1 | h1 <;> rcases prefixLen_cases b with h2 | h2 | h2 <;>
    split <;> split <;> omega

/-- The helper's answer is always an encodable chunk length (below 2^20) and, for a positive budget, leaves room
for the prefix (strictly below the budget). -/
theorem maxData_bounded (n : Nat) : maxDataForSize n < 1048576 ∧ (0 < n → maxDataForSize n < n) := by
  rw [maxDataForSize_eq]
  rcases prefixLen_cases n with h1 | h1 | h1 <;> split <;> omega

/-- The helper is within one byte of optimal: no chunk more than one byte longer fits. -/
theorem maxData_within_one (n : Nat) (hlt : n < 1048576) (d e : Bytes)
    (he : encodeData d = some e) (hfit : e.length ≤ n) : d.length ≤ maxDataForSize n + 1 := by
  rw [maxDataForSize_eq]
  have hd : d.length < 1048576 := by
    rcases Nat.lt_or_ge d.length 1048576 with h | h
    · exact h
    · simp [encodeData, dataPrefix_none h] at he
  obtain ⟨p, hp, hpl⟩ := dataPrefix_some hd
  simp only [encodeData, hp, Option.some.injEq] at he
  subst he
  simp only [List.length_append, hpl] at hfit
  simp only [hlt, if_true]
  rcases prefixLen_cases n with h1 | h1 | h1 <;> rcases prefixLen_cases d.length with h2 | h2 | h2 <;>
    omega

/-! ## Non-vacuity and the pinned behaviour (finding F5) -/

/-- The hypotheses of `roundtrip` are met by a non-trivial sequence. -/
example : ∀ i ∈ [Item.data [1, 2, 3], .pad 70, .data [], .pad 0, .data [9]], i.ok := by
  intro i hi; simp at hi; rcases hi with rfl | rfl | rfl | rfl | rfl <;> simp [Item.ok]

/-- F5 negative witness: with the pinned prefix reads (`r.Read` whose count is ignored) a
`(0, nil)` read between the two prefix bytes of the stream `c0 00` (one empty data chunk) re-uses
the stale byte; the reader reports `unexpectedEOF` instead of the empty chunk. -/
theorem pinned_zero_read_misparses :
    readAll false 8 ⟨[0xc0, 0x00], [(1, false), (0, false)]⟩ = ([], .unexpectedEOF)
    ∧ decodeAll [0xc0, 0x00] = ([[]], .eof) := by decide

/-- F5 negative witness: a final byte delivered together with `io.EOF` is dropped by the pinned
code: the stream `80` (one empty data chunk) reads as a clean EOF with no chunk. -/
theorem pinned_data_with_eof_loses_chunk :
    readAll false 8 ⟨[0x80], [(1, true)]⟩ = ([], .eof)
    ∧ decodeAll [0x80] = ([[]], .eof) := by decide

/-- The same scripts through the repaired reader agree with the pure decoder (instances of
`fragmentation_independent`, evaluated). -/
example : readAll true 8 ⟨[0xc0, 0x00], [(1, false), (0, false)]⟩ = ([[]], .eof)
    ∧ readAll true 8 ⟨[0x80], [(1, true)]⟩ = ([[]], .eof) := by decide

end Snowflake.Encap.C09
