import Snowflake.Proofs.BrokerReach
import Snowflake.Props.C03
/-!
# C04 — every broker request completes in bounded time; no ghost proxies

Theorems about the broker model `Snowflake.Model.Broker` (repaired skeleton, `fixed = true`) and
kernel-checked deadlock witnesses for the originally pinned skeleton (`fixed = false`).

Time is abstracted (timer labels are enabled at any time after arming).  "Bounded time" is therefore
proved in this form: from *every* reachable state, *every* unfinished request can be driven to its
response by at most 7 system steps (no further arrivals needed; timer firings count as system steps,
i.e. the only waits are the two protocol timeouts).  Together with the fact that no system step of
another thread disables these steps, no request can hang.
-/
namespace Snowflake.Broker.C04
open Snowflake.Broker

/-- Remaining system steps of a poll request, read off the program counters. -/
def pollRank (s : Sess) : Nat :=
  match s.h with
  | .absent => 0
  | .done => 0
  | .sendPolls => 7
  | .gotOffer _ => 1
  | .idle => 1
  | .waitOffer =>
    match s.w with
    | .select => 6
    | .timedOut => 5
    | .lateRecv => 4
    | .forward _ => 3
    | .done => 2
    | .none => 8

def clientRank (st : St) (c : Nat) : Nat :=
  match (st.cs c).pc with
  | .absent => 0
  | .done => 0
  | .start => 6
  | .sendOffer p => match (st.ss p).w with
    | .timedOut => 5
    | _ => 4
  | .waitAnswer _ => 2
  | .fin _ => 1

def ansRank (r : Ans) : Nat :=
  match r.pc with
  | .absent => 0
  | .done => 0
  | .lookup => 2
  | .send _ => 1

theorem pollRank_zero (s : Sess) (hs : SessOK s) : pollRank s = 0 ↔ (s.h = .absent ∨ s.h = .done) := by
  unfold pollRank
  cases hh : s.h <;> simp
  cases s.w <;> simp

theorem clientRank_zero (st : St) (c : Nat) :
    clientRank st c = 0 ↔ ((st.cs c).pc = .absent ∨ (st.cs c).pc = .done) := by
  unfold clientRank
  cases hh : (st.cs c).pc <;> simp
  rename_i p
  cases (st.ss p).w <;> simp

theorem ansRank_zero (r : Ans) : ansRank r = 0 ↔ (r.pc = .absent ∨ r.pc = .done) := by
  unfold ansRank
  cases hh : r.pc <;> simp

variable {st : St}

/-- Package an enabled system label whose every successor lowers the rank. -/
theorem prog_of {l : Lab} {r0 : Nat} {rank : St → Nat} (hl : l.isEnv = false)
    (he : (step true st l).isSome)
    (h : ∀ st', step true st l = some st' → rank st' < r0) :
    ∃ l st', l.isEnv = false ∧ step true st l = some st' ∧ rank st' < r0 := by
  obtain ⟨st', hs⟩ := Option.isSome_iff_exists.mp he
  exact ⟨l, st', hl, hs, h st' hs⟩

/-- One-step progress of a poll request. -/
theorem poll_progress (hi : Inv st) (p : Nat) (hu : pollRank (st.ss p) ≠ 0) :
    ∃ l st', l.isEnv = false ∧ step true st l = some st' ∧ pollRank (st'.ss p) < pollRank (st.ss p) := by
  have hp := hi.sess p
  cases hh : (st.ss p).h with
  | absent => simp [pollRank, hh] at hu
  | done => simp [pollRank, hh] at hu
  | sendPolls =>
    apply prog_of (l := .add p) (rank := fun s => pollRank (s.ss p)) rfl (by simp [step, hh])
    intro st' hs; step_cases hs <;> simp_all [pollRank]
  | gotOffer c =>
    apply prog_of (l := .hRespond p) (rank := fun s => pollRank (s.ss p)) rfl
    · simp only [step, hh]; split <;> rfl
    · intro st' hs; step_cases hs <;> simp_all [pollRank]
  | idle =>
    apply prog_of (l := .hRespond p) (rank := fun s => pollRank (s.ss p)) rfl (by simp [step, hh])
    intro st' hs; step_cases hs <;> simp_all [pollRank]
  | waitOffer =>
    cases hw : (st.ss p).w with
    | none => have := hp.wnone hw; rw [hh] at this; simp at this
    | select =>
      apply prog_of (l := .wTimer p) (rank := fun s => pollRank (s.ss p)) rfl (by simp [step, hw])
      intro st' hs; step_cases hs <;> simp_all [pollRank]
    | timedOut =>
      apply prog_of (l := .wCrit p) (rank := fun s => pollRank (s.ss p)) rfl
      · simp only [step, hw, if_true]; split <;> rfl
      · intro st' hs; step_cases hs <;> simp_all [pollRank]
    | lateRecv =>
      have h1 := hp.wwait (Or.inr (Or.inr hw))
      have h2 := hp.late hw
      have hpop : (st.ss p).popBy.isSome := by
        rcases h1.2.2.2 with e | e
        · rw [h2] at e; cases e
        · exact e
      obtain ⟨c, hc⟩ := Option.isSome_iff_exists.mp hpop
      have hk := (hi.link.popBy c p hc).1
      have hcpc : (st.cs c).pc = .sendOffer p := by
        rcases hk with e | e | e | ⟨_, _, e⟩
        · exact e
        · have := (hi.link.waitAnswer c p e).2.1; rw [h1.2.1] at this; cases this
        · have := (hi.link.fin c p e).2.1; rw [h1.2.1] at this; cases this
        · rw [h1.2.1] at e; cases e
      apply prog_of (l := .wLate p c) (rank := fun s => pollRank (s.ss p)) rfl (by simp [step, hw, hcpc])
      intro st' hs; step_cases hs <;> simp_all [pollRank]
    | forward c =>
      apply prog_of (l := .wFwd p) (rank := fun s => pollRank (s.ss p)) rfl (by simp [step, hw, hh])
      intro st' hs; step_cases hs <;> simp_all [pollRank]
    | done =>
      have := (hp.wdone hw).2 hh
      apply prog_of (l := .hIdle p) (rank := fun s => pollRank (s.ss p)) rfl (by simp [step, hh, this])
      intro st' hs; step_cases hs <;> simp_all [pollRank]

/-- One-step progress of a client request. -/
theorem client_progress {bridge : Nat → Option Nat} (hr : Reachable bridge st) (c : Nat)
    (hu : clientRank st c ≠ 0) :
    ∃ l st', l.isEnv = false ∧ step true st l = some st' ∧ clientRank st' c < clientRank st c := by
  have hi := inv_reachable hr
  cases hh : (st.cs c).pc with
  | absent => simp [clientRank, hh] at hu
  | done => simp [clientRank, hh] at hu
  | start =>
    have hr6 : clientRank st c = 6 := by simp [clientRank, hh]
    rw [hr6]
    cases hb : st.bridge (st.cs c).fp with
    | none =>
      apply prog_of (l := .cReject c) (rank := fun s => clientRank s c) rfl (by simp [step, hh, hb])
      intro st' hs; step_cases hs <;> simp_all [clientRank]
    | some u =>
      have hbs : (st.bridge (st.cs c).fp).isSome := by rw [hb]; rfl
      have hmd := C03.match_or_deny hr c hh hbs
      by_cases hex : ∃ q, waiting st (wantU (st.cs c).nat) q = true
      · obtain ⟨p, hp, _⟩ := hmd.1 hex
        apply prog_of (l := .cMatch c p) (rank := fun s => clientRank s c) rfl hp
        intro st' hs; step_cases hs
        simp only [clientRank, upd_same]
        split <;> omega
      · have hnone : ∀ q, waiting st (wantU (st.cs c).nat) q = false := by
          intro q
          cases hw : waiting st (wantU (st.cs c).nat) q with
          | false => rfl
          | true => exact absurd ⟨q, hw⟩ hex
        apply prog_of (l := .cDeny c) (rank := fun s => clientRank s c) rfl (hmd.2 hnone).1
        intro st' hs; step_cases hs <;> simp_all [clientRank]
  | sendOffer p =>
    have hk := hi.link.sendOffer c p hh
    have hp := hi.sess p
    have hpp := hp.popped (by rw [hk.1]; rfl)
    cases hw : (st.ss p).w with
    | none => exact absurd hw hpp.2
    | select =>
      apply prog_of (l := .wOffer p c) (rank := fun s => clientRank s c) rfl (by simp [step, hw, hh])
      intro st' hs; step_cases hs <;> simp_all [clientRank]
    | timedOut =>
      apply prog_of (l := .wCrit p) (rank := fun s => clientRank s c) rfl
      · simp only [step, hw, if_true]; split <;> rfl
      · intro st' hs; step_cases hs <;> simp_all [clientRank]
    | lateRecv =>
      apply prog_of (l := .wLate p c) (rank := fun s => clientRank s c) rfl (by simp [step, hw, hh])
      intro st' hs; step_cases hs <;> simp_all [clientRank]
    | forward c' =>
      have := (hp.fwd c' hw).2.1; rw [hk.2.1] at this; cases this
    | done =>
      rcases (hp.wdone hw).1 with e | e
      · have := (hp.closed e).2.2.2.2.1; rw [hk.1] at this; cases this
      · rw [hk.2.1] at e; cases e
  | waitAnswer p =>
    apply prog_of (l := .cTimer c) (rank := fun s => clientRank s c) rfl (by simp [step, hh])
    intro st' hs; step_cases hs <;> simp_all [clientRank]
  | fin p =>
    apply prog_of (l := .cFin c) (rank := fun s => clientRank s c) rfl (by simp [step, hh])
    intro st' hs; step_cases hs <;> simp_all [clientRank]

/-- One-step progress of an answer request. -/
theorem ans_progress (a : Nat) (hu : ansRank (st.as a) ≠ 0) :
    ∃ l st', l.isEnv = false ∧ step true st l = some st' ∧ ansRank (st'.as a) < ansRank (st.as a) := by
  cases hh : (st.as a).pc with
  | absent => simp [ansRank, hh] at hu
  | done => simp [ansRank, hh] at hu
  | lookup =>
    apply prog_of (l := .aLookup a) (rank := fun s => ansRank (s.as a)) rfl
    · simp only [step, hh, if_true]; split <;> rfl
    · intro st' hs; step_cases hs <;> simp_all [ansRank]
  | send p =>
    apply prog_of (l := .aSend a) (rank := fun s => ansRank (s.as a)) rfl
    · simp only [step, hh, if_true]; split <;> rfl
    · intro st' hs; step_cases hs <;> simp_all [ansRank]

/-- From one-step progress to a bounded path of system steps ending with rank 0. -/
theorem finishes_of_progress {bridge : Nat → Option Nat} (rank : St → Nat)
    (hprog : ∀ st, Reachable bridge st → rank st ≠ 0 →
      ∃ l st', l.isEnv = false ∧ step true st l = some st' ∧ rank st' < rank st) :
    ∀ n st, Reachable bridge st → rank st ≤ n →
      ∃ ls st', ls.length ≤ n ∧ (∀ l ∈ ls, l.isEnv = false) ∧ runL true st ls = some st'
        ∧ Reachable bridge st' ∧ rank st' = 0 := by
  intro n
  induction n with
  | zero =>
    intro st hr hn
    exact ⟨[], st, by simp, by simp, rfl, hr, by omega⟩
  | succ n ih =>
    intro st hr hn
    by_cases h0 : rank st = 0
    · exact ⟨[], st, by simp, by simp, rfl, hr, h0⟩
    · obtain ⟨l, st1, hl, hs, hlt⟩ := hprog st hr h0
      obtain ⟨ls, st', hlen, henv, hrun, hr', hz⟩ := ih st1 (.step l hr hs) (by omega)
      refine ⟨l :: ls, st', by simp; omega, ?_, by simp [runL, hs, hrun], hr', hz⟩
      intro x hx
      rcases List.mem_cons.mp hx with e | e
      · subst e; exact hl
      · exact henv x e

variable {bridge : Nat → Option Nat}

/-- **Every proxy poll gets its response**: from any reachable state, at most 8 system steps (the
proxy timeout being one of them) complete it — whatever the other requests do or did. -/
theorem poll_completes (hr : Reachable bridge st) (p : Nat) :
    ∃ ls st', ls.length ≤ 8 ∧ (∀ l ∈ ls, l.isEnv = false) ∧ runL true st ls = some st'
      ∧ ((st'.ss p).h = .absent ∨ (st'.ss p).h = .done) := by
  have hb : pollRank (st.ss p) ≤ 8 := by
    unfold pollRank; cases (st.ss p).h <;> simp; cases (st.ss p).w <;> simp
  obtain ⟨ls, st', h1, h2, h3, h4, h5⟩ := finishes_of_progress (bridge := bridge)
    (fun s => pollRank (s.ss p)) (fun s hs hu => poll_progress (inv_reachable hs) p hu) 8 st hr hb
  exact ⟨ls, st', h1, h2, h3, (pollRank_zero _ ((inv_reachable h4).sess p)).mp h5⟩

/-- **Every client poll gets its response** within at most 6 system steps (the client timeout being
one of them). -/
theorem client_completes (hr : Reachable bridge st) (c : Nat) :
    ∃ ls st', ls.length ≤ 6 ∧ (∀ l ∈ ls, l.isEnv = false) ∧ runL true st ls = some st'
      ∧ ((st'.cs c).pc = .absent ∨ (st'.cs c).pc = .done) := by
  have hb : clientRank st c ≤ 6 := by
    unfold clientRank; cases (st.cs c).pc <;> simp
    rename_i p; cases (st.ss p).w <;> simp
  obtain ⟨ls, st', h1, h2, h3, _, h5⟩ := finishes_of_progress (bridge := bridge)
    (fun s => clientRank s c) (fun s hs hu => client_progress hs c hu) 6 st hr hb
  exact ⟨ls, st', h1, h2, h3, (clientRank_zero _ c).mp h5⟩

/-- **Every proxy answer request gets its response** within at most 2 system steps, none of them a
timer: it never waits for anybody. -/
theorem answer_completes (hr : Reachable bridge st) (a : Nat) :
    ∃ ls st', ls.length ≤ 2 ∧ (∀ l ∈ ls, l.isEnv = false) ∧ runL true st ls = some st'
      ∧ ((st'.as a).pc = .absent ∨ (st'.as a).pc = .done) := by
  have hb : ansRank (st.as a) ≤ 2 := by unfold ansRank; cases (st.as a).pc <;> simp
  obtain ⟨ls, st', h1, h2, h3, _, h5⟩ := finishes_of_progress (bridge := bridge)
    (fun s => ansRank (s.as a)) (fun s _ hu => ans_progress a hu) 2 st hr hb
  exact ⟨ls, st', h1, h2, h3, (ansRank_zero _).mp h5⟩

/-- **The gauge is the number of registrations**, always. -/
theorem gauge_matches_map (hr : Reachable bridge st) : st.gauge = (mapCount st : Int) :=
  (inv_reachable hr).list.gauge

/-- **No ghost proxies.** Once all poll and client requests have completed, no proxy waits in either
heap, the session-id map is empty and the available-proxies gauge is 0. -/
theorem quiescent_clean (hr : Reachable bridge st)
    (hp : ∀ p, (st.ss p).h = .absent ∨ (st.ss p).h = .done)
    (hc : ∀ c, (st.cs c).pc = .absent ∨ (st.cs c).pc = .done) :
    (∀ p, (st.ss p).inHeap = false ∧ (st.ss p).inMap = false) ∧ st.gauge = 0 := by
  have hi := inv_reachable hr
  have key : ∀ p, (st.ss p).inHeap = false ∧ (st.ss p).inMap = false := by
    intro p
    have hheap : (st.ss p).inHeap = false := by
      cases hh : (st.ss p).inHeap with
      | false => rfl
      | true =>
        have := ((hi.sess p).inHeap hh).1
        rcases hp p with e | e <;> rw [e] at this <;> cases this
    refine ⟨hheap, ?_⟩
    cases hm : (st.ss p).inMap with
    | false => rfl
    | true =>
      rcases (hi.sess p).inMap hm with e | e
      · rw [hheap] at e; cases e
      · obtain ⟨c, hcp⟩ := Option.isSome_iff_exists.mp e
        rcases (hi.link.popBy c p hcp).1 with e | e | e | ⟨_, e, _⟩
        · rcases hc c with x | x <;> rw [x] at e <;> cases e
        · rcases hc c with x | x <;> rw [x] at e <;> cases e
        · rcases hc c with x | x <;> rw [x] at e <;> cases e
        · rw [hm] at e; cases e
  refine ⟨key, ?_⟩
  rw [hi.list.gauge]
  have : mapCount st = 0 := by
    unfold mapCount
    rw [List.length_eq_zero_iff, List.filter_eq_nil_iff]
    intro p _; simp [(key p).2]
  rw [this]; rfl

/-- … and a fresh client (any NAT type, a bridge the broker knows) is then told there are no
proxies: `cDeny` is enabled and no match is. -/
theorem quiescent_fresh_client_denied (hr : Reachable bridge st)
    (hp : ∀ p, (st.ss p).h = .absent ∨ (st.ss p).h = .done)
    (hc : ∀ c, (st.cs c).pc = .absent ∨ (st.cs c).pc = .done)
    (c : Nat) (nat : NatT) (fp : Nat) (st1 : St)
    (harr : step true st (.clientArrive c nat fp) = some st1) (hb : (bridge fp).isSome) :
    (step true st1 (.cDeny c)).isSome ∧ ∀ p, step true st1 (.cMatch c p) = none := by
  have hr1 : Reachable bridge st1 := .step _ hr harr
  have hq := (quiescent_clean hr hp hc).1
  have facts : st1.ss = st.ss ∧ (st1.cs c).pc = .start ∧ (st1.cs c).nat = nat ∧ (st1.cs c).fp = fp := by
    have h2 := harr; step_cases h2; simp
  obtain ⟨hss, hpc, hnat, hfp⟩ := facts
  have hnone : ∀ q, waiting st1 (wantU (st1.cs c).nat) q = false := by
    intro q; simp [waiting, hss, (hq q).1]
  have hbs : (st1.bridge (st1.cs c).fp).isSome := by
    rw [bridge_reachable hr1, hfp]; exact hb
  exact (C03.match_or_deny hr1 c hpc hbs).2 hnone

/-! ## The originally pinned skeleton deadlocks (findings F1, F2 and variants), kernel-checked -/

def b0 : Nat → Option Nat := fun fp => if fp = 0 then some 100 else none

/-- F1: the proxy timeout fires, the client pops the snowflake before the waiter's critical section:
client and poll are stuck forever, the map keeps the entry. -/
theorem pinned_poll_timeout_vs_match_deadlocks :
    (runL false (init b0) [.pollArrive 1 .unrestricted 0, .add 1, .wTimer 1, .clientArrive 101 .unknown 0,
        .cMatch 101 1, .wCrit 1]).map (fun st => (deadlocked false st, (st.ss 1).inMap)) = some (true, true) := by
  decide +kernel

/-- F2: the answer is looked up just before the client's timeout clean-up and sent after the client
stopped listening: the answer request is stuck forever. -/
theorem pinned_answer_vs_client_timeout_deadlocks :
    (runL false (init b0) [.pollArrive 1 .unrestricted 0, .add 1, .clientArrive 101 .unknown 0, .cMatch 101 1,
        .wOffer 1 101, .wFwd 1, .hRespond 1, .ansArrive 201 1, .cTimer 101, .aLookup 201, .cFin 101]).map
      (fun st => (deadlocked false st, ansUnfinished st 201)) = some (true, true) := by
  decide +kernel

/-- F2 variant: an answer posted before any client was matched, then the poll times out. -/
theorem pinned_early_answer_deadlocks :
    (runL false (init b0) [.pollArrive 1 .restricted 0, .add 1, .ansArrive 201 1, .aLookup 201, .wTimer 1,
        .wCrit 1, .hIdle 1, .hRespond 1]).map (fun st => (deadlocked false st, ansUnfinished st 201))
      = some (true, true) := by
  decide +kernel

/-- The same schedules run to completion on the repaired skeleton, leaving nothing behind. -/
theorem fixed_same_schedules_complete :
    (runL true (init b0) [.pollArrive 1 .unrestricted 0, .add 1, .wTimer 1, .clientArrive 101 .unknown 0,
        .cMatch 101 1, .wCrit 1, .wLate 1 101, .wFwd 1, .hRespond 1, .cTimer 101, .cFin 101]).map
      (fun st => (deadlocked true st, (st.ss 1).inMap, st.gauge, (st.ss 1).res)) = some (false, false, 0, .matched 101 100)
    ∧ (runL true (init b0) [.pollArrive 1 .unrestricted 0, .add 1, .clientArrive 101 .unknown 0, .cMatch 101 1,
        .wOffer 1 101, .wFwd 1, .hRespond 1, .ansArrive 201 1, .cTimer 101, .aLookup 201, .cFin 101, .aSend 201]).map
      (fun st => (deadlocked true st, ansUnfinished st 201, st.gauge)) = some (false, false, 0) := by
  decide +kernel

end Snowflake.Broker.C04
