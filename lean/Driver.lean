import Driver.Main
