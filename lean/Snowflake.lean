import Snowflake.Base.Hex
import Snowflake.Model.Encap
