-- Root of the library: every property and tie module (keep in sync with tools/props/*.py).
import Snowflake.Props.C06
import Snowflake.Props.C09
import Snowflake.Tie.Encap
import Snowflake.Tie.NameMatcher
import Snowflake.Props.C02
import Snowflake.Props.C03
import Snowflake.Props.C04
import Snowflake.Tie.Broker
import Snowflake.Props.C14
import Snowflake.Tie.BrokerHttp
