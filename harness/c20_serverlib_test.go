//go:build verif

package snowflake_server

// C20 workload, server/lib (virtual file in /repo/server/lib): objects of the package used concurrently from
// their first operation on. The C05 / C18 harnesses (also run under -race for C20) drive long-lived
// listeners and the package-level clientIDAddrMap; here every round starts from a FRESH object, so that
// state set up lazily or published without synchronisation is met by concurrent first users.

import (
	"fmt"
	"net"
	"sync"
	"testing"

	"git.torproject.org/pluggable-transports/snowflake.git/v2/common/turbotunnel"
	vh "git.torproject.org/pluggable-transports/snowflake.git/v2/common/zzverif"
)

func TestVerifC20Server(t *testing.T) {
	r := vh.Start("C20")
	defer r.Finish()
	rounds := r.N(40, 400)
	for k := 0; k < rounds; k++ {
		capacity := []int{1, 2, 8, 64}[k%4]
		m := newClientIDMap(capacity)
		ids := make([]turbotunnel.ClientID, 6)
		for i := range ids {
			ids[i] = turbotunnel.NewClientID()
		}
		start := make(chan struct{})
		var wg sync.WaitGroup
		bad := make(chan string, 16)
		for g := 0; g < 3; g++ { // carriers recording the address of the ClientID they serve (turbotunnelMode)
			wg.Add(1)
			go func(g int) {
				defer wg.Done()
				<-start
				for j := 0; j < 20; j++ {
					i := (g + j) % len(ids)
					m.Set(ids[i], &net.TCPAddr{IP: net.IPv4(10, 0, byte(i), 1), Port: 1000 + i})
				}
			}(g)
		}
		for g := 0; g < 3; g++ { // accepted streams asking for the address of their ClientID (acceptStreams)
			wg.Add(1)
			go func(g int) {
				defer wg.Done()
				<-start
				for j := 0; j < 20; j++ {
					i := (g*2 + j) % len(ids)
					if a, ok := m.Get(ids[i]); ok && a != nil {
						if want := fmt.Sprintf("10.0.%d.1:%d", i, 1000+i); a.String() != want {
							select {
							case bad <- fmt.Sprintf("Get(id %d) = %s, want %s or nothing", i, a, want):
							default:
							}
						}
					}
				}
			}(g)
		}
		close(start)
		wg.Wait()
		close(bad)
		line := fmt.Sprintf("fresh clientIDMap capacity %d, 3 setters x 3 getters from the first operation on, round %d", capacity, k)
		r.Case("server/fresh-client-id-map", line, true)
		for b := range bad {
			r.OracleFail("client-id-map-wrong-address", line, b, "a lookup returns the address recorded for that ClientID or none")
		}
	}
}
