//go:build verif

package ipsetsink

// C19 harness, sink side (virtual file in /repo/common/ipsetsink via -overlay):
// the sketch counts distinct addresses (exact regime), survives Dump/GobDecode, is emptied by
// Reset, and its dump is a function of the keyed hashes of the addresses only.

import (
	"bytes"
	"crypto/hmac"
	"encoding/binary"
	"fmt"
	"sort"
	"strings"
	"testing"

	vh "git.torproject.org/pluggable-transports/snowflake.git/v2/common/zzverif"
	"github.com/clarkduvall/hyperloglog"
	"golang.org/x/crypto/sha3"
)

type c19h64 uint64

func (h c19h64) Sum64() uint64 { return uint64(h) }

// c19mask recomputes the masked value independently of sink.go: first 8 bytes (big endian) of
// HMAC-SHA3-256(key, address).
func c19mask(key, addr string) uint64 {
	m := hmac.New(sha3.New256, []byte(key))
	m.Write([]byte(addr))
	return binary.BigEndian.Uint64(m.Sum(nil)[:8])
}

// c19sparseCollision: the sketch's sparse mode distinguishes values by their top 25 bits; a set in
// which two masked values share them is outside the exact regime.
func c19sparseCollision(hs map[uint64]bool) bool {
	seen := map[uint64]bool{}
	for h := range hs {
		if seen[h>>39] {
			return true
		}
		seen[h>>39] = true
	}
	return false
}

func c19genAddr(r *vh.Run) string {
	rng := r.Rng
	switch rng.Intn(4) {
	case 0:
		return fmt.Sprintf("%d.%d.%d.%d", rng.Intn(256), rng.Intn(256), rng.Intn(4), rng.Intn(4))
	case 1:
		return fmt.Sprintf("2001:db8::%x:%x", rng.Intn(8), rng.Intn(65536))
	case 2:
		return fmt.Sprintf("10.0.0.%d", rng.Intn(12))
	}
	return fmt.Sprintf("192.0.2.%d", rng.Intn(256))
}

// canon brings a decoded sketch into its canonical serialised form (Count() folds the pending
// insertions into the sorted sparse list, after which GobEncode is deterministic).
func c19canon(dump []byte) ([]byte, uint64, error) {
	h, _ := hyperloglog.NewPlus(18)
	if err := h.GobDecode(dump); err != nil {
		return nil, 0, err
	}
	n := h.Count()
	b, err := h.GobEncode()
	return b, n, err
}

func TestVerifC19Sink(t *testing.T) {
	r := vh.Start("C19")
	defer r.Finish()
	rng := r.Rng
	keys := []string{"demo", "", "k\x00ey", strings.Repeat("K", 200)}
	for i := 0; i < r.N(400, 8000); i++ {
		key := keys[rng.Intn(len(keys))]
		sink := NewIPSetSink(key)
		n := rng.Intn(60)
		if i%10 == 0 {
			n = rng.Intn(3)
		}
		var addrs []string
		distinct := map[string]bool{}
		hashes := map[uint64]bool{}
		for j := 0; j < n; j++ {
			a := c19genAddr(r)
			if len(addrs) > 0 && rng.Intn(3) == 0 {
				a = addrs[rng.Intn(len(addrs))] // repeat
			}
			addrs = append(addrs, a)
			distinct[a] = true
			hashes[c19mask(key, a)] = true
			sink.AddIPToSet(a)
			// the sink's own masking = the independent recomputation
			if got := (truncatedHash64FromBytes{hashValue(sink.maskIPAddress(a))}).Sum64(); got != c19mask(key, a) {
				r.OracleFail("sink-mask-not-hmac", fmt.Sprintf("key=%q addr=%q", key, a), fmt.Sprintf("%x", got), "masked value must be HMAC-SHA3-256(key, addr) truncated to 64 bits")
			}
		}
		caseLine := fmt.Sprintf("sink key=%q addrs=%s", key, strings.Join(addrs, ","))
		if len(hashes) != len(distinct) || c19sparseCollision(hashes) {
			r.Skip("masked values collide in the sketch's sparse index (outside the exact regime): " + caseLine)
			continue
		}
		r.Case(fmt.Sprintf("sink/n=%d", (len(distinct)+9)/10*10), caseLine, len(addrs) > 0)
		dump, err := sink.Dump()
		if err != nil {
			r.OracleFail("sink-dump-error", caseLine, err.Error(), "Dump must succeed")
			continue
		}
		canon, cnt, err := c19canon(dump)
		if err != nil {
			r.OracleFail("sink-dump-undecodable", caseLine, err.Error(), "a dump must decode")
			continue
		}
		// model: the journal model's chunk for this set, counted over an all-inclusive window
		ids := map[string]int{}
		var vs []string
		for _, a := range addrs {
			if _, ok := ids[a]; !ok {
				ids[a] = len(ids)
			}
			vs = append(vs, fmt.Sprint(ids[a]))
		}
		set := "-"
		if len(vs) > 0 {
			set = strings.Join(vs, ".")
		}
		line := fmt.Sprintf("c19 count 0 10 1:2:%s", set)
		r.Compare("sink-count", line+" | "+caseLine, fmt.Sprintf("%d 1", cnt), r.Model(line))
		if cnt != uint64(len(distinct)) {
			r.OracleFail("sink-count-not-distinct", caseLine, fmt.Sprint(cnt), fmt.Sprintf("the dumped sketch must count the %d distinct addresses (exact regime)", len(distinct)))
		}
		// only hashes are stored: the dump equals the dump of a sketch fed with the masked values alone
		ref, _ := hyperloglog.NewPlus(18)
		var hs []uint64
		for h := range hashes {
			hs = append(hs, h)
		}
		sort.Slice(hs, func(a, b int) bool { return hs[a] < hs[b] })
		for _, h := range hs {
			ref.Add(c19h64(h))
		}
		ref.Count()
		refb, _ := ref.GobEncode()
		if !bytes.Equal(canon, refb) {
			r.OracleFail("sink-dump-not-function-of-hashes", caseLine, fmt.Sprintf("%d bytes vs %d bytes", len(canon), len(refb)),
				"the dumped sketch must be exactly the sketch of the masked values (nothing else stored)")
		}
		for a := range distinct {
			if len(a) >= 7 && bytes.Contains(dump, []byte(a)) {
				r.OracleFail("sink-dump-contains-address", caseLine, a, "the dump must not contain an address in clear")
			}
		}
		// a different key gives a different mask (the journal is useless without the key)
		if len(addrs) > 0 && c19mask(key, addrs[0]) == c19mask(key+"x", addrs[0]) {
			r.OracleFail("sink-mask-ignores-key", caseLine, addrs[0], "mask must depend on the key")
		}
		// Reset empties the sketch
		sink.Reset()
		d2, _ := sink.Dump()
		if _, c2, err := c19canon(d2); err != nil || c2 != 0 {
			r.OracleFail("sink-reset-not-empty", caseLine, fmt.Sprint(c2, err), "after Reset the sketch must be empty")
		}
	}
}
