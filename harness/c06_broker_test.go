//go:build verif

package main

// C06 harness, broker side: CheckProxyRelayPattern and the rejection path of IPC.ProxyPolls.

import (
	"encoding/json"
	"fmt"
	"math/rand"
	"strings"
	"testing"
	"time"

	"git.torproject.org/pluggable-transports/snowflake.git/v2/common/messages"
	"git.torproject.org/pluggable-transports/snowflake.git/v2/common/namematcher"
	vh "git.torproject.org/pluggable-transports/snowflake.git/v2/common/zzverif"
)

const c06DefaultBridge = `{"displayName":"default", "webSocketAddress":"wss://snowflake.torproject.net/", "fingerprint":"2B280B23E1107BB62ABFC40DDCC8824814F80A72"}` + "\n"

var c06bparts = []string{"a", "b", ".", "net", "snowflake", "torproject", "-", "x", ""}

func c06bhost(rng *rand.Rand) string {
	if rng.Intn(4) == 0 {
		return "snowflake.torproject.net"
	}
	s := ""
	for i, n := 0, rng.Intn(5); i < n; i++ {
		s += c06bparts[rng.Intn(len(c06bparts))]
	}
	return s
}

func c06bpattern(rng *rand.Rand, host string) string {
	p := host
	switch rng.Intn(4) {
	case 0:
		p = c06bhost(rng)
	case 1, 2:
		if len(host) > 0 {
			p = host[rng.Intn(len(host)):]
		}
	}
	if rng.Intn(3) == 0 {
		p = "^" + p
	}
	if rng.Intn(4) != 0 {
		p += "$"
	}
	return p
}

func TestVerifC06Broker(t *testing.T) {
	r := vh.Start("C06")
	defer r.Finish()
	rng := r.Rng
	nPolls := 0
	var ctx *BrokerContext
	var curAllowed, curPresumed string
	for i := 0; i < r.N(1500, 20000); i++ {
		h := c06bhost(rng)
		allowed, presumed, pattern := c06bpattern(rng, h), c06bpattern(rng, h), c06bpattern(rng, h)
		nonSupported := rng.Intn(3) == 0
		// a broker keeps its configuration for a while: several polls with different patterns and
		// legacy flags are judged by the same context, reconfigured through the public path
		if ctx == nil || rng.Intn(6) == 0 {
			ctx = NewBrokerContext(NullLogger())
			curAllowed, curPresumed = allowed, presumed
			if err := ctx.InstallBridgeListProfile(strings.NewReader(c06DefaultBridge), allowed, presumed); err != nil {
				t.Fatal(err)
			}
		} else if rng.Intn(5) == 0 {
			curAllowed, curPresumed = allowed, presumed
			if err := ctx.InstallBridgeListProfile(strings.NewReader(c06DefaultBridge), allowed, presumed); err != nil {
				t.Fatal(err)
			}
		}
		allowed, presumed = curAllowed, curPresumed
		if rng.Intn(4) == 0 {
			pattern = []string{"", "$", "^"}[rng.Intn(3)] // what a proxy without a restriction sends
		}
		got := ctx.CheckProxyRelayPattern(pattern, nonSupported)
		ns := "0"
		if nonSupported {
			ns = "1"
		}
		line := fmt.Sprintf("c06 broker %s %s %s %s", vh.Hex([]byte(allowed)), vh.Hex([]byte(presumed)), vh.Hex([]byte(pattern)), ns)
		r.Case(fmt.Sprintf("brokercheck/%v/legacy=%v", got, nonSupported), line, true)
		r.Compare("brokercheck", line, fmt.Sprint(got), r.Model(line))
		// oracle: an accepted poll's effective pattern accepts every host the allowed pattern accepts
		eff := pattern
		if nonSupported {
			eff = presumed
		}
		am, em := namematcher.NewNameMatcher(allowed), namematcher.NewNameMatcher(eff)
		for _, host := range []string{h, c06bhost(rng), "x" + h} {
			if got && am.IsMember(host) && !em.IsMember(host) {
				r.OracleFail("broker-accepts-non-superset", fmt.Sprintf("allowed=%q presumed=%q pattern=%q legacy=%v host=%q", allowed, presumed, pattern, nonSupported, host),
					"accepted", "the broker accepted a poll whose pattern does not accept a hostname inside the broker's allowed pattern")
			}
		}
		// the real poll path, for a sample: a rejected poll gets the explicit status at once and is never registered
		if i%10 == 0 && nPolls < r.N(150, 1500) {
			nPolls++
			// the real poll path on a fresh context with the same configuration, preceded by the
			// same kind of earlier traffic (an unrestricted proxy's poll)
			ctx := NewBrokerContext(NullLogger())
			if err := ctx.InstallBridgeListProfile(strings.NewReader(c06DefaultBridge), allowed, presumed); err != nil {
				t.Fatal(err)
			}
			ctx.CheckProxyRelayPattern("", false)
			ctx.CheckProxyRelayPattern(pattern, !nonSupported)
			ipc := &IPC{ctx}
			go ctx.Broker()
			var body []byte
			var err error
			if nonSupported {
				// a legacy proxy sends no AcceptedRelayPattern member at all
				body = []byte(fmt.Sprintf(`{"Sid":"sid%d","Version":"1.2","Type":"standalone","NAT":"unrestricted","Clients":0}`, i))
			} else if i%20 == 0 {
				body, err = messages.EncodeProxyPollRequestWithRelayPrefix(fmt.Sprintf("sid%d", i), "standalone", "unrestricted", 0, pattern)
			} else {
				// a proxy that states its pattern is judged by it whatever 1.x version it announces
				ver := []string{"1.0", "1.1", "1.2", "1.3", "1", "1.10", "1.x"}[rng.Intn(7)]
				pj, _ := json.Marshal(pattern)
				body = []byte(fmt.Sprintf(`{"Sid":"sid%d","Version":%q,"Type":"standalone","NAT":"unrestricted","Clients":0,"AcceptedRelayPattern":%s}`, i, ver, pj))
			}
			if err != nil {
				t.Fatal(err)
			}
			done := make(chan []byte, 1)
			go func() {
				var resp []byte
				ipc.ProxyPolls(messages.Arg{Body: body, RemoteAddr: "1.2.3.4:5"}, &resp)
				done <- resp
			}()
			var resp []byte
			returned := false
			select {
			case resp = <-done:
				returned = true
			case <-time.After(150 * time.Millisecond):
			}
			ctx.snowflakeLock.Lock()
			registered := ctx.snowflakes.Len() + ctx.restrictedSnowflakes.Len() + len(ctx.idToSnowflake)
			ctx.snowflakeLock.Unlock()
			pl := fmt.Sprintf("poll allowed=%q presumed=%q pattern=%q legacy=%v", allowed, presumed, pattern, nonSupported)
			r.Case(fmt.Sprintf("poll/accepted=%v", got), pl, true)
			if !got {
				status := ""
				if returned {
					_, _, _, _ = resp, status, registered, pl
					_, _, _, perr := messages.DecodePollResponseWithRelayURL(resp)
					if perr != nil {
						status = perr.Error()
					}
				}
				if !returned || status != "incorrect relay pattern" || registered != 0 {
					r.OracleFail("rejected-poll-not-refused", pl, fmt.Sprintf("returned=%v status=%q registered=%d", returned, status, registered),
						"a poll whose pattern is not a superset must be answered with 'incorrect relay pattern' and never be registered")
				}
			} else {
				if returned || registered == 0 {
					r.OracleFail("accepted-poll-not-registered", pl, fmt.Sprintf("returned=%v registered=%d", returned, registered),
						"an accepted poll must be waiting in the pool (model: registered)")
				}
			}
		}
	}
}
