//go:build verif

package turbotunnel

// C20 workload, turbotunnel adapters (virtual file in /repo/common/turbotunnel; run with -race): the way the
// server drives them — many WebSocket carrier goroutines calling QueueIncoming and draining OutgoingQueue,
// KCP calling ReadFrom / WriteTo, queues running full (drops), the client map's periodic sweep with a short
// timeout, Close during traffic — and the way the client drives RedialPacketConn (KCP reads and writes while
// carriers fail and are replaced, Close during a redial).  The oracle is the race detector.

import (
	"context"
	"errors"
	"fmt"
	"net"
	"sync"
	"sync/atomic"
	"testing"
	"time"

	vh "git.torproject.org/pluggable-transports/snowflake.git/v2/common/zzverif"
)

type c20addr string

func (a c20addr) Network() string { return "c20" }
func (a c20addr) String() string  { return string(a) }

type c20carrier struct {
	in     chan []byte
	closed chan struct{}
	once   sync.Once
	failAt int32
	n      int32
}

func (c *c20carrier) ReadFrom(p []byte) (int, net.Addr, error) {
	select {
	case b := <-c.in:
		return copy(p, b), c20addr("peer"), nil
	case <-c.closed:
		return 0, nil, errors.New("c20 carrier closed")
	}
}
func (c *c20carrier) WriteTo(p []byte, a net.Addr) (int, error) {
	if atomic.AddInt32(&c.n, 1) > c.failAt {
		return 0, errors.New("c20 carrier write failed")
	}
	select {
	case c.in <- append([]byte{}, p...): // echo
	default:
	}
	return len(p), nil
}
func (c *c20carrier) Close() error                     { c.once.Do(func() { close(c.closed) }); return nil }
func (c *c20carrier) LocalAddr() net.Addr              { return c20addr("local") }
func (c *c20carrier) SetDeadline(time.Time) error      { return nil }
func (c *c20carrier) SetReadDeadline(time.Time) error  { return nil }
func (c *c20carrier) SetWriteDeadline(time.Time) error { return nil }

func TestVerifC20Turbotunnel(t *testing.T) {
	r := vh.Start("C20")
	defer r.Finish()

	// 1. server side: QueuePacketConn under carriers, KCP and overflow
	for round := 0; round < r.N(3, 20); round++ {
		c := NewQueuePacketConn(c20addr("server"), 40*time.Millisecond)
		var wg sync.WaitGroup
		stop := make(chan struct{})
		var in, out, got int64
		nClients := 4
		for g := 0; g < 6; g++ { // carriers: incoming packets, and draining the client's outgoing queue
			wg.Add(1)
			go func(g int) {
				defer wg.Done()
				addr := c20addr(fmt.Sprintf("client-%d", g%nClients))
				_ = c.OutgoingQueue(addr)
				for k := 0; ; k++ {
					select {
					case <-stop:
						return
					default:
					}
					c.QueueIncoming([]byte{byte(g), byte(k)}, addr)
					atomic.AddInt64(&in, 1)
					if round%2 == 0 { // odd rounds: nobody drains, the send queues run full
						// the queue is looked up anew at every turn, as turbotunnelMode's write loop does
						// (two carriers of one client look the same record up at the same time)
						select {
						case _, ok := <-c.OutgoingQueue(addr):
							if ok {
								atomic.AddInt64(&got, 1)
							}
						default:
						}
					} else if k%64 == 0 {
						_ = c.OutgoingQueue(addr)
					}
				}
			}(g)
		}
		for g := 0; g < 3; g++ { // KCP: writes to the clients; reads only in even rounds (odd: the receive queue runs full)
			wg.Add(1)
			go func(g int) {
				defer wg.Done()
				for k := 0; ; k++ {
					select {
					case <-stop:
						return
					default:
					}
					c.WriteTo([]byte{9, byte(k)}, c20addr(fmt.Sprintf("client-%d", k%nClients)))
					atomic.AddInt64(&out, 1)
				}
			}(g)
		}
		readerDone := make(chan struct{})
		go func() { // KCP's reader; ends when the connection is closed
			defer close(readerDone)
			buf := make([]byte, 64)
			for {
				if round%2 == 1 {
					select { // odd rounds: no reader until shutdown
					case <-stop:
					case <-time.After(time.Second):
					}
				}
				if _, _, err := c.ReadFrom(buf); err != nil {
					return
				}
			}
		}()
		time.Sleep(time.Duration(r.N(150, 400)) * time.Millisecond)
		if round%3 == 2 {
			c.Close() // shutdown during traffic
		}
		close(stop)
		wg.Wait()
		// a quiet client whose record has not been touched for a while (but has not expired) is looked up by several
		// carriers at the same moment - the state in which a lookup refreshes the record
		if round%3 != 2 {
			quiet := c20addr("quiet-client")
			for rep := 0; rep < 4; rep++ {
				c.WriteTo([]byte{7}, quiet)
				time.Sleep(15 * time.Millisecond) // timeout 40 ms: stale, not expired
				start := make(chan struct{})
				var lw sync.WaitGroup
				for g := 0; g < 4; g++ {
					lw.Add(1)
					go func() { defer lw.Done(); <-start; _ = c.OutgoingQueue(quiet) }()
				}
				close(start)
				lw.Wait()
			}
		}
		c.Close()
		<-readerDone
		r.Case("turbotunnel/queuepacketconn", fmt.Sprintf("round %d drain=%v in=%d out=%d", round, round%2 == 0, atomic.LoadInt64(&in), atomic.LoadInt64(&out)), true)
	}

	// 2. client side: RedialPacketConn with carriers that fail after a few writes, Close during traffic
	for round := 0; round < r.N(3, 20); round++ {
		var dials int32
		dial := func(ctx context.Context) (net.PacketConn, error) {
			n := atomic.AddInt32(&dials, 1)
			if n > 12 {
				<-ctx.Done()
				return nil, ctx.Err()
			}
			return &c20carrier{in: make(chan []byte, 16), closed: make(chan struct{}), failAt: 3 + n%5}, nil
		}
		c := NewRedialPacketConn(c20addr("local"), c20addr("remote"), dial)
		var wg sync.WaitGroup
		for g := 0; g < 3; g++ {
			wg.Add(2)
			go func() {
				defer wg.Done()
				for k := 0; k < 400; k++ {
					if _, err := c.WriteTo([]byte{1, byte(k)}, c20addr("remote")); err != nil {
						return
					}
				}
			}()
			go func() {
				defer wg.Done()
				buf := make([]byte, 64)
				for {
					if _, _, err := c.ReadFrom(buf); err != nil {
						return // closed
					}
				}
			}()
		}
		time.Sleep(time.Duration(20+10*round) * time.Millisecond)
		c.Close()
		done := make(chan struct{})
		go func() { wg.Wait(); close(done) }()
		select {
		case <-done:
		case <-time.After(20 * time.Second):
			r.OracleFail("c20-redial-users-stuck", fmt.Sprintf("round %d", round), "readers / writers did not return after Close", "")
		}
		r.Case("turbotunnel/redialpacketconn", fmt.Sprintf("round %d dials=%d", round, atomic.LoadInt32(&dials)), true)
	}
}
