//go:build verif

package main

// C11 harness, broker side: the AMP endpoint (/amp/client/…) answers, armored, exactly what the POST
// endpoint (/client) answers for the same poll.

import (
	"bytes"
	"encoding/hex"
	"fmt"
	"io"
	"log"
	"math/rand"
	"net/http"
	"net/http/httptest"
	"net/url"
	"strings"
	"testing"
	"time"

	"git.torproject.org/pluggable-transports/snowflake.git/v2/common/amp"
	"git.torproject.org/pluggable-transports/snowflake.git/v2/common/messages"
	vh "git.torproject.org/pluggable-transports/snowflake.git/v2/common/zzverif"
)

type c11Resp struct {
	code int
	body []byte
	ct   string
	out  string // "ok" | "panic:…" | "blocked"
}

// c11Serve runs a handler under recover and a deadline.  When withProxy is set a fake proxy is put into
// the pool the client will draw from and answers every offer with `answer`.
func c11Serve(i *IPC, h func(*IPC, http.ResponseWriter, *http.Request), req *http.Request, withProxy bool, answer string) c11Resp {
	if withProxy {
		for _, nat := range []string{NATUnrestricted, NATRestricted} {
			sf := i.ctx.AddSnowflake(fmt.Sprintf("fake-%s-%d", nat, time.Now().UnixNano()), "standalone", nat, 0)
			go func(sf *Snowflake) {
				select {
				case <-sf.offerChannel:
					sf.answerChannel <- answer
				case <-time.After(3 * time.Second):
				}
			}(sf)
		}
	}
	w := httptest.NewRecorder()
	done := make(chan string, 1)
	go func() {
		defer func() {
			if x := recover(); x != nil {
				done <- fmt.Sprintf("panic:%v", x)
			}
		}()
		h(i, w, req)
		done <- "ok"
	}()
	var out string
	select {
	case out = <-done:
	case <-time.After(30 * time.Second):
		return c11Resp{out: "blocked"}
	}
	if withProxy {
		// drop whatever fake proxy was not used
		i.ctx.snowflakeLock.Lock()
		for i.ctx.snowflakes.Len() > 0 {
			i.ctx.snowflakes.Pop()
		}
		for i.ctx.restrictedSnowflakes.Len() > 0 {
			i.ctx.restrictedSnowflakes.Pop()
		}
		i.ctx.idToSnowflake = make(map[string]*Snowflake)
		i.ctx.snowflakeLock.Unlock()
	}
	return c11Resp{code: w.Code, body: w.Body.Bytes(), ct: w.Header().Get("Content-Type"), out: out}
}

func c11Canon(r c11Resp) string {
	if r.out != "ok" {
		return r.out
	}
	if r.code != 200 {
		return fmt.Sprintf("status %d", r.code)
	}
	return "ok " + vh.Hex(r.body)
}

func c11Unarmor(b []byte) ([]byte, error) {
	dec, err := amp.NewArmorDecoder(bytes.NewReader(b))
	if err != nil {
		return nil, err
	}
	return io.ReadAll(dec)
}

func c11Offer(rng *rand.Rand) string {
	switch rng.Intn(6) {
	case 0:
		return ""
	case 1:
		return "fake"
	case 2:
		return `{"type":"offer","sdp":"v=0\r\no=- 1 2 IN IP4 0.0.0.0\r\n"}`
	case 3:
		b := make([]byte, rng.Intn(60))
		for i := range b {
			b[i] = byte(32 + rng.Intn(95))
		}
		return string(b)
	case 4:
		return "snow☃flake \"quoted\" \\ <html> & \x00  "
	}
	return strings.Repeat("x", rng.Intn(3000))
}

func c11PollBody(rng *rand.Rand) (body []byte, class string) {
	fps := []string{"", "2B280B23E1107BB62ABFC40DDCC8824814F80A72", "2b280b23e1107bb62abfc40ddcc8824814f80a72", "0000000000000000000000000000000000000000", "zz", "2B28", "2B280B23E1107BB62ABFC40DDCC8824814F80A7200"}
	nats := []string{"unknown", "restricted", "unrestricted", "", "bogus"}
	switch rng.Intn(10) {
	case 0:
		return nil, "empty"
	case 1:
		b := make([]byte, 1+rng.Intn(40))
		rng.Read(b)
		if b[0] == '{' {
			b[0] = '['
		}
		return b, "random"
	case 2:
		return []byte("2.0\n{\"offer\":\"fake\",\"nat\":\"unknown\"}"), "wrong-version"
	case 3:
		return []byte("1.0\n{\"offer\":\"fake\",\"nat\":"), "bad-json"
	case 4:
		return []byte("1.0 {\"offer\":\"fake\"}"), "no-newline"
	}
	req := &messages.ClientPollRequest{Offer: c11Offer(rng), NAT: nats[rng.Intn(len(nats))], Fingerprint: fps[rng.Intn(len(fps))]}
	b, err := req.EncodeClientPollRequest()
	if err != nil {
		return []byte("1.0\n{}"), "unencodable"
	}
	return b, "poll"
}

func TestVerifC11Broker(t *testing.T) {
	r := vh.Start("C11")
	defer r.Finish()
	rng := r.Rng
	log.SetOutput(io.Discard)
	ctx := NewBrokerContext(NullLogger())
	i := &IPC{ctx}

	// the literal of the model
	if want, err := (&messages.ClientPollResponse{Error: "cannot decode URL path"}).EncodePollResponse(); err != nil || string(want) != `{"error":"cannot decode URL path"}` {
		r.OracleFail("cannot-decode-literal", "EncodePollResponse", string(want), "the model's literal for the path-decode failure response no longer matches")
	}

	type pollCase struct {
		body  []byte
		class string
	}
	var cases []pollCase
	for k := 0; k < r.N(400, 6000); k++ {
		b, c := c11PollBody(rng)
		cases = append(cases, pollCase{b, c})
	}
	// sizes around the POST read limit, and legacy bodies
	for _, n := range []int{readLimit - 1, readLimit, readLimit + 1, readLimit + 2, 2 * readLimit} {
		req := &messages.ClientPollRequest{Offer: "", NAT: "unknown"}
		b, _ := req.EncodeClientPollRequest()
		pad := n - len(b)
		req.Offer = strings.Repeat("o", pad)
		b, _ = req.EncodeClientPollRequest()
		cases = append(cases, pollCase{b, fmt.Sprintf("size%+d", len(b)-readLimit)})
	}
	cases = append(cases, pollCase{[]byte(`{"type":"offer","sdp":"x"}`), "legacy"}, pollCase{[]byte("{"), "legacy"})

	for k, c := range cases {
		withProxy := k%3 == 0
		answer := fmt.Sprintf("answer-%d \"q\" ☃", k)
		post := c11Serve(i, clientOffers, httptest.NewRequest("POST", "/client", bytes.NewReader(c.body)), withProxy, answer)
		var ampReq *http.Request
		ampPath := "/amp/client/" + amp.EncodePath(c.body)
		if k%4 == 1 {
			// arbitrary padding in front of the data, set on the parsed path directly
			pre := make([]byte, rng.Intn(20))
			for j := range pre {
				pre[j] = "/ab%?#\x00é"[rng.Intn(9)]
			}
			ampPath = "/amp/client/0" + string(pre) + "/" + strings.SplitN(amp.EncodePath(c.body), "/", 2)[1]
		}
		ampReq = &http.Request{Method: "GET", URL: &url.URL{Path: ampPath}, Header: http.Header{}}
		if k%4 == 3 || k%4 == 2 && rng.Intn(2) == 0 {
			// the request target as an intermediary may re-escape it: some characters of the data segment
			// percent-encoded (an RFC 3986-equivalent spelling of the same path), parsed like net/http parses it
			var raw strings.Builder
			for j := 0; j < len(ampPath); j++ {
				ch := ampPath[j]
				if j >= len("/amp/client/") && ch != '/' && rng.Intn(6) == 0 {
					fmt.Fprintf(&raw, "%%%02X", ch)
				} else {
					raw.WriteByte(ch)
				}
			}
			if u, err := url.ParseRequestURI(raw.String()); err == nil && u.Path == ampPath {
				ampReq.URL = u
			}
		}
		// what caches and browsers add to a GET: conditional and range headers must not change the answer
		hdrCase := ""
		switch k := rng.Intn(8); k {
		case 0:
			ampReq.Header.Set("Range", "bytes=0-15")
			hdrCase = "Range"
		case 1:
			ampReq.Header.Set("If-None-Match", "*")
			hdrCase = "If-None-Match"
		case 2:
			ampReq.Header.Set("If-Match", `"some-etag"`)
			hdrCase = "If-Match"
		case 3:
			ampReq.Header.Set("If-Modified-Since", "Mon, 02 Jan 2006 15:04:05 GMT")
			ampReq.Header.Set("If-Range", `"x"`)
			ampReq.Header.Set("Range", "bytes=5-")
			hdrCase = "If-Modified-Since+If-Range+Range"
		case 4:
			ampReq.Header.Set("Accept-Encoding", "gzip, br")
			ampReq.Header.Set("Cache-Control", "no-cache")
			hdrCase = "Accept-Encoding+Cache-Control"
		}
		ampR := c11Serve(i, ampClientOffers, ampReq, withProxy, answer)

		caseLine := fmt.Sprintf("poll=%s path=%s proxy=%v", hex.EncodeToString(c.body), hex.EncodeToString([]byte(ampPath)), withProxy)
		if hdrCase != "" {
			caseLine += " GET headers: " + hdrCase
		}
		cls := c.class
		if withProxy {
			cls += "/proxy"
		}
		r.Case(fmt.Sprintf("broker/%s/post=%d/amp=%d", cls, post.code, ampR.code), caseLine, true)

		if post.out != "ok" || ampR.out != "ok" {
			if c.class != "legacy" { // the POST endpoint panics on unknown legacy errors by design ("unknown error")
				r.OracleFail("broker-handler-"+strings.SplitN(post.out+ampR.out, ":", 2)[0], caseLine, post.out+" / "+ampR.out, "handlers must return")
			}
			continue
		}
		// correspondence with the model: the core's response is what POST wrote (or an error for 500)
		core := "!"
		if post.code == 200 {
			core = vh.Hex(post.body)
		}
		legacyOrLong := c.class == "legacy" || len(c.body) > readLimit
		if !legacyOrLong {
			pl := fmt.Sprintf("c11 post %s %s", vh.Hex(c.body), core)
			r.Compare("clientOffers", pl, c11Canon(post), r.Model(pl))
			al := fmt.Sprintf("c11 amp %s %s", vh.Hex([]byte(ampPath)), core)
			r.Compare("ampClientOffers", al, c11Canon(ampR), r.Model(al))
		} else if len(c.body) > readLimit {
			pl := fmt.Sprintf("c11 post %s !", vh.Hex(c.body))
			r.Compare("clientOffers-limit", pl, c11Canon(post), r.Model(pl))
		}
		// oracle: AMP = armor(POST)
		if legacyOrLong {
			continue
		}
		switch post.code {
		case 200:
			got, err := c11Unarmor(ampR.body)
			if ampR.code != 200 || err != nil || !bytes.Equal(got, post.body) {
				r.OracleFail("amp-equals-post", caseLine, fmt.Sprintf("post=%q amp(code %d, err %v)=%q", post.body, ampR.code, err, got),
					"the AMP endpoint must return, armored, exactly the POST endpoint's response")
			}
			if ampR.ct != "text/html" {
				r.OracleFail("amp-content-type", caseLine, ampR.ct, "AMP responses are text/html")
			}
		default:
			if ampR.code != post.code {
				r.OracleFail("amp-equals-post-status", caseLine, fmt.Sprintf("post=%d amp=%d", post.code, ampR.code), "an error of the poll handler must surface as the same HTTP error on both endpoints")
			}
		}
	}

	// undecodable paths: armored "cannot decode URL path" with status 200; wrong routing prefix: 500
	for _, p := range []string{"/amp/client/", "/amp/client/bad", "/amp/client/1abc/YQ", "/amp/client/0abc", "/amp/client/0abc/!!", "/amp/client/0abc/YQ==", "/amp/clientx/0abc/YQ", "/client", "", "/amp/client"} {
		ampR := c11Serve(i, ampClientOffers, &http.Request{Method: "GET", URL: &url.URL{Path: p}, Header: http.Header{}}, false, "")
		al := fmt.Sprintf("c11 amp %s !", vh.Hex([]byte(p)))
		r.Case("broker/badpath/"+fmt.Sprint(ampR.code), al, true)
		r.Compare("ampClientOffers-badpath", al, c11Canon(ampR), r.Model(al))
		if strings.HasPrefix(p, "/amp/client/") {
			got, err := c11Unarmor(ampR.body)
			if ampR.code != 200 || err != nil || string(got) != `{"error":"cannot decode URL path"}` {
				r.OracleFail("amp-undecodable-path", al, fmt.Sprintf("%d %q %v", ampR.code, got, err), "an undecodable path must give the armored error response")
			}
		}
	}
}
