//go:build verif

package main

// Harness for the broker rendezvous core (C02, C03, C04), virtual file in /repo/broker.
//
// Real code under test: NewBrokerContext, (*BrokerContext).Broker, (*IPC).ProxyPolls / ClientOffers /
// ProxyAnswers, driven in-process.  Two kinds of runs, many independent brokers in parallel so that the
// wall time is two protocol timeouts:
//   * quiet histories: generated external events, each followed by waiting until its observable effect
//     has happened; the annotated event list is replayed on the Lean model (`broker quiet`) and the
//     per-request outcomes and the final counts are compared;
//   * forced races: schedules that need a timer to fire between two lock acquisitions, forced with the
//     package's own snowflakeLock (held by the harness while the racing requests queue up in the order
//     the schedule needs); compared with `broker trace`.
// Independently of the model, the property oracles (C02 wiring, C03 compatibility/min/denial, C04 bounded
// completion and clean quiescence) are evaluated on what the real broker did.

import (
	"bytes"
	"fmt"
	"math/rand"
	"net"
	"net/http"
	"net/http/httptest"
	"sort"
	"strings"
	"sync"
	"testing"
	"time"

	"git.torproject.org/pluggable-transports/snowflake.git/v2/common/amp"
	"git.torproject.org/pluggable-transports/snowflake.git/v2/common/messages"
	vh "git.torproject.org/pluggable-transports/snowflake.git/v2/common/zzverif"
	"github.com/prometheus/client_golang/prometheus"
	dto "github.com/prometheus/client_model/go"
)

const (
	bcDefaultFP = "2B280B23E1107BB62ABFC40DDCC8824814F80A72"
)

// bcSid maps a poll id to its session id string. Distinct ids give distinct strings, but several of
// them differ only in surrounding whitespace, letter case or a trailing NUL - the property quantifies
// over *pairwise distinct* ids, however similar.
func bcSid(p int) string {
	base := fmt.Sprintf("sid-%d", p/5)
	switch p % 5 {
	case 1:
		return base + " "
	case 2:
		return " " + base
	case 3:
		return strings.ToUpper(base)
	case 4:
		return base + "\t"
	}
	return base
}

// bcFP maps a fingerprint id to its hex text.  Distinct ids give distinct fingerprints, but both legal lengths
// occur and some 32-byte fingerprints extend a 20-byte one of another id (2 extends 1, 4 extends the default).
func bcFP(k int) string {
	switch k {
	case 0:
		return bcDefaultFP
	case 2:
		return fmt.Sprintf("%040X", 1) + "AB00000000000000000000CD"
	case 4:
		return bcDefaultFP + "00000000000000000000EF01"
	}
	return fmt.Sprintf("%040X", k)
}

func bcNatLetter(n string) string {
	switch n {
	case "unrestricted":
		return "u"
	case "restricted":
		return "r"
	}
	return "k"
}

type bcReq struct {
	kind     byte // 'P', 'C', 'A'
	id       int
	nat      string // decoded NAT (P, C)
	wireNat  string // what is put on the wire ("" allowed)
	clients  int
	fp       int // C: fingerprint id (0 = default, named or omitted)
	omitFP   bool
	sid      int    // A: poll id the answer names
	sidText  string // P: explicit session id (oracle-only scenarios with a re-used id); "" = bcSid(id)
	started  time.Time
	done     chan struct{}
	finished time.Time
	outcome  string // canonical outcome
	offerOf  int    // P: client whose offer it got (0 none)
	url      string // P: relay URL
	answerOf int    // C: answer id it got
}

type bcInst struct {
	lockDead bool // the package's snowflakeLock could not be acquired within the deadline
	t        *testing.T
	ctx      *BrokerContext
	ipc      *IPC
	bridges  map[int]int // fp id -> url id
	mu       sync.Mutex
	reqs     []*bcReq
	byKey    map[string]*bcReq
}

func bcURL(u int) string { return fmt.Sprintf("wss://relay%d.example/", u) }

func newBcInst(t *testing.T, bridges map[int]int) *bcInst {
	ctx := NewBrokerContext(NullLogger())
	var buf bytes.Buffer
	keys := make([]int, 0, len(bridges))
	for k := range bridges {
		keys = append(keys, k)
	}
	sort.Ints(keys)
	for _, k := range keys {
		fmt.Fprintf(&buf, `{"displayName":"b%d", "webSocketAddress":"%s", "fingerprint":"%s"}`+"\n", k, bcURL(bridges[k]), bcFP(k))
	}
	if err := ctx.bridgeList.LoadBridgeInfo(&buf); err != nil {
		t.Fatal(err)
	}
	go ctx.Broker()
	return &bcInst{t: t, ctx: ctx, ipc: &IPC{ctx}, bridges: bridges, byKey: map[string]*bcReq{}}
}

func (b *bcInst) bridgeSpec() string {
	if len(b.bridges) == 0 {
		return "."
	}
	keys := make([]int, 0)
	for k := range b.bridges {
		keys = append(keys, k)
	}
	sort.Ints(keys)
	var parts []string
	for _, k := range keys {
		parts = append(parts, fmt.Sprintf("%d=%d", k, b.bridges[k]))
	}
	return strings.Join(parts, ",")
}

func (b *bcInst) start(r *bcReq) {
	r.done = make(chan struct{})
	r.started = time.Now()
	vh.Journal(fmt.Sprintf("broker-instance %p: %c id=%d nat=%q clients=%d fp=%d omitFP=%v sid-of-answer=%d sid=%q", b, r.kind, r.id, r.wireNat, r.clients, r.fp, r.omitFP, r.sid, bcSid(r.id)))
	b.mu.Lock()
	b.reqs = append(b.reqs, r)
	b.byKey[fmt.Sprintf("%c%d", r.kind, r.id)] = r
	b.mu.Unlock()
	go func() {
		defer func() {
			if x := recover(); x != nil {
				r.outcome = fmt.Sprintf("panic:%v", x)
			}
			r.finished = time.Now()
			close(r.done)
		}()
		var resp []byte
		switch r.kind {
		case 'P':
			sidText := bcSid(r.id)
			if r.sidText != "" {
				sidText = r.sidText
			}
			body, _ := messages.EncodeProxyPollRequestWithRelayPrefix(sidText, "standalone", r.wireNat, r.clients, "")
			err := b.ipc.ProxyPolls(messages.Arg{Body: body, RemoteAddr: "1.2.3.4:5"}, &resp)
			if err != nil {
				r.outcome = "err:" + err.Error()
				return
			}
			offer, _, url, derr := messages.DecodePollResponseWithRelayURL(resp)
			switch {
			case derr != nil:
				r.outcome = "err:" + derr.Error()
			case offer == "":
				r.outcome = "idle"
			default:
				fmt.Sscanf(offer, "offer-%d", &r.offerOf)
				r.url = url
				u := -1
				fmt.Sscanf(url, "wss://relay%d.example/", &u)
				r.outcome = fmt.Sprintf("matched:%d:%d", r.offerOf, u)
			}
		case 'C':
			req := messages.ClientPollRequest{Offer: fmt.Sprintf("offer-%d", r.id), NAT: r.wireNat}
			if !r.omitFP {
				req.Fingerprint = bcFP(r.fp)
			}
			body, _ := req.EncodeClientPollRequest()
			err := b.ipc.ClientOffers(messages.Arg{Body: body, RemoteAddr: "5.6.7.8:9"}, &resp)
			if err != nil {
				if err == ErrBridgeNotFound {
					r.outcome = "nobridge"
				} else {
					r.outcome = "err:" + err.Error()
				}
				return
			}
			cr, derr := messages.DecodeClientPollResponse(resp)
			switch {
			case derr != nil:
				r.outcome = "err:" + derr.Error()
			case cr.Error == messages.StrNoProxies:
				r.outcome = "denied"
			case cr.Error == messages.StrTimedOut:
				r.outcome = "timeout"
			case cr.Error != "":
				r.outcome = "err:" + cr.Error
			default:
				fmt.Sscanf(cr.Answer, "answer-%d", &r.answerOf)
				r.outcome = fmt.Sprintf("answer:%d", r.answerOf)
			}
		case 'A':
			body, _ := messages.EncodeAnswerRequest(fmt.Sprintf("answer-%d", r.id), bcSid(r.sid))
			err := b.ipc.ProxyAnswers(messages.Arg{Body: body, RemoteAddr: "1.2.3.4:5"}, &resp)
			if err != nil {
				r.outcome = "err:" + err.Error()
				return
			}
			ok, derr := messages.DecodeAnswerResponse(resp)
			switch {
			case derr != nil:
				r.outcome = "err:" + derr.Error()
			case ok:
				r.outcome = "ok"
			default:
				r.outcome = "gone"
			}
		}
	}()
}

func (r *bcReq) isDone() bool {
	select {
	case <-r.done:
		return true
	default:
		return false
	}
}

func bcWait(cond func() bool, d time.Duration) bool {
	deadline := time.Now().Add(d)
	for {
		if cond() {
			return true
		}
		if time.Now().After(deadline) {
			return false
		}
		time.Sleep(300 * time.Microsecond)
	}
}

// lock takes the broker's snowflakeLock with a deadline, so that a broker that never releases it
// makes the harness report instead of hang.
func (b *bcInst) lock() bool {
	b.mu.Lock()
	dead := b.lockDead
	b.mu.Unlock()
	if dead {
		return false
	}
	ch := make(chan struct{})
	go func() { b.ctx.snowflakeLock.Lock(); close(ch) }()
	select {
	case <-ch:
		return true
	case <-time.After(8 * time.Second):
		b.mu.Lock()
		b.lockDead = true
		b.mu.Unlock()
		return false
	}
}

func (b *bcInst) registered(p int) bool {
	if !b.lock() {
		return false
	}
	defer b.ctx.snowflakeLock.Unlock()
	_, ok := b.ctx.idToSnowflake[bcSid(p)]
	return ok
}

func (b *bcInst) counts() (hu, hr, mp int, gauge float64) {
	if !b.lock() {
		return -1, -1, -1, -1
	}
	hu, hr, mp = b.ctx.snowflakes.Len(), b.ctx.restrictedSnowflakes.Len(), len(b.ctx.idToSnowflake)
	b.ctx.snowflakeLock.Unlock()
	ch := make(chan prometheus.Metric, 64)
	go func() { b.ctx.metrics.promMetrics.AvailableProxies.Collect(ch); close(ch) }()
	for m := range ch {
		var d dto.Metric
		m.Write(&d)
		gauge += d.GetGauge().GetValue()
	}
	return
}

// summary in the model's format
func (b *bcInst) summary(pending bool) string {
	var ps, cs, as []string
	for _, r := range b.reqs {
		out := "pending"
		if r.isDone() {
			out = r.outcome
		}
		switch r.kind {
		case 'P':
			ps = append(ps, fmt.Sprintf("p%d=%s", r.id, out))
		case 'C':
			cs = append(cs, fmt.Sprintf("c%d=%s", r.id, out))
		case 'A':
			as = append(as, fmt.Sprintf("a%d=%s", r.id, out))
		}
	}
	hu, hr, mp, g := b.counts()
	all := append(append(ps, cs...), as...)
	return fmt.Sprintf("%s heapU=%d heapR=%d map=%d gauge=%d deadlocked=%v", strings.Join(all, " "), hu, hr, mp, int(g), pending)
}

func (b *bcInst) anyPending() bool {
	for _, r := range b.reqs {
		if !r.isDone() {
			return true
		}
	}
	return false
}

var bcNats = []string{"unrestricted", "restricted", "unknown", ""}

func bcDecodedNat(w string) string {
	if w == "" {
		return "unknown"
	}
	return w
}

// ---------------------------------------------------------------------------------------------
// quiet histories

type bcQuiet struct {
	inst                *bcInst
	events              []string       // annotated events for the model
	waiting             map[int]*bcReq // polls registered, unmatched, not timed out
	matched             map[int]*bcReq // client id -> poll request it was matched with, awaiting answer/timeout
	early               map[int]int    // poll id -> early answer id buffered (fixed behaviour)
	fails               []vh.Finding
	nextP, nextC, nextA int
	desc                []string
}

func (q *bcQuiet) fail(key, detail string) {
	q.fails = append(q.fails, vh.Finding{Kind: "oracle", Key: key, Detail: detail})
}

func (q *bcQuiet) doPoll(rng *rand.Rand) {
	q.doPollWith(bcNats[rng.Intn(len(bcNats))], []int{0, 0, 1, 2, 3, 8, 8, 16}[rng.Intn(8)])
}

func (q *bcQuiet) doPollWith(w string, clients int) *bcReq {
	q.nextP++
	r := &bcReq{kind: 'P', id: q.nextP, wireNat: w, nat: bcDecodedNat(w), clients: clients}
	q.inst.start(r)
	if !bcWait(func() bool { return q.inst.registered(r.id) || r.isDone() }, 5*time.Second) {
		q.fail("poll-not-registered", fmt.Sprintf("poll %d not registered within 5 s", r.id))
	}
	q.waiting[r.id] = r
	q.events = append(q.events, fmt.Sprintf("P:%d:%s:%d", r.id, bcNatLetter(r.nat), r.clients))
	return r
}

func (q *bcQuiet) eligible(cnat string) []*bcReq {
	var out []*bcReq
	for _, p := range q.waiting {
		if (cnat == "unrestricted") != (p.nat == "unrestricted") {
			out = append(out, p)
		}
	}
	return out
}

func (q *bcQuiet) doClient(rng *rand.Rand, nFP int) {
	w := bcNats[rng.Intn(len(bcNats))]
	switch rng.Intn(6) {
	case 0:
		q.doClientWith(w, 0, true)
	case 1:
		q.doClientWith(w, nFP+1+rng.Intn(3), false) // not in the bridge list
	default:
		q.doClientWith(w, rng.Intn(nFP+1), false)
	}
}

func (q *bcQuiet) doClientWith(w string, fp int, omitFP bool) {
	q.nextC++
	r := &bcReq{kind: 'C', id: 100 + q.nextC, wireNat: w, nat: bcDecodedNat(w), fp: fp, omitFP: omitFP}
	elig := q.eligible(r.nat)
	_, known := q.inst.bridges[r.fp]
	q.inst.start(r)
	// settle: either the client returns at once, or exactly one waiting poll returns with its offer
	var got *bcReq
	ok := bcWait(func() bool {
		if r.isDone() {
			return true
		}
		for _, p := range q.waiting {
			if p.isDone() {
				got = p
				return true
			}
		}
		return false
	}, 5*time.Second)
	if !ok {
		q.fail("client-neither-matched-nor-refused", fmt.Sprintf("client %d (nat %q fp %d): no poll returned its offer and it did not return within 5 s", r.id, r.wireNat, r.fp))
		q.events = append(q.events, fmt.Sprintf("C:%d:%s:%d", r.id, bcNatLetter(r.nat), r.fp))
		return
	}
	if got == nil && strings.HasPrefix(r.outcome, "answer:") {
		// the client returned at once with a buffered early answer: the poll it was matched with returns too
		bcWait(func() bool {
			for _, p := range q.waiting {
				if p.isDone() && p.offerOf == r.id {
					got = p
					return true
				}
			}
			return false
		}, 5*time.Second)
	}
	if got == nil {
		// the client can only be done by refusal here
		q.events = append(q.events, fmt.Sprintf("C:%d:%s:%d", r.id, bcNatLetter(r.nat), r.fp))
		// C03 oracle: refused with "no proxies" only if no eligible proxy waits; C02: unknown bridge never matched
		switch r.outcome {
		case "denied":
			if len(elig) > 0 {
				q.fail("denied-although-eligible-proxy-waiting", fmt.Sprintf("client %d nat %q denied while %d eligible proxies were waiting", r.id, r.nat, len(elig)))
			}
			if !known {
				q.fail("unknown-bridge-not-refused", fmt.Sprintf("client %d named fingerprint %d (not in the list) and got %q", r.id, r.fp, r.outcome))
			}
		case "nobridge":
			if known {
				q.fail("known-bridge-refused", fmt.Sprintf("client %d fp %d", r.id, r.fp))
			}
		default:
			q.fail("client-unexpected-outcome", fmt.Sprintf("client %d: %s", r.id, r.outcome))
		}
		return
	}
	delete(q.waiting, got.id)
	q.matched[r.id] = got
	q.events = append(q.events, fmt.Sprintf("C:%d:%s:%d:%d", r.id, bcNatLetter(r.nat), r.fp, got.id))
	// C02: the poll got this very client's offer and the URL of the bridge the client named
	if got.offerOf != r.id {
		q.fail("poll-got-foreign-offer", fmt.Sprintf("client %d arrived, poll %d returned %s", r.id, got.id, got.outcome))
	}
	if !known {
		q.fail("unknown-bridge-matched", fmt.Sprintf("client %d fp %d matched with poll %d", r.id, r.fp, got.id))
	} else if got.url != bcURL(q.inst.bridges[r.fp]) {
		q.fail("relay-url-not-of-named-bridge", fmt.Sprintf("client %d fp %d: poll %d got url %q", r.id, r.fp, got.id, got.url))
	}
	// C03: compatibility and load order
	if (r.nat == "unrestricted") == (got.nat == "unrestricted") {
		q.fail("nat-incompatible-match", fmt.Sprintf("client %d nat %q matched proxy %d nat %q", r.id, r.nat, got.id, got.nat))
	}
	for _, e := range elig {
		if e.clients < got.clients {
			q.fail("match-not-min-clients", fmt.Sprintf("client %d got proxy %d (clients %d) while eligible proxy %d has %d", r.id, got.id, got.clients, e.id, e.clients))
		}
	}
	// an early answer buffered for this poll is delivered at once (fixed behaviour)
	if a, ok := q.early[got.id]; ok {
		if !bcWait(r.isDone, 5*time.Second) || r.answerOf != a {
			q.fail("early-answer-not-delivered", fmt.Sprintf("client %d matched poll %d with buffered answer %d: %s", r.id, got.id, a, r.outcome))
		}
		delete(q.matched, r.id)
	}
}

func (q *bcQuiet) doAnswer(rng *rand.Rand) {
	q.nextA++
	r := &bcReq{kind: 'A', id: 200 + q.nextA}
	// choose a target: a matched poll (prompt answer), a waiting poll (early), a finished/unknown one
	var cands []int
	var client *bcReq
	switch rng.Intn(5) {
	case 0, 1, 2:
		for c, p := range q.matched {
			cands = append(cands, c)
			_ = p
		}
		sort.Ints(cands)
		if len(cands) > 0 {
			c := cands[rng.Intn(len(cands))]
			r.sid = q.matched[c].id
			client = q.inst.byKey[fmt.Sprintf("C%d", c)]
		}
	case 3:
		for p := range q.waiting {
			cands = append(cands, p)
		}
		sort.Ints(cands)
		if len(cands) > 0 {
			r.sid = cands[rng.Intn(len(cands))]
		}
	}
	if r.sid == 0 {
		r.sid = 1 + rng.Intn(q.nextP+3) // possibly finished, possibly never seen
		if _, w := q.waiting[r.sid]; w {
			r.sid = 900 + r.id
		}
		for _, p := range q.matched {
			if p.id == r.sid {
				r.sid = 900 + r.id
			}
		}
	}
	_, isEarly := q.waiting[r.sid]
	q.inst.start(r)
	if !bcWait(r.isDone, 5*time.Second) {
		q.fail("answer-request-not-completed", fmt.Sprintf("answer %d for sid %d (client waiting: %v, poll still unmatched: %v) did not return within 5 s", r.id, r.sid, client != nil, isEarly))
	}
	q.events = append(q.events, fmt.Sprintf("A:%d:%d", r.id, r.sid))
	if client != nil {
		if !bcWait(client.isDone, 5*time.Second) {
			q.fail("client-did-not-get-answer", fmt.Sprintf("client %d after answer %d", client.id, r.id))
		} else if client.answerOf != r.id {
			q.fail("client-got-foreign-answer", fmt.Sprintf("client %d matched sid %d got %s, posted answer %d", client.id, r.sid, client.outcome, r.id))
		}
		delete(q.matched, client.id)
	} else if isEarly && r.isDone() && r.outcome == "ok" {
		if _, dup := q.early[r.sid]; !dup {
			q.early[r.sid] = r.id
		}
	}
}

// timers: everything that is waiting times out; called once the harness has slept past the timeouts
func (q *bcQuiet) doTimeouts() { q.doTimeoutsFor(nil, true) }

// doTimeoutsFor: the polls listed in `only` (all waiting ones when nil) and, if `clients`, every
// matched client have reached their timeouts.
func (q *bcQuiet) doTimeoutsFor(only map[int]bool, clients bool) {
	var ps, cs []int
	for p := range q.waiting {
		if only == nil || only[p] {
			ps = append(ps, p)
		}
	}
	for c := range q.matched {
		if clients {
			cs = append(cs, c)
		}
	}
	sort.Ints(ps)
	sort.Ints(cs)
	for _, p := range ps {
		r := q.waiting[p]
		if !bcWait(r.isDone, 6*time.Second) {
			q.fail("poll-not-completed-after-timeout", fmt.Sprintf("poll %d pending %v after arrival", p, time.Since(r.started)))
		} else if r.outcome != "idle" {
			q.fail("unmatched-poll-not-idle", fmt.Sprintf("poll %d: %s", p, r.outcome))
		}
		q.events = append(q.events, fmt.Sprintf("TP:%d", p))
		delete(q.waiting, p)
		delete(q.early, p)
	}
	for _, c := range cs {
		r := q.inst.byKey[fmt.Sprintf("C%d", c)]
		if !bcWait(r.isDone, 6*time.Second) {
			q.fail("client-not-completed-after-timeout", fmt.Sprintf("client %d pending %v after arrival", c, time.Since(r.started)))
		} else if r.outcome != "timeout" {
			q.fail("unanswered-client-not-timed-out", fmt.Sprintf("client %d: %s", c, r.outcome))
		}
		q.events = append(q.events, fmt.Sprintf("TC:%d", c))
		delete(q.matched, c)
	}
}

func (q *bcQuiet) phase(rng *rand.Rand, n int, nFP int) {
	for i := 0; i < n; i++ {
		switch x := rng.Intn(10); {
		case x < 4:
			q.doPoll(rng)
		case x < 8:
			q.doClient(rng, nFP)
		default:
			q.doAnswer(rng)
		}
	}
}

func bcTimeout() time.Duration {
	d := time.Duration(ProxyTimeout) * time.Second
	if c := time.Duration(ClientTimeout) * time.Second; c > d {
		d = c
	}
	return d
}

// finish evaluates the quiescence oracles and renders the model line.
func (q *bcQuiet) finish(bridges map[int]int) (line, real string, fails []vh.Finding, nEvents int) {
	inst := q.inst
	pending := inst.anyPending()
	real = inst.summary(pending)
	hu, hr, mp, g := inst.counts()
	if !pending && !inst.lockDead && (hu != 0 || hr != 0 || mp != 0 || int(g) != 0) {
		q.fail("leftover-registration-at-quiescence", fmt.Sprintf("heapU=%d heapR=%d map=%d gauge=%v", hu, hr, mp, g))
	}
	if pending {
		q.fail("request-pending-at-end", real)
	}
	if inst.lockDead {
		q.fail("broker-lock-held-forever", "the broker's matching lock was not released for 8 s: every later request hangs")
	}
	fresh := &bcReq{kind: 'C', id: 999, wireNat: "unknown"}
	if _, ok := bridges[0]; ok && !inst.lockDead {
		inst.start(fresh)
		if !bcWait(fresh.isDone, 5*time.Second) || fresh.outcome != "denied" {
			q.fail("fresh-client-not-denied-at-quiescence", fmt.Sprintf("outcome %q", fresh.outcome))
		}
	}
	evs := "."
	if len(q.events) > 0 {
		evs = strings.Join(q.events, ",")
	}
	line = fmt.Sprintf("broker quiet 1 %s %s", inst.bridgeSpec(), evs)
	for i := range q.fails {
		q.fails[i].Case = line
		q.fails[i].Real = real
	}
	return line, real, q.fails, len(q.events)
}

// runStaggered: polls of one pool arrive in two groups 2.5 s apart, so that the first group times out
// (heap.Remove from inside the heap) while the second still waits; clients then drain the pool one
// by one and each match must be clients-minimal among what is waiting at that instant.
func runStaggered(t *testing.T, seed int64) (line, real string, fails []vh.Finding, nEvents int) {
	rng := rand.New(rand.NewSource(seed))
	bridges := map[int]int{0: 100}
	inst := newBcInst(t, bridges)
	q := &bcQuiet{inst: inst, waiting: map[int]*bcReq{}, matched: map[int]*bcReq{}, early: map[int]int{}}
	unrestrictedPool := rng.Intn(2) == 0
	proxyNat := func() string {
		if unrestrictedPool {
			return "unrestricted"
		}
		return []string{"restricted", "unknown", ""}[rng.Intn(3)]
	}
	clientNat := func() string {
		if unrestrictedPool {
			return []string{"restricted", "unknown", ""}[rng.Intn(3)]
		}
		return "unrestricted"
	}
	counts := func() int { return []int{0, 1, 2, 3, 5, 8, 10, 11, 12, 13, 16, 30, 40}[rng.Intn(13)] }
	groupA := map[int]bool{}
	tA := time.Now()
	for i, n := 0, 1+rng.Intn(3); i < n; i++ {
		groupA[q.doPollWith(proxyNat(), counts()).id] = true
	}
	time.Sleep(2500 * time.Millisecond)
	nB := 5 + rng.Intn(6)
	for i := 0; i < nB; i++ {
		q.doPollWith(proxyNat(), counts())
	}
	time.Sleep(time.Until(tA.Add(time.Duration(ProxyTimeout)*time.Second + 400*time.Millisecond)))
	q.doTimeoutsFor(groupA, false)
	for i := 0; i < nB+1; i++ {
		q.doClientWith(clientNat(), 0, rng.Intn(3) == 0)
	}
	time.Sleep(bcTimeout() + 400*time.Millisecond)
	q.doTimeouts()
	return q.finish(bridges)
}

// runQuiet executes one generated quiet history on a fresh broker. Returns the model line, the real
// summary and oracle failures.
func runQuiet(t *testing.T, seed int64, t0 time.Time) (line, real string, fails []vh.Finding, nEvents int) {
	rng := rand.New(rand.NewSource(seed))
	nFP := rng.Intn(3)
	bridges := map[int]int{}
	if rng.Intn(8) != 0 {
		bridges[0] = 100
	}
	for k := 1; k <= nFP; k++ {
		bridges[k] = 100 + k
	}
	inst := newBcInst(t, bridges)
	q := &bcQuiet{inst: inst, waiting: map[int]*bcReq{}, matched: map[int]*bcReq{}, early: map[int]int{}}
	q.phase(rng, 3+rng.Intn(10), nFP)
	// sleep until every timer armed in phase 1 has fired
	time.Sleep(time.Until(time.Now().Add(bcTimeout() + 400*time.Millisecond)))
	q.doTimeouts()
	q.phase(rng, 2+rng.Intn(8), nFP)
	time.Sleep(bcTimeout() + 400*time.Millisecond)
	q.doTimeouts()
	return q.finish(bridges)
}

// ---------------------------------------------------------------------------------------------
// forced races (schedules that need a timer between two lock acquisitions)

type bcForced struct {
	name  string
	trace string                           // label sequence for the model (fixed = 1) for the schedule the template aims at
	run   func(t *testing.T, inst *bcInst) // drives the real broker into that schedule
	// alt: when the scheduler resolved the forced race the other way (both orders are legitimate
	// behaviours), the observation containing `altWhen` is validated against `altTrace` instead.
	altWhen, altTrace string
}

// F1 shape: the proxy timeout fires, the client's matchSnowflake gets the lock before the waiter's
// critical section.
func bcForcePollTimeoutVsMatch(t *testing.T, inst *bcInst) {
	p := &bcReq{kind: 'P', id: 1, wireNat: "unrestricted", nat: "unrestricted"}
	inst.start(p)
	bcWait(func() bool { return inst.registered(1) }, 5*time.Second)
	time.Sleep(time.Until(p.started.Add(time.Duration(ProxyTimeout)*time.Second - 250*time.Millisecond)))
	if !inst.lock() {
		return
	}
	c := &bcReq{kind: 'C', id: 101, wireNat: "unknown", nat: "unknown"}
	inst.start(c)                      // queues on the lock first
	time.Sleep(700 * time.Millisecond) // the timer fires; the waiter queues behind the client
	inst.ctx.snowflakeLock.Unlock()
	// the client's own timeout then ends it (no answer is posted)
	bcWait(func() bool { return p.isDone() && c.isDone() }, time.Duration(ClientTimeout)*time.Second+4*time.Second)
}

// F2 shape: the answer handler looks the snowflake up just before the client's timeout arm runs its
// clean-up, and sends after the client stopped listening.
func bcForceAnswerVsClientTimeout(t *testing.T, inst *bcInst) {
	p := &bcReq{kind: 'P', id: 1, wireNat: "unrestricted", nat: "unrestricted"}
	inst.start(p)
	bcWait(func() bool { return inst.registered(1) }, 5*time.Second)
	c := &bcReq{kind: 'C', id: 101, wireNat: "unknown", nat: "unknown"}
	inst.start(c)
	bcWait(p.isDone, 5*time.Second)
	time.Sleep(time.Until(c.started.Add(time.Duration(ClientTimeout)*time.Second - 250*time.Millisecond)))
	if !inst.lock() {
		return
	}
	a := &bcReq{kind: 'A', id: 201, sid: 1}
	inst.start(a)                      // queues on the lock first
	time.Sleep(700 * time.Millisecond) // client timer fires, its clean-up queues behind the answer's lookup
	inst.ctx.snowflakeLock.Unlock()
	bcWait(func() bool { return a.isDone() && c.isDone() }, 6*time.Second)
}

// early answer for a poll that then times out unmatched
func bcForceEarlyAnswerThenPollTimeout(t *testing.T, inst *bcInst) {
	p := &bcReq{kind: 'P', id: 1, wireNat: "restricted", nat: "restricted"}
	inst.start(p)
	bcWait(func() bool { return inst.registered(1) }, 5*time.Second)
	a := &bcReq{kind: 'A', id: 201, sid: 1}
	inst.start(a)
	bcWait(func() bool { return a.isDone() && p.isDone() }, time.Duration(ProxyTimeout)*time.Second+4*time.Second)
}

// two answers for the same matched session
func bcForceTwoAnswers(t *testing.T, inst *bcInst) {
	p := &bcReq{kind: 'P', id: 1, wireNat: "unrestricted", nat: "unrestricted"}
	inst.start(p)
	bcWait(func() bool { return inst.registered(1) }, 5*time.Second)
	c := &bcReq{kind: 'C', id: 101, wireNat: "restricted", nat: "restricted"}
	inst.start(c)
	bcWait(p.isDone, 5*time.Second)
	// hold the lock so that both lookups succeed before the client cleans up
	if !inst.lock() {
		return
	}
	a1 := &bcReq{kind: 'A', id: 201, sid: 1}
	inst.start(a1)
	time.Sleep(100 * time.Millisecond)
	a2 := &bcReq{kind: 'A', id: 202, sid: 1}
	inst.start(a2)
	time.Sleep(100 * time.Millisecond)
	inst.ctx.snowflakeLock.Unlock()
	bcWait(func() bool { return a1.isDone() && a2.isDone() && c.isDone() }, 6*time.Second)
}

var bcForcedTemplates = []bcForced{
	{"poll-timeout-vs-client-match", "pa:1:u:0,add:1,wt:1,ca:101:k:0,cm:101:1,wc:1,wl:1:101,wf:1,hr:1,ct:101,cf:101", bcForcePollTimeoutVsMatch,
		"p1=idle", "pa:1:u:0,add:1,wt:1,wc:1,hi:1,hr:1,ca:101:k:0,cd:101"},
	{"answer-lookup-vs-client-timeout", "pa:1:u:0,add:1,ca:101:k:0,cm:101:1,wo:1:101,wf:1,hr:1,aa:201:1,ct:101,al:201,cf:101,as:201", bcForceAnswerVsClientTimeout,
		"a201=gone", "pa:1:u:0,add:1,ca:101:k:0,cm:101:1,wo:1:101,wf:1,hr:1,aa:201:1,ct:101,cf:101,al:201"},
	{"early-answer-then-poll-timeout", "pa:1:r:0,add:1,aa:201:1,al:201,as:201,wt:1,wc:1,hi:1,hr:1", bcForceEarlyAnswerThenPollTimeout, "", ""},
	{"two-answers-one-session", "pa:1:u:0,add:1,ca:101:r:0,cm:101:1,wo:1:101,wf:1,hr:1,aa:201:1,aa:202:1,al:201,al:202,as:201,as:202,cr:101,cf:101", bcForceTwoAnswers,
		"a202=gone", "pa:1:u:0,add:1,ca:101:r:0,cm:101:1,wo:1:101,wf:1,hr:1,aa:201:1,aa:202:1,al:201,as:201,cr:101,cf:101,al:202"},
}

// ---------------------------------------------------------------------------------------------

func bcPropOfKey(key string) string {
	switch key {
	case "poll-got-foreign-offer", "unknown-bridge-matched", "relay-url-not-of-named-bridge", "client-got-foreign-answer",
		"unknown-bridge-not-refused", "known-bridge-refused", "offer-handed-twice":
		return "C02"
	case "denied-although-eligible-proxy-waiting", "nat-incompatible-match", "match-not-min-clients":
		return "C03"
	}
	return "C04"
}

func runBrokerCore(t *testing.T, prop string) {
	r := vh.Start(prop)
	defer r.Finish()
	if prop == "C04" || prop == "C02" || prop == "C03" {
		if vh.Serial() {
			// crash attribution: the scenarios one after the other, journalled like the histories
			defer runBrokerScenarios(t, r, prop)
		} else {
			scDone := make(chan struct{})
			go func() { runBrokerScenarios(t, r, prop); close(scDone) }()
			defer func() { <-scDone }()
		}
	}
	nQuiet := r.N(120, 1200)
	nStag := r.N(40, 300)
	parallel := 400
	if vh.Serial() {
		nQuiet, nStag, parallel = 6, 2, 1
	}
	type qres struct {
		line, real string
		fails      []vh.Finding
		n          int
	}
	results := make([]qres, nQuiet+nStag)
	forced := make([]string, len(bcForcedTemplates))
	forcedInst := make([]*bcInst, len(bcForcedTemplates))
	var wg sync.WaitGroup
	t0 := time.Now()
	sem := make(chan struct{}, parallel)
	for i := 0; i < nQuiet; i++ {
		wg.Add(1)
		go func(i int) {
			defer wg.Done()
			sem <- struct{}{}
			defer func() { <-sem }()
			line, real, fails, n := runQuiet(t, r.Seed*1000003+int64(i), t0)
			results[i] = qres{line, real, fails, n}
		}(i)
	}
	for i := 0; i < nStag; i++ {
		wg.Add(1)
		go func(i int) {
			defer wg.Done()
			sem <- struct{}{}
			defer func() { <-sem }()
			line, real, fails, n := runStaggered(t, r.Seed*7000003+int64(i))
			results[nQuiet+i] = qres{line, real, fails, n}
		}(i)
	}
	for i, f := range bcForcedTemplates {
		wg.Add(1)
		go func(i int, f bcForced) {
			defer wg.Done()
			inst := newBcInst(t, map[int]int{0: 100})
			forcedInst[i] = inst
			f.run(t, inst)
			// let stragglers finish (bounded): every request must be done within the protocol waits + slack
			bcWait(func() bool { return !inst.anyPending() }, 3*time.Second)
			forced[i] = inst.summary(inst.anyPending())
		}(i, f)
	}
	wg.Wait()
	for qi, q := range results {
		model := r.Model(q.line)
		class := "quiet"
		if qi >= nQuiet {
			class = "staggered"
		}
		if strings.Contains(q.real, "answer:") {
			class += "/answered"
		}
		if strings.Contains(q.real, "=timeout") {
			class += "/clienttimeout"
		}
		if strings.Contains(q.real, "=denied") {
			class += "/denied"
		}
		if strings.Contains(q.real, "=nobridge") {
			class += "/nobridge"
		}
		r.Case(class, q.line, q.n > 0)
		r.Compare("quiet-history", q.line, "ok "+q.real, model)
		for _, f := range q.fails {
			if bcPropOfKey(f.Key) == prop || prop == "C04" && bcPropOfKey(f.Key) == "C04" {
				r.OracleFail(f.Key, f.Case, f.Real, f.Detail)
			}
		}
	}
	for i, f := range bcForcedTemplates {
		line := "broker trace 1 0=100 " + f.trace
		cls := "forced/" + f.name
		if f.altWhen != "" && strings.Contains(forced[i], f.altWhen) {
			line = "broker trace 1 0=100 " + f.altTrace
			cls += "/other-order"
		}
		model := r.Model(line)
		r.Case(cls, line, true)
		r.Compare("forced-"+f.name, line, "ok "+forced[i], model)
		if prop == "C04" {
			inst := forcedInst[i]
			if inst.lockDead {
				r.OracleFail("broker-lock-held-forever:"+f.name, line, forced[i], "the broker's matching lock was not released for 8 s: every later request hangs")
			} else if inst.anyPending() {
				r.OracleFail("request-never-completes:"+f.name, line, forced[i],
					"every client poll, proxy poll and proxy answer must get its response within the protocol waits plus slack")
			} else if hu, hr, mp, g := inst.counts(); hu+hr+mp != 0 || int(g) != 0 {
				r.OracleFail("leftover-registration:"+f.name, line, forced[i], "once all requests completed the broker must hold no registration")
			}
		}
	}
}

// ---------------------------------------------------------------------------------------------
// Oracle-only scenarios: legal histories outside the model's quantifier (the model identifies a poll with
// its session id, so it says nothing about a proxy that re-uses an id while its earlier poll's match is
// still in progress).  Only the property's own clauses are judged: every request completes within the
// protocol waits plus slack, the lock is never held for good, and at quiescence nothing is registered, the
// gauge is zero and a fresh client is denied.

type bcScenario struct {
	name string
	run  func(t *testing.T, inst *bcInst) string // returns a description of what was driven
}

func bcSameSidRepoll(withAnswer bool) func(t *testing.T, inst *bcInst) string {
	return func(t *testing.T, inst *bcInst) string {
		p1 := &bcReq{kind: 'P', id: 1, wireNat: "unrestricted", nat: "unrestricted", sidText: "same-sid"}
		inst.start(p1)
		bcWait(func() bool { hu, hr, _, _ := inst.counts(); return hu+hr == 1 }, 5*time.Second)
		c1 := &bcReq{kind: 'C', id: 101, wireNat: "unknown", nat: "unknown"}
		inst.start(c1)
		bcWait(p1.isDone, 5*time.Second) // matched: the proxy has the offer
		p2 := &bcReq{kind: 'P', id: 2, wireNat: "unrestricted", nat: "unrestricted", sidText: "same-sid"}
		inst.start(p2) // the same proxy polls again under the same id before it answers
		bcWait(func() bool { hu, hr, _, _ := inst.counts(); return hu+hr == 1 }, 5*time.Second)
		desc := "poll(same-sid) matched by client 101; second poll(same-sid) while client 101 still waits"
		if withAnswer {
			body, _ := messages.EncodeAnswerRequest("answer-201", "same-sid")
			var resp []byte
			done := make(chan struct{})
			go func() { inst.ipc.ProxyAnswers(messages.Arg{Body: body, RemoteAddr: "1.2.3.4:5"}, &resp); close(done) }()
			select {
			case <-done:
			case <-time.After(15 * time.Second):
				desc += "; answer request for same-sid STILL PENDING after 15 s"
			}
			desc += "; answer posted for same-sid"
		}
		bcWait(func() bool { return !inst.anyPending() }, bcTimeout()+bcTimeout())
		return desc
	}
}

// two overlapping polls under one session id, no client: each is a request of its own and gets its idle answer
func bcSameSidTwoIdle(t *testing.T, inst *bcInst) string {
	p1 := &bcReq{kind: 'P', id: 1, wireNat: "restricted", nat: "restricted", sidText: "same-sid"}
	inst.start(p1)
	bcWait(func() bool { hu, hr, _, _ := inst.counts(); return hu+hr == 1 }, 5*time.Second)
	time.Sleep(300 * time.Millisecond)
	p2 := &bcReq{kind: 'P', id: 2, wireNat: "restricted", nat: "restricted", sidText: "same-sid"}
	inst.start(p2)
	bcWait(func() bool { return !inst.anyPending() }, bcTimeout()+bcTimeout())
	return "poll(same-sid); 300 ms later a second poll(same-sid); no client: both idle into their timeouts"
}

// a matched proxy stays silent while another compatible poll is pending: the offer it holds is not handed out again
func bcSilentProxyAndSpare(t *testing.T, inst *bcInst) string {
	p1 := &bcReq{kind: 'P', id: 1, wireNat: "unrestricted", nat: "unrestricted"}
	inst.start(p1)
	bcWait(func() bool { hu, hr, _, _ := inst.counts(); return hu+hr == 1 }, 5*time.Second)
	c1 := &bcReq{kind: 'C', id: 101, wireNat: "unknown", nat: "unknown"}
	inst.start(c1)
	bcWait(p1.isDone, 5*time.Second) // matched; the proxy never answers
	time.Sleep(time.Second)
	p2 := &bcReq{kind: 'P', id: 2, wireNat: "unrestricted", nat: "unrestricted"}
	inst.start(p2) // pending from 1 s to 11 s after the match
	bcWait(func() bool { return !inst.anyPending() }, bcTimeout()+bcTimeout())
	desc := fmt.Sprintf("poll 1 matched by client 101 and silent; poll 2 pending meanwhile -> poll 1 %s, poll 2 %s, client %s", p1.outcome, p2.outcome, c1.outcome)
	if strings.HasPrefix(p2.outcome, "matched:101") {
		desc += " OFFER-HANDED-TWICE"
	}
	return desc
}

// many proxies of one class waiting at once (far more than the generated histories use): the pools stay apart
func bcManyWaiting(t *testing.T, inst *bcInst) string {
	// more waiting proxies of one kind than any plausible preallocation of the pools (a pool that grows into its
	// neighbour's storage shows only then); half of the unrestricted ones register before the crowd, half after it
	const nR, nU = 1100, 4
	var polls []*bcReq
	unres := func(from, to int) {
		for i := from; i < to; i++ {
			p := &bcReq{kind: 'P', id: 2000 + i, wireNat: "unrestricted", nat: "unrestricted", clients: i}
			polls = append(polls, p)
			inst.start(p)
		}
	}
	unres(0, nU/2)
	bcWait(func() bool { hu, hr, _, _ := inst.counts(); return hu+hr == nU/2 }, 5*time.Second)
	for i := 0; i < nR; i++ {
		p := &bcReq{kind: 'P', id: 10000 + i, wireNat: "restricted", nat: "restricted", clients: i % 5}
		polls = append(polls, p)
		inst.start(p)
	}
	bcWait(func() bool { hu, hr, _, _ := inst.counts(); return hu+hr == nR+nU/2 }, 8*time.Second)
	unres(nU/2, nU)
	bcWait(func() bool { hu, hr, _, _ := inst.counts(); return hu+hr == nR+nU }, 8*time.Second)
	var clients []*bcReq
	for i := 0; i < nU+1; i++ { // restricted clients need unrestricted proxies: nU are matched, one more is denied
		c := &bcReq{kind: 'C', id: 3000 + i, wireNat: "restricted", nat: "restricted"}
		clients = append(clients, c)
		inst.start(c)
		time.Sleep(30 * time.Millisecond)
	}
	for i := 0; i < 3; i++ { // unrestricted clients are served from the restricted pool
		c := &bcReq{kind: 'C', id: 4000 + i, wireNat: "unrestricted", nat: "unrestricted"}
		clients = append(clients, c)
		inst.start(c)
		time.Sleep(30 * time.Millisecond)
	}
	bcWait(func() bool { return !inst.anyPending() }, bcTimeout()+bcTimeout())
	desc := fmt.Sprintf("%d restricted and %d unrestricted proxies waiting; %d restricted clients, then 3 unrestricted clients", nR, nU, nU+1)
	byID := map[int]*bcReq{}
	for _, c := range clients {
		byID[c.id] = c
	}
	denied := 0
	for _, c := range clients {
		if c.outcome == "denied" {
			denied++
		}
	}
	for _, p := range polls {
		if p.offerOf != 0 {
			if c := byID[p.offerOf]; c != nil && c.nat != "unrestricted" && p.nat != "unrestricted" {
				desc += fmt.Sprintf(" NAT-INCOMPATIBLE: client %d (%s) was matched with proxy %d (%s)", c.id, c.nat, p.id, p.nat)
			}
		}
	}
	if denied != 1 {
		desc += fmt.Sprintf(" WRONG-DENIALS: %d clients denied, exactly the fifth restricted client should be", denied)
	}
	return desc
}

// the same session id polls again with another NAT type while other proxies wait: nobody else loses its place
func bcSameSidOtherNat(t *testing.T, inst *bcInst) string {
	// the re-polling proxy registers first and reports no clients, so it sits at the root of its pool
	x1 := &bcReq{kind: 'P', id: 20, wireNat: "restricted", nat: "restricted", sidText: "same-sid"}
	inst.start(x1)
	bcWait(func() bool { hu, hr, _, _ := inst.counts(); return hu+hr == 1 }, 5*time.Second)
	for i, nat := range []string{"restricted", "restricted", "unrestricted", "unrestricted"} {
		inst.start(&bcReq{kind: 'P', id: 10 + i, wireNat: nat, nat: nat, clients: 1 + i})
		bcWait(func() bool { hu, hr, _, _ := inst.counts(); return hu+hr == 2+i }, 5*time.Second)
	}
	x2 := &bcReq{kind: 'P', id: 21, wireNat: "unrestricted", nat: "unrestricted", sidText: "same-sid"}
	inst.start(x2)
	bcWait(func() bool { hu, hr, _, _ := inst.counts(); return hu+hr == 6 }, 5*time.Second)
	var cs []*bcReq
	for i := 0; i < 3; i++ { // three unrestricted proxies wait (two old ones and the re-poll): three restricted clients are served
		c := &bcReq{kind: 'C', id: 101 + i, wireNat: "restricted", nat: "restricted"}
		cs = append(cs, c)
		inst.start(c)
		time.Sleep(50 * time.Millisecond)
	}
	bcWait(func() bool { return !inst.anyPending() }, bcTimeout()+bcTimeout())
	desc := "2 restricted + 2 unrestricted proxies waiting; sid X polls restricted, then again unrestricted; then 3 restricted clients"
	for _, c := range cs {
		if c.outcome == "denied" {
			desc += fmt.Sprintf(" DENIED-ALTHOUGH-ELIGIBLE: client %d was told no proxies while unrestricted proxies were waiting", c.id)
		}
	}
	return desc
}

// NAT types spelled in other letter case: whatever the decoders make of them, a proxy and a client that both read as
// restricted / unknown are never matched with each other
func bcNatSpellings(t *testing.T, inst *bcInst) string {
	fold := func(s string) string { return strings.ToLower(strings.Replace(s, "\u017f", "s", -1)) }
	var ps, cs []*bcReq
	for i, nat := range []string{"Restricted", "UNKNOWN", "re\u017ftricted", "Unrestricted", "restricted", "unrestricted"} {
		p := &bcReq{kind: 'P', id: 10 + i, wireNat: nat, nat: fold(nat), clients: i}
		ps = append(ps, p)
		inst.start(p)
	}
	time.Sleep(300 * time.Millisecond)
	for i, nat := range []string{"Unrestricted", "Restricted", "UNKNOWN", "restricted", "unknown", "Unrestricted"} {
		c := &bcReq{kind: 'C', id: 101 + i, wireNat: nat, nat: fold(nat)}
		cs = append(cs, c)
		inst.start(c)
		time.Sleep(50 * time.Millisecond)
	}
	bcWait(func() bool { return !inst.anyPending() }, bcTimeout()+bcTimeout())
	desc := "polls with NAT spelled Restricted / UNKNOWN / re\u017ftricted / Unrestricted / restricted / unrestricted, then clients spelled Unrestricted / Restricted / UNKNOWN / restricted / unknown / Unrestricted"
	byID := map[int]*bcReq{}
	for _, c := range cs {
		byID[c.id] = c
	}
	// the first client reads as unrestricted (if its spelling is accepted at all): the correctly spelled restricted
	// poll is waiting, so it must be served from the restricted / unknown pool and must not be refused
	first := cs[0]
	if first.outcome == "denied" {
		desc += fmt.Sprintf(" UNRESTRICTED-CLIENT-REFUSED: client %d (%q) was told no proxies while restricted proxies were waiting", first.id, first.wireNat)
	}
	for _, p := range ps {
		if p.offerOf == first.id && p.nat == "unrestricted" {
			desc += fmt.Sprintf(" UNRESTRICTED-CLIENT-TOOK-UNRESTRICTED-PROXY: client %d (%q) was given proxy %d (%q) while restricted proxies were waiting", first.id, first.wireNat, p.id, p.wireNat)
		}
	}
	for _, p := range ps {
		if c := byID[p.offerOf]; p.offerOf != 0 && c != nil && c.nat != "unrestricted" && p.nat != "unrestricted" {
			desc += fmt.Sprintf(" NAT-INCOMPATIBLE: client %d (%q) was matched with proxy %d (%q)", c.id, c.wireNat, p.id, p.wireNat)
		}
	}
	return desc
}

// a burst of polls of both NAT types arrives while the matching lock is held (contention): however the broker
// registers them once the lock is free, every pool must come out ordered - each client gets a proxy with the
// smallest client count of its eligible pool
func bcBurstWhileLocked(t *testing.T, inst *bcInst) string {
	desc := "matching lock held while 14 polls arrive (alternating unrestricted / restricted, client counts 13 down to 0); lock released; then 3 unrestricted and 3 restricted clients, one at a time"
	if !inst.lock() {
		return desc + " (matching lock not available)"
	}
	var ps []*bcReq
	for i := 0; i < 14; i++ {
		nat := []string{"unrestricted", "restricted"}[i%2]
		p := &bcReq{kind: 'P', id: 10 + i, wireNat: nat, nat: nat, clients: 13 - i}
		ps = append(ps, p)
		inst.start(p)
		time.Sleep(5 * time.Millisecond)
	}
	time.Sleep(200 * time.Millisecond)
	inst.ctx.snowflakeLock.Unlock()
	bcWait(func() bool { hu, hr, _, _ := inst.counts(); return hu+hr == 14 }, 5*time.Second)
	var cs []*bcReq
	for i := 0; i < 6; i++ {
		nat := []string{"unrestricted", "restricted"}[i%2]
		c := &bcReq{kind: 'C', id: 101 + i, wireNat: nat, nat: nat}
		cs = append(cs, c)
		inst.start(c)
		// the next client only after this one has taken its proxy
		bcWait(func() bool {
			for _, p := range ps {
				if p.isDone() && p.offerOf == c.id {
					return true
				}
			}
			return c.isDone()
		}, 5*time.Second)
	}
	// expected: unrestricted clients take restricted proxies with counts 0, 2, 4; restricted clients take unrestricted proxies with counts 1, 3, 5
	for i, c := range cs {
		want := []int{0, 1, 2, 3, 4, 5}[i]
		got := -1
		for _, p := range ps {
			if p.isDone() && p.offerOf == c.id {
				got = p.clients
			}
		}
		if got != want {
			desc += fmt.Sprintf(" NOT-MIN-CLIENTS: client %d (%s) was given a proxy reporting %d clients, the least loaded eligible proxy reported %d", c.id, c.nat, got, want)
		}
	}
	return desc
}

// a client that goes away: its request arrives through the real HTTP handlers (POST and AMP GET), is matched, and
// the client then drops its connection before any answer exists. Whatever the handler makes of the broken
// connection, the registration of the matched proxy must be cleaned up (at the client timeout at the latest)
func bcClientGoesAway(t *testing.T, inst *bcInst) string {
	desc := "two unrestricted polls; a POST /client and a GET /amp/client/ request through the real handlers are matched; both clients close their connections 1 s later; no answer is ever posted"
	mux := http.NewServeMux()
	mux.Handle("/client", SnowflakeHandler{inst.ipc, clientOffers})
	mux.Handle("/amp/client/", SnowflakeHandler{inst.ipc, ampClientOffers})
	srv := httptest.NewServer(mux)
	defer srv.Close()
	addr := strings.TrimPrefix(srv.URL, "http://")
	p1 := &bcReq{kind: 'P', id: 10, wireNat: "unrestricted", nat: "unrestricted"}
	p2 := &bcReq{kind: 'P', id: 11, wireNat: "unrestricted", nat: "unrestricted"}
	inst.start(p1)
	inst.start(p2)
	bcWait(func() bool { hu, hr, _, _ := inst.counts(); return hu+hr == 2 }, 5*time.Second)
	body, _ := (&messages.ClientPollRequest{Offer: "offer-150", NAT: "unknown"}).EncodeClientPollRequest()
	ampBody, _ := (&messages.ClientPollRequest{Offer: "offer-151", NAT: "unknown"}).EncodeClientPollRequest()
	raws := [][]byte{
		[]byte(fmt.Sprintf("POST /client HTTP/1.1\r\nHost: x\r\nContent-Length: %d\r\n\r\n%s", len(body), body)),
		[]byte("GET /amp/client/" + amp.EncodePath(ampBody) + " HTTP/1.1\r\nHost: x\r\n\r\n"),
	}
	var conns []net.Conn
	for _, raw := range raws {
		c, err := net.Dial("tcp", addr)
		if err != nil {
			return desc + " (cannot connect: " + err.Error() + ")"
		}
		c.Write(raw)
		conns = append(conns, c)
	}
	bcWait(func() bool { return p1.isDone() && p2.isDone() }, 5*time.Second)
	time.Sleep(time.Second)
	for _, c := range conns {
		c.Close()
	}
	// the handlers are still waiting for an answer (or have noticed the broken connection); give them the client
	// timeout and a little more
	time.Sleep(time.Duration(ClientTimeout)*time.Second + 1500*time.Millisecond)
	if !p1.isDone() || !p2.isDone() {
		desc += " (the polls were not handed the offers)"
	}
	return desc
}

// the bridge list is reloaded (SIGHUP) between a client's fingerprint check and the moment its offer is handed to a
// poll: the harness holds the matching lock, lets the client (naming bridge 7) pass its check and queue on the lock,
// installs a list without bridge 7, and releases the lock. Whatever happens to the two requests then, no poll may
// be handed this offer with the relay URL of another bridge.
func bcBridgeReloaded(t *testing.T, inst *bcInst) string {
	desc := "bridge list {default->relay100, b7->relay7}; a poll waits; matching lock held; client 150 names b7 and queues on the lock; the list is replaced by {default->relay100}; lock released"
	var buf bytes.Buffer
	fmt.Fprintf(&buf, `{"displayName":"b0", "webSocketAddress":"%s", "fingerprint":"%s"}`+"\n", bcURL(100), bcFP(0))
	fmt.Fprintf(&buf, `{"displayName":"b7", "webSocketAddress":"%s", "fingerprint":"%s"}`+"\n", bcURL(7), bcFP(7))
	if err := inst.ctx.bridgeList.LoadBridgeInfo(&buf); err != nil {
		return desc + " (cannot load the bridge list: " + err.Error() + ")"
	}
	p := &bcReq{kind: 'P', id: 10, wireNat: "unrestricted", nat: "unrestricted"}
	inst.start(p)
	bcWait(func() bool { hu, hr, _, _ := inst.counts(); return hu+hr == 1 }, 5*time.Second)
	if !inst.lock() {
		return desc + " (matching lock not available)"
	}
	c := &bcReq{kind: 'C', id: 150, wireNat: "unknown", nat: "unknown", fp: 7}
	inst.start(c)
	time.Sleep(400 * time.Millisecond) // the client has checked its fingerprint and waits for the lock
	buf.Reset()
	fmt.Fprintf(&buf, `{"displayName":"b0", "webSocketAddress":"%s", "fingerprint":"%s"}`+"\n", bcURL(100), bcFP(0))
	err := inst.ctx.bridgeList.LoadBridgeInfo(&buf)
	inst.ctx.snowflakeLock.Unlock()
	if err != nil {
		return desc + " (cannot reload the bridge list: " + err.Error() + ")"
	}
	bcWait(func() bool { return p.isDone() && c.isDone() }, bcTimeout()+bcTimeout())
	if p.isDone() && p.offerOf == 150 && p.url != bcURL(7) {
		desc += fmt.Sprintf(" WRONG-BRIDGE: the poll was handed the offer of client 150 (bridge b7) with relay URL %q", p.url)
	}
	return desc
}

// the other entry points: a proxy poll that announces protocol version 1.10 (raw JSON through the real /proxy
// handler) and a legacy client whose NAT type travels in the Snowflake-NAT-Type header (real /client handler).
// NAT compatibility must not depend on how a request was spelled.
func bcOtherEntryPoints(t *testing.T, inst *bcInst) string {
	desc := "poll A: unrestricted, version 1.10, 8 clients (raw JSON over HTTP); poll B: restricted (IPC); client 161: restricted (IPC); then legacy client: header Snowflake-NAT-Type: unrestricted (HTTP)"
	mux := http.NewServeMux()
	mux.Handle("/proxy", SnowflakeHandler{inst.ipc, proxyPolls})
	mux.Handle("/client", SnowflakeHandler{inst.ipc, clientOffers})
	srv := httptest.NewServer(mux)
	defer srv.Close()
	type httpRes struct {
		status int
		body   []byte
	}
	post := func(path string, hdr map[string]string, body string) chan httpRes {
		ch := make(chan httpRes, 1)
		go func() {
			req, _ := http.NewRequest("POST", srv.URL+path, strings.NewReader(body))
			for k, v := range hdr {
				req.Header.Set(k, v)
			}
			resp, err := (&http.Client{Timeout: 40 * time.Second}).Do(req)
			if err != nil {
				ch <- httpRes{-1, []byte(err.Error())}
				return
			}
			defer resp.Body.Close()
			var buf bytes.Buffer
			buf.ReadFrom(resp.Body)
			ch <- httpRes{resp.StatusCode, buf.Bytes()}
		}()
		return ch
	}
	pollA := post("/proxy", nil, `{"Sid":"entry-A","Version":"1.10","Type":"standalone","NAT":"unrestricted","Clients":8,"AcceptedRelayPattern":"$"}`)
	bcWait(func() bool { hu, hr, _, _ := inst.counts(); return hu+hr == 1 }, 5*time.Second)
	pB := &bcReq{kind: 'P', id: 11, wireNat: "restricted", nat: "restricted"}
	inst.start(pB)
	bcWait(func() bool { hu, hr, _, _ := inst.counts(); return hu+hr == 2 }, 5*time.Second)
	if hu, hr, _, _ := inst.counts(); hu != 1 || hr != 1 {
		desc += fmt.Sprintf(" POOLS-WRONG: %d proxies in the unrestricted pool and %d in the restricted one, one each expected", hu, hr)
	}
	c := &bcReq{kind: 'C', id: 161, wireNat: "restricted", nat: "restricted"}
	inst.start(c)
	var a httpRes
	select {
	case a = <-pollA:
	case <-time.After(5 * time.Second):
		a = httpRes{-2, nil}
	}
	offerA, _, _, _ := messages.DecodePollResponseWithRelayURL(a.body)
	if a.status != 200 || offerA != "offer-161" {
		desc += fmt.Sprintf(" DENIED-ALTHOUGH-ELIGIBLE: the restricted client was not handed to the unrestricted poll of version 1.10 (poll A: status %d offer %q; client outcome %q)", a.status, offerA, c.outcome)
	}
	legacy := post("/client", map[string]string{"Snowflake-NAT-Type": "unrestricted"}, `{"type":"offer","sdp":"offer-160"}`)
	bcWait(pB.isDone, 5*time.Second)
	if !pB.isDone() || !strings.HasPrefix(pB.outcome, "matched") {
		st := "still waiting"
		select {
		case l := <-legacy:
			st = fmt.Sprintf("answered with status %d", l.status)
		default:
		}
		desc += fmt.Sprintf(" UNRESTRICTED-CLIENT-REFUSED: the legacy client announcing an unrestricted NAT was not handed to the waiting restricted poll (poll B: %q; legacy request %s)", pB.outcome, st)
	}
	bcWait(func() bool { return !inst.anyPending() }, bcTimeout()+bcTimeout())
	return desc
}

var bcScenarios = []bcScenario{
	{"other-entry-points", bcOtherEntryPoints},
	{"bridge-list-reloaded-between-check-and-hand-over", bcBridgeReloaded},
	{"client-goes-away-after-the-match", bcClientGoesAway},
	{"burst-of-polls-while-lock-held", bcBurstWhileLocked},
	{"many-waiting-proxies", bcManyWaiting},
	{"same-sid-repoll-with-other-nat", bcSameSidOtherNat},
	{"nat-spellings", bcNatSpellings},
	{"same-sid-repoll-while-matched/answered", bcSameSidRepoll(true)},
	{"same-sid-repoll-while-matched/unanswered", bcSameSidRepoll(false)},
	{"same-sid-two-idle-polls", bcSameSidTwoIdle},
	{"silent-proxy-and-spare-poll", bcSilentProxyAndSpare},
}

func runBrokerScenarios(t *testing.T, r *vh.Run, prop string) {
	var wg sync.WaitGroup
	type sres struct {
		desc, real string
		inst       *bcInst
	}
	out := make([]sres, len(bcScenarios))
	for i, sc := range bcScenarios {
		wg.Add(1)
		if vh.Serial() {
			wg.Wait() // one scenario at a time, so that the journal's last instance is the one that crashed
			wg.Add(1)
			wg.Done()
		}
		go func(i int, sc bcScenario) {
			defer wg.Done()
			inst := newBcInst(t, map[int]int{0: 100})
			vh.Journal(fmt.Sprintf("broker-instance %p: scenario %s", inst, sc.name))
			desc := sc.run(t, inst)
			bcWait(func() bool { return !inst.anyPending() }, 3*time.Second)
			out[i] = sres{desc, inst.summary(inst.anyPending()), inst}
		}(i, sc)
	}
	wg.Wait()
	for i, sc := range bcScenarios {
		o := out[i]
		line := "scenario " + sc.name + ": " + o.desc
		r.Case("scenario/"+sc.name, line, true)
		if prop == "C02" {
			if strings.Contains(o.desc, "WRONG-BRIDGE") {
				r.OracleFail("relay-url-not-of-named-bridge", line, o.real, "the relay URL delivered with an offer is the one configured for the bridge the client named")
			}
			if strings.Contains(o.desc, "OFFER-HANDED-TWICE") {
				r.OracleFail("offer-handed-twice", line, o.real, "an offer is handed to at most one poll, however long that proxy stays silent")
			}
			continue
		}
		if prop == "C03" {
			if strings.Contains(o.desc, "NAT-INCOMPATIBLE") {
				r.OracleFail("nat-incompatible-match", line, trunc1k(o.real), "a restricted or unknown client is only ever matched with an unrestricted proxy")
			}
			if strings.Contains(o.desc, "NOT-MIN-CLIENTS") {
				r.OracleFail("match-not-min-clients", line, trunc1k(o.real), "among the eligible waiting proxies a client is given one with the smallest self-reported client count")
			}
			if strings.Contains(o.desc, "UNRESTRICTED-CLIENT-") {
				r.OracleFail("unrestricted-client-not-served-from-restricted-pool", line, trunc1k(o.real), "a client reporting an unrestricted NAT is served from the pool of restricted/unknown proxies, and refused only if none of them waits")
			}
			if strings.Contains(o.desc, "POOLS-WRONG") {
				r.OracleFail("proxy-filed-in-the-wrong-pool", line, trunc1k(o.real), "a poll is offered to clients according to the NAT type it reported, whatever protocol version it announces")
			}
			if strings.Contains(o.desc, "DENIED-ALTHOUGH-ELIGIBLE") || strings.Contains(o.desc, "WRONG-DENIALS") {
				r.OracleFail("denied-although-eligible-proxy-waiting", line, trunc1k(o.real), "a client is refused only if no compatible proxy is waiting")
			}
			continue
		}
		switch {
		case o.inst.lockDead:
			r.OracleFail("broker-lock-held-forever:"+sc.name, line, o.real, "the broker's matching lock was not released for 8 s")
		case o.inst.anyPending():
			r.OracleFail("request-never-completes:"+sc.name, line, o.real, "every request must get its response within the protocol waits plus slack")
		default:
			if hu, hr, mp, g := o.inst.counts(); hu+hr+mp != 0 || int(g) != 0 {
				r.OracleFail("leftover-registration:"+sc.name, line, fmt.Sprintf("%s heapU=%d heapR=%d map=%d gauge=%v", o.real, hu, hr, mp, g),
					"once all requests completed the broker must hold no registration and report zero available proxies")
				continue
			}
			fresh := &bcReq{kind: 'C', id: 999, wireNat: "unknown"}
			o.inst.start(fresh)
			if !bcWait(fresh.isDone, 5*time.Second) || fresh.outcome != "denied" {
				r.OracleFail("fresh-client-not-denied-at-quiescence:"+sc.name, line, fmt.Sprintf("outcome %q", fresh.outcome), "a fresh client must be told there are no proxies")
			}
		}
	}
}

func TestVerifC02(t *testing.T) { runBrokerCore(t, "C02") }
func TestVerifC03(t *testing.T) { runBrokerCore(t, "C03") }
func TestVerifC04(t *testing.T) { runBrokerCore(t, "C04") }

func trunc1k(s string) string {
	if len(s) > 1000 {
		return s[:1000] + "..."
	}
	return s
}
