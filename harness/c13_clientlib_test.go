//go:build verif

package snowflake_client

// C13 harness, client side (virtual file in /repo/client/lib): whatever a broker / proxy answers, the
// client's Negotiate returns a description or an error and never panics.

import (
	"encoding/json"
	"fmt"
	"strings"
	"testing"

	"git.torproject.org/pluggable-transports/snowflake.git/v2/common/nat"
	vh "git.torproject.org/pluggable-transports/snowflake.git/v2/common/zzverif"
	"github.com/pion/webrtc/v3"
)

type c13Rendezvous struct{ resp []byte }

func (r *c13Rendezvous) Exchange(req []byte) ([]byte, error) { return r.resp, nil }

func TestVerifC13Client(t *testing.T) {
	r := vh.Start("C13")
	defer r.Finish()
	rng := r.Rng
	offer := &webrtc.SessionDescription{Type: webrtc.SDPTypeOffer, SDP: "v=0\r\no=- 1 2 IN IP4 8.8.8.8\r\ns=-\r\nt=0 0\r\n"}
	keep := true
	try := func(class string, resp []byte) {
		keep = !keep // both settings of keepLocalAddresses
		bc := &BrokerChannel{Rendezvous: &c13Rendezvous{resp: resp}, keepLocalAddresses: keep, natType: nat.NATUnknown}
		out := ""
		func() {
			defer func() {
				if x := recover(); x != nil {
					out = fmt.Sprintf("panic:%v", x)
				}
			}()
			ans, err := bc.Negotiate(offer)
			switch {
			case err != nil:
				out = "err"
			case ans != nil:
				out = "ok"
			default:
				out = "nil-nil"
			}
		}()
		r.Case("negotiate/"+class+"/"+strings.SplitN(out, ":", 2)[0], vh.Hex(resp), true)
		if strings.HasPrefix(out, "panic") || out == "nil-nil" {
			r.OracleFail("client-negotiate-panics-on-hostile-answer", vh.Hex(resp), out,
				"a crafted broker/proxy answer must yield a description or an error, never a panic: "+fmt.Sprintf("%q", string(resp)))
		}
	}
	// answers: every JSON shape vh.GenJSON knows, wrapped as the broker's poll response and bare
	g := &vh.JGen{Rng: rng}
	member := func(which string) string {
		switch rng.Intn(10) {
		case 0, 1, 2, 3:
			if which == "type" {
				return g.StrLit([]string{"offer", "pranswer", "answer", "rollback", "Answer", "", "x"}[rng.Intn(7)])
			}
			return g.StrLit(g.GoString(g.Len(), 0))
		case 4:
			return g.WeirdStrLit()
		default:
			return g.ValueOf(vh.JKinds[rng.Intn(len(vh.JKinds))], 1)
		}
	}
	for i := 0; i < r.N(1500, 30000); i++ {
		var inner string
		switch rng.Intn(8) {
		case 0:
			inner = g.Value(1) // any JSON value at top level
		case 1:
			inner = g.RandomBytes()
		default:
			var ms []string
			if rng.Intn(8) != 0 {
				ms = append(ms, `"type":`+member("type"))
			}
			if rng.Intn(8) != 0 {
				ms = append(ms, `"sdp":`+member("sdp"))
			}
			if rng.Intn(6) == 0 {
				ms = append(ms, `"type":`+member("type"))
			}
			inner = "{" + strings.Join(ms, ",") + "}"
			if rng.Intn(10) == 0 {
				inner = g.Mutate(inner)
			}
		}
		switch rng.Intn(4) {
		case 0:
			try("bare", []byte(inner))
		default:
			try("wrapped", []byte(`{"answer":`+g.StrLit(inner)+`}`))
		}
	}
	// answers whose SDP text is a well-formed description of every shape pion accepts: with and without session- and
	// media-level connection lines, 0..3 media sections, local and public candidates, odd attribute lines
	for i := 0; i < r.N(400, 8000); i++ {
		var b strings.Builder
		b.WriteString("v=0\r\no=- 4358805017720277108 2 IN IP4 8.8.8.8\r\ns=-\r\n")
		if rng.Intn(2) == 0 {
			b.WriteString("c=IN IP4 " + []string{"192.168.1.7", "8.8.4.4", "0.0.0.0", "10.0.0.1/127"}[rng.Intn(4)] + "\r\n")
		}
		b.WriteString("t=0 0\r\n")
		for m, nm := 0, rng.Intn(4); m < nm; m++ {
			b.WriteString("m=application 9 UDP/DTLS/SCTP webrtc-datachannel\r\n")
			if rng.Intn(2) == 0 {
				b.WriteString("c=IN " + []string{"IP4 192.168.0.9", "IP4 1.2.3.4", "IP6 fd00::1", "IP6 2001:db8::2", "IP4 0.0.0.0"}[rng.Intn(5)] + "\r\n")
			}
			for a, na := 0, rng.Intn(5); a < na; a++ {
				b.WriteString("a=" + []string{
					"candidate:1 1 udp 2122260223 192.168.1.5 56688 typ host", "candidate:2 1 udp 2122260223 8.8.8.8 5000 typ host",
					"candidate:3 1 udp 1 10.1.2.3 9 typ srflx raddr 0.0.0.0 rport 0", "candidate:4 1 tcp 1 fd00::2 9 typ host tcptype active",
					"candidate:", "candidate:x", "mid:0", "setup:active", "ice-ufrag:abcd", "end-of-candidates", "sctp-port:5000",
				}[rng.Intn(11)] + "\r\n")
			}
		}
		ans, _ := json.Marshal(map[string]string{"type": []string{"answer", "offer", "pranswer"}[rng.Intn(3)], "sdp": b.String()})
		wrapped, _ := json.Marshal(map[string]string{"answer": string(ans)})
		try("sdp-shaped", wrapped)
	}
	for _, s := range []string{``, `{}`, `{"answer":""}`, `{"answer":"x"}`, `{"error":"no"}`, `{"answer":"{\"type\":1,\"sdp\":\"\"}"}`, `{"answer":"{\"type\":\"offer\"}"}`,
		`{"answer":"{\"type\":\"answer\",\"sdp\":null}"}`, `{"answer":"null"}`, `{"answer":"[]"}`, `{"answer":"{\"type\":\"bogus\",\"sdp\":\"x\"}"}`, `{"answer":"{\"type\":\"answer\",\"sdp\":\"v=0\"}"}`} {
		try("fixed", []byte(s))
	}
}
