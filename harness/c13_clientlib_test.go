//go:build verif

package snowflake_client

// C13 harness, client side (virtual file in /repo/client/lib): whatever a broker / proxy answers, the
// client's Negotiate returns a description or an error and never panics.

import (
	"fmt"
	"strings"
	"testing"

	"git.torproject.org/pluggable-transports/snowflake.git/v2/common/nat"
	vh "git.torproject.org/pluggable-transports/snowflake.git/v2/common/zzverif"
	"github.com/pion/webrtc/v3"
)

type c13Rendezvous struct{ resp []byte }

func (r *c13Rendezvous) Exchange(req []byte) ([]byte, error) { return r.resp, nil }

func TestVerifC13Client(t *testing.T) {
	r := vh.Start("C13")
	defer r.Finish()
	rng := r.Rng
	offer := &webrtc.SessionDescription{Type: webrtc.SDPTypeOffer, SDP: "v=0\r\no=- 1 2 IN IP4 8.8.8.8\r\ns=-\r\nt=0 0\r\n"}
	try := func(class string, resp []byte) {
		bc := &BrokerChannel{Rendezvous: &c13Rendezvous{resp: resp}, keepLocalAddresses: true, natType: nat.NATUnknown}
		out := ""
		func() {
			defer func() {
				if x := recover(); x != nil {
					out = fmt.Sprintf("panic:%v", x)
				}
			}()
			ans, err := bc.Negotiate(offer)
			switch {
			case err != nil:
				out = "err"
			case ans != nil:
				out = "ok"
			default:
				out = "nil-nil"
			}
		}()
		r.Case("negotiate/"+class+"/"+strings.SplitN(out, ":", 2)[0], vh.Hex(resp), true)
		if strings.HasPrefix(out, "panic") || out == "nil-nil" {
			r.OracleFail("client-negotiate-panics-on-hostile-answer", vh.Hex(resp), out,
				"a crafted broker/proxy answer must yield a description or an error, never a panic: "+fmt.Sprintf("%q", string(resp)))
		}
	}
	// answers: every JSON shape vh.GenJSON knows, wrapped as the broker's poll response and bare
	g := &vh.JGen{Rng: rng}
	member := func(which string) string {
		switch rng.Intn(10) {
		case 0, 1, 2, 3:
			if which == "type" {
				return g.StrLit([]string{"offer", "pranswer", "answer", "rollback", "Answer", "", "x"}[rng.Intn(7)])
			}
			return g.StrLit(g.GoString(g.Len(), 0))
		case 4:
			return g.WeirdStrLit()
		default:
			return g.ValueOf(vh.JKinds[rng.Intn(len(vh.JKinds))], 1)
		}
	}
	for i := 0; i < r.N(1500, 30000); i++ {
		var inner string
		switch rng.Intn(8) {
		case 0:
			inner = g.Value(1) // any JSON value at top level
		case 1:
			inner = g.RandomBytes()
		default:
			var ms []string
			if rng.Intn(8) != 0 {
				ms = append(ms, `"type":`+member("type"))
			}
			if rng.Intn(8) != 0 {
				ms = append(ms, `"sdp":`+member("sdp"))
			}
			if rng.Intn(6) == 0 {
				ms = append(ms, `"type":`+member("type"))
			}
			inner = "{" + strings.Join(ms, ",") + "}"
			if rng.Intn(10) == 0 {
				inner = g.Mutate(inner)
			}
		}
		switch rng.Intn(4) {
		case 0:
			try("bare", []byte(inner))
		default:
			try("wrapped", []byte(`{"answer":`+g.StrLit(inner)+`}`))
		}
	}
	for _, s := range []string{``, `{}`, `{"answer":""}`, `{"answer":"x"}`, `{"error":"no"}`, `{"answer":"{\"type\":1,\"sdp\":\"\"}"}`, `{"answer":"{\"type\":\"offer\"}"}`,
		`{"answer":"{\"type\":\"answer\",\"sdp\":null}"}`, `{"answer":"null"}`, `{"answer":"[]"}`, `{"answer":"{\"type\":\"bogus\",\"sdp\":\"x\"}"}`, `{"answer":"{\"type\":\"answer\",\"sdp\":\"v=0\"}"}`} {
		try("fixed", []byte(s))
	}
}
