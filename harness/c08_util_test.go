//go:build verif

package util

// C08 correspondence + oracle harness (virtual file in common/util via -overlay):
//   * util.IsLocal against the Lean model and against net.IPNet containment of the RFC ranges,
//   * util.StripLocalAddresses on generated SDPs: which attribute indices survive (real vs model, the
//     model being fed what pion reports about each attribute) and the property itself (re-parse the
//     output with pion; no local/loopback/unspecified host candidate survives, everything else does, in
//     order; unparseable input is returned unchanged; nothing panics).

import (
	"bytes"
	"fmt"
	"math/rand"
	"net"
	"reflect"
	"strings"
	"testing"

	"github.com/pion/ice/v2"
	"github.com/pion/sdp/v3"

	vh "git.torproject.org/pluggable-transports/snowflake.git/v2/common/zzverif"
)

// ---------------------------------------------------------------------------------------------
// independent reference for "local / loopback / unspecified"

var c08nets = func() map[string]*net.IPNet {
	m := map[string]*net.IPNet{}
	for name, cidr := range map[string]string{"rfc1918-10": "10.0.0.0/8", "rfc1918-172": "172.16.0.0/12", "rfc1918-192": "192.168.0.0/16",
		"rfc6598-cgnat": "100.64.0.0/10", "rfc3927-linklocal": "169.254.0.0/16", "rfc4193-ula": "fc00::/7", "loopback4": "127.0.0.0/8"} {
		_, n, err := net.ParseCIDR(cidr)
		if err != nil {
			panic(err)
		}
		m[name] = n
	}
	return m
}()

var c08order = []string{"rfc1918-10", "rfc1918-172", "rfc1918-192", "rfc6598-cgnat", "rfc3927-linklocal", "rfc4193-ula"}

// c08localKind says in which local range a 4- or 16-byte address lies ("" = none).
func c08localKind(ip net.IP) string {
	if len(ip) != 4 && len(ip) != 16 {
		return ""
	}
	for _, name := range c08order {
		n := c08nets[name]
		if (name == "rfc4193-ula") != (ip.To4() == nil) {
			continue
		}
		if n.Contains(ip) {
			return name
		}
	}
	return ""
}

func c08allZero(b []byte) bool {
	for _, x := range b {
		if x != 0 {
			return false
		}
	}
	return true
}

// c08badKind: why a host candidate with this (parsed) address has to go ("" = it may stay).
func c08badKind(ip net.IP) string {
	if k := c08localKind(ip); k != "" {
		return k
	}
	if v4 := ip.To4(); v4 != nil {
		if c08allZero(v4) {
			return "unspecified4"
		}
		if c08nets["loopback4"].Contains(v4) {
			return "loopback4"
		}
		return ""
	}
	if len(ip) == 16 {
		if c08allZero(ip) {
			return "unspecified6"
		}
		if c08allZero(ip[:15]) && ip[15] == 1 {
			return "loopback6"
		}
	}
	return ""
}

// ---------------------------------------------------------------------------------------------
// IsLocal

func c08isLocalCase(r *vh.Run, ip net.IP, class string) {
	line := "c08 islocal " + vh.Hex(ip)
	real := "panic"
	func() {
		defer func() { recover() }()
		real = fmt.Sprint(IsLocal(ip))
	}()
	r.Case("islocal/"+class+"/"+real, line, real == "true")
	r.Compare("IsLocal", line, real, r.Model(line))
	want := fmt.Sprint(c08localKind(ip) != "")
	if real != want {
		key := "islocal-false-positive"
		if want == "true" {
			key = "islocal-misses-" + c08localKind(ip)
		}
		r.OracleFail(key, fmt.Sprintf("util.IsLocal(%v) [% x]", ip, []byte(ip)), real,
			"IsLocal must hold exactly on 10/8, 172.16/12, 192.168/16, 100.64/10, 169.254/16 (IPv4 incl. IPv4-mapped) and fc00::/7")
	}
}

var c08secondOctets = []int{0, 1, 15, 16, 17, 31, 32, 63, 64, 65, 127, 128, 167, 168, 169, 253, 254, 255}

func c08isLocalAll(r *vh.Run, rng *rand.Rand) {
	for a := 0; a < 256; a++ { // every /8, both byte forms
		for _, b := range c08secondOctets {
			c, d := byte(rng.Intn(256)), byte(rng.Intn(256))
			if rng.Intn(3) == 0 {
				c, d = []byte{0, 255}[rng.Intn(2)], []byte{0, 255}[rng.Intn(2)]
			}
			c08isLocalCase(r, net.IP{byte(a), byte(b), c, d}, "v4")
			c08isLocalCase(r, net.IPv4(byte(a), byte(b), c, d), "mapped")
		}
		ip6 := make(net.IP, 16) // every first byte of an IPv6 address
		rng.Read(ip6)
		ip6[0] = byte(a)
		c08isLocalCase(r, ip6, "v6")
		ip6b := make(net.IP, 16)
		ip6b[0] = byte(a)
		c08isLocalCase(r, ip6b, "v6")
	}
	// boundaries +-1 of every range as 32-bit values
	for _, name := range c08order[:5] {
		n := c08nets[name]
		lo := uint32(n.IP[0])<<24 | uint32(n.IP[1])<<16 | uint32(n.IP[2])<<8 | uint32(n.IP[3])
		ones, _ := n.Mask.Size()
		hi := lo | (1<<(32-uint(ones)) - 1)
		for _, x := range []uint32{lo - 1, lo, lo + 1, hi - 1, hi, hi + 1} {
			c08isLocalCase(r, net.IP{byte(x >> 24), byte(x >> 16), byte(x >> 8), byte(x)}, "boundary")
			c08isLocalCase(r, net.IPv4(byte(x>>24), byte(x>>16), byte(x>>8), byte(x)), "boundary-mapped")
		}
	}
	for _, s := range []string{"fbff:ffff:ffff:ffff:ffff:ffff:ffff:ffff", "fc00::", "fdff:ffff:ffff:ffff:ffff:ffff:ffff:ffff", "fe00::", "fe80::1", "::", "::1",
		"::fc00:0:0", "::fffe:10.0.0.1", "0:0:0:0:0:ffff:a00:1", "::a00:1", "64:ff9b::10.0.0.1", "2002:a00:1::"} {
		c08isLocalCase(r, net.ParseIP(s), "v6-special")
	}
	for i := 0; i < r.N(1500, 60000); i++ {
		n := []int{4, 16, 16, 0, 1, 3, 5, 12, 15, 17, 32}[rng.Intn(11)]
		ip := make(net.IP, n)
		rng.Read(ip)
		if n == 16 && rng.Intn(3) == 0 {
			copy(ip, net.IPv4(ip[12], ip[13], ip[14], ip[15]))
			if rng.Intn(4) == 0 { // near-miss of the mapped prefix
				ip[rng.Intn(12)] ^= byte(1 << uint(rng.Intn(8)))
			}
		}
		c08isLocalCase(r, ip, fmt.Sprintf("random-len%d", n))
	}
	c08isLocalCase(r, nil, "nil")
}

// ---------------------------------------------------------------------------------------------
// SDP generator (pion-canonical text: what desc.Marshal() prints)

var c08v4pool = []string{"8.8.8.8", "1.2.3.4", "192.0.2.1", "203.0.113.77", "255.255.255.255",
	"9.255.255.255", "10.0.0.0", "10.1.2.3", "10.255.255.255", "11.0.0.0",
	"172.15.255.255", "172.16.0.0", "172.20.1.1", "172.31.255.255", "172.32.0.0",
	"192.167.255.255", "192.168.0.0", "192.168.1.100", "192.168.255.255", "192.169.0.0",
	"100.63.255.255", "100.64.0.0", "100.100.100.100", "100.127.255.255", "100.128.0.0",
	"169.253.255.255", "169.254.0.0", "169.254.250.88", "169.254.255.255", "169.255.0.0",
	"126.255.255.255", "127.0.0.0", "127.0.0.1", "127.255.255.255", "128.0.0.0", "0.0.0.0", "0.0.0.1"}

var c08v6pool = []string{"2001:db8::1", "2607:f8b0:4005:805::200e", "fbff:ffff:ffff:ffff:ffff:ffff:ffff:ffff", "fc00::", "fc00::1",
	"fdf8:f53b:82e4::53", "fdff:ffff:ffff:ffff:ffff:ffff:ffff:ffff", "fe00::", "fe80::1", "::", "::1", "::2", "0:0:0:0:0:0:0:1",
	"0:0:0:0:0:0:0:0", "FD00::ABCD", "fc00:0:0:0:0:0:0:0", "1::", "::fc00:0:0"}

func c08addr(rng *rand.Rand) string {
	switch rng.Intn(10) {
	case 0, 1, 2, 3:
		return c08v4pool[rng.Intn(len(c08v4pool))]
	case 4, 5:
		return c08v6pool[rng.Intn(len(c08v6pool))]
	case 6: // IPv4-mapped spellings
		v4 := c08v4pool[rng.Intn(len(c08v4pool))]
		ip := net.ParseIP(v4).To4()
		switch rng.Intn(3) {
		case 0:
			return "::ffff:" + v4
		case 1:
			return fmt.Sprintf("::ffff:%x:%x", int(ip[0])<<8|int(ip[1]), int(ip[2])<<8|int(ip[3]))
		}
		return fmt.Sprintf("0:0:0:0:0:FFFF:%02X%02X:%02X%02X", ip[0], ip[1], ip[2], ip[3])
	case 7:
		return fmt.Sprintf("%d.%d.%d.%d", rng.Intn(256), rng.Intn(256), rng.Intn(256), rng.Intn(256))
	case 8:
		ip := make(net.IP, 16)
		rng.Read(ip)
		ip[0] = []byte{0xfb, 0xfc, 0xfd, 0xfe, 0x20, 0x00}[rng.Intn(6)]
		return ip.String()
	}
	// not an IP literal
	return []string{"abcd1234-5678.local", "host.local", "example.com", "10.0.0.1.local", "10.0.0", "10.0.0.256", "010.0.0.1", "fe80::1%eth0",
		"[::1]", "10.0.0.1:80", "::ffff:10.0.0.01", "localhost", "1", ":::"}[rng.Intn(14)]
}

var c08types = []string{"host", "host", "host", "srflx", "prflx", "relay"}

func c08candidate(rng *rand.Rand) (value string, class string) {
	addr := c08addr(rng)
	typ := c08types[rng.Intn(len(c08types))]
	proto := []string{"udp", "udp", "tcp", "UDP"}[rng.Intn(4)]
	foundation := fmt.Sprint(rng.Uint32())
	base := fmt.Sprintf("%s %d %s %d %s %d typ %s", foundation, 1+rng.Intn(2), proto, rng.Uint32(), addr, rng.Intn(65536), typ)
	if typ != "host" && rng.Intn(4) != 0 {
		base += fmt.Sprintf(" raddr %s rport %d", c08addr(rng), rng.Intn(65536))
	}
	if proto == "tcp" && rng.Intn(2) == 0 {
		base += " tcptype " + []string{"active", "passive", "so"}[rng.Intn(3)]
	}
	if rng.Intn(2) == 0 {
		base += " generation 0 network-id 1 network-cost 50"
	}
	class = "cand-" + typ
	f := strings.Fields(base)
	switch rng.Intn(14) { // malformed candidate lines
	case 0:
		return strings.Join(f[:rng.Intn(8)], " "), "cand-malformed-short"
	case 1:
		f[1] = []string{"x", "-1", "65536", ""}[rng.Intn(4)]
		return strings.Join(f, " "), "cand-malformed-component"
	case 2:
		f[5] = []string{"65536", "port", "-1", "99999999999"}[rng.Intn(4)]
		return strings.Join(f, " "), "cand-malformed-port"
	case 3:
		f[7] = []string{"hostx", "HOST", "", "typ"}[rng.Intn(4)]
		return strings.Join(f, " "), "cand-malformed-typ"
	case 4:
		f[3] = []string{"4294967296", "prio", "-5"}[rng.Intn(3)]
		return strings.Join(f, " "), "cand-malformed-priority"
	case 5:
		return " " + strings.Join(f[1:], " "), "cand-no-foundation"
	case 6:
		return strings.Join(f, "  "), "cand-double-space"
	}
	return base, class
}

var c08otherAttrs = []string{"ice-ufrag:aMAZ", "ice-pwd:jcHb08Jjgrazp2dzjdrvPPvV", "ice-options:trickle",
	"fingerprint:sha-256 C8:88:EE:B9:E7:02:2E:21:37:ED:7A:D1:EB:2B:A3:15:A2:3B:5B:1C:3D:D4:D5:1F:06:CF:52:40:03:F8:DD:66",
	"setup:actpass", "mid:0", "mid:data", "sctp-port:5000", "sctpmap:5000 webrtc-datachannel 1024", "max-message-size:1073741823",
	"end-of-candidates", "sendrecv", "rtcp-mux", "rtpmap:111 opus/48000/2", "candidates:not a candidate key", "x-candidate:10.0.0.1",
	"remote-candidates:1 10.0.0.1 5000", "Candidate:1 1 udp 1 10.0.0.1 1 typ host"}

// c08sdp builds one description; canonical says whether it is meant to be in the exact form pion prints.
func c08sdp(rng *rand.Rand) (text string, class string) {
	var b strings.Builder
	nl := "\r\n"
	b.WriteString("v=0" + nl)
	fmt.Fprintf(&b, "o=- %d 2 IN IP4 %s"+nl, rng.Int63(), []string{"8.8.8.8", "0.0.0.0", "127.0.0.1", "10.0.0.1"}[rng.Intn(4)])
	b.WriteString("s=-" + nl)
	if rng.Intn(6) == 0 {
		b.WriteString("c=IN IP4 10.0.0.1" + nl)
	}
	b.WriteString("t=0 0" + nl)
	sessCand := false
	for i, n := 0, rng.Intn(4); i < n; i++ {
		switch rng.Intn(8) {
		case 0: // session-level candidate: outside what the code touches (recorded, see DESIGN §5.8)
			v, _ := c08candidate(rng)
			b.WriteString("a=candidate:" + v + nl)
			sessCand = true
		default:
			b.WriteString("a=" + []string{"group:BUNDLE 0", "group:BUNDLE data", "msid-semantic: WMS", "ice-lite", "extmap-allow-mixed"}[rng.Intn(5)] + nl)
		}
	}
	nMedia := rng.Intn(5)
	nCand := 0
	for m := 0; m < nMedia; m++ {
		b.WriteString("m=" + []string{"application 9 UDP/DTLS/SCTP webrtc-datachannel", "application 56688 DTLS/SCTP 5000", "audio 9 UDP/TLS/RTP/SAVPF 111",
			"video 0 UDP/TLS/RTP/SAVPF 96 97"}[rng.Intn(4)] + nl)
		if rng.Intn(3) != 0 {
			b.WriteString("c=IN IP4 " + []string{"0.0.0.0", "8.8.8.8", "192.168.1.1"}[rng.Intn(3)] + nl)
		}
		if rng.Intn(8) == 0 {
			b.WriteString("b=AS:30" + nl)
		}
		nc := rng.Intn(13)
		if rng.Intn(4) == 0 {
			nc = 0
		}
		nOther := rng.Intn(8)
		total := nc + nOther
		for i := 0; i < total; i++ {
			if rng.Intn(total-i) < nc {
				nc--
				v, _ := c08candidate(rng)
				nCand++
				if rng.Intn(60) == 0 {
					b.WriteString("a=candidate" + nl) // key only
				} else {
					b.WriteString("a=candidate:" + v + nl)
				}
			} else {
				b.WriteString("a=" + c08otherAttrs[rng.Intn(len(c08otherAttrs))] + nl)
			}
		}
	}
	class = fmt.Sprintf("sdp/media%d", nMedia)
	_ = sessCand
	_ = nCand
	return b.String(), class
}

func c08mutate(rng *rand.Rand, s string) string {
	b := []byte(s)
	for k := 0; k <= rng.Intn(3); k++ {
		if len(b) == 0 {
			return "v"
		}
		p := rng.Intn(len(b))
		switch rng.Intn(8) {
		case 0:
			b = append(b[:p], b[p+1:]...)
		case 1:
			b = append(b[:p], append([]byte{byte(rng.Intn(256))}, b[p:]...)...)
		case 2:
			b[p] = byte(rng.Intn(256))
		case 3:
			b = b[:p]
		case 4: // duplicate a line
			lines := strings.SplitAfter(string(b), "\n")
			i := rng.Intn(len(lines))
			lines = append(lines[:i+1], lines[i:]...)
			b = []byte(strings.Join(lines, ""))
		case 5: // drop a line
			lines := strings.SplitAfter(string(b), "\n")
			i := rng.Intn(len(lines))
			b = []byte(strings.Join(append(lines[:i:i], lines[i+1:]...), ""))
		case 6: // swap two lines
			lines := strings.SplitAfter(string(b), "\n")
			i, j := rng.Intn(len(lines)), rng.Intn(len(lines))
			lines[i], lines[j] = lines[j], lines[i]
			b = []byte(strings.Join(lines, ""))
		case 7: // bare LF
			b = bytes.Replace(b, []byte("\r\n"), []byte("\n"), 1+rng.Intn(3))
		}
	}
	return string(b)
}

// ---------------------------------------------------------------------------------------------
// one StripLocalAddresses case

// c08fact: what pion reports about one attribute, as a token for the model, plus the independent verdict.
func c08fact(a sdp.Attribute) (tok string, bad string) {
	if !a.IsICECandidate() {
		return "-", ""
	}
	c, err := ice.UnmarshalCandidate(a.Value)
	if err != nil {
		return "x", ""
	}
	if c.Type() != ice.CandidateTypeHost {
		return "o:" + vh.Hex([]byte(c.Address())), ""
	}
	tok = "h:" + vh.Hex([]byte(c.Address()))
	if ip := net.ParseIP(c.Address()); ip != nil {
		bad = c08badKind(ip)
	}
	return tok, bad
}

func c08parse(s string) (d *sdp.SessionDescription, outcome string) {
	defer func() {
		if e := recover(); e != nil {
			d, outcome = nil, "panic"
		}
	}()
	d = &sdp.SessionDescription{}
	if err := d.Unmarshal([]byte(s)); err != nil {
		return nil, "error"
	}
	return d, "ok"
}

func c08stripReal(s string) (out string, outcome string) {
	defer func() {
		if e := recover(); e != nil {
			out, outcome = "", fmt.Sprintf("panic: %v", e)
		}
	}()
	return StripLocalAddresses(s), "ok"
}

// c08sink is what one strip case reports to: the run itself, or a probe used while shrinking.
type c08sink interface {
	Case(class, caseLine string, nontrivial bool)
	Compare(key, caseLine, real, model string) bool
	OracleFail(key, caseLine, real, detail string)
	Model(line string) string
}

type c08fail struct{ key, caseLine, real, detail string }

// c08probe evaluates only the oracle (no model calls, nothing recorded).
type c08probe struct{ fails []c08fail }

func (p *c08probe) Case(string, string, bool)                    {}
func (p *c08probe) Compare(string, string, string, string) bool { return true }
func (p *c08probe) Model(string) string                         { return "" }
func (p *c08probe) OracleFail(key, caseLine, real, detail string) {
	p.fails = append(p.fails, c08fail{key, caseLine, real, detail})
}

// c08live forwards everything to the run but holds oracle failures back so that they can be shrunk.
type c08live struct {
	*vh.Run
	fails []c08fail
}

func (l *c08live) OracleFail(key, caseLine, real, detail string) {
	l.fails = append(l.fails, c08fail{key, caseLine, real, detail})
}

// c08stripCaseShrunk runs one case; oracle failures are reported on an input shrunk line by line.
func c08stripCaseShrunk(r *vh.Run, in string, class string) {
	l := &c08live{Run: r}
	c08stripCase(l, in, class)
	seen := map[string]bool{}
	for _, f := range l.fails {
		if seen[f.key] || len(seen) >= 3 {
			continue
		}
		seen[f.key] = true
		has := func(s string) (c08fail, bool) {
			p := &c08probe{}
			c08stripCase(p, s, class)
			for _, g := range p.fails {
				if g.key == f.key {
					return g, true
				}
			}
			return c08fail{}, false
		}
		cur, best := in, f
		lines := strings.SplitAfter(cur, "\n")
		if len(lines) <= 300 {
			for changed := true; changed; {
				changed = false
				for i := len(lines) - 1; i >= 0; i-- {
					cand := strings.Join(append(append([]string{}, lines[:i]...), lines[i+1:]...), "")
					if g, ok := has(cand); ok {
						lines = append(lines[:i:i], lines[i+1:]...)
						cur, best, changed = cand, g, true
					}
				}
			}
		}
		_ = cur
		r.OracleFail(best.key, best.caseLine, best.real, best.detail)
	}
}

func c08stripCase(r c08sink, in string, class string) {
	q := fmt.Sprintf("StripLocalAddresses(%q)", in)
	out, outcome := c08stripReal(in)
	din, pin := c08parse(in)
	if outcome != "ok" {
		r.Case(class+"/panic", q, true)
		r.OracleFail("strip-panic", q, outcome, "no input may make the stripping step panic")
		return
	}
	if pin != "ok" { // pion rejects (or panics on) the input: the function must hand it back unchanged
		r.Case(class+"/unparseable", q, false)
		if out != in {
			r.OracleFail("strip-unparseable-input-changed", q, out, "a description pion cannot parse must be returned unchanged")
		}
		return
	}
	// Is the input in the exact form pion prints?  Only then is "Unmarshal; Marshal" the identity on
	// everything else, and only then are the preservation clauses judged (DESIGN §5.8: pion's parser
	// and marshaller are a partial normalising identity, not modelled).
	canonical := false
	if b, err := din.Marshal(); err == nil && string(b) == in {
		canonical = true
	}

	// ---- facts about the input's attributes (pion's verdicts) and the independent verdicts
	var toks []string
	var bads [][]string
	nBad, nHost, sessionLocal := 0, 0, 0
	for mi, m := range din.MediaDescriptions {
		if mi > 0 {
			toks = append(toks, "|")
		}
		if len(m.Attributes) == 0 {
			toks = append(toks, ".")
		}
		bm := make([]string, len(m.Attributes))
		for ai, a := range m.Attributes {
			tok, bad := c08fact(a)
			toks = append(toks, tok)
			bm[ai] = bad
			if strings.HasPrefix(tok, "h:") {
				nHost++
			}
			if bad != "" {
				nBad++
			}
		}
		bads = append(bads, bm)
	}
	for _, a := range din.Attributes {
		if _, bad := c08fact(a); bad != "" {
			sessionLocal++
		}
	}
	if sessionLocal > 0 {
		c08sessionLevel++
	}
	cls := class
	if !canonical {
		cls += "/renormalised-by-pion"
	}
	switch {
	case nHost == 0:
		cls += "/no-host"
	case nBad == 0:
		cls += "/host-none-local"
	case nBad == nHost:
		cls += "/host-all-local"
	default:
		cls += "/host-mixed"
	}
	r.Case(cls, q, nBad > 0)

	// ---- correspondence: the model predicts the surviving attribute indices; applying that prediction to
	// pion's parse of the input and marshalling with pion must give exactly the real output text
	line := "c08 strip"
	if len(toks) > 0 {
		line += " " + strings.Join(toks, " ")
	}
	model := r.Model(line)
	expect, ok := c08applyModel(in, model)
	if _, probing := r.(*c08probe); probing {
		// shrinking: oracle only
	} else if !ok {
		r.Compare("strip", line+"   # "+q, "surviving indices per media section", "unusable model reply: "+model)
	} else {
		r.Compare("strip", line+"   # "+q+"   # model keeps "+model, out, expect)
	}

	// ---- oracle (independent of the Lean model)
	dout, pout := c08parse(out)
	if pout != "ok" {
		if canonical {
			r.OracleFail("strip-output-unparseable", q, out, "the stripped description must still parse")
		}
		return
	}
	// (a) for every input pion parses: no media-level host candidate of the output is local / loopback / unspecified
	for mi, m := range dout.MediaDescriptions {
		for ai, a := range m.Attributes {
			if _, bad := c08fact(a); bad != "" {
				r.OracleFail("strip-"+bad+"-host-candidate-survives", q, fmt.Sprintf("output media %d attribute %d: a=%s", mi, ai, a.String()),
					"no host candidate with a private, CGNAT, link-local, unique-local, loopback or unspecified address may survive")
			}
		}
	}
	if !canonical {
		return
	}
	// (b) canonical input: output attributes = input attributes minus exactly the bad ones, in order
	if len(din.MediaDescriptions) != len(dout.MediaDescriptions) {
		r.OracleFail("strip-media-sections-changed", q, fmt.Sprintf("%d media sections in, %d out", len(din.MediaDescriptions), len(dout.MediaDescriptions)),
			"number of media sections must not change")
		return
	}
	var realSurv []string
	for mi, m := range din.MediaDescriptions {
		outAttrs := dout.MediaDescriptions[mi].Attributes
		oi := 0
		var surv []string
		for ai, a := range m.Attributes {
			survives := oi < len(outAttrs) && outAttrs[oi] == a
			if survives {
				oi++
				surv = append(surv, fmt.Sprint(ai))
			}
			if bads[mi][ai] == "" && !survives {
				r.OracleFail("strip-other-attribute-lost", q, fmt.Sprintf("media %d attribute %d lost or reordered: a=%s", mi, ai, a.String()),
					"every other attribute must be preserved, in order")
			}
		}
		if oi != len(outAttrs) {
			r.OracleFail("strip-attribute-invented", q, fmt.Sprintf("media %d: %d output attributes are not input attributes in order", mi, len(outAttrs)-oi),
				"the output attributes must be a sub-sequence of the input attributes")
		}
		if len(surv) == 0 {
			realSurv = append(realSurv, ".")
		} else {
			realSurv = append(realSurv, strings.Join(surv, ","))
		}
	}
	real := "none"
	if len(realSurv) > 0 {
		real = strings.Join(realSurv, " | ")
	}
	r.Compare("strip-indices", line+"   # "+q, real, model)
	// (c) every other field untouched
	for mi := range din.MediaDescriptions {
		din.MediaDescriptions[mi].Attributes, dout.MediaDescriptions[mi].Attributes = nil, nil
	}
	if !reflect.DeepEqual(din, dout) {
		r.OracleFail("strip-other-field-changed", q, out, "every field other than media-level candidates must be preserved")
	}
	// (d) text level: the output is the input minus exactly the removed candidate lines
	if !c08isLineSubsequence(out, in) || strings.Count(in, "\r\n")-strings.Count(out, "\r\n") != nBad {
		r.OracleFail("strip-text-not-input-minus-lines", q, out, "for canonical input the output must be the input minus exactly the removed candidate lines")
	}
}

// c08applyModel keeps, in pion's parse of `in`, the attribute indices the model says survive, and
// marshals the result with pion.
func c08applyModel(in, model string) (text string, ok bool) {
	d, p := c08parse(in)
	if p != "ok" {
		return "", false
	}
	var secs []string
	if model != "none" {
		secs = strings.Split(model, " | ")
	}
	if len(secs) != len(d.MediaDescriptions) {
		return "", false
	}
	for mi, m := range d.MediaDescriptions {
		attrs := make([]sdp.Attribute, 0)
		if secs[mi] != "." {
			for _, f := range strings.Split(secs[mi], ",") {
				var i int
				if _, err := fmt.Sscanf(f, "%d", &i); err != nil || i < 0 || i >= len(m.Attributes) {
					return "", false
				}
				attrs = append(attrs, m.Attributes[i])
			}
		}
		m.Attributes = attrs
	}
	b, err := d.Marshal()
	if err != nil {
		return "", false
	}
	return string(b), true
}

var c08sessionLevel int

func c08isLineSubsequence(out, in string) bool {
	ol, il := strings.SplitAfter(out, "\n"), strings.SplitAfter(in, "\n")
	j := 0
	for _, l := range ol {
		for j < len(il) && il[j] != l {
			j++
		}
		if j == len(il) {
			return false
		}
		j++
	}
	return true
}

// ---------------------------------------------------------------------------------------------

func TestVerifC08Util(t *testing.T) {
	r := vh.Start("C08")
	defer r.Finish()
	{
		irng := rand.New(rand.NewSource(r.Seed + 77))
		var cs []string
		for i := 0; i < r.N(200, 2000); i++ {
			s, _ := c08sdp(irng)
			if irng.Intn(4) == 0 {
				s = c08mutate(irng, s)
			}
			cs = append(cs, s)
		}
		r.Independent("strip", "StripLocalAddresses", cs, func(c string) string { return vh.Hex([]byte(StripLocalAddresses(c))) })
	}
	rng := r.Rng

	c08isLocalAll(r, rng)

	// the repository's own test vector
	const offerStart = "v=0\r\no=- 4358805017720277108 2 IN IP4 8.8.8.8\r\ns=-\r\nt=0 0\r\na=group:BUNDLE data\r\na=msid-semantic: WMS\r\nm=application 56688 DTLS/SCTP 5000\r\nc=IN IP4 8.8.8.8\r\n"
	const offerEnd = "a=ice-ufrag:aMAZ\r\na=ice-pwd:jcHb08Jjgrazp2dzjdrvPPvV\r\na=ice-options:trickle\r\na=setup:actpass\r\na=mid:data\r\na=sctpmap:5000 webrtc-datachannel 1024\r\n"
	vec := offerStart
	for _, a := range []string{"8.8.8.8", "192.168.0.100", "100.127.50.5", "169.254.250.88", "fdf8:f53b:82e4::53", "0.0.0.0", "::", "127.0.0.1", "::1"} {
		vec += "a=candidate:3769337065 1 udp 2122260223 " + a + " 56688 typ host generation 0 network-id 1 network-cost 50\r\n"
	}
	c08stripCaseShrunk(r, vec+offerEnd, "sdp/repo-test-vector")
	c08stripCaseShrunk(r, "", "sdp/empty")

	var pool []string
	for i := 0; i < r.N(3000, 40000); i++ {
		s, class := c08sdp(rng)
		c08stripCaseShrunk(r, s, class)
		if len(pool) < 500 {
			pool = append(pool, s)
		}
	}
	// malformed stream: mutations of valid descriptions, truncations, random bytes (supporting evidence
	// for "nothing panics"; inputs that pion still parses go through the full oracle)
	for i := 0; i < r.N(6000, 120000); i++ {
		var s string
		switch rng.Intn(6) {
		case 0:
			b := make([]byte, rng.Intn(200))
			rng.Read(b)
			s = string(b)
		case 1:
			s = pool[rng.Intn(len(pool))]
			s = s[:rng.Intn(len(s)+1)]
		default:
			s = c08mutate(rng, pool[rng.Intn(len(pool))])
		}
		c08stripCaseShrunk(r, s, "malformed")
	}
	if out, _ := c08stripReal(""); out != "" {
		r.Note("observation: StripLocalAddresses(\"\") = %q (pion's Unmarshal accepts the empty input and Marshal prints an empty skeleton); callers only pass pion-generated descriptions", out)
	}
	if c08sessionLevel > 0 {
		r.Note("%d inputs carried a session-level a=candidate line with a local address; StripLocalAddresses only filters media-level attributes (pion never emits session-level candidates) - recorded, not judged (DESIGN §5.8)", c08sessionLevel)
	}
}
