//go:build verif

package snowflake_proxy

// C08 harness, proxy side (virtual file in proxy/lib via -overlay): the last clause of the property —
// the stripping is "applied before the answer leaves the process".
//
// The real (*SignalingServer).sendAnswer is called with real pion PeerConnections whose local description
// (an answer to an offer of a second PeerConnection, ICE gathering complete) contains host candidates with
// local and public addresses: on the machine's own interfaces, with host candidates rewritten by
// SetNAT1To1IPs, and on pion's virtual network (vnet) with generated static addresses — all local, all
// public, mixed.  The broker is an httptest server that decodes the request the way the broker does
// (messages.DecodeAnswerRequest, util.DeserializeSessionDescription) and records the SDP that left.
// Both values of keepLocalAddresses (newSignalingServer(url, keep)) are run on every PeerConnection.
// What left is judged by vh.C08JudgeSent (see c08_clientlib_test.go).
//
// Loopback and unspecified host candidates cannot be produced with this pion version (ICE gathering
// skips loopback interfaces; there is no SetIncludeLoopbackCandidate): on this side those two kinds are
// covered by the tie `sendAnswer_strips_under_flag` + the common/util harness only.

import (
	"encoding/json"
	"fmt"
	"io/ioutil"
	"log"
	"math/rand"
	"net/http"
	"net/http/httptest"
	"strings"
	"sync"
	"testing"
	"time"

	"git.torproject.org/pluggable-transports/snowflake.git/v2/common/messages"
	"git.torproject.org/pluggable-transports/snowflake.git/v2/common/util"
	vh "git.torproject.org/pluggable-transports/snowflake.git/v2/common/zzverif"
	"github.com/pion/ice/v2"
	"github.com/pion/logging"
	"github.com/pion/transport/vnet"
	"github.com/pion/webrtc/v3"
)

// c08Broker records the bodies posted to /answer.
type c08Broker struct {
	mu   sync.Mutex
	sent vh.C08Sent
	sid  string
	srv  *httptest.Server
}

func c08rawAnswer(body []byte) (typ, sdp string, err error) {
	var m struct {
		Answer string `json:"Answer"`
	}
	if err := json.Unmarshal(body, &m); err != nil {
		return "", "", err
	}
	var d struct {
		Type string `json:"type"`
		SDP  string `json:"sdp"`
	}
	if err := json.Unmarshal([]byte(m.Answer), &d); err != nil {
		return "", "", err
	}
	return d.Type, d.SDP, nil
}

func c08NewBroker() *c08Broker {
	b := &c08Broker{}
	b.srv = httptest.NewServer(http.HandlerFunc(func(w http.ResponseWriter, req *http.Request) {
		body, _ := ioutil.ReadAll(req.Body)
		b.mu.Lock()
		defer b.mu.Unlock()
		if !strings.HasSuffix(req.URL.Path, "/answer") {
			b.sent.Err = "request to " + req.URL.Path
		}
		b.sent.Calls++
		func() {
			defer func() {
				if e := recover(); e != nil {
					b.sent.Err = fmt.Sprintf("decoder panicked: %v", e)
				}
			}()
			answer, sid, err := messages.DecodeAnswerRequest(body)
			if err == nil {
				b.sid = sid
				var d *webrtc.SessionDescription
				if d, err = util.DeserializeSessionDescription(answer); err == nil {
					b.sent.Type, b.sent.SDP = d.Type.String(), d.SDP
					return
				}
			}
			t, s, err2 := c08rawAnswer(body)
			if err2 != nil {
				b.sent.Err = fmt.Sprintf("%v / %v", err, err2)
				return
			}
			b.sent.Type, b.sent.SDP = t, s
		}()
		resp, _ := messages.EncodeAnswerResponse(true)
		w.Write(resp)
	}))
	return b
}

func (b *c08Broker) take() vh.C08Sent {
	b.mu.Lock()
	defer b.mu.Unlock()
	s := b.sent
	b.sent = vh.C08Sent{}
	return s
}

// c08Net describes how the answering PeerConnection sees the network.
type c08Net struct {
	name      string
	static    []string // vnet with these addresses (nil: the machine's interfaces)
	nat1to1   []string
	nat1to1As webrtc.ICECandidateType
}

// c08Answerer builds a PeerConnection the way the proxy holds one when it calls sendAnswer: remote offer
// applied, answer created and set as local description, ICE gathering complete.
func c08Answerer(n c08Net) (pc *webrtc.PeerConnection, cleanup func(), err error) {
	var closers []func()
	cleanup = func() {
		for i := len(closers) - 1; i >= 0; i-- {
			closers[i]()
		}
	}
	defer func() {
		if e := recover(); e != nil {
			err = fmt.Errorf("panic while building the peer connection: %v", e)
		}
		if err != nil {
			cleanup()
		}
	}()
	so := webrtc.SettingEngine{}
	so.SetICEMulticastDNSMode(ice.MulticastDNSModeDisabled)
	offerer, err := webrtc.NewAPI(webrtc.WithSettingEngine(so)).NewPeerConnection(webrtc.Configuration{})
	if err != nil {
		return nil, cleanup, err
	}
	closers = append(closers, func() { offerer.Close() })
	if _, err = offerer.CreateDataChannel("c08", nil); err != nil {
		return nil, cleanup, err
	}
	offer, err := offerer.CreateOffer(nil)
	if err != nil {
		return nil, cleanup, err
	}
	if err = offerer.SetLocalDescription(offer); err != nil {
		return nil, cleanup, err
	}

	s := webrtc.SettingEngine{}
	s.SetICEMulticastDNSMode(ice.MulticastDNSModeDisabled)
	if n.static != nil {
		wan, err := vnet.NewRouter(&vnet.RouterConfig{CIDR: "0.0.0.0/0", LoggerFactory: logging.NewDefaultLoggerFactory()})
		if err != nil {
			return nil, cleanup, err
		}
		nw := vnet.NewNet(&vnet.NetConfig{StaticIPs: n.static})
		if err = wan.AddNet(nw); err != nil {
			return nil, cleanup, err
		}
		if err = wan.Start(); err != nil {
			return nil, cleanup, err
		}
		closers = append(closers, func() { wan.Stop() })
		s.SetVNet(nw)
	}
	if n.nat1to1 != nil {
		s.SetNAT1To1IPs(n.nat1to1, n.nat1to1As)
	}
	pc, err = webrtc.NewAPI(webrtc.WithSettingEngine(s)).NewPeerConnection(webrtc.Configuration{})
	if err != nil {
		return nil, cleanup, err
	}
	closers = append(closers, func() { pc.Close() })
	if err = pc.SetRemoteDescription(offer); err != nil {
		return nil, cleanup, err
	}
	answer, err := pc.CreateAnswer(nil)
	if err != nil {
		return nil, cleanup, err
	}
	done := webrtc.GatheringCompletePromise(pc)
	if err = pc.SetLocalDescription(answer); err != nil {
		return nil, cleanup, err
	}
	select {
	case <-done:
	case <-time.After(10 * time.Second):
		return nil, cleanup, fmt.Errorf("ICE gathering did not complete within 10 s")
	}
	if pc.LocalDescription() == nil {
		return nil, cleanup, fmt.Errorf("no local description")
	}
	return pc, cleanup, nil
}

func c08SendAnswer(b *c08Broker, keep bool, pc *webrtc.PeerConnection) vh.C08Sent {
	b.take()
	type res struct{ panicked string }
	ch := make(chan res, 1)
	go func() {
		var out res
		defer func() {
			if e := recover(); e != nil {
				out.panicked = fmt.Sprintf("panic: %v", e)
			}
			ch <- out
		}()
		s, err := newSignalingServer(b.srv.URL, keep)
		if err != nil {
			panic(err)
		}
		s.sendAnswer("c08-sid", pc)
	}()
	select {
	case out := <-ch:
		sent := b.take()
		sent.Panic = out.panicked
		return sent
	case <-time.After(40 * time.Second):
		sent := b.take()
		sent.Err = "sendAnswer did not return within 40 s"
		return sent
	}
}

func c08vnetAddrs(rng *rand.Rand, kind string) []string {
	local := func() string {
		switch rng.Intn(5) {
		case 0:
			return fmt.Sprintf("10.%d.%d.%d", rng.Intn(256), rng.Intn(256), 1+rng.Intn(254))
		case 1:
			return fmt.Sprintf("172.%d.%d.%d", 16+rng.Intn(16), rng.Intn(256), 1+rng.Intn(254))
		case 2:
			return fmt.Sprintf("192.168.%d.%d", rng.Intn(256), 1+rng.Intn(254))
		case 3:
			return fmt.Sprintf("100.%d.%d.%d", 64+rng.Intn(64), rng.Intn(256), 1+rng.Intn(254))
		}
		return fmt.Sprintf("169.254.%d.%d", rng.Intn(256), 1+rng.Intn(254))
	}
	public := func() string {
		for {
			a := fmt.Sprintf("%d.%d.%d.%d", 1+rng.Intn(223), rng.Intn(256), rng.Intn(256), 1+rng.Intn(254))
			if vh.C08AddrKind(a) == "" {
				return a
			}
		}
	}
	boundary := []string{"9.255.255.254", "10.0.0.1", "10.255.255.254", "11.0.0.1", "172.15.255.254", "172.16.0.1", "172.31.255.254", "172.32.0.1",
		"192.167.255.254", "192.168.0.1", "192.168.255.254", "192.169.0.1", "100.63.255.254", "100.64.0.1", "100.127.255.254", "100.128.0.1",
		"169.253.255.254", "169.254.0.1", "169.254.255.254", "169.255.0.1"}
	seen := map[string]bool{}
	var out []string
	for n := 1 + rng.Intn(4); len(out) < n; {
		var a string
		switch kind {
		case "all-local":
			a = local()
		case "all-public":
			a = public()
		case "boundary":
			a = boundary[rng.Intn(len(boundary))]
		default:
			if rng.Intn(2) == 0 {
				a = local()
			} else {
				a = public()
			}
		}
		if !seen[a] {
			seen[a] = true
			out = append(out, a)
		}
	}
	return out
}

func TestVerifC08Proxy(t *testing.T) {
	r := vh.Start("C08")
	defer r.Finish()
	rng := r.Rng
	log.SetOutput(ioutil.Discard)

	b := c08NewBroker()
	defer b.srv.Close()

	nets := []c08Net{
		{name: "machine-interfaces"},
		{name: "machine-interfaces+host-rewritten-to-10.1.2.3", nat1to1: []string{"10.1.2.3"}, nat1to1As: webrtc.ICECandidateTypeHost},
		{name: "machine-interfaces+host-rewritten-to-192.168.7.7-and-fd12::5", nat1to1: []string{"192.168.7.7", "fd12:3456:789a::5"}, nat1to1As: webrtc.ICECandidateTypeHost},
		{name: "machine-interfaces+host-rewritten-to-203.0.113.9", nat1to1: []string{"203.0.113.9"}, nat1to1As: webrtc.ICECandidateTypeHost},
		{name: "machine-interfaces+srflx-10.9.9.9", nat1to1: []string{"10.9.9.9"}, nat1to1As: webrtc.ICECandidateTypeSrflx},
		{name: "vnet-fixed-mixed", static: []string{"10.1.2.3", "203.0.113.5", "192.168.1.7", "100.64.0.9", "169.254.3.4", "172.16.5.6"}},
		{name: "vnet-fixed-one-private", static: []string{"192.168.1.100"}},
		{name: "vnet+srflx-172.20.1.1", static: []string{"198.51.100.7"}, nat1to1: []string{"172.20.1.1"}, nat1to1As: webrtc.ICECandidateTypeSrflx},
	}
	kinds := []string{"all-local", "all-local", "mixed", "mixed", "all-public", "boundary"}
	for i := 0; i < r.N(40, 300); i++ {
		k := kinds[rng.Intn(len(kinds))]
		nets = append(nets, c08Net{name: "vnet-" + k, static: c08vnetAddrs(rng, k)})
	}

	built, withLocal, kindsSeen := 0, 0, map[string]bool{}
	var failures []string
	for _, n := range nets {
		pc, cleanup, err := c08Answerer(n)
		if err != nil {
			failures = append(failures, fmt.Sprintf("%s %v: %v", n.name, n.static, err))
			if len(failures) >= 4 && built == 0 {
				r.Skip("proxy side: pion peer connections cannot be built in this sandbox (" + failures[0] + "); remaining networks not tried")
				break
			}
			continue
		}
		built++
		ld := pc.LocalDescription()
		// which local kinds does pion's description contain?  (independent classifier, text level)
		local := false
		for _, line := range strings.Split(ld.SDP, "\r\n") {
			f := strings.Fields(line)
			if strings.HasPrefix(line, "a=candidate:") && len(f) >= 8 && f[7] == "host" {
				if k := vh.C08AddrKind(f[4]); k != "" {
					local = true
					kindsSeen[k] = true
				}
			}
		}
		if local {
			withLocal++
		}
		class := strings.SplitN(n.name, "-", 2)[0] + "/" + n.name
		if n.static != nil && strings.HasPrefix(n.name, "vnet-") {
			class = "vnet/" + strings.TrimPrefix(n.name, "vnet-")
		}
		for _, keep := range []bool{false, true} {
			sent := c08SendAnswer(b, keep, pc)
			vh.C08JudgeSent(r, "proxy sendAnswer", keep, ld.Type.String(), ld.SDP, sent, class, util.StripLocalAddresses)
		}
		cleanup()
	}
	var ks []string
	for _, k := range []string{"rfc1918-10", "rfc1918-172", "rfc1918-192", "rfc6598-cgnat", "rfc3927-linklocal", "rfc4193-ula", "loopback4", "loopback6", "unspecified4", "unspecified6"} {
		if kindsSeen[k] {
			ks = append(ks, k)
		}
	}
	r.Note("proxy side: %d of %d peer connections built, %d local descriptions contained local host candidates (kinds: %s)", built, len(nets), withLocal, strings.Join(ks, ", "))
	if len(failures) > 0 {
		r.Note("proxy side: peer connections that could not be built: %s", strings.Join(failures, "; "))
	}
	if withLocal == 0 {
		r.Skip("proxy side: pion produced no local description with a local host candidate in this sandbox; the clause is covered on this side by the tie sendAnswer_strips_under_flag / sendAnswer_sends_serialised only")
	}
	r.Note("proxy side: loopback and unspecified host candidates cannot be produced by pion v3.1.41 (ICE gathering skips loopback interfaces, no SetIncludeLoopbackCandidate); for sendAnswer these two kinds rest on the tie + the common/util harness")
}
