//go:build verif

package main

// C19 harness, broker side (virtual file in /repo/broker via -overlay):
//   binCount sweep; roundedCounter sequential / goroutine herds / concurrent scrapes;
//   the eight log counters and the rounded Prometheus counters driven through the real
//   IPC.ProxyPolls / IPC.ClientOffers, read back through printMetrics and the registry;
//   UpdateCountryStats on generated address multisets.

import (
	"bufio"
	"bytes"
	"encoding/json"
	"fmt"
	"io"
	"log"
	"math/rand"
	"net"
	"os"
	"runtime"
	"sort"
	"strconv"
	"strings"
	"sync"
	"sync/atomic"
	"testing"
	"time"

	"git.torproject.org/pluggable-transports/snowflake.git/v2/common/ipsetsink"
	"git.torproject.org/pluggable-transports/snowflake.git/v2/common/ipsetsink/sinkcluster"
	"git.torproject.org/pluggable-transports/snowflake.git/v2/common/messages"
	vh "git.torproject.org/pluggable-transports/snowflake.git/v2/common/zzverif"
	"github.com/prometheus/client_golang/prometheus"
	dto "github.com/prometheus/client_model/go"
)

func c19ceil8(n uint64) uint64 { return (n + 7) / 8 * 8 }

// c19roundedOK is the property clause itself: multiple of 8, never below, never more than 7 above.
func c19roundedOK(truth, published uint64) bool {
	return published%8 == 0 && truth <= published && published < truth+8
}

func c19classify(truth, published uint64) string {
	switch {
	case published < truth:
		return "undershoot"
	case published%8 != 0:
		return "nonmultiple"
	case published >= truth+8:
		return "overshoot"
	}
	return "ok"
}

// ---------------------------------------------------------------------------------------------
// binCount

func c19binCount(r *vh.Run) {
	// 0 .. 10^5 in ranges of 1000 (one model call per range)
	for lo := 0; lo < 100000; lo += 1000 {
		var parts []string
		for n := lo; n < lo+1000; n++ {
			b := uint64(binCount(uint(n)))
			parts = append(parts, strconv.FormatUint(b, 10))
			r.Case("bincount/sweep", "bin "+strconv.Itoa(n), n > 0)
			if !c19roundedOK(uint64(n), b) {
				r.OracleFail("bincount-not-ceil8/"+c19classify(uint64(n), b), fmt.Sprintf("c19 bin %d", n), fmt.Sprint(b),
					"binCount(n) must be the smallest multiple of 8 that is >= n")
			}
		}
		line := fmt.Sprintf("c19 binrange %d %d", lo, lo+1000)
		r.Compare("bincount-range", line, strings.Join(parts, ","), r.Model(line))
	}
	one := func(class string, n uint64) {
		b := uint64(binCount(uint(n)))
		line := fmt.Sprintf("c19 bin %d", n)
		r.Case(class, line, true)
		r.Compare("bincount", line, fmt.Sprint(b), r.Model(line))
		if !c19roundedOK(n, b) {
			r.OracleFail("bincount-not-ceil8/"+c19classify(n, b), line, fmt.Sprint(b), "binCount(n) must be the smallest multiple of 8 that is >= n")
		}
	}
	// powers of two +-1 up to 2^53 (the stated exactness range of the float path)
	for k := uint(0); k <= 53; k++ {
		for _, d := range []int64{-1, 0, 1} {
			n := int64(1)<<k + d
			if n < 0 || n > int64(1)<<53 {
				continue
			}
			one("bincount/pow2", uint64(n))
		}
	}
	for i := 0; i < r.N(2000, 40000); i++ {
		bits := uint(r.Rng.Intn(53)) + 1
		one("bincount/random", uint64(r.Rng.Int63())&(uint64(1)<<bits-1))
	}
	// beyond the assumption: informational only
	if strconv.IntSize == 64 {
		n := uint64(1)<<53 + 1
		if b := uint64(binCount(uint(n))); !c19roundedOK(n, b) {
			r.Note("outside the model's assumption (count >= 2^53): binCount(%d) = %d (%s); unreachable in a 24 h period", n, b, c19classify(n, b))
		}
	}
}

// ---------------------------------------------------------------------------------------------
// roundedCounter

func c19newCounter(name string) *roundedCounter {
	vec := NewRoundedCounterVec(prometheus.CounterOpts{Namespace: "verif", Name: name}, []string{"k"})
	return vec.With(prometheus.Labels{"k": "v"}).(*roundedCounter)
}

func c19written(c *roundedCounter) uint64 {
	var m dto.Metric
	if err := c.Write(&m); err != nil {
		return ^uint64(0)
	}
	return uint64(m.GetCounter().GetValue())
}

func c19roundedSerial(r *vh.Run) {
	n := r.N(3000, 60000)
	c := c19newCounter("serial")
	other := c19newCounter("serial_other")
	var vals []string
	for i := 1; i <= n; i++ {
		c.Inc()
		if i%3 == 0 {
			other.Inc() // an unrelated counter must not interfere
		}
		total, value, pub := atomic.LoadUint64(&c.total), atomic.LoadUint64(&c.value), c19written(c)
		vals = append(vals, strconv.FormatUint(pub, 10))
		r.Case("rounded/serial", fmt.Sprintf("incn %d", i), true)
		if total != uint64(i) || value != pub || !c19roundedOK(uint64(i), pub) {
			r.OracleFail("rounded-serial-not-ceil8/"+c19classify(uint64(i), pub), fmt.Sprintf("c19 incn %d", i),
				fmt.Sprintf("total=%d value=%d written=%d", total, value, pub), "after i serial Inc() the published value must be ceil8(i)")
			break
		}
	}
	line := fmt.Sprintf("c19 incseq %d", n)
	r.Compare("rounded-serial", line, strings.Join(vals, ","), r.Model(line))
}

// c19herd runs g goroutines x k Inc() on a counter that has already seen `pre` serial Inc(), with an
// optional concurrent scraper, and checks the rounding clause at quiescence (and for every scrape,
// against what was certainly finished before / at most started after it).  The goroutines leave a
// spin barrier together, so that the first Inc() of each of them collide on the counter.
type c19herdStats struct {
	failed   map[string]int
	modelFor map[int]string
}

func (h *c19herdStats) fail(r *vh.Run, key, caseLine, real, detail string) {
	h.failed[key]++
	if h.failed[key] == 1 { // one replayable witness per class is enough
		r.OracleFail(key, caseLine, real, detail)
	}
}

func c19herd(r *vh.Run, h *c19herdStats, g, k, pre int, scrape bool, round int) {
	c := c19newCounter("herd")
	for i := 0; i < pre; i++ {
		c.Inc()
	}
	var started, finished uint64 = uint64(pre), uint64(pre)
	var ready int32
	var wg sync.WaitGroup
	for j := 0; j < g; j++ {
		wg.Add(1)
		go func() {
			defer wg.Done()
			atomic.AddInt32(&ready, 1)
			for atomic.LoadInt32(&ready) < int32(g) {
				runtime.Gosched()
			}
			for i := 0; i < k; i++ {
				atomic.AddUint64(&started, 1)
				c.Inc()
				atomic.AddUint64(&finished, 1)
			}
		}()
	}
	stop := make(chan struct{})
	var scrapeBad string
	var swg sync.WaitGroup
	if scrape {
		swg.Add(1)
		go func() {
			defer swg.Done()
			for {
				select {
				case <-stop:
					return
				default:
				}
				lo := atomic.LoadUint64(&finished)
				v := c19written(c)
				hi := atomic.LoadUint64(&started)
				// v must round some count between "finished before" and "started by the end of" the scrape
				if scrapeBad == "" && (v%8 != 0 || v < lo || v >= hi+8) {
					scrapeBad = fmt.Sprintf("scraped=%d finished-before=%d started-after=%d", v, lo, hi)
				}
				runtime.Gosched()
			}
		}()
	}
	wg.Wait()
	close(stop)
	swg.Wait()
	total, value := atomic.LoadUint64(&c.total), atomic.LoadUint64(&c.value)
	pub := c19written(c)
	caseLine := fmt.Sprintf("herd serial-first=%d then goroutines=%d incs-each=%d scrape=%v procs=%d round=%d", pre, g, k, scrape, runtime.GOMAXPROCS(0), round)
	r.Case(fmt.Sprintf("rounded/herd/pre=%d/g=%d/k=%d/scrape=%v", pre, g, k, scrape), caseLine, true)
	real := fmt.Sprintf("%d %d", total, pub)
	n := pre + g*k
	if total != uint64(n) {
		h.fail(r, "rounded-concurrent-lost-count", caseLine, fmt.Sprintf("total=%d value=%d expected-total=%d", total, value, n), "total must count every Inc()")
	}
	if value != pub || !c19roundedOK(total, pub) {
		h.fail(r, "rounded-concurrent-"+c19classify(total, pub), caseLine, fmt.Sprintf("total=%d value=%d written=%d ceil8(total)=%d", total, value, pub, c19ceil8(total)),
			"at quiescence after concurrent Inc() the published value must satisfy 8 | value, total <= value < total+8 (model: Props/C19 rounded_concurrent; pinned body: pinned_concurrent_overshoot)")
	}
	if scrapeBad != "" {
		h.fail(r, "rounded-scrape-out-of-bounds", caseLine, scrapeBad, "a scrape must publish ceil8 of a count between the Incs finished before it and those started by its end")
	}
	line := fmt.Sprintf("c19 incn %d", n)
	if _, ok := h.modelFor[n]; !ok {
		h.modelFor[n] = r.Model(line)
	}
	if real != h.modelFor[n] {
		h.failed["(correspondence)"]++
		if h.failed["(correspondence)"] == 1 {
			r.Compare("rounded-herd", caseLine+" | "+line, real, h.modelFor[n])
		}
	}
}

func c19roundedConcurrent(r *vh.Run) {
	old := runtime.GOMAXPROCS(0)
	if old < 4 {
		runtime.GOMAXPROCS(4)
		defer runtime.GOMAXPROCS(old)
	}
	h := &c19herdStats{failed: map[string]int{}, modelFor: map[int]string{}}
	// (a) short herds started on a multiple of 8: the racing Inc()s are the ones that cross the
	// boundary, and nothing comes after them to hide an overshoot (a later Inc() of the pinned body
	// waits for total to catch up, so long runs mostly end correct again). {4,1,8} is the schedule
	// of DESIGN F13: total 12, published 24.
	short := [][3]int{{4, 1, 8}, {8, 3, 16}, {16, 1, 0}, {8, 1, 0}, {4, 2, 8}, {2, 1, 8}, {3, 2, 5}}
	for round := 0; round < r.N(14000, 140000); round++ {
		sh := short[round%len(short)]
		c19herd(r, h, sh[0], sh[1], sh[2], false, round)
	}
	// (b) long herds, every fourth with a concurrent scraper
	long := [][2]int{{2, 2000}, {4, 1000}, {8, 500}, {16, 250}, {64, 100}}
	for round := 0; round < r.N(60, 600); round++ {
		sh := long[round%len(long)]
		c19herd(r, h, sh[0], sh[1], 0, round%2 == 1, round)
	}
	if len(h.failed) > 0 {
		var ks []string
		for k, n := range h.failed {
			ks = append(ks, fmt.Sprintf("%s x%d", k, n))
		}
		sort.Strings(ks)
		r.Note("goroutine herds: failing rounds by class: %s", strings.Join(ks, ", "))
	}
}

// ---------------------------------------------------------------------------------------------
// log parsing and registry reading

type c19log struct {
	vals map[string]string
}

func c19parseLog(s string) c19log {
	l := c19log{vals: map[string]string{}}
	sc := bufio.NewScanner(strings.NewReader(s))
	for sc.Scan() {
		f := strings.SplitN(sc.Text(), " ", 2)
		v := ""
		if len(f) == 2 {
			v = f[1]
		}
		l.vals[f[0]] = v
	}
	return l
}

var c19logKeys = []string{"snowflake-idle-count", "snowflake-proxy-poll-with-relay-url-count", "snowflake-proxy-poll-without-relay-url-count",
	"snowflake-proxy-rejected-for-relay-url-count", "client-denied-count", "client-restricted-denied-count",
	"client-unrestricted-denied-count", "client-snowflake-match-count"}

func (l c19log) counts() string {
	var out []string
	for _, k := range c19logKeys {
		v, ok := l.vals[k]
		if !ok {
			v = "missing"
		}
		out = append(out, v)
	}
	return strings.Join(out, ",")
}

var c19knownTypes = []string{"badge", "iptproxy", "standalone", "webext"}

// statsLine renders the unique-address figures in the canonical form of the driver's `stats` reply.
func c19statsLine(l c19log, unknown int) string {
	var types []string
	for _, t := range c19knownTypes {
		v, ok := l.vals["snowflake-ips-"+t]
		if !ok {
			v = "missing"
		}
		types = append(types, vh.Hex([]byte(t))+"="+v)
	}
	var ccs []string
	if s := l.vals["snowflake-ips"]; s != "" {
		for _, kv := range strings.Split(s, ",") {
			p := strings.SplitN(kv, "=", 2)
			if len(p) == 2 {
				ccs = append(ccs, vh.Hex([]byte(p[0]))+"="+p[1])
			}
		}
	}
	sort.Strings(ccs)
	cc := "."
	if len(ccs) > 0 {
		cc = strings.Join(ccs, ";")
	}
	return fmt.Sprintf("total=%s unknown=%d types=%s nat=%s,%s,%s cc=%s", l.vals["snowflake-ips-total"], unknown, strings.Join(types, ";"),
		l.vals["snowflake-ips-nat-restricted"], l.vals["snowflake-ips-nat-unrestricted"], l.vals["snowflake-ips-nat-unknown"], cc)
}

// c19gather reads every rounded counter of the registry (through roundedCounter.Write).
func c19gather(m *Metrics) map[string]uint64 {
	out := map[string]uint64{}
	fams, err := m.promMetrics.registry.Gather()
	if err != nil {
		return out
	}
	for _, f := range fams {
		if !strings.HasPrefix(f.GetName(), "snowflake_rounded_") {
			continue
		}
		for _, mt := range f.GetMetric() {
			var ls []string
			for _, lp := range mt.GetLabel() {
				ls = append(ls, lp.GetName()+"="+lp.GetValue())
			}
			sort.Strings(ls)
			out[f.GetName()+"{"+strings.Join(ls, ",")+"}"] = uint64(mt.GetCounter().GetValue())
		}
	}
	return out
}

// ---------------------------------------------------------------------------------------------
// address pool from the repository's test geoip tables

type c19addr struct {
	ip string
	id int
}

func c19pool() []string {
	var pool []string
	if f, err := os.Open("test_geoip"); err == nil {
		sc := bufio.NewScanner(f)
		i := 0
		for sc.Scan() {
			p := strings.Split(sc.Text(), ",")
			if len(p) != 3 || strings.HasPrefix(p[0], "#") {
				continue
			}
			i++
			if i%97 != 1 {
				continue
			}
			n, err := strconv.ParseUint(p[0], 10, 32)
			if err != nil {
				continue
			}
			pool = append(pool, net.IPv4(byte(n>>24), byte(n>>16), byte(n>>8), byte(n)).String())
		}
		f.Close()
	}
	if f, err := os.Open("test_geoip6"); err == nil {
		sc := bufio.NewScanner(f)
		i := 0
		for sc.Scan() {
			p := strings.Split(sc.Text(), ",")
			if len(p) != 3 || strings.HasPrefix(p[0], "#") {
				continue
			}
			i++
			if i%173 == 1 && net.ParseIP(p[0]) != nil {
				pool = append(pool, p[0])
			}
		}
		f.Close()
	}
	// link-local addresses with a zone, as net/http reports them for such peers: three different proxies
	return append(pool, "127.0.0.1", "10.1.2.3", "129.97.208.23", "129.97.208.24", "::1", "fe80::1", "fe80::1%eth0", "fe80::1%eth1", "fe80::2%eth0")
}

// ---------------------------------------------------------------------------------------------
// UpdateCountryStats, called directly

type c19upd struct{ addr, ty, nat string }

// c19expectStats is the independent restatement of "an address counts once per type (unknown types
// share one set)"; with a geoip database each counted pair also counts for one country and its
// address enters the NAT set of that poll.
func c19expectStats(m *Metrics, geo bool, ups []c19upd) (perType map[string]int, unknown, total int, natR, natU, natX int, cc map[string]int) {
	perType = map[string]int{}
	cc = map[string]int{}
	seen := map[[2]string]bool{}
	r, u, x := map[string]bool{}, map[string]bool{}, map[string]bool{}
	for _, up := range ups {
		b := "\x00unknown"
		if messages.KnownProxyTypes[up.ty] {
			b = up.ty
		}
		if seen[[2]string{b, up.addr}] {
			continue
		}
		seen[[2]string{b, up.addr}] = true
		total++
		if b == "\x00unknown" {
			unknown++
		} else {
			perType[b]++
		}
		if !geo {
			continue
		}
		c, ok := m.geoipdb.GetCountryByAddr(net.ParseIP(up.addr))
		if !ok {
			c = "??"
		}
		cc[c]++
		switch up.nat {
		case "restricted":
			r[up.addr] = true
		case "unrestricted":
			u[up.addr] = true
		default:
			x[up.addr] = true
		}
	}
	return perType, unknown, total, len(r), len(u), len(x), cc
}

func c19checkStats(r *vh.Run, key string, m *Metrics, buf *bytes.Buffer, geo bool, ups []c19upd, ids map[string]int, class string) {
	buf.Reset()
	m.printMetrics()
	l := c19parseLog(buf.String())
	m.lock.Lock()
	unknown := len(m.countryStats.unknown)
	m.lock.Unlock()
	real := c19statsLine(l, unknown)
	var parts []string
	for _, up := range ups {
		id, ok := ids[up.addr]
		if !ok {
			id = len(ids)
			ids[up.addr] = id
		}
		cc := "??"
		if geo {
			if c, ok := m.geoipdb.GetCountryByAddr(net.ParseIP(up.addr)); ok {
				cc = c
			}
		}
		parts = append(parts, fmt.Sprintf("%d:%s:%s:%s", id, vh.Hex([]byte(up.ty)), vh.Hex([]byte(up.nat)), vh.Hex([]byte(cc))))
	}
	us := "."
	if len(parts) > 0 {
		us = strings.Join(parts, ",")
	}
	g := "0"
	if geo {
		g = "1"
	}
	line := fmt.Sprintf("c19 stats %s %s", g, us)
	r.Case(class, line, len(ups) > 0)
	r.Compare(key, line, real, r.Model(line))
	// oracle
	perType, eu, et, nr, nu, nx, cc := c19expectStats(m, geo, ups)
	var types []string
	for _, t := range c19knownTypes {
		types = append(types, fmt.Sprintf("%s=%d", vh.Hex([]byte(t)), perType[t]))
	}
	var ccs []string
	for c, n := range cc {
		ccs = append(ccs, fmt.Sprintf("%s=%d", vh.Hex([]byte(c)), n))
	}
	sort.Strings(ccs)
	ccS := "."
	if len(ccs) > 0 {
		ccS = strings.Join(ccs, ";")
	}
	want := fmt.Sprintf("total=%d unknown=%d types=%s nat=%d,%d,%d cc=%s", et, eu, strings.Join(types, ";"), nr, nu, nx, ccS)
	if real != want {
		r.OracleFail("unique-ips-not-once-per-type", line, real, "expected (each address once per proxy type, totals = sums of the per-type sets): "+want)
	}
}

func c19countryStats(r *vh.Run, pool []string) {
	rng := r.Rng
	types := []string{"standalone", "webext", "badge", "iptproxy", "unknown", "", "mytype", "Standalone"}
	nats := []string{"restricted", "unrestricted", "unknown", "", "Restricted", "symmetric"}
	for i := 0; i < r.N(120, 2500); i++ {
		buf := new(bytes.Buffer)
		m, err := NewMetrics(log.New(buf, "", 0))
		if err != nil {
			r.Skip("NewMetrics failed: " + err.Error())
			return
		}
		geo := i%4 != 0
		if geo {
			if err := m.LoadGeoipDatabases("test_geoip", "test_geoip6"); err != nil {
				r.Skip("test_geoip not loadable: " + err.Error())
				geo = false
			}
		}
		sub := pool[rng.Intn(len(pool)):]
		if k := 1 + rng.Intn(8); len(sub) > k {
			sub = sub[:k]
		}
		if i%10 == 3 && len(pool) > 9 {
			sub = pool[len(pool)-9:] // the hand-picked tail: loopback, private, zoned link-local addresses
		}
		nt := 1 + rng.Intn(len(types))
		var ups []c19upd
		ids := map[string]int{}
		periods := 1 + rng.Intn(2)
		for p := 0; p < periods; p++ {
			ups = ups[:0]
			for j, n := 0, rng.Intn(40); j < n; j++ {
				up := c19upd{sub[rng.Intn(len(sub))], types[rng.Intn(nt)], nats[rng.Intn(len(nats))]}
				ups = append(ups, up)
				m.lock.Lock()
				m.UpdateCountryStats(up.addr, up.ty, up.nat)
				m.lock.Unlock()
				if rng.Intn(15) == 0 {
					c19checkStats(r, "country-stats", m, buf, geo, ups, ids, fmt.Sprintf("stats/direct/geo=%v/mid", geo))
				}
			}
			c19checkStats(r, "country-stats", m, buf, geo, ups, ids, fmt.Sprintf("stats/direct/geo=%v/period=%d", geo, p))
			m.zeroMetrics() // period end: the next period starts from empty sets
		}
	}
}

// ---------------------------------------------------------------------------------------------
// counters driven through the real IPC methods

const (
	c19goodPattern = "snowflake.torproject.net$"
	c19badPattern  = "example.com$"
)

type c19req struct {
	client   bool
	ty, nat  string // as sent
	ext      bool   // poll carries AcceptedRelayPattern
	badPat   bool   // … and it is not a superset of the allowed pattern
	emptyPat bool   // the (acceptable) pattern is the empty string, sent explicitly - what EncodeProxyPollRequest produces;
	//                 an empty suffix is a superset of every pattern
	out      byte   // polls: 'r' rejected 'i' idle 'm' matched; clients: 'd' denied 'm' matched
	remote   string // RemoteAddr
	validRem bool
}

type c19driver struct {
	r        *vh.Run
	ctx      *BrokerContext
	ipc      *IPC
	buf      *bytes.Buffer
	legacyOK bool              // presumed pattern for legacy proxies is acceptable
	n        int64             // request counter (atomic: clients are also driven from parallel goroutines)
	ops      []string          // model ops of the whole history (with Z)
	truth    [8]uint64         // true counts since the last period end, log-line order
	prom     map[string]uint64 // true counts per rounded counter and label set (cumulative)
	ups      []c19upd          // UpdateCountryStats calls since the last period end
	ids      map[string]int
}

func c19newDriver(r *vh.Run, legacyOK bool) *c19driver {
	buf := new(bytes.Buffer)
	ctx := NewBrokerContext(log.New(buf, "", 0))
	if err := ctx.metrics.LoadGeoipDatabases("test_geoip", "test_geoip6"); err != nil {
		r.Skip("test_geoip not loadable: " + err.Error())
		return nil
	}
	ctx.allowedRelayPattern = c19goodPattern
	ctx.presumedPatternForLegacyClient = c19goodPattern
	if !legacyOK {
		ctx.presumedPatternForLegacyClient = c19badPattern
	}
	return &c19driver{r: r, ctx: ctx, ipc: &IPC{ctx}, buf: buf, legacyOK: legacyOK, prom: map[string]uint64{}, ids: map[string]int{}}
}

func c19normNat(n string) string {
	if n == "" {
		return "unknown"
	}
	return n
}

func c19normType(t string) string {
	if !messages.KnownProxyTypes[t] {
		return "unknown"
	}
	return t
}

func (d *c19driver) pollBody(q c19req, sid string) []byte {
	if q.ext {
		pat := c19goodPattern
		if q.badPat {
			pat = c19badPattern
		} else if q.emptyPat {
			pat = "" // present and empty: still a poll WITH the extension
		}
		b, err := messages.EncodeProxyPollRequestWithRelayPrefix(sid, q.ty, q.nat, 0, pat)
		if err != nil {
			panic(err)
		}
		return b
	}
	b, _ := json.Marshal(map[string]interface{}{"Sid": sid, "Version": "1.2", "Type": q.ty, "NAT": q.nat, "Clients": 0})
	return b
}

var c19fingerprint = []byte{0x2B, 0x28, 0x0B, 0x23, 0xE1, 0x10, 0x7B, 0xB6, 0x2A, 0xBF, 0xC4, 0x0D, 0xDC, 0xC8, 0x82, 0x48, 0x14, 0xF8, 0x0A, 0x72}

const c19deadline = 8 * time.Second

// account records what a request of this shape must do to the true counts (harness-side truth,
// independent of the Lean model).
func (d *c19driver) account(q c19req) {
	if q.client {
		nat := c19normNat(q.nat)
		u := "0"
		if nat == "unrestricted" {
			u = "1"
		}
		d.ops = append(d.ops, "C"+u+string(q.out))
		switch q.out {
		case 'd':
			d.truth[4]++
			if nat == "unrestricted" {
				d.truth[6]++
			} else {
				d.truth[5]++
			}
			d.prom["snowflake_rounded_client_poll_total{nat="+nat+",status=denied}"]++
		case 'm':
			d.truth[7]++
			d.prom["snowflake_rounded_client_poll_total{nat="+nat+",status=matched}"]++
		}
		return
	}
	nat, ty := c19normNat(q.nat), c19normType(q.ty)
	e := "0"
	lbl := "{nat=" + nat + ",type=" + ty + "}"
	if q.ext {
		e = "1"
		d.truth[1]++
		d.prom["snowflake_rounded_proxy_poll_with_relay_url_extension_total"+lbl]++
	} else {
		d.truth[2]++
		d.prom["snowflake_rounded_proxy_poll_without_relay_url_extension_total"+lbl]++
	}
	d.ops = append(d.ops, "P"+e+string(q.out))
	switch q.out {
	case 'r':
		d.truth[3]++
		d.prom["snowflake_rounded_proxy_poll_rejected_relay_url_extension_total"+lbl]++
		return
	case 'i':
		d.truth[0]++
		d.prom["snowflake_rounded_proxy_poll_total{nat="+nat+",status=idle}"]++
	case 'm':
		d.prom["snowflake_rounded_proxy_poll_total{nat="+nat+",status=matched}"]++
	}
	if q.validRem {
		host, _, _ := net.SplitHostPort(q.remote)
		d.ups = append(d.ups, c19upd{host, ty, nat})
	}
}

// startPoll launches one ProxyPolls call; for non-rejected polls the returned func completes it
// (hands it a nil offer = idle, or a client offer = matched) and returns the status seen.
func (d *c19driver) startPoll(q c19req) (finish func() string) {
	body := d.pollBody(q, fmt.Sprintf("sid%d", atomic.AddInt64(&d.n, 1)))
	done := make(chan string, 1)
	go func() {
		var resp []byte
		err := d.ipc.ProxyPolls(messages.Arg{Body: body, RemoteAddr: q.remote}, &resp)
		if err != nil {
			done <- "error:" + err.Error()
			return
		}
		var pr messages.ProxyPollResponse
		json.Unmarshal(resp, &pr)
		done <- pr.Status
	}()
	wait := func() string {
		select {
		case s := <-done:
			return s
		case <-time.After(c19deadline):
			return "blocked"
		}
	}
	if q.out == 'r' {
		return wait
	}
	var p *ProxyPoll
	select {
	case p = <-d.ctx.proxyPolls:
	case s := <-done:
		return func() string { return "early:" + s }
	case <-time.After(c19deadline):
		return func() string { return "blocked-before-registration" }
	}
	return func() string {
		var offer *ClientOffer
		if q.out == 'm' {
			offer = &ClientOffer{natType: "unknown", sdp: []byte("fake"), fingerprint: c19fingerprint}
		}
		select {
		case p.offerChannel <- offer:
		case <-time.After(c19deadline):
			return "blocked-offer"
		}
		return wait()
	}
}

func c19pollWant(q c19req) string {
	switch q.out {
	case 'r':
		return "incorrect relay pattern"
	case 'i':
		return "no match"
	}
	return "client match"
}

func (d *c19driver) doClient(q c19req) string {
	id := atomic.AddInt64(&d.n, 1)
	body, err := (&messages.ClientPollRequest{Offer: "fake", NAT: q.nat}).EncodeClientPollRequest()
	if err != nil {
		panic(err)
	}
	var sf *Snowflake
	if q.out == 'm' {
		pn := NATUnrestricted
		if c19normNat(q.nat) == NATUnrestricted {
			pn = NATRestricted
		}
		sf = d.ctx.AddSnowflake(fmt.Sprintf("sf%d", id), "standalone", pn, 0)
	}
	done := make(chan string, 1)
	go func() {
		var resp []byte
		if err := d.ipc.ClientOffers(messages.Arg{Body: body, RemoteAddr: ""}, &resp); err != nil {
			done <- "error:" + err.Error()
			return
		}
		cr, err := messages.DecodeClientPollResponse(resp)
		switch {
		case err != nil:
			done <- "undecodable"
		case cr.Error != "":
			done <- "error:" + cr.Error
		default:
			done <- "answer:" + cr.Answer
		}
	}()
	if sf != nil {
		select {
		case <-sf.offerChannel:
		case <-time.After(c19deadline):
			return "blocked-offer"
		}
		select {
		case sf.answerChannel <- "fake answer":
		case <-time.After(c19deadline):
			return "blocked-answer"
		}
	}
	select {
	case s := <-done:
		return s
	case <-time.After(c19deadline):
		return "blocked"
	}
}

func c19clientWant(q c19req) string {
	if q.out == 'd' {
		return "error:" + messages.StrNoProxies
	}
	return "answer:fake answer"
}

func (d *c19driver) gen(rng *rand.Rand, pool []string) c19req {
	nats := []string{"", "unknown", "restricted", "unrestricted"}
	if rng.Intn(3) == 0 {
		q := c19req{client: true, nat: nats[rng.Intn(4)], out: 'd'}
		if rng.Intn(2) == 0 {
			q.out = 'm'
		}
		return q
	}
	types := []string{"standalone", "webext", "badge", "iptproxy", "mytype", ""}
	q := c19req{ty: types[rng.Intn(len(types))], nat: nats[rng.Intn(4)], ext: rng.Intn(3) != 0}
	if q.ext {
		q.badPat = rng.Intn(4) == 0
		q.emptyPat = !q.badPat && rng.Intn(3) == 0
	}
	rejected := (q.ext && q.badPat) || (!q.ext && !d.legacyOK)
	switch {
	case rejected:
		q.out = 'r'
	case rng.Intn(3) == 0:
		q.out = 'm'
	default:
		q.out = 'i'
	}
	ip := pool[rng.Intn(len(pool))]
	q.remote, q.validRem = net.JoinHostPort(ip, "443"), true
	if rng.Intn(12) == 0 {
		q.remote, q.validRem = ip, false // no port: SplitHostPort fails, the poll is served but not counted as an IP
	}
	return q
}

// check compares everything published with the model and with the harness-side truth.
func (d *c19driver) check(class string) {
	r := d.r
	d.buf.Reset()
	d.ctx.metrics.printMetrics()
	l := c19parseLog(d.buf.String())
	ops := "."
	if len(d.ops) > 0 {
		ops = strings.Join(d.ops, ",")
	}
	line := "c19 log " + ops
	real := l.counts()
	r.Case("log/"+class, line, len(d.ops) > 0)
	r.Compare("log-counts", line, real, r.Model(line))
	got := strings.Split(real, ",")
	for k, key := range c19logKeys {
		v, err := strconv.ParseUint(got[k], 10, 64)
		if err != nil || !c19roundedOK(d.truth[k], v) {
			cl := "unparsable"
			if err == nil {
				cl = c19classify(d.truth[k], v)
			}
			r.OracleFail("log-count-not-ceil8/"+key+"/"+cl, line, fmt.Sprintf("%s %s (true count %d)", key, got[k], d.truth[k]),
				"every event count in the metrics log must be the true count rounded up to the next multiple of 8")
		}
	}
	// rounded Prometheus counters (cumulative over periods)
	pub := c19gather(d.ctx.metrics)
	keys := map[string]bool{}
	for k := range pub {
		keys[k] = true
	}
	for k := range d.prom {
		keys[k] = true
	}
	var sorted []string
	for k := range keys {
		sorted = append(sorted, k)
	}
	sort.Strings(sorted)
	for _, k := range sorted {
		ml := fmt.Sprintf("c19 incn %d", d.prom[k])
		r.Case("prom/"+class+"/"+k[:strings.Index(k, "{")], k+" "+ml, d.prom[k] > 0)
		mv := strings.Fields(r.Model(ml))
		r.Compare("prom-counter", k+" after: "+line, fmt.Sprint(pub[k]), mv[len(mv)-1])
		if !c19roundedOK(d.prom[k], pub[k]) {
			r.OracleFail("prom-count-not-ceil8/"+c19classify(d.prom[k], pub[k]), k+" after: "+line, fmt.Sprintf("published=%d true=%d", pub[k], d.prom[k]),
				"every rounded Prometheus counter must publish its true count rounded up to the next multiple of 8")
		}
	}
	// unique addresses of this period
	c19checkStats(r, "ipc-country-stats", d.ctx.metrics, d.buf, true, d.ups, d.ids, "stats/ipc/"+class)
}

func (d *c19driver) periodEnd() {
	d.ctx.metrics.zeroMetrics()
	d.ops = append(d.ops, "Z")
	d.truth = [8]uint64{}
	d.ups = nil
}

func c19ipcSequential(r *vh.Run, pool []string) {
	rng := r.Rng
	for c := 0; c < r.N(10, 150); c++ {
		d := c19newDriver(r, c%3 != 2)
		if d == nil {
			return
		}
		n := 5 + rng.Intn(60)
		if c%5 == 0 {
			n = rng.Intn(4) // boundary: 0..3 events (the only region the repository's tests visit)
		}
		sub := pool[rng.Intn(len(pool)/2):]
		for i := 0; i < n; i++ {
			q := d.gen(rng, sub[:1+rng.Intn(len(sub))])
			var got, want string
			if q.client {
				got, want = d.doClient(q), c19clientWant(q)
			} else {
				got, want = d.startPoll(q)(), c19pollWant(q)
			}
			if got != want {
				// the request did not go the way the driver intended: not a count question; report as correspondence
				r.Compare("ipc-outcome", fmt.Sprintf("%+v", q), got, want)
				return
			}
			d.account(q)
			if rng.Intn(9) == 0 {
				d.check("seq/mid")
			}
			if rng.Intn(25) == 0 {
				d.check("seq/period-end")
				d.periodEnd()
				d.check("seq/after-zero")
			}
		}
		d.check("seq/end")
	}
}

// c19ipcConcurrent drives whole batches of requests through the IPC methods at the same time:
// g polls are registered, then released together (idle and matched), while clients are denied in
// parallel; the counts must come out exact (rounded) whatever the interleaving.
func c19ipcConcurrent(r *vh.Run, pool []string) {
	rng := r.Rng
	old := runtime.GOMAXPROCS(0)
	if old < 4 {
		runtime.GOMAXPROCS(4)
		defer runtime.GOMAXPROCS(old)
	}
	matchedKey := "snowflake_rounded_proxy_poll_total{nat=unrestricted,status=matched}"
	reported := false
	for c := 0; c < r.N(6, 40); c++ {
		d := c19newDriver(r, true)
		if d == nil {
			return
		}
		matched := d.ctx.metrics.promMetrics.ProxyPollTotal.With(prometheus.Labels{"nat": "unrestricted", "status": "matched"}).(*roundedCounter)
		for batch := 0; batch < r.N(300, 1000); batch++ {
			g := 4 + rng.Intn(13)
			var qs []c19req
			var fins []func() string
			for j := 0; j < g; j++ {
				q := c19req{ty: "standalone", nat: "unrestricted", ext: true, out: 'm'}
				if rng.Intn(5) == 0 {
					q.out = 'i'
				}
				q.remote, q.validRem = net.JoinHostPort(pool[rng.Intn(len(pool))], "1"), true
				qs = append(qs, q)
				fins = append(fins, d.startPoll(q))
			}
			nden := rng.Intn(6)
			var ready int32
			res := make([]string, g+nden)
			var wg sync.WaitGroup
			barrier := func() {
				atomic.AddInt32(&ready, 1)
				for atomic.LoadInt32(&ready) < int32(g+nden) {
					runtime.Gosched()
				}
			}
			for j := range fins {
				wg.Add(1)
				go func(j int) {
					defer wg.Done()
					barrier()
					res[j] = fins[j]()
				}(j)
			}
			den := c19req{client: true, nat: "restricted", out: 'd'}
			for j := 0; j < nden; j++ {
				wg.Add(1)
				go func(j int) {
					defer wg.Done()
					barrier()
					res[g+j] = d.doClient(den)
				}(j)
			}
			wg.Wait()
			for j, q := range qs {
				if res[j] != c19pollWant(q) {
					r.Compare("ipc-outcome", fmt.Sprintf("concurrent %+v", q), res[j], c19pollWant(q))
					return
				}
				d.account(q)
			}
			for j := 0; j < nden; j++ {
				if res[g+j] != c19clientWant(den) {
					r.Compare("ipc-outcome", fmt.Sprintf("concurrent %+v", den), res[g+j], c19clientWant(den))
					return
				}
				d.account(den)
			}
			// the counter whose call site (ipc.go, "matched") is outside metrics.lock, after every batch
			caseLine := fmt.Sprintf("ipc concurrent batch=%d of ctx %d: %d polls released together (%d matched so far), %d clients denied in parallel", batch, c, g, d.prom[matchedKey], nden)
			r.Case("ipc/concurrent-batch", caseLine, true)
			if pub := c19written(matched); !reported && !c19roundedOK(d.prom[matchedKey], pub) {
				reported = true
				r.OracleFail("prom-count-not-ceil8/"+c19classify(d.prom[matchedKey], pub), matchedKey+" after: "+caseLine, fmt.Sprintf("published=%d true=%d", pub, d.prom[matchedKey]),
					"every rounded Prometheus counter must publish its true count rounded up to the next multiple of 8 (driven through the real IPC.ProxyPolls)")
			}
		}
		d.check("concurrent")
	}
}

// c19ipcTimers exercises the two paths that only a timer reaches: a poll that idles out through the
// real Broker() goroutine and a client whose proxy never answers (counted nowhere).
func c19ipcTimers(r *vh.Run, done chan<- struct{}) {
	defer close(done)
	d := c19newDriver(r, true)
	if d == nil {
		return
	}
	go d.ctx.Broker()
	var wg sync.WaitGroup
	res := make([]string, 5)
	for j := 0; j < 3; j++ {
		wg.Add(1)
		go func(j int) {
			defer wg.Done()
			body := d.pollBody(c19req{ty: "webext", nat: "restricted", ext: true}, fmt.Sprintf("t%d", j))
			var resp []byte
			d.ipc.ProxyPolls(messages.Arg{Body: body, RemoteAddr: "129.97.208.23:1"}, &resp)
			var pr messages.ProxyPollResponse
			json.Unmarshal(resp, &pr)
			res[j] = pr.Status
		}(j)
	}
	// wait until the three polls are registered, then park two more proxies for the clients
	for i := 0; i < 400; i++ {
		d.ctx.snowflakeLock.Lock()
		n := len(d.ctx.idToSnowflake)
		d.ctx.snowflakeLock.Unlock()
		if n == 3 {
			break
		}
		time.Sleep(5 * time.Millisecond)
	}
	for j := 3; j < 5; j++ {
		sf := d.ctx.AddSnowflake(fmt.Sprintf("tsf%d", j), "standalone", NATUnrestricted, 100) // load 100: popped last
		wg.Add(1)
		go func(j int, sf *Snowflake) {
			defer wg.Done()
			body, _ := (&messages.ClientPollRequest{Offer: "fake", NAT: "restricted"}).EncodeClientPollRequest()
			var resp []byte
			go func() { <-sf.offerChannel }() // the proxy takes the offer and never answers
			d.ipc.ClientOffers(messages.Arg{Body: body}, &resp)
			cr, err := messages.DecodeClientPollResponse(resp)
			if err == nil {
				res[j] = cr.Error
			}
		}(j, sf)
	}
	fin := make(chan struct{})
	go func() { wg.Wait(); close(fin) }()
	select {
	case <-fin:
	case <-time.After(3 * (ClientTimeout + ProxyTimeout) * time.Second):
		r.Skip("timer scenario did not finish within 60 s (not a count question; belongs to C04)")
		return
	}
	// Which of the five parked proxies the two clients popped is C03's business; here only the sums
	// matter: every poll that returned "no match" is one idle, every "client match" one matched poll.
	idle, matched := 0, 0
	for j := 0; j < 3; j++ {
		switch res[j] {
		case "no match":
			idle++
			d.account(c19req{ty: "webext", nat: "restricted", ext: true, out: 'i', remote: "129.97.208.23:1", validRem: true})
		case "client match":
			matched++
			d.account(c19req{ty: "webext", nat: "restricted", ext: true, out: 'm', remote: "129.97.208.23:1", validRem: true})
		default:
			r.Compare("ipc-outcome", "timer poll", res[j], "no match")
			return
		}
	}
	for j := 3; j < 5; j++ {
		if res[j] != messages.StrTimedOut {
			r.Compare("ipc-outcome", "timer client", res[j], messages.StrTimedOut)
			return
		}
		d.account(c19req{client: true, nat: "restricted", out: 't'})
	}
	r.Note("timer scenario: %d polls idled out through Broker(), %d were taken by a client that then timed out", idle, matched)
	d.check("timers")
}

type c19SyncBuf struct {
	mu sync.Mutex
	b  bytes.Buffer
}

func (x *c19SyncBuf) Write(p []byte) (int, error) {
	x.mu.Lock()
	defer x.mu.Unlock()
	return x.b.Write(p)
}
func (x *c19SyncBuf) Sync() error    { return nil }
func (x *c19SyncBuf) String() string { x.mu.Lock(); defer x.mu.Unlock(); return x.b.String() }

// c19Journal: the glue between the poll handler and the distinct-IP journal. Proxies keep polling through the day;
// every journal chunk must count the addresses that polled WHILE IT WAS BEING RECORDED, also those that had polled
// before in the same metrics period.
func c19Journal(r *vh.Run, done chan struct{}) {
	defer close(done)
	ctx := NewBrokerContext(NullLogger())
	go ctx.Broker()
	ipc := &IPC{ctx}
	buf := &c19SyncBuf{}
	w := sinkcluster.NewClusterWriter(buf, time.Second, ipsetsink.NewIPSetSink("c19 masking key"))
	ctx.metrics.SetIPAddressRecorder(w)
	var wg sync.WaitGroup
	n := 0
	poll := func(addr string) {
		n++
		body, _ := messages.EncodeProxyPollRequestWithRelayPrefix(fmt.Sprintf("journal-%d", n), "standalone", "restricted", 0, "")
		wg.Add(1)
		go func() {
			defer wg.Done()
			var resp []byte
			ipc.ProxyPolls(messages.Arg{Body: body, RemoteAddr: net.JoinHostPort(addr, "443")}, &resp)
		}()
		time.Sleep(40 * time.Millisecond) // the handler has recorded the address (it then idles into its timeout)
	}
	chunks := [][]string{{"129.97.208.23", "129.97.208.24"}, {"129.97.208.23", "10.1.2.3", "129.97.208.23"}, {"129.97.208.24"}, {"fe80::1%eth0", "129.97.208.23"}}
	for i, c := range chunks {
		if i > 0 {
			time.Sleep(1300 * time.Millisecond) // past the writer's interval: the next address starts a new chunk
		}
		for _, a := range c {
			poll(a)
		}
	}
	time.Sleep(1300 * time.Millisecond)
	poll("127.0.0.1") // flushes the fourth chunk
	var got []string
	for _, line := range strings.Split(strings.TrimSpace(buf.String()), "\n") {
		var e struct {
			RecordingStart, RecordingEnd time.Time
		}
		if json.Unmarshal([]byte(line), &e) != nil {
			got = append(got, "unreadable")
			continue
		}
		res, err := sinkcluster.NewClusterCounter(e.RecordingStart, e.RecordingEnd).Count(strings.NewReader(buf.String()))
		if err != nil {
			got = append(got, "error:"+err.Error())
			continue
		}
		got = append(got, fmt.Sprintf("%d", res.Sum))
	}
	line := "polls from [A B] | [A C A] | [B] | [zoned A] | [loopback], a new journal chunk before each group (writer interval 1 s); distinct addresses per chunk"
	r.Case("journal/repeated-addresses-across-chunks", line, true)
	if want := "2,2,1,2"; strings.Join(got, ",") != want {
		r.OracleFail("journal-chunk-counts-wrong", line, strings.Join(got, ","), "each chunk counts the distinct addresses that polled while it was recorded: "+want)
	}
	wg.Wait()
}

func TestVerifC19Broker(t *testing.T) {
	r := vh.Start("C19")
	defer r.Finish()
	log.SetOutput(io.Discard)
	defer log.SetOutput(os.Stderr)
	pool := c19pool()
	journal := make(chan struct{})
	go c19Journal(r, journal)
	defer func() { <-journal }()
	timers := make(chan struct{})
	go c19ipcTimers(r, timers)
	c19binCount(r)
	c19roundedSerial(r)
	c19roundedConcurrent(r)
	c19countryStats(r, pool)
	c19ipcSequential(r, pool)
	c19ipcConcurrent(r, pool)
	<-timers
}
