//go:build verif

package main

// C20 workload, broker (virtual file in /repo/broker; run with -race).
//
// One real BrokerContext wired like main(): the Broker goroutine, the HTTP handlers /proxy /client
// /answer /debug /prometheus on an httptest server, a distinct-IP writer, and — concurrently with a herd
// of polls, offers and answers that includes polls idling into the 10 s timeout while late clients
// arrive at the boundary —
//   * the body of the daily logMetrics loop (printMetrics; zeroMetrics) run every few milliseconds,
//   * the body of the SIGHUP handler (LoadGeoipDatabases) run repeatedly,
//   * /debug and /prometheus scrapes.
// The oracle is the race detector; the harness only counts what it drove.

import (
	"bytes"
	"fmt"
	"io/ioutil"
	"net/http"
	"net/http/httptest"
	"sync"
	"sync/atomic"
	"testing"
	"time"

	"git.torproject.org/pluggable-transports/snowflake.git/v2/common/ipsetsink"
	"git.torproject.org/pluggable-transports/snowflake.git/v2/common/ipsetsink/sinkcluster"
	"git.torproject.org/pluggable-transports/snowflake.git/v2/common/messages"
	vh "git.torproject.org/pluggable-transports/snowflake.git/v2/common/zzverif"
	"github.com/prometheus/client_golang/prometheus/promhttp"
)

type c20Sink struct{}

func (c20Sink) Write(p []byte) (int, error) { return len(p), nil }
func (c20Sink) Sync() error                 { return nil }

func c20Post(url string, body []byte) (string, int) {
	resp, err := http.Post(url, "application/octet-stream", bytes.NewReader(body))
	if err != nil {
		return "err:" + err.Error(), 0
	}
	defer resp.Body.Close()
	b, _ := ioutil.ReadAll(resp.Body)
	return string(b), resp.StatusCode
}

func TestVerifC20Broker(t *testing.T) {
	r := vh.Start("C20")
	defer r.Finish()
	rng := r.Rng

	ctx := NewBrokerContext(NullLogger())
	if err := ctx.metrics.LoadGeoipDatabases("test_geoip", "test_geoip6"); err != nil {
		t.Fatal(err)
	}
	ctx.metrics.distinctIPWriter = sinkcluster.NewClusterWriter(c20Sink{}, 50*time.Millisecond, ipsetsink.NewIPSetSink("c20"))
	go ctx.Broker()
	i := &IPC{ctx}
	mux := http.NewServeMux()
	mux.Handle("/proxy", SnowflakeHandler{i, proxyPolls})
	mux.Handle("/client", SnowflakeHandler{i, clientOffers})
	mux.Handle("/answer", SnowflakeHandler{i, proxyAnswers})
	mux.Handle("/debug", SnowflakeHandler{i, debugHandler})
	mux.Handle("/prometheus", promhttp.HandlerFor(ctx.metrics.promMetrics.registry, promhttp.HandlerOpts{}))
	mux.Handle("/amp/client/", SnowflakeHandler{i, ampClientOffers})
	srv := httptest.NewServer(mux)
	defer srv.Close()

	stop := make(chan struct{})
	var bg sync.WaitGroup
	var rollovers, reloads, scrapes int64
	background := func(every time.Duration, f func()) {
		bg.Add(1)
		go func() {
			defer bg.Done()
			for {
				select {
				case <-stop:
					return
				case <-time.After(every):
					f()
				}
			}
		}()
	}
	// body of (*Metrics).logMetrics' loop
	background(3*time.Millisecond, func() {
		ctx.metrics.printMetrics()
		ctx.metrics.zeroMetrics()
		atomic.AddInt64(&rollovers, 1)
	})
	// body of the SIGHUP goroutine of main()
	background(7*time.Millisecond, func() {
		if err := ctx.metrics.LoadGeoipDatabases("test_geoip", "test_geoip6"); err == nil {
			atomic.AddInt64(&reloads, 1)
		}
	})
	background(5*time.Millisecond, func() {
		if resp, err := http.Get(srv.URL + "/debug"); err == nil {
			ioutil.ReadAll(resp.Body)
			resp.Body.Close()
		}
		if resp, err := http.Get(srv.URL + "/prometheus"); err == nil {
			ioutil.ReadAll(resp.Body)
			resp.Body.Close()
		}
		atomic.AddInt64(&scrapes, 1)
	})

	nats := []string{"unrestricted", "restricted", "unknown"}
	ptypes := []string{"standalone", "badge", "webext", "iptproxy", "other"}
	var wg sync.WaitGroup
	var outcomes sync.Map
	count := func(k string) {
		v, _ := outcomes.LoadOrStore(k, new(int64))
		atomic.AddInt64(v.(*int64), 1)
	}
	// one matched flow: poll, client offer, answer
	flow := func(id int, pnat, cnat string, ptype string, delayClient, delayAnswer time.Duration, ip string) {
		defer wg.Done()
		sid := fmt.Sprintf("c20-sid-%d", id)
		pollDone := make(chan string, 1)
		go func() {
			body, _ := messages.EncodeProxyPollRequestWithRelayPrefix(sid, ptype, pnat, id%5, "")
			req, _ := http.NewRequest("POST", srv.URL+"/proxy", bytes.NewReader(body))
			req.Header.Set("X-Forwarded-For", ip)
			resp, err := http.DefaultClient.Do(req)
			if err != nil {
				pollDone <- ""
				return
			}
			b, _ := ioutil.ReadAll(resp.Body)
			resp.Body.Close()
			offer, _, _, _ := messages.DecodePollResponseWithRelayURL(b)
			pollDone <- offer
		}()
		time.Sleep(delayClient)
		clientDone := make(chan string, 1)
		go func() {
			creq := messages.ClientPollRequest{Offer: "offer-" + sid, NAT: cnat}
			body, _ := creq.EncodeClientPollRequest()
			out, _ := c20Post(srv.URL+"/client", body)
			clientDone <- out
		}()
		offer := <-pollDone
		if offer != "" {
			time.Sleep(delayAnswer)
			body, _ := messages.EncodeAnswerRequest("answer-"+sid, sid)
			c20Post(srv.URL+"/answer", body)
			count("poll-matched")
		} else {
			count("poll-idle")
		}
		out := <-clientDone
		switch {
		case bytes.Contains([]byte(out), []byte("answer-")):
			count("client-answered")
		case bytes.Contains([]byte(out), []byte(messages.StrNoProxies)):
			count("client-denied")
		case bytes.Contains([]byte(out), []byte(messages.StrTimedOut)):
			count("client-timeout")
		default:
			count("client-other")
		}
	}
	nFlows := r.N(120, 600)
	nBoundary := r.N(24, 120)
	for k := 0; k < nFlows; k++ {
		wg.Add(1)
		pn := nats[rng.Intn(3)]
		cn := nats[rng.Intn(3)]
		ip := fmt.Sprintf("%d.%d.%d.%d", 1+rng.Intn(220), rng.Intn(255), rng.Intn(255), 1+rng.Intn(250))
		go flow(k, pn, cn, ptypes[rng.Intn(len(ptypes))], time.Duration(rng.Intn(40))*time.Millisecond, time.Duration(rng.Intn(30))*time.Millisecond, ip)
		if k%16 == 15 {
			time.Sleep(20 * time.Millisecond)
		}
	}
	// herd at the timeout boundary: polls that idle for ProxyTimeout while their clients arrive within
	// a few milliseconds of the timer, and answers that arrive around ClientTimeout
	for k := 0; k < nBoundary; k++ {
		wg.Add(1)
		d := time.Duration(ProxyTimeout)*time.Second + time.Duration(rng.Intn(41)-20)*time.Millisecond
		da := time.Duration(0)
		if k%3 == 0 {
			da = time.Duration(ClientTimeout)*time.Second + time.Duration(rng.Intn(41)-20)*time.Millisecond - d
			if da < 0 {
				da = 0
			}
		}
		go flow(10000+k, nats[k%3], nats[(k/3)%3], "standalone", d, da, fmt.Sprintf("9.9.%d.%d", k/200, 1+k%200))
	}
	done := make(chan struct{})
	go func() { wg.Wait(); close(done) }()
	select {
	case <-done:
	case <-time.After(90 * time.Second):
		r.OracleFail("c20-broker-herd-stuck", "herd", "requests still pending after 90 s", "the herd did not drain")
	}
	close(stop)
	bg.Wait()
	line := fmt.Sprintf("flows=%d boundary=%d rollovers=%d reloads=%d scrapes=%d", nFlows, nBoundary, atomic.LoadInt64(&rollovers), atomic.LoadInt64(&reloads), atomic.LoadInt64(&scrapes))
	outcomes.Range(func(k, v interface{}) bool {
		n := atomic.LoadInt64(v.(*int64))
		line += fmt.Sprintf(" %s=%d", k, n)
		for j := int64(0); j < n; j++ {
			r.Case("broker/"+k.(string), fmt.Sprintf("%s#%d", k, j), true)
		}
		return true
	})
	r.Note("broker herd under -race: %s", line)
}
