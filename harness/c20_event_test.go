//go:build verif

package event

// C20 workload, common/event (virtual file in /repo/common/event): the event dispatcher shared by the client
// and the proxy. Events are dispatched from several goroutines (rendezvous, connection set-up, connection-over
// callbacks) while listeners are added and removed, with receivers that take their time.
// Oracles besides the race detector: no dispatch panics; a receiver registered for the whole round gets every
// event exactly once. (Whether a receiver may still see an event that was being dispatched while it was
// removed is not judged: a race-free snapshot dispatch would allow it.)

import (
	"fmt"
	"sync"
	"sync/atomic"
	"testing"
	"time"

	vh "git.torproject.org/pluggable-transports/snowflake.git/v2/common/zzverif"
)

type c20Recv struct {
	calls   int64
	removed int32 // set once RemoveSnowflakeEventListener has returned
	late    int64 // events received after that
	delay   time.Duration
}

func (x *c20Recv) OnNewSnowflakeEvent(SnowflakeEvent) {
	if atomic.LoadInt32(&x.removed) == 1 {
		atomic.AddInt64(&x.late, 1)
	}
	atomic.AddInt64(&x.calls, 1)
	if x.delay > 0 {
		time.Sleep(x.delay)
	}
}

func TestVerifC20Event(t *testing.T) {
	r := vh.Start("C20")
	defer r.Finish()
	rounds := r.N(12, 120)
	for k := 0; k < rounds; k++ {
		bus := NewSnowflakeEventDispatcher()
		stay := []*c20Recv{{delay: 200 * time.Microsecond}, {}, {}}
		for _, x := range stay {
			bus.AddSnowflakeEventListener(x)
		}
		const nDisp, perDisp = 3, 40
		var wg sync.WaitGroup
		var panics int64
		var panicText atomic.Value
		for g := 0; g < nDisp; g++ {
			wg.Add(1)
			go func(g int) {
				defer wg.Done()
				for j := 0; j < perDisp; j++ {
					func() {
						defer func() {
							if p := recover(); p != nil {
								atomic.AddInt64(&panics, 1)
								panicText.Store(fmt.Sprint(p))
							}
						}()
						switch j % 3 {
						case 0:
							bus.OnNewSnowflakeEvent(EventOnSnowflakeConnected{})
						case 1:
							bus.OnNewSnowflakeEvent(EventOnProxyConnectionOver{InboundTraffic: j, OutboundTraffic: g})
						default:
							bus.OnNewSnowflakeEvent(EventOnBrokerRendezvous{})
						}
					}()
				}
			}(g)
		}
		var churn []*c20Recv
		var cmu sync.Mutex
		for g := 0; g < 2; g++ {
			wg.Add(1)
			go func(g int) {
				defer wg.Done()
				for j := 0; j < 25; j++ {
					x := &c20Recv{}
					bus.AddSnowflakeEventListener(x)
					time.Sleep(time.Duration(50+20*g) * time.Microsecond)
					bus.RemoveSnowflakeEventListener(x)
					atomic.StoreInt32(&x.removed, 1)
					cmu.Lock()
					churn = append(churn, x)
					cmu.Unlock()
				}
			}(g)
		}
		wg.Wait()
		line := fmt.Sprintf("dispatcher with 3 permanent receivers (one slow), %d dispatching goroutines x %d events, 2 goroutines adding and removing receivers, round %d", nDisp, perDisp, k)
		r.Case("event/dispatch-vs-listener-churn", line, true)
		if panics > 0 {
			r.OracleFail("event-dispatch-panics", line, fmt.Sprintf("%d dispatches panicked: %v", panics, panicText.Load()), "dispatch and listener removal are ordered by the dispatcher's lock")
		}
		for i, x := range stay {
			if n := atomic.LoadInt64(&x.calls); n != nDisp*perDisp {
				r.OracleFail("event-permanent-receiver-count", line, fmt.Sprintf("permanent receiver %d got %d events, %d were dispatched", i, n, nDisp*perDisp), "a receiver registered throughout gets every event exactly once")
			}
		}
		_ = churn
	}
}
