//go:build verif

package zzverif

// C08, last clause ("applied before the offer / answer leaves the process"): shared by the client-side
// harness (client/lib, the real (*BrokerChannel).Negotiate) and the proxy-side harness (proxy/lib, the real
// (*SignalingServer).sendAnswer).  This file holds what does not depend on the package under test:
//
//   - an SDP generator aimed at the description that is *sent* (offers whose candidates are all local, all
//     public, mixed; local addresses only on srflx / prflx / relay candidates; no candidates; several media
//     sections; malformed candidate lines; non-SDP strings),
//   - an independent classifier of addresses (net.IPNet containment, not util.IsLocal),
//   - C08JudgeSent: correspondence of the description that left the process with the Lean model
//     (`Util.leaves`, asked through sfdriver with pion's per-attribute facts, same protocol as the
//     common/util harness) and the property oracle on it.
//
// It must not import common/util (the common/util harness of C08 imports this package).

import (
	"encoding/json"
	"fmt"
	"math/rand"
	"net"
	"reflect"
	"strings"

	"github.com/pion/ice/v2"
	"github.com/pion/sdp/v3"
)

// ---------------------------------------------------------------------------------------------
// independent reference for "private / CGNAT / link-local / unique-local / loopback / unspecified"

type c08range struct {
	name string
	net  *net.IPNet
	v6   bool
}

var c08ranges = func() []c08range {
	var out []c08range
	for _, e := range [][2]string{{"rfc1918-10", "10.0.0.0/8"}, {"rfc1918-172", "172.16.0.0/12"}, {"rfc1918-192", "192.168.0.0/16"},
		{"rfc6598-cgnat", "100.64.0.0/10"}, {"rfc3927-linklocal", "169.254.0.0/16"}, {"loopback4", "127.0.0.0/8"}, {"unspecified4", "0.0.0.0/32"},
		{"rfc4193-ula", "fc00::/7"}, {"loopback6", "::1/128"}, {"unspecified6", "::/128"}} {
		_, n, err := net.ParseCIDR(e[1])
		if err != nil {
			panic(err)
		}
		out = append(out, c08range{e[0], n, strings.Contains(e[1], ":")})
	}
	return out
}()

// C08AddrKind says why a host candidate with this address text must not leave the process ("" = it may):
// the text is an IP literal (net.ParseIP) inside one of the ranges the property names.  IPv4-mapped IPv6
// spellings are IPv4 addresses.
func C08AddrKind(addr string) string {
	ip := net.ParseIP(addr)
	if ip == nil {
		return ""
	}
	v4 := ip.To4()
	for _, rg := range c08ranges {
		if rg.v6 != (v4 == nil) {
			continue
		}
		if v4 != nil && rg.net.Contains(v4) || v4 == nil && rg.net.Contains(ip) {
			return rg.name
		}
	}
	return ""
}

// ---------------------------------------------------------------------------------------------
// generator

var c08pubV4 = []string{"8.8.8.8", "1.2.3.4", "192.0.2.1", "203.0.113.77", "255.255.255.255", "9.255.255.255", "11.0.0.0",
	"172.15.255.255", "172.32.0.0", "192.167.255.255", "192.169.0.0", "100.63.255.255", "100.128.0.0", "169.253.255.255", "169.255.0.0",
	"126.255.255.255", "128.0.0.0", "0.0.0.1"}
var c08locV4 = []string{"10.0.0.0", "10.1.2.3", "10.255.255.255", "172.16.0.0", "172.20.1.1", "172.31.255.255", "192.168.0.0", "192.168.1.100",
	"192.168.255.255", "100.64.0.0", "100.100.100.100", "100.127.255.255", "169.254.0.0", "169.254.250.88", "169.254.255.255",
	"127.0.0.0", "127.0.0.1", "127.255.255.255", "0.0.0.0"}
var c08pubV6 = []string{"2001:db8::1", "2607:f8b0:4005:805::200e", "fbff:ffff:ffff:ffff:ffff:ffff:ffff:ffff", "fe00::", "fe80::1", "::2", "1::", "::fc00:0:0"}
var c08locV6 = []string{"fc00::", "fc00::1", "fcab:cdef:1:2:3:4:5:6", "fdf8:f53b:82e4::53", "fdff:ffff:ffff:ffff:ffff:ffff:ffff:ffff", "FD00::ABCD",
	"::", "::1", "0:0:0:0:0:0:0:1", "0:0:0:0:0:0:0:0"}
var c08notIP = []string{"abcd1234-5678.local", "host.local", "10.0.0.1.local", "example.com", "10.0.0", "10.0.0.256", "010.0.0.1", "fe80::1%eth0", "[::1]",
	"10.0.0.1:80", "localhost", ":::"}

func c08pick(rng *rand.Rand, l []string) string { return l[rng.Intn(len(l))] }

func c08mapped(rng *rand.Rand, v4 string) string {
	ip := net.ParseIP(v4).To4()
	switch rng.Intn(3) {
	case 0:
		return "::ffff:" + v4
	case 1:
		return fmt.Sprintf("::ffff:%x:%x", int(ip[0])<<8|int(ip[1]), int(ip[2])<<8|int(ip[3]))
	}
	return fmt.Sprintf("0:0:0:0:0:FFFF:%02X%02X:%02X%02X", ip[0], ip[1], ip[2], ip[3])
}

// c08addr draws an address text: local = one the property wants stripped from host candidates.
func c08addr(rng *rand.Rand, local bool) string {
	v4, v6 := c08pubV4, c08pubV6
	if local {
		v4, v6 = c08locV4, c08locV6
	}
	switch rng.Intn(8) {
	case 0, 1, 2, 3:
		return c08pick(rng, v4)
	case 4, 5:
		return c08pick(rng, v6)
	case 6:
		return c08mapped(rng, c08pick(rng, v4))
	}
	// random member of a range
	if local {
		switch rng.Intn(7) {
		case 0:
			return fmt.Sprintf("10.%d.%d.%d", rng.Intn(256), rng.Intn(256), rng.Intn(256))
		case 1:
			return fmt.Sprintf("172.%d.%d.%d", 16+rng.Intn(16), rng.Intn(256), rng.Intn(256))
		case 2:
			return fmt.Sprintf("192.168.%d.%d", rng.Intn(256), rng.Intn(256))
		case 3:
			return fmt.Sprintf("100.%d.%d.%d", 64+rng.Intn(64), rng.Intn(256), rng.Intn(256))
		case 4:
			return fmt.Sprintf("169.254.%d.%d", rng.Intn(256), rng.Intn(256))
		case 5:
			return fmt.Sprintf("127.%d.%d.%d", rng.Intn(256), rng.Intn(256), rng.Intn(256))
		}
		ip := make(net.IP, 16)
		rng.Read(ip)
		ip[0] = []byte{0xfc, 0xfd}[rng.Intn(2)]
		return ip.String()
	}
	for {
		a := fmt.Sprintf("%d.%d.%d.%d", 1+rng.Intn(223), rng.Intn(256), rng.Intn(256), rng.Intn(256))
		if C08AddrKind(a) == "" {
			return a
		}
	}
}

func c08candLine(rng *rand.Rand, addr, typ string) string {
	proto := []string{"udp", "udp", "udp", "tcp", "UDP"}[rng.Intn(5)]
	s := fmt.Sprintf("%d %d %s %d %s %d typ %s", rng.Uint32(), 1+rng.Intn(2), proto, rng.Uint32(), addr, rng.Intn(65536), typ)
	if typ != "host" && rng.Intn(5) != 0 {
		s += fmt.Sprintf(" raddr %s rport %d", c08addr(rng, rng.Intn(2) == 0), rng.Intn(65536))
	} else if proto == "tcp" && rng.Intn(2) == 0 {
		s += " tcptype " + []string{"active", "passive", "so"}[rng.Intn(3)]
	}
	if rng.Intn(2) == 0 {
		s += " generation 0 network-id 1 network-cost 50"
	}
	return s
}

func c08malformedCand(rng *rand.Rand) string {
	f := strings.Fields(c08candLine(rng, c08addr(rng, true), "host"))
	switch rng.Intn(8) {
	case 0:
		return strings.Join(f[:rng.Intn(8)], " ")
	case 1:
		f[1] = []string{"x", "-1", "65536"}[rng.Intn(3)]
	case 2:
		f[5] = []string{"65536", "port", "-1", "99999999999"}[rng.Intn(4)]
	case 3:
		f[7] = []string{"hostx", "HOST", "typ", "Host"}[rng.Intn(4)]
	case 4:
		f[3] = []string{"4294967296", "prio", "-5"}[rng.Intn(3)]
	case 5:
		return " " + strings.Join(f[1:], " ") // no foundation (pion accepts this form)
	case 6:
		return strings.Join(f, "  ")
	case 7:
		f[4] = c08pick(rng, c08notIP)
	}
	return strings.Join(f, " ")
}

var c08otherAttrs = []string{"ice-ufrag:aMAZ", "ice-pwd:jcHb08Jjgrazp2dzjdrvPPvV", "ice-options:trickle",
	"fingerprint:sha-256 C8:88:EE:B9:E7:02:2E:21:37:ED:7A:D1:EB:2B:A3:15:A2:3B:5B:1C:3D:D4:D5:1F:06:CF:52:40:03:F8:DD:66",
	"setup:actpass", "setup:active", "mid:0", "mid:data", "sctp-port:5000", "sctpmap:5000 webrtc-datachannel 1024", "max-message-size:1073741823",
	"end-of-candidates", "sendrecv", "rtcp-mux", "candidates:not a candidate key", "x-candidate:10.0.0.1", "remote-candidates:1 10.0.0.1 5000",
	"Candidate:1 1 udp 1 10.0.0.1 1 typ host"}

// C08Kinds are the generator's description kinds.
var C08Kinds = []string{"all-local", "all-local", "all-local", "mixed", "mixed", "mixed", "all-public", "local-only-on-non-host", "no-candidates",
	"no-media", "malformed-candidates"}

// C08GenSDP builds one description in the form pion prints (CRLF, canonical field order).  kind:
//
//	all-local               every candidate is a host candidate with a local / loopback / unspecified address
//	all-public              host and other candidates, public addresses only
//	mixed                   any type with any address
//	local-only-on-non-host  local addresses only on srflx / prflx / relay candidates (must be kept), host candidates public
//	no-candidates           media sections without candidates
//	no-media                session part only
//	malformed-candidates    mixed, plus candidate lines pion's ICE parser rejects
func C08GenSDP(rng *rand.Rand, kind string) string {
	var b strings.Builder
	nl := "\r\n"
	b.WriteString("v=0" + nl)
	fmt.Fprintf(&b, "o=- %d 2 IN IP4 %s"+nl, rng.Int63(), []string{"8.8.8.8", "0.0.0.0", "127.0.0.1", "10.0.0.1"}[rng.Intn(4)])
	b.WriteString("s=-" + nl)
	if rng.Intn(6) == 0 {
		b.WriteString("c=IN IP4 10.0.0.1" + nl)
	}
	b.WriteString("t=0 0" + nl)
	for i, n := 0, rng.Intn(3); i < n; i++ {
		b.WriteString("a=" + []string{"group:BUNDLE 0", "group:BUNDLE data", "msid-semantic: WMS", "ice-lite", "extmap-allow-mixed"}[rng.Intn(5)] + nl)
	}
	nMedia := 1 + rng.Intn(3)
	if rng.Intn(3) == 0 {
		nMedia = 1
	}
	if kind == "no-media" {
		nMedia = 0
	}
	nonHost := []string{"srflx", "prflx", "relay"}
	total := 0
	for m := 0; m < nMedia; m++ {
		b.WriteString("m=" + []string{"application 9 UDP/DTLS/SCTP webrtc-datachannel", "application 56688 DTLS/SCTP 5000", "audio 9 UDP/TLS/RTP/SAVPF 111"}[rng.Intn(3)] + nl)
		if rng.Intn(3) != 0 {
			b.WriteString("c=IN IP4 " + []string{"0.0.0.0", "8.8.8.8", "192.168.1.1"}[rng.Intn(3)] + nl)
		}
		nc := rng.Intn(7)
		if kind == "no-candidates" {
			nc = 0
		} else if m == nMedia-1 && total+nc == 0 {
			nc = 1 + rng.Intn(4) // kinds with candidates have at least one
		}
		total += nc
		nOther := rng.Intn(7)
		for i, left := 0, nc; i < nc+nOther; i++ {
			if rng.Intn(nc+nOther-i) >= left {
				b.WriteString("a=" + c08pick(rng, c08otherAttrs) + nl)
				continue
			}
			left--
			var v string
			switch kind {
			case "all-local":
				v = c08candLine(rng, c08addr(rng, true), "host")
			case "all-public":
				v = c08candLine(rng, c08addr(rng, false), []string{"host", "host", "srflx", "relay"}[rng.Intn(4)])
			case "local-only-on-non-host":
				if rng.Intn(3) == 0 {
					v = c08candLine(rng, c08addr(rng, false), "host")
				} else {
					v = c08candLine(rng, c08addr(rng, true), c08pick(rng, nonHost))
				}
			default: // mixed, malformed-candidates
				switch {
				case kind == "malformed-candidates" && rng.Intn(3) == 0:
					v = c08malformedCand(rng)
				case rng.Intn(12) == 0:
					v = c08candLine(rng, c08pick(rng, c08notIP), "host")
				default:
					v = c08candLine(rng, c08addr(rng, rng.Intn(2) == 0), []string{"host", "host", "host", "srflx", "prflx", "relay"}[rng.Intn(6)])
				}
			}
			b.WriteString("a=candidate:" + v + nl)
		}
	}
	return b.String()
}

// C08Mutate damages a description: line and byte edits, truncation, bare LF.
func C08Mutate(rng *rand.Rand, s string) string {
	b := []byte(s)
	for k := 0; k <= rng.Intn(3); k++ {
		if len(b) == 0 {
			return "v"
		}
		p := rng.Intn(len(b))
		lines := strings.SplitAfter(string(b), "\n")
		i, j := rng.Intn(len(lines)), rng.Intn(len(lines))
		switch rng.Intn(8) {
		case 0:
			b = append(b[:p], b[p+1:]...)
		case 1:
			b = append(b[:p], append([]byte{byte(rng.Intn(256))}, b[p:]...)...)
		case 2:
			b[p] = byte(rng.Intn(256))
		case 3:
			b = b[:p]
		case 4:
			b = []byte(strings.Join(append(lines[:i+1:i+1], lines[i:]...), ""))
		case 5:
			b = []byte(strings.Join(append(lines[:i:i], lines[i+1:]...), ""))
		case 6:
			lines[i], lines[j] = lines[j], lines[i]
			b = []byte(strings.Join(lines, ""))
		case 7:
			b = []byte(strings.Replace(string(b), "\r\n", "\n", 1+rng.Intn(3)))
		}
	}
	return string(b)
}

// C08NotSDP draws a string that is not a session description at all.
func C08NotSDP(rng *rand.Rand) string {
	switch rng.Intn(6) {
	case 0:
		return ""
	case 1:
		b := make([]byte, rng.Intn(120))
		rng.Read(b)
		return string(b)
	case 2:
		return "a=candidate:" + c08candLine(rng, c08addr(rng, true), "host") + "\r\n"
	case 3:
		return "candidate:" + c08candLine(rng, c08addr(rng, true), "host")
	case 4:
		return `{"type":"offer","sdp":"v=0\r\n"}`
	}
	return []string{"v=0", "v=0\r\n", "hello", "m=application 9 UDP/DTLS/SCTP webrtc-datachannel\r\na=candidate:1 1 udp 1 10.0.0.1 1 typ host\r\n", "\x00", "\r\n\r\n"}[rng.Intn(6)]
}

// ---------------------------------------------------------------------------------------------
// pion's view of a description

func c08parse(s string) (d *sdp.SessionDescription, ok bool) {
	defer func() {
		if e := recover(); e != nil {
			d, ok = nil, false
		}
	}()
	d = &sdp.SessionDescription{}
	if err := d.Unmarshal([]byte(s)); err != nil {
		return nil, false
	}
	return d, true
}

// c08fact: what pion reports about one attribute, as a token for the model (`-` not a candidate, `x` a
// candidate pion's ICE parser rejects, `h:<hex address>` host candidate, `o:<hex address>` other type),
// plus the independent verdict about a host candidate's address.
func c08fact(a sdp.Attribute) (tok string, bad string) {
	if !a.IsICECandidate() {
		return "-", ""
	}
	c, err := ice.UnmarshalCandidate(a.Value)
	if err != nil {
		return "x", ""
	}
	if c.Type() != ice.CandidateTypeHost {
		return "o:" + Hex([]byte(c.Address())), ""
	}
	return "h:" + Hex([]byte(c.Address())), C08AddrKind(c.Address())
}

// c08applyIndices keeps, in pion's parse of `in`, the attribute indices of the reply and marshals with pion.
func c08applyIndices(in, reply string) (text string, all bool, ok bool) {
	d, p := c08parse(in)
	if !p {
		return "", false, false
	}
	var secs []string
	if reply != "none" {
		secs = strings.Split(reply, " | ")
	}
	if len(secs) != len(d.MediaDescriptions) {
		return "", false, false
	}
	all = true
	for mi, m := range d.MediaDescriptions {
		attrs := make([]sdp.Attribute, 0)
		if secs[mi] != "." {
			for _, f := range strings.Split(secs[mi], ",") {
				var i int
				if _, err := fmt.Sscanf(f, "%d", &i); err != nil || i < 0 || i >= len(m.Attributes) {
					return "", false, false
				}
				attrs = append(attrs, m.Attributes[i])
			}
		}
		if len(attrs) != len(m.Attributes) {
			all = false
		}
		for i := range attrs {
			if all && attrs[i] != m.Attributes[i] {
				all = false
			}
		}
		m.Attributes = attrs
	}
	b, err := d.Marshal()
	if err != nil {
		return "", false, false
	}
	return string(b), all, true
}

// C08JSONString is what a Go string becomes on its way through encoding/json (the description travels as a
// JSON string inside a JSON string): invalid UTF-8 is replaced by U+FFFD.  Identity on every valid string.
func C08JSONString(s string) string {
	b, err := json.Marshal(s)
	if err != nil {
		return s
	}
	var out string
	if json.Unmarshal(b, &out) != nil {
		return s
	}
	return out
}

func c08lineSubsequence(out, in string) bool {
	ol, il := strings.SplitAfter(out, "\n"), strings.SplitAfter(in, "\n")
	j := 0
	for _, l := range ol {
		for j < len(il) && il[j] != l {
			j++
		}
		if j == len(il) {
			return false
		}
		j++
	}
	return true
}

// ---------------------------------------------------------------------------------------------
// judging what left the process

// C08Sent is what the recording broker saw of one call.
type C08Sent struct {
	Calls int    // how often the transport was used
	Type  string // "offer" / "answer" / …
	SDP   string
	Err   string // why the request could not be decoded ("" = decoded)
	Panic string // the function under test panicked
}

// C08Sink is what a judged case reports to: the run, or a probe used while shrinking.
type C08Sink interface {
	Case(class, caseLine string, nontrivial bool)
	Compare(key, caseLine, real, model string) bool
	OracleFail(key, caseLine, real, detail string)
	Model(line string) string
}

type C08Fail struct{ Key, Case, Real, Detail string }

// C08Probe evaluates only the oracle (no model calls, nothing recorded).
type C08Probe struct{ Fails []C08Fail }

func (p *C08Probe) Case(string, string, bool)                    {}
func (p *C08Probe) Compare(string, string, string, string) bool { return true }
func (p *C08Probe) Model(string) string                         { return "" }
func (p *C08Probe) OracleFail(key, c, real, detail string) {
	p.Fails = append(p.Fails, C08Fail{key, c, real, detail})
}

// C08Hold forwards to the run but holds oracle failures back so that the caller can shrink the input first.
type C08Hold struct {
	*Run
	Fails []C08Fail
}

func (h *C08Hold) OracleFail(key, c, real, detail string) {
	h.Fails = append(h.Fails, C08Fail{key, c, real, detail})
}

// C08JudgeSent judges one call of the function under test.
//
//	who      "client Negotiate" / "proxy sendAnswer"
//	keep     the keepLocalAddresses flag the object was built with
//	typ, in  the description handed to the function
//	sent     what the recording broker decoded
//	strip    the real util.StripLocalAddresses (tied to the model by the common/util harness of this property)
func C08JudgeSent(r C08Sink, who string, keep bool, typ, in string, sent C08Sent, class string, strip func(string) string) {
	_, probing := r.(*C08Probe)
	q := fmt.Sprintf("%s with keepLocalAddresses=%v, description {type: %s, sdp: %q}", who, keep, typ, in)
	cls := fmt.Sprintf("%s/keep=%v/%s", strings.Fields(who)[0], keep, class)
	if sent.Panic != "" {
		r.Case(cls+"/panic", q, true)
		r.OracleFail("sent-panic", q, sent.Panic, "no input, however malformed, may make the stripping step panic")
		return
	}
	if sent.Calls != 1 || sent.Err != "" {
		r.Case(cls+"/not-sent", q, true)
		r.Compare("sent", q, fmt.Sprintf("transport used %d time(s); decoding the request: %s", sent.Calls, sent.Err), "exactly one request carrying the description")
		return
	}
	want := C08JSONString(in)
	din, parses := c08parse(in)

	// ---- facts about the input (pion's verdicts, the independent verdicts)
	var toks []string
	var bads [][]string
	nBad, nHost, nCand := 0, 0, 0
	if parses {
		for mi, m := range din.MediaDescriptions {
			if mi > 0 {
				toks = append(toks, "|")
			}
			if len(m.Attributes) == 0 {
				toks = append(toks, ".")
			}
			bm := make([]string, len(m.Attributes))
			for ai, a := range m.Attributes {
				tok, bad := c08fact(a)
				toks = append(toks, tok)
				bm[ai] = bad
				if tok != "-" {
					nCand++
				}
				if strings.HasPrefix(tok, "h:") {
					nHost++
				}
				if bad != "" {
					nBad++
				}
			}
			bads = append(bads, bm)
		}
	}
	canonical := false
	if parses {
		if b, err := din.Marshal(); err == nil && string(b) == in {
			canonical = true
		}
	}
	if want != in {
		// not valid UTF-8: the JSON transport replaces the offending bytes (C13's subject, not this property's),
		// so the "everything else is preserved" clauses are not judged on such a text; correspondence and
		// "no local host candidate" still are
		canonical = false
		cls += "/not-utf8"
	}
	switch {
	case !parses:
		cls += "/not-parsed-by-pion"
	case !canonical:
		cls += "/renormalised-by-pion"
	}
	switch {
	case !parses:
	case nCand == 0:
		cls += "/no-candidate"
	case nBad == 0:
		cls += "/none-local"
	case nBad == nCand:
		cls += "/every-candidate-local-host"
	case nBad == nHost:
		cls += "/every-host-local"
	default:
		cls += "/some-local"
	}
	r.Case(cls, q, nBad > 0)

	if sent.Type != typ {
		r.OracleFail("sent-type-changed", q, "type sent: "+sent.Type, "every other field of the description must be preserved")
	}

	// ---- correspondence with the model: `c08 leaves <keep> <facts>` = surviving attribute indices
	if !probing {
		if parses {
			k := "0"
			if keep {
				k = "1"
			}
			line := "c08 leaves " + k
			if len(toks) > 0 {
				line += " " + strings.Join(toks, " ")
			}
			model := r.Model(line)
			expect, all, ok := c08applyIndices(in, model)
			switch {
			case !ok:
				r.Compare("leaves", line+"   # "+q, "surviving indices per media section", "unusable model reply: "+model)
			case keep && all:
				// the model passes the description on untouched (`leaves true d = d`): no re-marshalling
				r.Compare("leaves", line+"   # "+q+"   # model: untouched", sent.SDP, want)
			default:
				r.Compare("leaves", line+"   # "+q+"   # model keeps "+model, sent.SDP, C08JSONString(expect))
			}
		}
		// and with the real StripLocalAddresses, which the common/util harness ties to the same model
		if keep {
			r.Compare("leaves-is-input", q, sent.SDP, want)
		} else {
			r.Compare("leaves-is-strip-of-input", q, sent.SDP, C08JSONString(strip(in)))
		}
	}

	// ---- oracle (independent of the model and of util)
	if keep {
		if sent.SDP != want {
			r.OracleFail("sent-kept-description-altered", q, sent.SDP, "with local addresses explicitly kept the description must leave as it is")
		}
		return
	}
	if !parses {
		if sent.SDP != want {
			r.OracleFail("sent-unparseable-description-altered", q, sent.SDP, "a description pion cannot parse has no candidates to strip and must be passed on unchanged")
		}
		return
	}
	dout, pout := c08parse(sent.SDP)
	if !pout {
		if canonical {
			r.OracleFail("sent-description-unparseable", q, sent.SDP, "the description sent must still parse")
		}
		return
	}
	// (a) no media-level host candidate of what was sent is local / loopback / unspecified
	for mi, m := range dout.MediaDescriptions {
		for ai, a := range m.Attributes {
			if _, bad := c08fact(a); bad != "" {
				r.OracleFail("sent-"+bad+"-host-candidate", q, fmt.Sprintf("sent to the broker: media section %d attribute %d: a=%s", mi, ai, a.String()),
					"unless local addresses are explicitly kept, the description sent to the broker contains no host candidate with a private, CGNAT, link-local, unique-local, loopback or unspecified address")
			}
		}
	}
	if !canonical {
		return
	}
	// (b) attributes: the input's minus exactly the bad ones, in order
	if len(din.MediaDescriptions) != len(dout.MediaDescriptions) {
		r.OracleFail("sent-media-sections-changed", q, fmt.Sprintf("%d media sections in, %d sent", len(din.MediaDescriptions), len(dout.MediaDescriptions)), "every other field must be preserved")
		return
	}
	for mi, m := range din.MediaDescriptions {
		outAttrs := dout.MediaDescriptions[mi].Attributes
		oi := 0
		for ai, a := range m.Attributes {
			survives := oi < len(outAttrs) && outAttrs[oi] == a
			if survives {
				oi++
			}
			if bads[mi][ai] == "" && !survives {
				r.OracleFail("sent-other-attribute-lost", q, fmt.Sprintf("media section %d attribute %d lost or reordered: a=%s", mi, ai, a.String()),
					"every other candidate and every other attribute must be preserved, in order")
			}
		}
		if oi != len(outAttrs) {
			r.OracleFail("sent-attribute-invented", q, fmt.Sprintf("media section %d: %d attributes sent are not input attributes in order", mi, len(outAttrs)-oi),
				"the attributes sent must be a sub-sequence of the input's")
		}
	}
	// (c) every other field
	for mi := range din.MediaDescriptions {
		din.MediaDescriptions[mi].Attributes, dout.MediaDescriptions[mi].Attributes = nil, nil
	}
	if !reflect.DeepEqual(din, dout) {
		r.OracleFail("sent-other-field-changed", q, sent.SDP, "every field other than media-level candidates must be preserved")
	}
	// (d) text level: the input minus exactly the removed candidate lines
	if !c08lineSubsequence(sent.SDP, in) || strings.Count(in, "\r\n")-strings.Count(sent.SDP, "\r\n") != nBad {
		r.OracleFail("sent-text-not-input-minus-lines", q, sent.SDP, "for a description in pion's form what is sent must be the input minus exactly the removed candidate lines")
	}
}

// C08ShrinkAndReport reports held oracle failures on an input shrunk line by line; run(in) evaluates one
// input against a probe.
func C08ShrinkAndReport(r *Run, fails []C08Fail, in string, run func(p *C08Probe, in string)) {
	seen := map[string]bool{}
	for _, f := range fails {
		if seen[f.Key] || len(seen) >= 3 {
			continue
		}
		seen[f.Key] = true
		has := func(s string) (C08Fail, bool) {
			p := &C08Probe{}
			run(p, s)
			for _, g := range p.Fails {
				if g.Key == f.Key {
					return g, true
				}
			}
			return C08Fail{}, false
		}
		best := f
		lines := strings.SplitAfter(in, "\n")
		if len(lines) <= 200 {
			for changed := true; changed; {
				changed = false
				for i := len(lines) - 1; i >= 0; i-- {
					cand := strings.Join(append(append([]string{}, lines[:i]...), lines[i+1:]...), "")
					if g, ok := has(cand); ok {
						lines = append(lines[:i:i], lines[i+1:]...)
						best, changed = g, true
					}
				}
			}
		}
		r.OracleFail(best.Key, best.Case, best.Real, best.Detail)
	}
}
