//go:build verif

package zzverif

// JSON text generators shared by the C12 and C13 harnesses (virtual file common/zzverif/jsongen.go).
// Everything is derived from the *rand.Rand handed in, i.e. from VERIF_SEED.

import (
	"fmt"
	"math/rand"
	"strings"
	"unicode/utf8"
)

type JGen struct{ Rng *rand.Rand }

var jInvalidSeqs = []string{"\x80", "\xbf", "\xff", "\xfe", "\xc0\xaf", "\xc1\xbf", "\xe0\x80\x80", "\xe0\x9f\xbf", "\xed\xa0\x80", "\xed\xbf\xbf",
	"\xf0\x80\x80\x80", "\xf0\x8f\xbf\xbf", "\xf4\x90\x80\x80", "\xf5\x80\x80\x80", "\xe2\x82", "\xf0\x9f\x98", "\xc3", "\xe2", "\xf0\x9f"}

// Rune picks a scalar value from classes that matter to encoding/json and to UTF-8.
func (g *JGen) Rune() rune {
	r := g.Rng
	switch r.Intn(16) {
	case 0:
		return rune(r.Intn(0x20)) // control characters
	case 1:
		return []rune{'"', '\\', '/', '<', '>', '&', '\'', 0x7f, ' ', '\t', '\n', '\r', '\b', '\f'}[r.Intn(14)]
	case 2:
		return []rune{0x2028, 0x2029, 0xfffd, 0x212a, 0x17f, 0xfeff, 0x80, 0x7ff, 0x800, 0xffff, 0x10000, 0x10ffff, 0xd7ff, 0xe000}[r.Intn(14)]
	case 3:
		return rune(0x80 + r.Intn(0x780)) // two-byte
	case 4:
		x := rune(0x800 + r.Intn(0xf800)) // three-byte
		if x >= 0xd800 && x < 0xe000 {
			x -= 0x800
		}
		return x
	case 5:
		return rune(0x10000 + r.Intn(0x100000)) // four-byte, all astral planes
	case 6:
		return rune('0' + r.Intn(10))
	case 7:
		return []rune("{}[]:,.-+eEtrufalsn")[r.Intn(19)]
	}
	return rune(0x20 + r.Intn(0x5f))
}

// GoString is a raw Go string of about n scalars; with invalid > 0 some offending byte sequences
// are spliced in (probability 1/invalid per position).
func (g *JGen) GoString(n int, invalid int) string {
	var b strings.Builder
	for i := 0; i < n; i++ {
		if invalid > 0 && g.Rng.Intn(invalid) == 0 {
			b.WriteString(jInvalidSeqs[g.Rng.Intn(len(jInvalidSeqs))])
			continue
		}
		b.WriteRune(g.Rune())
	}
	return b.String()
}

// Len picks a string length: mostly short, sometimes long.
func (g *JGen) Len() int {
	switch g.Rng.Intn(40) {
	case 0:
		return 2000 + g.Rng.Intn(18000)
	case 1, 2:
		return 100 + g.Rng.Intn(400)
	case 3, 4, 5:
		return 0
	}
	return g.Rng.Intn(24)
}

func (g *JGen) hex4(x int) string {
	s := fmt.Sprintf("%04x", x)
	if g.Rng.Intn(2) == 0 {
		s = strings.ToUpper(s)
	}
	return s
}

// StrLit writes s (taken rune by rune; offending bytes are copied raw) as a JSON string literal,
// choosing among the equivalent spellings of each character.
func (g *JGen) StrLit(s string) string {
	var b strings.Builder
	b.WriteByte('"')
	for i := 0; i < len(s); {
		r, sz := utf8.DecodeRuneInString(s[i:])
		if r == utf8.RuneError && sz == 1 {
			b.WriteByte(s[i])
			i++
			continue
		}
		i += sz
		mode := g.Rng.Intn(8)
		short := map[rune]string{'"': `\"`, '\\': `\\`, '/': `\/`, '\b': `\b`, '\f': `\f`, '\n': `\n`, '\r': `\r`, '\t': `\t`}
		if e, ok := short[r]; ok && (mode < 5 || r == '"' || r == '\\' || r < 0x20) && mode != 7 {
			b.WriteString(e)
			continue
		}
		if r < 0x20 || r == '"' || r == '\\' || mode == 7 {
			if r >= 0x10000 {
				x := r - 0x10000
				b.WriteString(`\u` + g.hex4(0xd800+int(x>>10)) + `\u` + g.hex4(0xdc00+int(x&0x3ff)))
			} else {
				b.WriteString(`\u` + g.hex4(int(r)))
			}
			continue
		}
		b.WriteRune(r)
	}
	b.WriteByte('"')
	return b.String()
}

// WeirdStrLit is a string literal made of awkward but mostly well-formed elements: lone and
// reversed surrogate escapes, offending bytes, raw U+2028, DEL …; rarely an ill-formed escape or a
// raw control character (then the document is not JSON).
func (g *JGen) WeirdStrLit() string {
	var b strings.Builder
	b.WriteByte('"')
	for i, n := 0, g.Rng.Intn(8); i < n; i++ {
		switch g.Rng.Intn(14) {
		case 0:
			b.WriteString(`\u` + g.hex4(0xd800+g.Rng.Intn(0x400))) // lone high
		case 1:
			b.WriteString(`\u` + g.hex4(0xdc00+g.Rng.Intn(0x400))) // lone low
		case 2:
			b.WriteString(`\u` + g.hex4(0xd800+g.Rng.Intn(0x400)) + `\u` + g.hex4(0xdc00+g.Rng.Intn(0x400))) // pair
		case 3:
			b.WriteString(`\u` + g.hex4(0xdc00+g.Rng.Intn(0x400)) + `\u` + g.hex4(0xd800+g.Rng.Intn(0x400))) // reversed
		case 4:
			b.WriteString(`\ud800𐀀`)
		case 5:
			b.WriteString(`\ud83d\n`) // high surrogate followed by another kind of escape
		case 6:
			b.WriteString(jInvalidSeqs[g.Rng.Intn(len(jInvalidSeqs))])
		case 7:
			b.WriteString("  \x7f")
		case 8:
			b.WriteString(`\u` + g.hex4(g.Rng.Intn(0x10000)))
		case 9:
			if g.Rng.Intn(6) == 0 {
				b.WriteString([]string{`\x41`, `\u12`, `\u12g4`, `\`, "\x01", "\n", `\U0041`, `\'`, `\u+123`}[g.Rng.Intn(9)])
			} else {
				b.WriteString(`\/`)
			}
		default:
			s := g.StrLit(string(g.Rune()))
			b.WriteString(s[1 : len(s)-1])
		}
	}
	b.WriteByte('"')
	return b.String()
}

var jNumbers = []string{"0", "-0", "1", "-1", "12", "1.5", "-2.50", "1e2", "1E+2", "1e-2", "0.0", "0e0", "7", "8", "16", "100000",
	"9223372036854775807", "9223372036854775808", "-9223372036854775808", "-9223372036854775809", "18446744073709551616",
	"1e308", "1e309", "1e999", "-1e999", "1E999", "1.7976931348623157e308", "1.7976931348623158e308", "1.7976931348623159e308",
	"-1.7976931348623159e308", "17976931348623158e292", "17976931348623159e292", "0.17976931348623159e309",
	"179769313486231580793728971405303415079934132710037826936173778980444968292764750946649017977587207096330286416692887910946555547851940402630657488671505820681908902000708383676273854845817711531764475730270069855571366959622842914819860834936475292719074168444365510704342711559699508093042880177904174497791",
	"179769313486231580793728971405303415079934132710037826936173778980444968292764750946649017977587207096330286416692887910946555547851940402630657488671505820681908902000708383676273854845817711531764475730270069855571366959622842914819860834936475292719074168444365510704342711559699508093042880177904174497792",
	"179769313486231580793728971405303415079934132710037826936173778980444968292764750946649017977587207096330286416692887910946555547851940402630657488671505820681908902000708383676273854845817711531764475730270069855571366959622842914819860834936475292719074168444365510704342711559699508093042880177904174497791.9999999999",
	"0.1e-400", "1e-999999", "1e99999999999", "1e-99999999999", "0e999", "0.0e999", "-0e99999", "1e10000", "1e9999", "1e100000", "1e-10000",
	"4.9e-324", "2.2250738585072014e-308", "1e+308", "10e307", "0.1e310", "0.00001e314", "100000e304"}

var jBadNumbers = []string{"01", "1.", ".5", "+1", "1e", "1e+", "--1", "0x10", "1_0", "Infinity", "NaN", "-", "-a", "1.e1", "1e1.5", "00", "-01", "1E", "0.", "1.5.2", "١"}

// Number is a number literal: boundary values, Go's float parsing corner cases, random ones.
func (g *JGen) Number() string {
	r := g.Rng
	switch r.Intn(10) {
	case 0, 1, 2:
		return jNumbers[r.Intn(len(jNumbers))]
	case 3:
		// very long digit strings around strconv's 800-digit cap and the float64 overflow exponent
		z := func(n int) string { return strings.Repeat("0", n) }
		nine := func(n int) string { return strings.Repeat("9", n) }
		switch r.Intn(10) {
		case 0:
			return "1" + z(801) + "e-492" // true value 1e309, strconv: 1e307
		case 1:
			return "1" + z(799) + "e-490" // 1e309: overflow
		case 2:
			return "1" + z(800) + "e-491"
		case 3:
			return "0." + z(400) + "1e" + fmt.Sprint(700+r.Intn(20))
		case 4:
			return "1" + z(300+r.Intn(20))
		case 5:
			return nine(300 + r.Intn(20))
		case 6:
			return "1" + z(1000) + "e-" + fmt.Sprint(680+r.Intn(30))
		case 7:
			return nine(900) + "." + nine(50) + "e-" + fmt.Sprint(585+r.Intn(10))
		case 8:
			return "0." + z(2000) + "1e" + fmt.Sprint(2300+r.Intn(20))
		default:
			return "17976931348623158" + nine(r.Intn(900)) + "e" + fmt.Sprint(292-r.Intn(3))
		}
	}
	var b strings.Builder
	if r.Intn(3) == 0 {
		b.WriteByte('-')
	}
	if r.Intn(6) == 0 {
		b.WriteByte('0')
	} else {
		b.WriteByte(byte('1' + r.Intn(9)))
		for i, n := 0, r.Intn(22); i < n; i++ {
			b.WriteByte(byte('0' + r.Intn(10)))
		}
	}
	if r.Intn(3) == 0 {
		b.WriteByte('.')
		for i, n := 0, 1+r.Intn(8); i < n; i++ {
			b.WriteByte(byte('0' + r.Intn(10)))
		}
	}
	if r.Intn(3) == 0 {
		b.WriteByte("eE"[r.Intn(2)])
		b.WriteString([]string{"", "+", "-"}[r.Intn(3)])
		b.WriteString(fmt.Sprint(r.Intn(400)))
	}
	return b.String()
}

func (g *JGen) Ws() string {
	if g.Rng.Intn(3) != 0 {
		return ""
	}
	s := ""
	for i, n := 0, 1+g.Rng.Intn(3); i < n; i++ {
		s += []string{" ", "\t", "\n", "\r"}[g.Rng.Intn(4)]
	}
	return s
}

// Kinds of JSON values, for Value / the class strings of the harnesses.
var JKinds = []string{"null", "true", "false", "num", "bignum", "str", "weirdstr", "arr", "obj", "emptyarr", "emptyobj"}

// ValueOf returns a JSON value of the given kind.
func (g *JGen) ValueOf(kind string, depth int) string {
	switch kind {
	case "null", "true", "false":
		return kind
	case "num":
		return g.Number()
	case "bignum":
		return []string{"1e999", "-1e999", "1e309", "1.7976931348623159e308"}[g.Rng.Intn(4)]
	case "str":
		return g.StrLit(g.GoString(g.Rng.Intn(12), 0))
	case "weirdstr":
		return g.WeirdStrLit()
	case "emptyarr":
		return "[" + g.Ws() + "]"
	case "emptyobj":
		return "{" + g.Ws() + "}"
	case "arr":
		var parts []string
		for i, n := 0, 1+g.Rng.Intn(3); i < n; i++ {
			parts = append(parts, g.Ws()+g.Value(depth+1)+g.Ws())
		}
		return "[" + strings.Join(parts, ",") + "]"
	case "obj":
		var parts []string
		for i, n := 0, 1+g.Rng.Intn(3); i < n; i++ {
			parts = append(parts, g.Ws()+g.StrLit(g.GoString(g.Rng.Intn(5), 0))+g.Ws()+":"+g.Ws()+g.Value(depth+1)+g.Ws())
		}
		return "{" + strings.Join(parts, ",") + "}"
	}
	return "null"
}

// Value is a random JSON value; nested containers get rarer with depth.
func (g *JGen) Value(depth int) string {
	k := JKinds[g.Rng.Intn(len(JKinds))]
	if depth > 3 && (k == "arr" || k == "obj") {
		k = "num"
	}
	return g.ValueOf(k, depth)
}

// Deep nests n containers: open = '[' or '{' (objects as {"a":{"a":…}}), closed or left open.
func (g *JGen) Deep(n int, open byte, closed bool) string {
	var b strings.Builder
	if open == '[' {
		b.WriteString(strings.Repeat("[", n))
		if closed {
			b.WriteString(strings.Repeat("]", n))
		}
		return b.String()
	}
	b.WriteString(strings.Repeat(`{"a":`, n))
	if closed {
		b.WriteString("1")
		b.WriteString(strings.Repeat("}", n))
	}
	return b.String()
}

// Mutate applies a few byte-level edits to a document: delete, insert, replace, truncate, duplicate
// a slice, swap two bytes.
func (g *JGen) Mutate(doc string) string {
	b := []byte(doc)
	for i, n := 0, 1+g.Rng.Intn(3); i < n; i++ {
		if len(b) == 0 {
			b = append(b, byte(g.Rng.Intn(256)))
			continue
		}
		p := g.Rng.Intn(len(b))
		switch g.Rng.Intn(8) {
		case 0:
			b = append(b[:p], b[p+1:]...)
		case 1:
			set := []byte(`{}[]:,"\ 0123456789.-+eEtfnu` + "\x00\xff\x80\n")
			c := set[g.Rng.Intn(len(set))]
			b = append(b[:p], append([]byte{c}, b[p:]...)...)
		case 2:
			b[p] = byte(g.Rng.Intn(256))
		case 3:
			b = b[:p]
		case 4:
			q := p + g.Rng.Intn(len(b)-p)
			b = append(b[:q], append(append([]byte(nil), b[p:q]...), b[q:]...)...)
		case 5:
			q := g.Rng.Intn(len(b))
			b[p], b[q] = b[q], b[p]
		case 6:
			b[p] ^= 1 << uint(g.Rng.Intn(8))
		case 7:
			b = b[p:]
		}
	}
	return string(b)
}

func (g *JGen) RandomBytes() string {
	n := g.Rng.Intn(24)
	b := make([]byte, n)
	for i := range b {
		if g.Rng.Intn(3) == 0 {
			b[i] = byte(g.Rng.Intn(256))
		} else {
			set := []byte(`{}[]:,"\ 0123456789.-eEtruefalsn`)
			b[i] = set[g.Rng.Intn(len(set))]
		}
	}
	return string(b)
}

// FoldVariant rewrites an ASCII member name into a spelling that encoding/json's case folding still
// matches (random case, K → U+212A, S → U+017F) or, with small probability, one that it does not.
func (g *JGen) FoldVariant(name string) (string, bool) {
	var b strings.Builder
	for _, c := range name {
		switch g.Rng.Intn(4) {
		case 0:
			b.WriteString(strings.ToUpper(string(c)))
		case 1:
			b.WriteString(strings.ToLower(string(c)))
		case 2:
			if c == 'k' || c == 'K' {
				b.WriteRune(0x212a)
			} else if c == 's' || c == 'S' {
				b.WriteRune(0x17f)
			} else {
				b.WriteRune(c)
			}
		default:
			b.WriteRune(c)
		}
	}
	if g.Rng.Intn(8) == 0 {
		// near misses: dotless i, dotted I, full-width letter, trailing space, Angstrom / micro signs
		return b.String() + []string{"ı", "İ", "Ａ", " ", "Å", "µ", "_"}[g.Rng.Intn(7)], false
	}
	return b.String(), true
}
