//go:build verif

// Package zzverif is the shared helper of the verification harness.  It is never part of the
// repository: `go test -overlay` maps it to the virtual directory common/zzverif.
package zzverif

import (
	"bufio"
	"encoding/hex"
	"encoding/json"
	"fmt"
	"hash/fnv"
	"io"
	"math/rand"
	"os"
	"os/exec"
	"sort"
	"strconv"
	"sync"
)

// Finding is one disagreement or oracle failure, with what is needed to replay it.
type Finding struct {
	Kind   string `json:"kind"`   // "correspondence" | "oracle"
	Key    string `json:"key"`    // stable class key (used to match known findings)
	Case   string `json:"case"`   // canonical case line(s)
	Real   string `json:"real"`   // what the implementation did
	Model  string `json:"model"`  // what the model predicted (correspondence only)
	Detail string `json:"detail"` // human-readable explanation
}

type Run struct {
	Prop string
	Tier string
	Seed int64
	Rng  *rand.Rand

	mu          sync.Mutex
	drv         *exec.Cmd
	drvIn       io.WriteCloser
	drvOut      *bufio.Reader
	evaluations int
	distinct    map[uint64]struct{}
	dist        map[string]int
	samples     []string
	findings    []Finding
	notes       []string
	skipped     []string
	modelCalls  int
}

func Start(prop string) *Run {
	r := &Run{Prop: prop, Tier: os.Getenv("VERIF_TIER"), distinct: map[uint64]struct{}{}, dist: map[string]int{},
		samples: []string{}, findings: []Finding{}, notes: []string{}, skipped: []string{}}
	if r.Tier == "" {
		r.Tier = "quick"
	}
	r.Seed, _ = strconv.ParseInt(os.Getenv("VERIF_SEED"), 10, 64)
	r.Rng = rand.New(rand.NewSource(r.Seed*7919 + 17))
	return r
}

func (r *Run) Thorough() bool { return r.Tier == "thorough" }

// N picks a case count by tier.
func (r *Run) N(quick, thorough int) int {
	if r.Thorough() {
		return thorough
	}
	return quick
}

func (r *Run) startDriver() {
	path := os.Getenv("VERIF_SFDRIVER")
	if path == "" {
		path = "/verif/lean/.lake/build/bin/sfdriver"
	}
	cmd := exec.Command(path)
	in, err := cmd.StdinPipe()
	if err != nil {
		panic(err)
	}
	out, err := cmd.StdoutPipe()
	if err != nil {
		panic(err)
	}
	cmd.Stderr = os.Stderr
	if err := cmd.Start(); err != nil {
		panic(fmt.Sprintf("cannot start sfdriver %s: %v", path, err))
	}
	r.drv, r.drvIn, r.drvOut = cmd, in, bufio.NewReaderSize(out, 1<<20)
}

// Model sends one request line to sfdriver and returns its one-line reply.
func (r *Run) Model(line string) string {
	r.mu.Lock()
	defer r.mu.Unlock()
	if r.drv == nil {
		r.startDriver()
	}
	r.modelCalls++
	if _, err := io.WriteString(r.drvIn, line+"\n"); err != nil {
		panic(fmt.Sprintf("sfdriver write: %v", err))
	}
	reply, err := r.drvOut.ReadString('\n')
	if err != nil {
		panic(fmt.Sprintf("sfdriver died on %q: %v", trunc(line, 200), err))
	}
	return reply[:len(reply)-1]
}

func trunc(s string, n int) string {
	if len(s) > n {
		return s[:n] + fmt.Sprintf("…(%d bytes)", len(s))
	}
	return s
}

// Case records one explored case. class names the branch / error class / generator it exercised;
// nontrivial says whether it reached a non-default branch by the property's rule.
func (r *Run) Case(class, caseLine string, nontrivial bool) {
	r.mu.Lock()
	defer r.mu.Unlock()
	r.evaluations++
	r.dist[class]++
	if nontrivial {
		h := fnv.New64a()
		h.Write([]byte(class))
		h.Write([]byte{0})
		h.Write([]byte(caseLine))
		r.distinct[h.Sum64()] = struct{}{}
	}
	if r.dist[class] <= 2 && len(r.samples) < 40 {
		r.samples = append(r.samples, class+": "+trunc(caseLine, 300))
	}
}

// Compare records a correspondence disagreement when real != model.
func (r *Run) Compare(key, caseLine, real, model string) bool {
	if real == model {
		return true
	}
	r.mu.Lock()
	defer r.mu.Unlock()
	if len(r.findings) < 200 {
		r.findings = append(r.findings, Finding{Kind: "correspondence", Key: key, Case: caseLine, Real: trunc(real, 2000), Model: trunc(model, 2000)})
	}
	return false
}

// OracleFail records a violation of the property itself on the real code.
func (r *Run) OracleFail(key, caseLine, real, detail string) {
	r.mu.Lock()
	defer r.mu.Unlock()
	if len(r.findings) < 200 {
		r.findings = append(r.findings, Finding{Kind: "oracle", Key: key, Case: caseLine, Real: trunc(real, 2000), Detail: detail})
	}
}

// Independent judges that a function of the code under test behaves as a function of its input alone: every case
// is evaluated once alone (sequentially, each in turn), then all cases again interleaved from several goroutines
// and once more alone in reverse order; any result that differs from the first evaluation is an oracle failure
// (shared scratch buffers, pooled or package-level state, results aliasing later calls).  `eval` must build whatever
// instance it needs itself and return a canonical rendering of everything it observed (panics are caught).
func (r *Run) Independent(key, what string, cases []string, eval func(c string) string) {
	safe := func(c string) (out string) {
		defer func() {
			if x := recover(); x != nil {
				out = fmt.Sprintf("panic: %v", x)
			}
		}()
		return eval(c)
	}
	first := make([]string, len(cases))
	for i, c := range cases {
		first[i] = safe(c)
	}
	again := make([]string, len(cases))
	var wg sync.WaitGroup
	const G = 8
	for g := 0; g < G; g++ {
		wg.Add(1)
		go func(g int) {
			defer wg.Done()
			for i := g; i < len(cases); i += G {
				again[i] = safe(cases[i])
			}
		}(g)
	}
	wg.Wait()
	bad := -1
	how := ""
	for i := range cases {
		if again[i] != first[i] {
			bad, how = i, "evaluated concurrently with other inputs"
			break
		}
	}
	if bad < 0 {
		for i := len(cases) - 1; i >= 0; i-- {
			if o := safe(cases[i]); o != first[i] {
				bad, how, again[i] = i, "evaluated again after other inputs", o
				break
			}
		}
	}
	r.Case("independent/"+key, fmt.Sprintf("%s: %d inputs alone, interleaved from %d goroutines, and again in reverse order", what, len(cases), G), len(cases) > 0)
	if bad >= 0 {
		r.OracleFail("result-depends-on-other-calls/"+key, trunc(cases[bad], 600), fmt.Sprintf("alone: %s | %s: %s", trunc(first[bad], 700), how, trunc(again[bad], 700)),
			what+" must depend on its input alone, not on what else is or was processed")
	}
}

func (r *Run) Note(format string, a ...interface{}) {
	r.mu.Lock()
	defer r.mu.Unlock()
	r.notes = append(r.notes, fmt.Sprintf(format, a...))
}

func (r *Run) Skip(what string) {
	r.mu.Lock()
	defer r.mu.Unlock()
	r.skipped = append(r.skipped, what)
}

// Finish writes the result file named by VERIF_OUT.
func (r *Run) Finish() {
	if r.drv != nil {
		r.drvIn.Close()
		r.drv.Wait()
	}
	keys := make([]string, 0, len(r.dist))
	for k := range r.dist {
		keys = append(keys, k)
	}
	sort.Strings(keys)
	out := map[string]interface{}{
		"property":            r.Prop,
		"tier":                r.Tier,
		"seed":                r.Seed,
		"evaluations":         r.evaluations,
		"distinct_nontrivial": len(r.distinct),
		"distribution":        r.dist,
		"samples":             r.samples,
		"findings":            r.findings,
		"notes":               r.notes,
		"skipped":             r.skipped,
		"model_calls":         r.modelCalls,
	}
	path := os.Getenv("VERIF_OUT")
	if path == "" {
		path = "/dev/stdout"
	}
	b, _ := json.MarshalIndent(out, "", " ")
	if err := os.WriteFile(path, b, 0o644); err != nil {
		panic(err)
	}
}

var journalMu sync.Mutex

// Journal appends a line to the file named by VERIF_JOURNAL (if set), synchronously, so that the
// history leading to a crash of the process under test can be reported by run.py.
func Journal(line string) {
	path := os.Getenv("VERIF_JOURNAL")
	if path == "" {
		return
	}
	journalMu.Lock()
	defer journalMu.Unlock()
	f, err := os.OpenFile(path, os.O_APPEND|os.O_CREATE|os.O_WRONLY, 0o644)
	if err != nil {
		return
	}
	f.WriteString(line + "\n")
	f.Close()
}

// Serial reports whether the harness was asked to run its cases one at a time (crash attribution).
func Serial() bool { return os.Getenv("VERIF_SERIAL") == "1" }

// Hex encodes bytes for the line protocol ("-" for empty).
func Hex(b []byte) string {
	if len(b) == 0 {
		return "-"
	}
	return hex.EncodeToString(b)
}

// Replay returns the case line to replay when VERIF_REPLAY is set.
func Replay() string { return os.Getenv("VERIF_REPLAY_CASE") }
