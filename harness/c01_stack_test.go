//go:build verif

package snowflake_client

// C01 (and the stack-level clauses of C05 / C18) harness, virtual file in /repo/client/lib.
//
// Both ends are the repository's real code: server side `snowflake_server.Transport.Listen/Accept`
// (real WebSocket handler, QueuePacketConn, client map, kcp-go, smux); client side the real
// `turbotunnel.RedialPacketConn` + `newEncapsulationPacketConn` + kcp-go + smux wired exactly as
// `newSession` wires them (a skeleton tie re-checks that wiring on every run).  What is replaced is the
// carrier: instead of a WebRTC data channel through a proxy, each redial gets a WebSocket straight to the
// server, wrapped in a fault injector that cuts it after a generated number of bytes in either
// direction (inside the preface, inside a frame, at a boundary), freezes it, or delays the next dial.
//
// Oracles: every byte written at one end is read at the other end exactly once, in order, in both
// directions (payloads are PRNG streams both ends can regenerate, so the first bad offset is reported);
// one accepted connection per session; its RemoteAddr is one of the session's own carrier addresses.

import (
	"context"
	"encoding/binary"
	"fmt"
	"io"
	"math/rand"
	"net"
	"strings"
	"sync"
	"sync/atomic"
	"testing"
	"time"

	"git.torproject.org/pluggable-transports/snowflake.git/v2/common/messages"
	"git.torproject.org/pluggable-transports/snowflake.git/v2/common/turbotunnel"
	"git.torproject.org/pluggable-transports/snowflake.git/v2/common/util"
	"git.torproject.org/pluggable-transports/snowflake.git/v2/common/websocketconn"
	vh "git.torproject.org/pluggable-transports/snowflake.git/v2/common/zzverif"
	sfserver "git.torproject.org/pluggable-transports/snowflake.git/v2/server/lib"
	"github.com/gorilla/websocket"
	"github.com/pion/ice/v2"
	"github.com/pion/webrtc/v3"
	"github.com/xtaci/kcp-go/v5"
	"github.com/xtaci/smux"
)

// payload byte i of (session, direction)
func c01Fill(b []byte, session uint32, dir byte, off int) {
	for i := range b {
		x := uint32(off+i)*2654435761 ^ session*40503 ^ uint32(dir)*97
		b[i] = byte(x>>13) ^ byte(x>>5) ^ byte(x)
	}
}

type c01Fault struct {
	upBudget, downBudget int // bytes after which the carrier is cut in that direction (-1: never)
	freezeAfter          int // bytes after which the carrier stalls for freezeFor
	freezeFor            time.Duration
	dialDelay            time.Duration // "no proxy available" for this long before the carrier exists
	dnFreezeAfter        int           // downstream bytes after which the client stops reading this carrier for dnFreezeFor
	dnFreezeFor          time.Duration // (the carrier still delivers upstream: a slow / stalled consumer)
	linger               time.Duration // after the client has closed the carrier its WebSocket stays open this long at the server
	//                                    (a frozen or half-open proxy: the replacement attaches while the old one lingers)
	silent bool // the cut is one-sided: writes fail from then on, reads just never return anything again
	//                                    until the owner closes the carrier (a proxy that died without a word)
}

// faultConn wraps one carrier.
type faultConn struct {
	inner   io.ReadWriteCloser
	f       c01Fault
	mu      sync.Mutex
	up, dn  int
	cut     bool
	dead    bool          // silent death: writes fail, reads block until Close
	closed  chan struct{} // closed by Close
	onClose func()
	once    sync.Once
}

func (c *faultConn) Write(b []byte) (int, error) {
	c.mu.Lock()
	if c.cut || c.dead {
		c.mu.Unlock()
		return 0, io.ErrClosedPipe
	}
	n := len(b)
	cutNow := false
	if c.f.upBudget >= 0 && c.up+n >= c.f.upBudget {
		n = c.f.upBudget - c.up
		cutNow = true
	}
	if c.f.freezeAfter > 0 && c.up < c.f.freezeAfter && c.up+n >= c.f.freezeAfter {
		c.mu.Unlock()
		time.Sleep(c.f.freezeFor)
		c.mu.Lock()
	}
	c.up += n
	c.mu.Unlock()
	if n > 0 {
		if _, err := c.inner.Write(b[:n]); err != nil {
			return 0, err
		}
	}
	if cutNow && c.f.silent && c.closed != nil {
		c.mu.Lock()
		c.dead = true
		c.mu.Unlock()
		return n, io.ErrClosedPipe
	}
	if cutNow {
		c.Close()
		return n, io.ErrClosedPipe
	}
	return len(b), nil
}

func (c *faultConn) Read(b []byte) (int, error) {
	n, err := c.inner.Read(b)
	c.mu.Lock()
	if c.dead && !c.cut && c.closed != nil {
		c.mu.Unlock()
		<-c.closed // nothing ever arrives again; only the owner's Close ends the read
		return 0, io.ErrClosedPipe
	}
	if c.f.dnFreezeAfter > 0 && c.dn < c.f.dnFreezeAfter && c.dn+n >= c.f.dnFreezeAfter {
		c.mu.Unlock()
		time.Sleep(c.f.dnFreezeFor)
		c.mu.Lock()
	}
	defer c.mu.Unlock()
	if c.cut {
		return 0, io.ErrClosedPipe
	}
	if c.f.downBudget >= 0 && c.dn+n >= c.f.downBudget {
		n = c.f.downBudget - c.dn
		c.dn += n
		go c.Close()
		if n == 0 {
			return 0, io.ErrClosedPipe
		}
		return n, nil
	}
	c.dn += n
	return n, err
}

func (c *faultConn) Close() error {
	c.once.Do(func() {
		c.mu.Lock()
		c.cut = true
		c.mu.Unlock()
		if c.closed != nil {
			close(c.closed)
		}
		if c.f.linger >= time.Hour {
			// closed by the session's clean-up (c01Client)
		} else if c.f.linger > 0 {
			time.AfterFunc(c.f.linger, func() { c.inner.Close() })
		} else {
			c.inner.Close()
		}
		if c.onClose != nil {
			c.onClose()
		}
	})
	return nil
}

type c01Result struct {
	outage     bool // the bulk-upload-with-outage scenario
	closeFirst bool // the bridge closes the connection right after its last byte, without waiting for the client
	tailCut    bool // the first carrier is cut while the last bytes of the download are on their way (the bridge has
	//                     written everything and closed its end by then); the next carrier appears a little later
	slowConsumer bool   // bulk download to a client that stops reading for a while; the other sessions must not notice
	idGroup      []byte // non-nil: base of a group of nearly identical ClientIDs
	session      uint32
	upLen        int
	downLen      int
	carriers     int32
	clientErr    string // first problem seen at the client end
	serverErr    string
	serverDone   bool
	accepted     int32
	remoteAddr   string
	faults       []string
	elapsed      time.Duration
	lastProgress int64 // UnixNano of the last moment either end read payload bytes of this session (atomic)
	endedAt      time.Time
}

func c01GenFault(rng *rand.Rand, first bool) c01Fault {
	f := c01Fault{upBudget: -1, downBudget: -1}
	switch x := rng.Intn(10); {
	case x < 3: // cut early: inside the preface or the first frames
		f.upBudget = rng.Intn(40)
	case x < 6: // cut upstream somewhere mid-stream
		f.upBudget = 16 + rng.Intn(60000)
		f.silent = rng.Intn(2) == 0
	case x < 8: // cut downstream mid-stream
		f.downBudget = rng.Intn(40000)
	case x < 9:
		f.freezeAfter = 1 + rng.Intn(20000)
		f.freezeFor = time.Duration(50+rng.Intn(400)) * time.Millisecond
		f.upBudget = f.freezeAfter + rng.Intn(30000)
	default: // a healthy carrier for a while
		f.upBudget = 100000 + rng.Intn(400000)
	}
	if !first && rng.Intn(5) == 0 {
		f.dialDelay = time.Duration(rng.Intn(700)) * time.Millisecond
	}
	if rng.Intn(4) == 0 {
		f.linger = time.Duration(500+rng.Intn(2500)) * time.Millisecond
		if rng.Intn(3) == 0 {
			f.linger = time.Hour // a proxy frozen for good: its socket stays open at the server until the session is over
		}
	}
	return f
}

// outage: the first carrier dies in the middle of a bulk upload and no proxy is available for several
// seconds (KCP keeps retransmitting into the full send queue), then a working one appears
func c01OutageFault(k int32, downstream bool) c01Fault {
	switch k {
	case 1:
		if downstream {
			// bulk download: the carrier is cut after 256 KiB came down; the server keeps retransmitting ~1 MiB in
			// flight into a send queue that nothing drains until the next carrier attaches
			return c01Fault{upBudget: -1, downBudget: 256 << 10}
		}
		return c01Fault{upBudget: 1200000, downBudget: -1}
	case 2:
		return c01Fault{upBudget: -1, downBudget: -1, dialDelay: 5 * time.Second}
	}
	return c01Fault{upBudget: -1, downBudget: -1}
}

func (f c01Fault) String() string {
	silent := ""
	if f.silent {
		silent = "/silent"
	}
	if f.linger > 0 {
		silent += fmt.Sprintf("/linger%v", f.linger)
	}
	return fmt.Sprintf("up%d%s/dn%d/frz%d@%v/delay%v", f.upBudget, silent, f.downBudget, f.freezeAfter, f.freezeFor, f.dialDelay)
}

// c01Client runs one session from the client end.
func c01Client(serverAddr string, res *c01Result, seed int64, maxFaults int, deadline time.Time) {
	rng := rand.New(rand.NewSource(seed))
	var rngMu sync.Mutex
	var allCarriers []*faultConn
	clientID := turbotunnel.NewClientID()
	if res.idGroup != nil {
		// sessions of one group have ClientIDs that differ in a single byte (the last, or the first)
		copy(clientID[:], res.idGroup)
		if res.session%2 == 0 {
			clientID[7] = byte(res.session)
		} else {
			clientID[0] = byte(res.session)
		}
	}
	var nDial int32
	// one carrier: a WebSocket to the server behind the fault injector (stands for snowflakes.Pop())
	pop := func() (io.ReadWriteCloser, error) {
		rngMu.Lock()
		k := atomic.AddInt32(&nDial, 1)
		f := c01GenFault(rng, k == 1)
		if int(k) > maxFaults { // eventually a working carrier becomes available
			f = c01Fault{upBudget: -1, downBudget: -1}
		}
		if res.outage {
			f = c01OutageFault(k, res.downLen > res.upLen)
		}
		if res.tailCut && k == 1 {
			back := 1 + rng.Intn(3000)
			if back > res.downLen {
				back = res.downLen
			}
			f = c01Fault{upBudget: -1, downBudget: res.downLen - back}
		}
		if res.tailCut && k == 2 {
			f.dialDelay = time.Duration(200+rng.Intn(600)) * time.Millisecond
		}
		if res.slowConsumer {
			// a bulk download whose client stops reading its (otherwise healthy) carrier for 6 s after 128 KiB
			f = c01Fault{upBudget: -1, downBudget: -1}
			if k == 1 {
				f.dnFreezeAfter, f.dnFreezeFor = 128<<10, 6*time.Second
			}
		}
		res.faults = append(res.faults, f.String())
		rngMu.Unlock()
		if f.dialDelay > 0 {
			time.Sleep(f.dialDelay)
		}
		if time.Now().After(deadline) {
			return nil, fmt.Errorf("harness deadline")
		}
		u := fmt.Sprintf("ws://%s/?client_ip=10.%d.%d.7", serverAddr, res.session%250, k%250)
		ws, _, err := websocket.DefaultDialer.Dial(u, nil)
		if err != nil {
			return nil, err
		}
		atomic.AddInt32(&res.carriers, 1)
		fc := &faultConn{inner: websocketconn.New(ws), f: f, closed: make(chan struct{})}
		rngMu.Lock()
		allCarriers = append(allCarriers, fc)
		rngMu.Unlock()
		return fc, nil
	}
	defer func() { // carriers left lingering at the server are closed when the session is over
		rngMu.Lock()
		defer rngMu.Unlock()
		for _, fc := range allCarriers {
			fc.inner.Close()
		}
	}()
	// statement by statement as newSession's dialContext (tie: Tie/ClientSession skel_newSession_tie)
	dialContext := func(ctx context.Context) (net.PacketConn, error) {
		for {
			conn, perr := pop()
			if perr != nil {
				return nil, perr
			}
			_, err := conn.Write(turbotunnel.Token[:])
			if err == nil {
				_, err = conn.Write(clientID[:])
			}
			if err != nil {
				conn.Close()
				continue
			}
			return newEncapsulationPacketConn(dummyAddr{}, dummyAddr{}, conn), nil
		}
	}
	pconn := turbotunnel.NewRedialPacketConn(dummyAddr{}, dummyAddr{}, dialContext)
	defer pconn.Close()
	conn, err := kcp.NewConn2(dummyAddr{}, nil, 0, 0, pconn)
	if err != nil {
		res.clientErr = "kcp.NewConn2: " + err.Error()
		return
	}
	defer conn.Close()
	conn.SetStreamMode(true)
	conn.SetWindowSize(WindowSize, WindowSize)
	conn.SetNoDelay(0, 0, 0, 1)
	smuxConfig := smux.DefaultConfig()
	smuxConfig.Version = 2
	smuxConfig.KeepAliveTimeout = 10 * time.Minute
	smuxConfig.MaxStreamBuffer = StreamSize
	sess, err := smux.Client(conn, smuxConfig)
	if err != nil {
		res.clientErr = "smux.Client: " + err.Error()
		return
	}
	defer sess.Close()
	stream, err := sess.OpenStream()
	if err != nil {
		res.clientErr = "OpenStream: " + err.Error()
		return
	}
	defer stream.Close()
	stream.SetDeadline(deadline)
	var wg sync.WaitGroup
	wg.Add(2)
	go func() { // writer: header + upstream payload in random-size writes
		defer wg.Done()
		wr := rand.New(rand.NewSource(seed + 1))
		hdr := make([]byte, 12)
		binary.BigEndian.PutUint32(hdr[0:], res.session)
		binary.BigEndian.PutUint32(hdr[4:], uint32(res.upLen))
		binary.BigEndian.PutUint32(hdr[8:], uint32(res.downLen))
		if _, err := stream.Write(hdr); err != nil {
			res.clientErr = "write header: " + err.Error()
			return
		}
		off := 0
		for off < res.upLen {
			n := 1 + wr.Intn(20000)
			if wr.Intn(5) == 0 {
				n = 1 + wr.Intn(10)
			}
			if off+n > res.upLen {
				n = res.upLen - off
			}
			b := make([]byte, n)
			c01Fill(b, res.session, 'u', off)
			if _, err := stream.Write(b); err != nil {
				res.clientErr = fmt.Sprintf("write at %d: %v", off, err)
				return
			}
			off += n
		}
	}()
	go func() { // reader: downstream payload
		defer wg.Done()
		buf := make([]byte, 32768)
		want := make([]byte, 32768)
		off := 0
		for off < res.downLen {
			lim := len(buf)
			if res.downLen-off < lim {
				lim = res.downLen - off
			}
			n, err := stream.Read(buf[:lim])
			if n > 0 {
				if off+n > res.downLen {
					res.clientErr = fmt.Sprintf("downstream: %d bytes beyond the %d written", off+n-res.downLen, res.downLen)
					return
				}
				atomic.StoreInt64(&res.lastProgress, time.Now().UnixNano())
				c01Fill(want[:n], res.session, 'd', off)
				for i := 0; i < n; i++ {
					if buf[i] != want[i] {
						res.clientErr = fmt.Sprintf("downstream: byte at offset %d differs (missing, duplicated, reordered or foreign bytes)", off+i)
						return
					}
				}
				off += n
			}
			if err != nil {
				if off < res.downLen {
					res.clientErr = fmt.Sprintf("downstream: stream ended at %d of %d: %v", off, res.downLen, err)
				}
				return
			}
		}
		// the server's acknowledgement that it has read the whole upstream payload
		ack := make([]byte, 2)
		n, err := io.ReadFull(stream, ack[:1])
		if n != 1 || ack[0] != 'K' {
			res.clientErr = fmt.Sprintf("downstream: no acknowledgement after the payload (%d bytes, %v)", n, err)
		}
	}()
	wg.Wait()
}

// c01Serve handles one accepted connection at the server end.
func c01Serve(conn net.Conn, results *sync.Map, deadline time.Time) {
	defer conn.Close()
	conn.SetDeadline(deadline)
	hdr := make([]byte, 12)
	if _, err := io.ReadFull(conn, hdr); err != nil {
		return
	}
	session := binary.BigEndian.Uint32(hdr[0:])
	upLen := int(binary.BigEndian.Uint32(hdr[4:]))
	downLen := int(binary.BigEndian.Uint32(hdr[8:]))
	v, ok := results.Load(session)
	if !ok {
		return
	}
	res := v.(*c01Result)
	if atomic.AddInt32(&res.accepted, 1) > 1 {
		return
	}
	if a := conn.RemoteAddr(); a != nil {
		res.remoteAddr = a.String()
	}
	if upLen != res.upLen || downLen != res.downLen {
		res.serverErr = fmt.Sprintf("header altered: up %d down %d", upLen, downLen)
		return
	}
	var wg sync.WaitGroup
	wg.Add(2)
	go func() {
		defer wg.Done()
		buf := make([]byte, 32768)
		want := make([]byte, 32768)
		off := 0
		for off < upLen {
			n, err := conn.Read(buf)
			if n > 0 {
				if off+n > upLen {
					res.serverErr = fmt.Sprintf("upstream: %d bytes beyond the %d written", off+n-upLen, upLen)
					return
				}
				atomic.StoreInt64(&res.lastProgress, time.Now().UnixNano())
				c01Fill(want[:n], session, 'u', off)
				for i := 0; i < n; i++ {
					if buf[i] != want[i] {
						res.serverErr = fmt.Sprintf("upstream: byte at offset %d differs (missing, duplicated, reordered or foreign bytes)", off+i)
						return
					}
				}
				off += n
			}
			if err != nil {
				if off < upLen {
					res.serverErr = fmt.Sprintf("upstream: stream ended at %d of %d: %v", off, upLen, err)
				}
				return
			}
		}
	}()
	go func() {
		defer wg.Done()
		wr := rand.New(rand.NewSource(int64(session) + 99))
		off := 0
		for off < downLen {
			n := 1 + wr.Intn(20000)
			if off+n > downLen {
				n = downLen - off
			}
			b := make([]byte, n)
			c01Fill(b, session, 'd', off)
			if _, err := conn.Write(b); err != nil {
				res.serverErr = fmt.Sprintf("server write at %d: %v", off, err)
				return
			}
			off += n
		}
	}()
	wg.Wait()
	if res.serverErr == "" {
		if _, err := conn.Write([]byte{'K'}); err != nil {
			res.serverErr = "server write ack: " + err.Error()
			return
		}
		res.serverDone = true
	}
	if res.closeFirst {
		return // the bridge closes its end as soon as it has written its last byte (deferred conn.Close)
	}
	// keep the stream open until the client has read everything and closes (anything more it sends is foreign)
	extra := make([]byte, 16)
	if n, _ := conn.Read(extra); n > 0 {
		res.serverErr = fmt.Sprintf("upstream: %d bytes beyond the %d written", n, upLen)
		res.serverDone = false
	}
}

func TestVerifC01Stack(t *testing.T) { c01Stack(t, "C01") }

// the same stack run decides the stack-level clauses of C05 (isolation between concurrent sessions,
// exactly one accepted connection per session, continuity across carriers)
func TestVerifC05Stack(t *testing.T) { c01Stack(t, "C05") }

func c01Stack(t *testing.T, prop string) {
	r := vh.Start(prop)
	defer r.Finish()
	rng := r.Rng

	l, err := net.Listen("tcp", "127.0.0.1:0")
	if err != nil {
		t.Fatal(err)
	}
	addr := l.Addr().(*net.TCPAddr)
	l.Close()
	transport := sfserver.NewSnowflakeServer(nil)
	ln, err := transport.Listen(addr)
	if err != nil {
		t.Fatalf("Listen: %v", err)
	}
	defer ln.Close()
	var results sync.Map
	budget := time.Duration(r.N(75, 300)) * time.Second
	deadline := time.Now().Add(budget)
	go func() {
		for {
			conn, err := ln.Accept()
			if err != nil {
				return
			}
			go c01Serve(conn, &results, deadline)
		}
	}()
	// the same Transport listening on a second address (a bridge with two bind addresses): every third session
	// uses it; a session always stays with the address it started on
	addr2 := addr
	if l2, err := net.Listen("tcp", "127.0.0.1:0"); err == nil {
		a2 := l2.Addr().(*net.TCPAddr)
		l2.Close()
		if ln2, err := transport.Listen(a2); err == nil {
			defer ln2.Close()
			addr2 = a2
			go func() {
				for {
					conn, err := ln2.Accept()
					if err != nil {
						return
					}
					go c01Serve(conn, &results, deadline)
				}
			}()
		} else {
			r.Note("second Listen on the same Transport failed: %v", err)
		}
	}

	frozenDone := make(chan struct{})
	if prop == "C01" {
		go func() { defer close(frozenDone); c01FrozenProxy(r) }()
	} else {
		close(frozenDone)
	}
	defer func() { <-frozenDone }()

	nSessions := r.N(40, 240)
	idBase := make([]byte, 8)
	rng.Read(idBase)
	var all []*c01Result
	var wg sync.WaitGroup
	// sessions at a time: all of them share the server's one receive queue of 1024 packets; with too many bulk
	// transfers at once on a loaded machine the queue overflows, KCP backs off to its 60 s timeout and a session can
	// stand still for minutes without anything being wrong (seen once with six thorough runs in parallel)
	sem := make(chan struct{}, r.N(12, 8))
	for s := 0; s < nSessions; s++ {
		res := &c01Result{session: uint32(1000 + s)}
		switch x := rng.Intn(8); {
		case x == 0:
			res.upLen, res.downLen = 0, 0
		case x == 1:
			res.upLen, res.downLen = rng.Intn(50), rng.Intn(50)
		case x < 6:
			res.upLen, res.downLen = rng.Intn(r.N(150000, 2000000)), rng.Intn(r.N(150000, 2000000))
		default:
			res.upLen, res.downLen = rng.Intn(r.N(400000, 6000000)), rng.Intn(2000)
		}
		maxFaults := rng.Intn(r.N(8, 10))
		if s < r.N(2, 6) {
			res.outage = true
			res.upLen, res.downLen = 3<<20, 1000
			if s%2 == 1 {
				res.upLen, res.downLen = 1000, 4<<20 // outage during a bulk download
			}
		}
		if s == r.N(2, 6) && prop == "C01" {
			res.slowConsumer = true
			res.upLen, res.downLen = 1000, 6<<20
		}
		if !res.outage && !res.slowConsumer && res.downLen >= 5000 && rng.Intn(4) == 0 {
			res.tailCut = true
			if rng.Intn(3) != 0 {
				// nothing much to upload: the bridge has read it all, writes its last bytes and closes at once - while
				// the carrier is already gone
				res.upLen = rng.Intn(50)
				res.closeFirst = true
			}
		}
		if s%2 == 0 {
			res.idGroup = idBase
		}
		results.Store(res.session, res)
		all = append(all, res)
		wg.Add(1)
		go func(res *c01Result, seed int64) {
			defer wg.Done()
			sem <- struct{}{}
			defer func() { <-sem }()
			t0 := time.Now()
			target := addr
			if res.session%3 == 2 {
				target = addr2
			}
			c01Client(target.String(), res, seed, maxFaults, deadline)
			res.elapsed = time.Since(t0)
			res.endedAt = time.Now()
		}(res, rng.Int63())
	}
	wg.Wait()
	time.Sleep(500 * time.Millisecond)

	// a carrier without the turbotunnel token produces no connection and is closed
	for i := 0; i < 3; i++ {
		ws, _, err := websocket.DefaultDialer.Dial(fmt.Sprintf("ws://%s/", addr.String()), nil)
		if err == nil {
			c := websocketconn.New(ws)
			junk := make([]byte, 8+rng.Intn(40))
			rng.Read(junk)
			junk[0] ^= turbotunnel.Token[0] ^ 1
			c.Write(junk)
			done := make(chan error, 1)
			go func() { _, err := c.Read(make([]byte, 16)); done <- err }()
			select {
			case <-done:
			case <-time.After(5 * time.Second):
				r.OracleFail("no-token-carrier-not-closed", fmt.Sprintf("junk %x", junk), "still open after 5 s", "a carrier without the turbotunnel token is closed")
			}
			c.Close()
			r.Case("no-token-carrier", fmt.Sprintf("%x", junk), true)
		}
	}

	c01PeersReplacement(r)

	// A segment lost at every one of n carriers in a row is retransmitted after 0.2, 0.4, ... s (kcp-go doubles the
	// timeout, cap 60 s); meanwhile nothing may move at all - the dead carrier is only noticed at the next write.
	// Quick tier: at most 7 faults per session, pauses stay below 26 s, the window is half the budget (37 s).
	// Thorough tier: at most 9 faults, pauses below 103 s, the window is 150 s of a 300 s budget.
	quiet := budget / 2
	for _, res := range all {
		desc := fmt.Sprintf("session %d up %d down %d carriers %d faults [%s]", res.session, res.upLen, res.downLen, res.carriers, strings.Join(res.faults, " "))
		class := "session"
		switch {
		case res.carriers <= 1:
			class += "/1carrier"
		case res.carriers <= 4:
			class += "/2-4carriers"
		default:
			class += "/5+carriers"
		}
		if res.upLen+res.downLen > 100000 {
			class += "/large"
		}
		r.Case(class, desc, res.carriers > 1)
		timedOut := time.Now().After(deadline) || res.elapsed > budget-2*time.Second
		switch {
		case res.clientErr != "" && strings.Contains(res.clientErr, "differs") || strings.Contains(res.clientErr, "beyond"):
			r.OracleFail("stream-corrupted-downstream", desc, res.clientErr, "bytes read at the client must be exactly the bytes the server wrote, once and in order")
		case strings.Contains(res.serverErr, "differs") || strings.Contains(res.serverErr, "beyond") || strings.Contains(res.serverErr, "altered"):
			r.OracleFail("stream-corrupted-upstream", desc, res.serverErr, "bytes read at the server must be exactly the bytes the client wrote, once and in order")
		case (res.clientErr != "" || res.serverErr != "" || !res.serverDone) && !timedOut:
			r.OracleFail("stream-ended-early", desc, "client: "+res.clientErr+" | server: "+res.serverErr,
				"with a working carrier eventually available the stream must complete; it ended although carriers kept being provided")
		case timedOut && (res.clientErr != "" || !res.serverDone) && res.endedAt.Sub(time.Unix(0, atomic.LoadInt64(&res.lastProgress))) < quiet:
			// out of time, but payload bytes were still arriving not long before the end: the stream was slow, not
			// stalled for good - no verdict from this session. (kcp-go doubles a segment's retransmission timeout at
			// every loss, up to 60 s; after 15 carriers cut in a row a stream can stand still for most of a minute
			// and then go on. A session that moved nothing for `quiet` - longer than that - is a stall.)
			r.Note("session not finished within the budget but still making progress (no verdict): %s | client: %s | server: %s", desc, res.clientErr, res.serverErr)
		case timedOut && (res.clientErr != "" || !res.serverDone):
			// every session is given fault-free carriers after its generated faults, and an unfaulted
			// session takes a few seconds: not finishing within the budget (>= 20x that) means the stream
			// stalled for good although a working carrier was available
			r.OracleFail("stream-stalled-despite-working-carrier", desc, fmt.Sprintf("after %v: client: %s | server: %s", res.elapsed, res.clientErr, res.serverErr),
				"provided some working proxy eventually becomes available the stream must be delivered")
		}
		if res.accepted > 1 {
			r.OracleFail("session-accepted-more-than-once", desc, fmt.Sprint(res.accepted), "a session that moves between carriers surfaces as exactly one accepted connection")
		}
		if res.accepted >= 1 {
			want := fmt.Sprintf("10.%d.", res.session%250)
			if res.remoteAddr != "" && !(strings.HasPrefix(res.remoteAddr, want) && strings.HasSuffix(res.remoteAddr, ".7:1")) {
				r.OracleFail("remote-addr-of-another-session", desc, res.remoteAddr, "the address of an accepted connection is the client_ip of one of its own carriers, or empty")
			}
		}
	}
}

// c01Answerer stands in for broker + proxy: it answers the client's offer with an in-process pion peer whose
// data channel echoes for `talk` and then goes silent without closing anything — a frozen (SIGSTOPped or
// black-holed) proxy.
type c01Answerer struct {
	talk time.Duration
	mu   sync.Mutex
	pcs  []*webrtc.PeerConnection
}

func (s *c01Answerer) Exchange(req []byte) ([]byte, error) {
	cr, err := messages.DecodeClientPollRequest(req)
	if err != nil {
		return nil, err
	}
	offer, err := util.DeserializeSessionDescription(cr.Offer)
	if err != nil {
		return nil, err
	}
	se := webrtc.SettingEngine{}
	se.SetICEMulticastDNSMode(ice.MulticastDNSModeDisabled)
	pc, err := webrtc.NewAPI(webrtc.WithSettingEngine(se)).NewPeerConnection(webrtc.Configuration{})
	if err != nil {
		return nil, err
	}
	pc.OnDataChannel(func(dc *webrtc.DataChannel) {
		var opened time.Time
		dc.OnOpen(func() { opened = time.Now() })
		dc.OnMessage(func(m webrtc.DataChannelMessage) {
			if !opened.IsZero() && time.Since(opened) < s.talk {
				dc.Send(m.Data)
			}
		})
	})
	done := webrtc.GatheringCompletePromise(pc)
	if err = pc.SetRemoteDescription(*offer); err != nil {
		return nil, err
	}
	ans, err := pc.CreateAnswer(nil)
	if err != nil {
		return nil, err
	}
	if err = pc.SetLocalDescription(ans); err != nil {
		return nil, err
	}
	<-done
	sd, err := util.SerializeSessionDescription(pc.LocalDescription())
	if err != nil {
		return nil, err
	}
	s.mu.Lock()
	s.pcs = append(s.pcs, pc)
	s.mu.Unlock()
	resp := &messages.ClientPollResponse{Answer: sd}
	return resp.EncodePollResponse()
}

func (s *c01Answerer) close() {
	s.mu.Lock()
	defer s.mu.Unlock()
	for _, pc := range s.pcs {
		pc.Close()
	}
}

// c01FrozenProxy: the carrying proxy freezes (its data channel stays open but nothing comes back) while the
// client keeps sending, as KCP retransmissions and smux keep-alives make it do.  The real peer (built by the
// real NewWebRTCPeerWithEvents, with its real staleness check) must be given up within SnowflakeTimeout plus
// slack, so that the redial loop can move the session to another proxy; a peer that is never given up
// stalls the stream for good although working proxies are available.
func c01FrozenProxy(r *vh.Run) {
	st := &c01Answerer{talk: 1500 * time.Millisecond}
	defer st.close()
	bc := &BrokerChannel{Rendezvous: st, keepLocalAddresses: true, natType: "unknown"}
	type res struct {
		p   *WebRTCPeer
		err error
	}
	made := make(chan res, 1)
	go func() {
		p, err := NewWebRTCPeerWithEvents(&webrtc.Configuration{}, bc, nil)
		made <- res{p, err}
	}()
	var peer *WebRTCPeer
	select {
	case x := <-made:
		if x.err != nil {
			r.Skip("frozen-proxy scenario not run: no pion connectivity in this sandbox (" + x.err.Error() + ")")
			return
		}
		peer = x.p
	case <-time.After(30 * time.Second):
		r.Skip("frozen-proxy scenario not run: peer construction did not return within 30 s")
		return
	}
	defer peer.Close()
	go io.Copy(io.Discard, peer)
	t0 := time.Now()
	echoed := false
	for !peer.Closed() && time.Since(t0) < SnowflakeTimeout+st.talk+8*time.Second {
		if _, err := peer.Write([]byte("c01 keep-alive / retransmission")); err != nil {
			break
		}
		echoed = true
		time.Sleep(200 * time.Millisecond)
	}
	desc := fmt.Sprintf("proxy echoes for %v then freezes (data channel stays open); client writes every 200 ms; SnowflakeTimeout %v", st.talk, SnowflakeTimeout)
	r.Case("frozen-proxy", desc, echoed)
	if !peer.Closed() {
		r.OracleFail("frozen-proxy-never-given-up", desc, fmt.Sprintf("peer still open %v after the proxy went silent", time.Since(t0)-st.talk),
			"a frozen proxy must be detected (no message received for SnowflakeTimeout) and its peer closed, otherwise the session never moves to a working proxy")
	}
}

// c01Tongue hands out peers the way the repository's own tests fake them.
type c01Tongue struct{ n int }

func (t *c01Tongue) Catch() (*WebRTCPeer, error) {
	t.n++
	c := &WebRTCPeer{}
	c.closed = make(chan struct{})
	return c, nil
}
func (t *c01Tongue) GetMax() int { return 1 }

// After the carrying proxy has died (its peer is closed) the client must be able to collect a
// replacement: the real Peers with a dialer that always succeeds, capacity 1.
func c01PeersReplacement(r *vh.Run) {
	p, err := NewPeers(&c01Tongue{})
	if err != nil {
		return
	}
	defer p.End()
	desc := "Peers max=1: collect, pop, peer closes (proxy died), collect"
	r.Case("peers-replacement", desc, true)
	if _, err := p.Collect(); err != nil {
		r.OracleFail("no-replacement-after-proxy-death", desc, "first collect: "+err.Error(), "a fresh client must be able to collect a peer")
		return
	}
	done := make(chan *WebRTCPeer, 1)
	go func() { done <- p.Pop() }()
	var cur *WebRTCPeer
	select {
	case cur = <-done:
	case <-time.After(5 * time.Second):
		r.OracleFail("no-replacement-after-proxy-death", desc, "Pop blocked", "the collected peer must be handed to the data path")
		return
	}
	if cur == nil {
		return
	}
	cur.Close()
	if _, err := p.Collect(); err != nil {
		r.OracleFail("no-replacement-after-proxy-death", desc, "collect after the peer died: "+err.Error(),
			"after the carrying proxy dies a replacement must be collected, otherwise the stream stalls for good although proxies are available")
	}
}
