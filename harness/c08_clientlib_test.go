//go:build verif

package snowflake_client

// C08 harness, client side (virtual file in client/lib via -overlay): the last clause of the property —
// the stripping is "applied before the offer leaves the process".
//
// The real (*BrokerChannel).Negotiate is called on generated offers with a recording RendezvousMethod, for
// both values of keepLocalAddresses.  The stub decodes the poll request the way the broker does
// (messages.DecodeClientPollRequest, util.DeserializeSessionDescription) and records the SDP that left;
// it answers with a refusal so that Negotiate returns at once.  What left is judged by
// vh.C08JudgeSent: correspondence with the Lean model (`Util.leaves`, via sfdriver) and with the real
// util.StripLocalAddresses (tied to the same model by the common/util harness), and the oracle — no local
// host candidate in what was sent unless kept, everything else preserved in order, no panic.

import (
	"encoding/json"
	"fmt"
	"io/ioutil"
	"log"
	"strings"
	"sync/atomic"
	"testing"

	"git.torproject.org/pluggable-transports/snowflake.git/v2/common/messages"
	"git.torproject.org/pluggable-transports/snowflake.git/v2/common/util"
	vh "git.torproject.org/pluggable-transports/snowflake.git/v2/common/zzverif"
	"github.com/pion/webrtc/v3"
)

// c08Rendezvous records what Negotiate hands to the transport.
type c08Rendezvous struct {
	sent vh.C08Sent
	nat  string
}

// c08rawOffer decodes the poll request without the repository's decoders (fallback).
func c08rawOffer(req []byte) (typ, sdp string, err error) {
	parts := strings.SplitN(string(req), "\n", 2)
	if len(parts) != 2 {
		return "", "", fmt.Errorf("no version line")
	}
	var m struct {
		Offer string `json:"offer"`
	}
	if err := json.Unmarshal([]byte(parts[1]), &m); err != nil {
		return "", "", err
	}
	var d struct {
		Type string `json:"type"`
		SDP  string `json:"sdp"`
	}
	if err := json.Unmarshal([]byte(m.Offer), &d); err != nil {
		return "", "", err
	}
	return d.Type, d.SDP, nil
}

func (c *c08Rendezvous) Exchange(req []byte) ([]byte, error) {
	c.sent.Calls++
	func() {
		defer func() {
			if e := recover(); e != nil {
				c.sent.Err = fmt.Sprintf("decoder panicked: %v", e)
			}
		}()
		m, err := messages.DecodeClientPollRequest(req)
		if err == nil {
			c.nat = m.NAT
			var d *webrtc.SessionDescription
			if d, err = util.DeserializeSessionDescription(m.Offer); err == nil {
				c.sent.Type, c.sent.SDP = d.Type.String(), d.SDP
				return
			}
		}
		// the repository's decoders refuse it: read the two JSON layers directly
		t, s, err2 := c08rawOffer(req)
		if err2 != nil {
			c.sent.Err = fmt.Sprintf("%v / %v", err, err2)
			return
		}
		c.sent.Type, c.sent.SDP = t, s
	}()
	resp := &messages.ClientPollResponse{Error: "c08: refused by the recording broker"}
	return resp.EncodePollResponse()
}

var c08Built int64

// c08Negotiate runs the real Negotiate once.
func c08Negotiate(keep bool, typ webrtc.SDPType, in string) vh.C08Sent {
	rv := &c08Rendezvous{}
	// the channel is built the way the client builds it (from a ClientConfig, with the rendezvous method replaced
	// by the recording one) and, for the default setting, also the way an embedder may: a BrokerChannel literal
	// that only names its rendezvous method
	var bc *BrokerChannel
	if !keep && atomic.AddInt64(&c08Built, 1)%2 == 0 { // every other channel with the default setting
		bc = &BrokerChannel{Rendezvous: rv}
	} else {
		var err error
		bc, err = newBrokerChannelFromConfig(ClientConfig{BrokerURL: "http://127.0.0.1:1/", KeepLocalAddresses: keep})
		if err != nil {
			rv.sent.Panic = "cannot build the broker channel: " + err.Error()
			return rv.sent
		}
		bc.Rendezvous = rv
	}
	func() {
		defer func() {
			if e := recover(); e != nil {
				rv.sent.Panic = fmt.Sprintf("panic: %v", e)
			}
		}()
		bc.Negotiate(&webrtc.SessionDescription{Type: typ, SDP: in})
	}()
	return rv.sent
}

func c08ClientCase(r *vh.Run, keep bool, typ webrtc.SDPType, in, class string) {
	h := &vh.C08Hold{Run: r}
	vh.C08JudgeSent(h, "client Negotiate", keep, typ.String(), in, c08Negotiate(keep, typ, in), class, util.StripLocalAddresses)
	if len(h.Fails) > 0 {
		vh.C08ShrinkAndReport(r, h.Fails, in, func(p *vh.C08Probe, s string) {
			vh.C08JudgeSent(p, "client Negotiate", keep, typ.String(), s, c08Negotiate(keep, typ, s), class, util.StripLocalAddresses)
		})
	}
}

func TestVerifC08Client(t *testing.T) {
	r := vh.Start("C08")
	defer r.Finish()
	rng := r.Rng
	log.SetOutput(ioutil.Discard) // Negotiate logs every answer

	both := func(typ webrtc.SDPType, in, class string) {
		c08ClientCase(r, false, typ, in, class)
		c08ClientCase(r, true, typ, in, class)
	}

	// fixed: the repository's own test vector, reduced to local candidates only, and small hand-made offers
	const head = "v=0\r\no=- 4358805017720277108 2 IN IP4 8.8.8.8\r\ns=-\r\nt=0 0\r\na=group:BUNDLE data\r\na=msid-semantic: WMS\r\nm=application 56688 DTLS/SCTP 5000\r\nc=IN IP4 8.8.8.8\r\n"
	const tail = "a=ice-ufrag:aMAZ\r\na=ice-pwd:jcHb08Jjgrazp2dzjdrvPPvV\r\na=ice-options:trickle\r\na=setup:actpass\r\na=mid:data\r\na=sctpmap:5000 webrtc-datachannel 1024\r\n"
	cand := func(addr, typ string) string {
		return "a=candidate:3769337065 1 udp 2122260223 " + addr + " 56688 typ " + typ + " generation 0 network-id 1 network-cost 50\r\n"
	}
	locals := []string{"192.168.0.100", "10.1.2.3", "172.16.0.1", "100.127.50.5", "169.254.250.88", "fdf8:f53b:82e4::53", "fc00::1", "0.0.0.0", "::", "127.0.0.1", "::1", "::ffff:10.0.0.1"}
	all := head
	for _, a := range locals {
		both(webrtc.SDPTypeOffer, head+cand(a, "host")+tail, "fixed/one-local-host-candidate")
		both(webrtc.SDPTypeOffer, head+cand(a, "srflx")+tail, "fixed/one-local-srflx-candidate")
		all += cand(a, "host")
	}
	both(webrtc.SDPTypeOffer, all+tail, "fixed/repo-vector-locals-only")
	both(webrtc.SDPTypeOffer, head+cand("8.8.8.8", "host")+all[len(head):]+tail, "fixed/repo-vector")
	both(webrtc.SDPTypeOffer, head+tail, "fixed/no-candidate")
	both(webrtc.SDPTypeOffer, "", "fixed/empty")
	both(webrtc.SDPTypeAnswer, all+tail, "fixed/type-answer")
	both(webrtc.SDPTypePranswer, all+tail, "fixed/type-pranswer")

	var pool []string
	for i := 0; i < r.N(1500, 20000); i++ {
		kind := vh.C08Kinds[rng.Intn(len(vh.C08Kinds))]
		s := vh.C08GenSDP(rng, kind)
		both(webrtc.SDPTypeOffer, s, "gen/"+kind)
		if len(pool) < 300 {
			pool = append(pool, s)
		}
	}
	for i := 0; i < r.N(1000, 20000); i++ {
		var s, class string
		switch rng.Intn(4) {
		case 0:
			s, class = vh.C08NotSDP(rng), "not-sdp"
		default:
			s, class = vh.C08Mutate(rng, pool[rng.Intn(len(pool))]), "mutated"
		}
		both(webrtc.SDPTypeOffer, s, class)
	}
}
