//go:build verif

package main

// Optional part of the broker core harness: templates that play a handler's statements by hand and
// therefore call unexported functions of the package (matchSnowflake).  It is mapped into the package as a
// file of its own; when a change to the code under test alters those internals so that this file no
// longer compiles, run.py drops it and runs the rest of the harness (which only uses the IPC entry points).

import (
	"testing"
	"time"

	"git.torproject.org/pluggable-transports/snowflake.git/v2/common/bridgefingerprint"
	"github.com/prometheus/client_golang/prometheus"
)

func init() {
	bcForcedTemplates = append(bcForcedTemplates,
		bcForced{"slow-client-sends-after-timeout-branch", "pa:1:u:0,add:1,ca:101:k:0,cm:101:1,wt:1,wc:1,wl:1:101,wf:1,hr:1,ct:101,cf:101", bcForceSlowClient, "", ""})
}

// A slow client: its matchSnowflake pops the proxy just before the proxy timeout, but its offer is sent
// only after the waiter's timeout branch has run (the client goroutine was descheduled between the two
// statements). The harness plays the client handler's statements itself, in that order.
func bcForceSlowClient(t *testing.T, inst *bcInst) {
	p := &bcReq{kind: 'P', id: 1, wireNat: "unrestricted", nat: "unrestricted"}
	inst.start(p)
	bcWait(func() bool { return inst.registered(1) }, 5*time.Second)
	c := &bcReq{kind: 'C', id: 101, wireNat: "unknown", nat: "unknown", done: make(chan struct{}), started: time.Now()}
	inst.mu.Lock()
	inst.reqs = append(inst.reqs, c)
	inst.byKey["C101"] = c
	inst.mu.Unlock()
	time.Sleep(time.Until(p.started.Add(time.Duration(ProxyTimeout)*time.Second - 300*time.Millisecond)))
	popped := make(chan *Snowflake, 1)
	go func() { popped <- inst.ipc.matchSnowflake("unknown") }()
	var sf *Snowflake
	select {
	case sf = <-popped:
	case <-time.After(5 * time.Second):
	}
	if sf == nil {
		return // c stays pending
	}
	time.Sleep(900 * time.Millisecond) // the proxy timeout fires and its critical section runs
	fp, _ := bridgefingerprint.FingerprintFromHexString(bcDefaultFP)
	offer := &ClientOffer{natType: "unknown", sdp: []byte("offer-101"), fingerprint: fp.ToBytes()}
	sent := make(chan struct{})
	go func() { sf.offerChannel <- offer; close(sent) }()
	select {
	case <-sent:
	case <-time.After(6 * time.Second):
		return // nobody receives the offer: c stays pending
	}
	bcWait(p.isDone, 5*time.Second)
	// no answer is posted: the client would time out and clean up
	if inst.lock() {
		inst.ctx.metrics.promMetrics.AvailableProxies.With(prometheus.Labels{"nat": sf.natType, "type": sf.proxyType}).Dec()
		delete(inst.ctx.idToSnowflake, sf.id)
		inst.ctx.snowflakeLock.Unlock()
	}
	c.outcome = "timeout"
	c.finished = time.Now()
	close(c.done)
}
