//go:build verif

package snowflake_proxy

// C20 workload, proxy (virtual file in /repo/proxy/lib; run with -race).  Whole sessions against a pion
// client run in the C16 harness (also under -race for C20); this file drives the traffic counters and the
// periodic summary the way snowflake.go drives them:
//   * bytesSyncLogger: AddOutbound from the OnMessage callback, AddInbound from webRTCConn.Write, then
//     ThroughputSummary + GetStat from the OnClose callback (a different goroutine);
//   * the proxy event logger: EventOnProxyConnectionOver dispatched through the event bus from the OnClose
//     callbacks of concurrent connections while the periodic task prints and resets the sums;
//   * tokens: get / ret / count from the poll loop and the handler goroutines;
//   * the NAT type: readers (the poll loop) against the store sequence of checkNATType.
// The oracle is the race detector.

import (
	"fmt"
	"io"
	"io/ioutil"
	"net/http"
	"net/http/httptest"
	"sync"
	"testing"
	"time"

	"git.torproject.org/pluggable-transports/snowflake.git/v2/common/event"
	"git.torproject.org/pluggable-transports/snowflake.git/v2/common/messages"
	"git.torproject.org/pluggable-transports/snowflake.git/v2/common/util"
	vh "git.torproject.org/pluggable-transports/snowflake.git/v2/common/zzverif"
	"github.com/pion/webrtc/v3"
)

func TestVerifC20Proxy(t *testing.T) {
	r := vh.Start("C20")
	defer r.Finish()
	rng := r.Rng

	// 1. traffic counter of one connection
	nConn := r.N(40, 400)
	for k := 0; k < nConn; k++ {
		var b bytesLogger = newBytesSyncLogger()
		var wg sync.WaitGroup
		nMsg := 1 + rng.Intn(60)
		wg.Add(2)
		go func() { // OnMessage callback
			defer wg.Done()
			for j := 0; j < nMsg; j++ {
				b.AddOutbound(100 + j)
			}
		}()
		go func() { // copy loop writing to the client
			defer wg.Done()
			for j := 0; j < nMsg; j++ {
				b.AddInbound(50 + j)
			}
		}()
		closed := make(chan string, 1)
		if k%2 == 0 {
			wg.Wait() // OnClose after the last message was handed to the logger
		}
		go func() { // OnClose callback
			s := b.ThroughputSummary()
			in, out := b.GetStat()
			closed <- fmt.Sprintf("%d %d %d", len(s), in, out)
		}()
		<-closed
		wg.Wait()
		r.Case("proxy/bytes-logger", fmt.Sprintf("conn %d msgs %d early-close %v", k, nMsg, k%2 == 1), true)
	}

	// 2. periodic summary against connection-over events
	nRounds := r.N(4, 40)
	for k := 0; k < nRounds; k++ {
		el := NewProxyEventLogger(2*time.Millisecond, ioutil.Discard)
		bus := event.NewSnowflakeEventDispatcher()
		bus.AddSnowflakeEventListener(el)
		var wg sync.WaitGroup
		for g := 0; g < 4; g++ {
			wg.Add(1)
			go func(g int) {
				defer wg.Done()
				for j := 0; j < 200; j++ {
					bus.OnNewSnowflakeEvent(event.EventOnProxyConnectionOver{InboundTraffic: j, OutboundTraffic: g})
					if j%50 == 0 {
						time.Sleep(time.Millisecond)
					}
				}
			}(g)
		}
		wg.Wait()
		time.Sleep(5 * time.Millisecond)
		el.(io.Closer).Close()
		r.Case("proxy/event-logger", fmt.Sprintf("round %d", k), true)
	}

	// 3. tokens
	for _, capacity := range []uint{0, 1, 3, 8} {
		tk := newTokens(capacity)
		var wg sync.WaitGroup
		n := int(capacity)
		if n == 0 {
			n = 6
		}
		for g := 0; g < n; g++ {
			wg.Add(1)
			go func() {
				defer wg.Done()
				for j := 0; j < 100; j++ {
					tk.get()
					_ = tk.count()
					tk.ret()
				}
			}()
		}
		wg.Add(1)
		go func() {
			defer wg.Done()
			for j := 0; j < 300; j++ {
				_ = tk.count()
			}
		}()
		wg.Wait()
		r.Case("proxy/tokens", fmt.Sprintf("capacity %d", capacity), true)
	}

	// 3b. the real poll (pollOffer reports tokens.count() as its load) against a broker whose reply ends the poll
	// at once (undecodable: after "no match" pollOffer would wait pollInterval = 5 s before polling again),
	// while sessions take and hand back their tokens - as in SnowflakeProxy.Start with connected clients
	{
		srv := httptest.NewServer(http.HandlerFunc(func(w http.ResponseWriter, rq *http.Request) {
			w.Write([]byte(`not a poll response`))
		}))
		savedTokens := tokens
		for _, capacity := range []uint{0, 2} {
			tokens = newTokens(capacity)
			s, err := newSignalingServer(srv.URL, false)
			if err != nil {
				t.Fatal(err)
			}
			s.transport = http.DefaultTransport
			var wg sync.WaitGroup
			for g := 0; g < 2; g++ {
				wg.Add(1)
				go func() {
					defer wg.Done()
					for j := 0; j < 400; j++ {
						tokens.get()
						tokens.ret()
					}
				}()
			}
			for j := 0; j < r.N(6, 40); j++ {
				s.pollOffer("sid", "standalone", "", make(chan struct{}))
			}
			wg.Wait()
			r.Case("proxy/poll-load-vs-sessions", fmt.Sprintf("capacity %d", capacity), true)
		}
		tokens = savedTokens
		srv.Close()
	}

	// 4. NAT type: the poll loop's read against checkNATType's store (its last three statements)
	{
		var wg sync.WaitGroup
		for g := 0; g < 3; g++ {
			wg.Add(1)
			go func() {
				defer wg.Done()
				for j := 0; j < 500; j++ {
					_ = getCurrentNATType()
				}
			}()
		}
		wg.Add(1)
		go func() {
			defer wg.Done()
			for j := 0; j < 200; j++ {
				currentNATTypeAccess.Lock()
				currentNATType = []string{NATUnknown, NATRestricted, NATUnrestricted}[j%3]
				currentNATTypeAccess.Unlock()
			}
		}()
		wg.Wait()
		currentNATTypeAccess.Lock()
		currentNATType = NATUnknown
		currentNATTypeAccess.Unlock()
		r.Case("proxy/nat-type", "readers vs store", true)
	}

	// 4b. the REAL checkNATType against a local stand-in for the probe service (an in-process pion answerer),
	// with the stored type reset to "unknown" before each measurement so that its result differs from the
	// stored value, while the poll loop's readers keep going
	{
		var pcs []*webrtc.PeerConnection
		var pmu sync.Mutex
		probe := httptest.NewServer(http.HandlerFunc(func(w http.ResponseWriter, rq *http.Request) {
			body, _ := ioutil.ReadAll(rq.Body)
			offerStr, _, err := messages.DecodePollResponse(body)
			if err != nil {
				http.Error(w, err.Error(), http.StatusBadRequest)
				return
			}
			offer, err := util.DeserializeSessionDescription(offerStr)
			if err != nil {
				http.Error(w, err.Error(), http.StatusBadRequest)
				return
			}
			pc, err := webrtc.NewPeerConnection(webrtc.Configuration{})
			if err != nil {
				http.Error(w, err.Error(), http.StatusInternalServerError)
				return
			}
			pmu.Lock()
			pcs = append(pcs, pc)
			pmu.Unlock()
			done := webrtc.GatheringCompletePromise(pc)
			if pc.SetRemoteDescription(*offer) != nil {
				http.Error(w, "remote description", http.StatusInternalServerError)
				return
			}
			answer, err := pc.CreateAnswer(nil)
			if err != nil || pc.SetLocalDescription(answer) != nil {
				http.Error(w, "answer", http.StatusInternalServerError)
				return
			}
			<-done
			sdp, _ := util.SerializeSessionDescription(pc.LocalDescription())
			resp, _ := messages.EncodeAnswerRequest(sdp, "probe")
			w.Write(resp)
		}))
		stop := make(chan struct{})
		var readers sync.WaitGroup
		for g := 0; g < 2; g++ {
			readers.Add(1)
			go func() {
				defer readers.Done()
				for {
					select {
					case <-stop:
						return
					default:
						_ = getCurrentNATType()
						time.Sleep(200 * time.Microsecond)
					}
				}
			}()
		}
		// ... and keeps polling the broker, as Start()'s loop does while the periodic measurement runs beside it
		pollSrv := httptest.NewServer(http.HandlerFunc(func(w http.ResponseWriter, rq *http.Request) {
			w.Write([]byte(`not a poll response`))
		}))
		defer pollSrv.Close()
		if tokens == nil {
			tokens = newTokens(0)
		}
		if ps, err := newSignalingServer(pollSrv.URL, false); err == nil {
			readers.Add(1)
			go func() {
				defer readers.Done()
				for {
					select {
					case <-stop:
						return
					default:
						ps.pollOffer("sid", "standalone", "", make(chan struct{}))
						time.Sleep(2 * time.Millisecond)
					}
				}
			}()
		}
		sf := &SnowflakeProxy{}
		for k := 0; k < r.N(2, 6); k++ {
			currentNATTypeAccess.Lock()
			currentNATType = NATUnknown
			currentNATTypeAccess.Unlock()
			t0 := time.Now()
			fin := make(chan struct{})
			go func() { defer close(fin); sf.checkNATType(webrtc.Configuration{}, probe.URL) }()
			select {
			case <-fin:
			case <-time.After(60 * time.Second):
				r.OracleFail("nat-measurement-does-not-return", "checkNATType against a local probe", "still running after 60 s", "the measurement ends at its 20 s data-channel timeout at the latest")
			}
			time.Sleep(20 * time.Millisecond)
			r.Case("proxy/nat-measurement", fmt.Sprintf("real checkNATType %d against a local probe: stored %q after %v", k, getCurrentNATType(), time.Since(t0).Round(10*time.Millisecond)), true)
		}
		close(stop)
		readers.Wait()
		probe.Close()
		pmu.Lock()
		for _, pc := range pcs {
			pc.Close()
		}
		pmu.Unlock()
		currentNATTypeAccess.Lock()
		currentNATType = NATUnknown
		currentNATTypeAccess.Unlock()
	}
}
