//go:build verif

package snowflake_client

// C20 workload, client (virtual file in /repo/client/lib; run with -race): the real Peers collection over
// the real WebRTCDialer / NewWebRTCPeerWithEvents, with an in-process pion answerer standing in for
// broker + proxy that starts sending as soon as the data channel opens ("chatty").  Concurrently, like
// the client binary: a collector loop (connectLoop's body), a consumer that Pops a peer, reads and writes
// it and closes it (churn), NAT type updates on the shared BrokerChannel, Count(), and finally End()
// while all of that is still running (shutdown).  The oracle is the race detector.

import (
	"errors"
	"fmt"
	"io"
	"io/ioutil"
	"net"
	"net/http"
	"net/http/httptest"
	"sync"
	"sync/atomic"
	"testing"
	"time"

	"git.torproject.org/pluggable-transports/snowflake.git/v2/common/messages"
	"git.torproject.org/pluggable-transports/snowflake.git/v2/common/nat"
	"git.torproject.org/pluggable-transports/snowflake.git/v2/common/util"
	vh "git.torproject.org/pluggable-transports/snowflake.git/v2/common/zzverif"
	"github.com/pion/ice/v2"
	"github.com/pion/stun"
	"github.com/pion/webrtc/v3"
)

type c20Answerer struct {
	mu   sync.Mutex
	pcs  []*webrtc.PeerConnection
	n    int
	fail int // every fail-th exchange is refused (0 = never)
}

func (s *c20Answerer) Exchange(req []byte) ([]byte, error) {
	s.mu.Lock()
	s.n++
	n := s.n
	s.mu.Unlock()
	enc := func(answer, e string) ([]byte, error) {
		resp := &messages.ClientPollResponse{Answer: answer, Error: e}
		return resp.EncodePollResponse()
	}
	if s.fail > 0 && n%s.fail == 0 {
		return enc("", messages.StrNoProxies)
	}
	cr, err := messages.DecodeClientPollRequest(req)
	if err != nil {
		return nil, err
	}
	offer, err := util.DeserializeSessionDescription(cr.Offer)
	if err != nil {
		return nil, err
	}
	se := webrtc.SettingEngine{}
	se.SetICEMulticastDNSMode(ice.MulticastDNSModeDisabled)
	pc, err := webrtc.NewAPI(webrtc.WithSettingEngine(se)).NewPeerConnection(webrtc.Configuration{})
	if err != nil {
		return nil, err
	}
	pc.OnDataChannel(func(dc *webrtc.DataChannel) {
		dc.OnOpen(func() {
			go func() {
				buf := make([]byte, 300)
				for k := 0; k < 150; k++ {
					if dc.Send(buf) != nil {
						return
					}
					time.Sleep(time.Millisecond)
				}
			}()
		})
		dc.OnMessage(func(m webrtc.DataChannelMessage) {})
	})
	done := webrtc.GatheringCompletePromise(pc)
	if err = pc.SetRemoteDescription(*offer); err != nil {
		return nil, err
	}
	ans, err := pc.CreateAnswer(nil)
	if err != nil {
		return nil, err
	}
	if err = pc.SetLocalDescription(ans); err != nil {
		return nil, err
	}
	<-done
	sd, err := util.SerializeSessionDescription(pc.LocalDescription())
	if err != nil {
		return nil, err
	}
	s.mu.Lock()
	s.pcs = append(s.pcs, pc)
	s.mu.Unlock()
	return enc(sd, "")
}

func (s *c20Answerer) close() {
	s.mu.Lock()
	defer s.mu.Unlock()
	for _, pc := range s.pcs {
		pc.Close()
	}
}

func c20PionWorks() bool {
	st := &c20Answerer{}
	defer st.close()
	bc := &BrokerChannel{Rendezvous: st, keepLocalAddresses: true, natType: nat.NATUnknown}
	res := make(chan error, 1)
	go func() {
		p, err := NewWebRTCPeerWithEvents(&webrtc.Configuration{}, bc, nil)
		if err == nil {
			p.Close()
		}
		res <- err
	}()
	select {
	case err := <-res:
		return err == nil
	case <-time.After(15 * time.Second):
		return false
	}
}

func TestVerifC20Client(t *testing.T) {
	r := vh.Start("C20")
	defer r.Finish()
	if !c20PionWorks() {
		r.Skip("pion 2-peer self-test failed (no non-loopback interface): the client churn workload was not run")
		return
	}
	rounds := r.N(2, 10)
	for round := 0; round < rounds; round++ {
		st := &c20Answerer{fail: 4}
		bc := &BrokerChannel{Rendezvous: st, keepLocalAddresses: round%2 == 0, natType: nat.NATUnknown}
		dialer := NewWebRTCDialer(bc, nil, 2)
		peers, err := NewPeers(dialer)
		if err != nil {
			t.Fatal(err)
		}
		peers.bytesLogger = newBytesSyncLogger()
		var wg sync.WaitGroup
		var collected, popped, written, read int64
		// collector: connectLoop's body
		wg.Add(1)
		go func() {
			defer wg.Done()
			for {
				_, err := peers.Collect()
				if err == nil {
					atomic.AddInt64(&collected, 1)
				}
				select {
				case <-peers.Melted():
					return
				case <-time.After(5 * time.Millisecond):
				}
			}
		}()
		// NAT type updates from the probe goroutine of the client
		wg.Add(1)
		go func() {
			defer wg.Done()
			for k := 0; ; k++ {
				bc.SetNATType([]string{nat.NATUnknown, nat.NATRestricted, nat.NATUnrestricted}[k%3])
				select {
				case <-peers.Melted():
					return
				case <-time.After(3 * time.Millisecond):
				}
			}
		}()
		// consumer: pop, use, close (churn)
		wg.Add(1)
		go func() {
			defer wg.Done()
			for {
				p := peers.Pop()
				if p == nil {
					return
				}
				atomic.AddInt64(&popped, 1)
				rd := make(chan struct{})
				go func() {
					n, _ := io.Copy(ioutil.Discard, p)
					atomic.AddInt64(&read, n)
					close(rd)
				}()
				for k := 0; k < 40; k++ {
					if _, err := p.Write(make([]byte, 200)); err != nil {
						break
					}
					atomic.AddInt64(&written, 200)
					time.Sleep(time.Millisecond)
				}
				p.Close()
				select {
				case <-rd:
				case <-time.After(5 * time.Second):
				}
			}
		}()
		time.Sleep(time.Duration(r.N(1500, 4000)) * time.Millisecond)
		ended := make(chan struct{})
		go func() { peers.End(); close(ended) }()
		select {
		case <-ended:
		case <-time.After(30 * time.Second):
			r.OracleFail("c20-client-end-stuck", fmt.Sprintf("round %d", round), "End() did not return within 30 s", "shutdown under churn hung")
		}
		wdone := make(chan struct{})
		go func() { wg.Wait(); close(wdone) }()
		select {
		case <-wdone:
		case <-time.After(30 * time.Second):
			r.OracleFail("c20-client-goroutines-stuck", fmt.Sprintf("round %d", round), "collector / consumer did not stop after End()", "")
		}
		st.close()
		line := fmt.Sprintf("round %d collected %d popped %d written %d read %d exchanges %d", round, atomic.LoadInt64(&collected), atomic.LoadInt64(&popped), atomic.LoadInt64(&written), atomic.LoadInt64(&read), st.n)
		r.Case("client/churn", line, atomic.LoadInt64(&popped) > 0)
		if atomic.LoadInt64(&popped) == 0 {
			r.Note("client churn round %d connected no peer: %s", round, line)
		}
	}
	// A popped peer that goes away (staleness / remote close / shutdown, here: its Close from a goroutine that
	// has nothing to do with the consumer) before the consumer reads from it, while the proxy is already sending:
	// the message callback then finds the pipe closed and goes on to the traffic logger without ever having
	// met the consumer.
	for k := 0; k < r.N(3, 12); k++ {
		st := &c20Answerer{}
		bc := &BrokerChannel{Rendezvous: st, keepLocalAddresses: true, natType: nat.NATUnknown}
		peers, err := NewPeers(NewWebRTCDialer(bc, nil, 1))
		if err != nil {
			t.Fatal(err)
		}
		peers.bytesLogger = newBytesSyncLogger()
		pe, err := peers.Collect()
		line := fmt.Sprintf("round %d: one peer collected; its Close comes 300 ms later from an unrelated goroutine; the consumer Pops it after 50 ms and never reads; the proxy sends from the moment the channel opens", k)
		if err != nil {
			r.Note("popped-peer-goes-away %d: no peer (%v)", k, err)
			st.close()
			continue
		}
		var wg sync.WaitGroup
		wg.Add(2)
		go func() { defer wg.Done(); time.Sleep(300 * time.Millisecond); pe.Close() }()
		go func() {
			defer wg.Done()
			time.Sleep(50 * time.Millisecond)
			peers.Pop()
			time.Sleep(500 * time.Millisecond)
		}()
		wg.Wait()
		peers.End()
		st.close()
		r.Case("client/popped-peer-goes-away-unread", line, true)
	}
	// Several SOCKS connections: each one builds its own broker channel (NewSnowflakeClient ->
	// newBrokerChannelFromConfig) while the rendezvous of an earlier connection is in flight.
	{
		srv := httptest.NewServer(http.HandlerFunc(func(w http.ResponseWriter, rq *http.Request) {
			io.Copy(ioutil.Discard, rq.Body)
			resp := &messages.ClientPollResponse{Error: messages.StrNoProxies}
			b, _ := resp.EncodePollResponse()
			w.Write(b)
		}))
		cfg := ClientConfig{BrokerURL: srv.URL + "/", KeepLocalAddresses: true}
		first, err := newBrokerChannelFromConfig(cfg)
		if err == nil {
			var wg sync.WaitGroup
			stop := make(chan struct{})
			wg.Add(2)
			go func() { // the earlier connection keeps polling the broker
				defer wg.Done()
				for {
					select {
					case <-stop:
						return
					default:
						first.Rendezvous.Exchange([]byte("poll"))
					}
				}
			}()
			go func() { // new SOCKS connections arrive
				defer wg.Done()
				for k := 0; k < r.N(40, 300); k++ {
					newBrokerChannelFromConfig(cfg)
					time.Sleep(time.Millisecond)
				}
				close(stop)
			}()
			wg.Wait()
			r.Case("client/new-connections-while-a-rendezvous-is-in-flight", "one channel polling the broker while further broker channels are built from the same configuration", true)
		}
		srv.Close()
	}
	// The background NAT type check over the configured ICE servers (go updateNATType(iceServers, broker), as in
	// NewSnowflakeClient) beside a dialer that was given the same server list and uses it for every new peer:
	// two loopback STUN responders, the first answering plain binding requests only, the second also advertising
	// OTHER-ADDRESS (RFC 5780) so that the check moves on from the first to the second server.
	if plain, full := c20STUN(false), c20STUN(true); plain != "" && full != "" {
		iceServers := parseIceServers([]string{"stun:" + plain, "stun:" + full})
		st := &c20Answerer{}
		bc := &BrokerChannel{Rendezvous: st, keepLocalAddresses: true, natType: nat.NATUnknown}
		done := make(chan struct{})
		go func() { defer close(done); updateNATType(iceServers, bc) }()
		peers, err := NewPeers(NewWebRTCDialer(bc, iceServers, 1))
		if err == nil {
			peers.bytesLogger = newBytesSyncLogger() // as Transport.Dial does
			n := 0
			go func() { // the data path: takes every collected peer and lets it go
				for {
					pe := peers.Pop()
					if pe == nil {
						return
					}
					pe.Close()
				}
			}()
			for k := 0; k < 40; k++ {
				if _, err := peers.Collect(); err == nil {
					n++
				}
				time.Sleep(5 * time.Millisecond)
				select {
				case <-done:
					if k >= 5 {
						k = 40
					}
				default:
				}
			}
			select {
			case <-done:
			case <-time.After(30 * time.Second):
				r.Note("client NAT check over two loopback STUN servers did not finish within 30 s")
			}
			peers.End()
			bc.lock.Lock()
			nt := bc.natType
			bc.lock.Unlock()
			first := ""
			if len(iceServers) > 0 && len(iceServers[0].URLs) > 0 {
				first = iceServers[0].URLs[0]
			}
			line := fmt.Sprintf("NAT check over stun:%s (plain) and stun:%s (RFC 5780) beside %d Collects with the same server list: NAT type %q", plain, full, n, nt)
			r.Case("client/nat-check-beside-collect", line, true)
			if first != "stun:"+plain {
				r.OracleFail("c20-client-ice-servers-reordered", line, "first server is now "+first, "the dialer's ICE server list is not changed behind its back")
			}
		}
		st.close()
	}
	_ = errors.New
}

// c20STUN starts a minimal STUN responder on the loopback interface; withOther: it also advertises OTHER-ADDRESS.
func c20STUN(withOther bool) string {
	conn, err := net.ListenUDP("udp4", &net.UDPAddr{IP: net.IPv4(127, 0, 0, 1)})
	if err != nil {
		return ""
	}
	self := conn.LocalAddr().(*net.UDPAddr)
	go func() {
		defer conn.Close()
		buf := make([]byte, 1500)
		for {
			conn.SetReadDeadline(time.Now().Add(90 * time.Second))
			n, from, err := conn.ReadFromUDP(buf)
			if err != nil {
				return
			}
			req := &stun.Message{Raw: append([]byte{}, buf[:n]...)}
			if req.Decode() != nil {
				continue
			}
			setters := []stun.Setter{stun.NewTransactionIDSetter(req.TransactionID), stun.BindingSuccess, &stun.XORMappedAddress{IP: from.IP, Port: from.Port}}
			if withOther {
				setters = append(setters, &stun.OtherAddress{IP: self.IP, Port: self.Port})
			}
			if resp, err := stun.Build(setters...); err == nil {
				conn.WriteToUDP(resp.Raw, from)
			}
		}
	}()
	return self.String()
}
