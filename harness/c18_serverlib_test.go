//go:build verif

package snowflake_server

// C18 correspondence + oracle harness (virtual file in server/lib via -overlay):
//   * clientAddr (and net.ParseIP / net.IP.String underneath it) against the Lean model,
//   * clientIDMap Set/Get on generated operation sequences against the Lean model and against an
//     independent bounded-log reference.

import (
	"bytes"
	"encoding/binary"
	"fmt"
	"math/rand"
	"net"
	"net/netip"
	"strconv"
	"strings"
	"testing"

	"git.torproject.org/pluggable-transports/snowflake.git/v2/common/turbotunnel"
	vh "git.torproject.org/pluggable-transports/snowflake.git/v2/common/zzverif"
)

// ---------------------------------------------------------------------------------------------
// address text generator

type c18case struct {
	s     string
	want  []byte // 16 bytes, or nil = not a valid address
	known bool   // want is meaningful (the generator knows what the text denotes)
	class string
}

var c18octets = []int{0, 1, 9, 10, 11, 99, 100, 101, 127, 128, 169, 172, 192, 199, 200, 249, 250, 254, 255}
var c18groupVals = []int{1, 0xf, 0x10, 0xff, 0x100, 0xfff, 0x1000, 0xffff, 0xabcd, 0xa, 0xfe80, 0x2001, 0xdb8}

func c18addr16(ip net.IP) netip.Addr {
	var a [16]byte
	copy(a[:], ip)
	return netip.AddrFrom16(a)
}

func c18mapped(a, b, c, d int) []byte {
	return []byte{0, 0, 0, 0, 0, 0, 0, 0, 0, 0, 0xff, 0xff, byte(a), byte(b), byte(c), byte(d)}
}

func c18v4(rng *rand.Rand) c18case {
	var o [4]int
	for i := range o {
		if rng.Intn(3) == 0 {
			o[i] = rng.Intn(256)
		} else {
			o[i] = c18octets[rng.Intn(len(c18octets))]
		}
	}
	if rng.Intn(25) == 0 {
		o = [4]int{0, 0, 0, 0}
	}
	f := []string{strconv.Itoa(o[0]), strconv.Itoa(o[1]), strconv.Itoa(o[2]), strconv.Itoa(o[3])}
	valid := c18case{s: strings.Join(f, "."), want: c18mapped(o[0], o[1], o[2], o[3]), known: true, class: "v4/valid"}
	k := rng.Intn(4)
	switch rng.Intn(22) {
	case 0:
		f[k] = "0" + f[k]
		return c18case{strings.Join(f, "."), nil, true, "v4/leading-zero"}
	case 1:
		f[k] = []string{"256", "260", "300", "999", "1000", "25500", "4294967296", "18446744073709551617"}[rng.Intn(8)]
		return c18case{strings.Join(f, "."), nil, true, "v4/octet-too-big"}
	case 2:
		return c18case{strings.Join(f[:3], "."), nil, true, "v4/three-fields"}
	case 3:
		return c18case{strings.Join(f, ".") + "." + f[0], nil, true, "v4/five-fields"}
	case 4:
		f[k] = ""
		return c18case{strings.Join(f, "."), nil, true, "v4/empty-field"}
	case 5:
		return c18case{strings.Join(f, ".") + ".", nil, true, "v4/trailing-dot"}
	case 6:
		return c18case{strings.Join(f, ".") + ":" + strconv.Itoa(rng.Intn(65536)), nil, true, "v4/with-port"}
	case 7:
		return c18case{strings.Join(f, ".") + []string{"%eth0", "%", "%1"}[rng.Intn(3)], nil, true, "v4/with-zone"}
	case 8:
		return c18case{[]string{" ", "\t", "+", "-", "0x"}[rng.Intn(5)] + strings.Join(f, "."), nil, true, "v4/junk-prefix"}
	case 9:
		return c18case{strings.Join(f, ".") + []string{" ", "\n", "/24", "a"}[rng.Intn(4)], nil, true, "v4/junk-suffix"}
	case 10:
		return c18case{"[" + strings.Join(f, ".") + "]", nil, true, "v4/brackets"}
	case 11:
		f[k] = f[k] + "a"
		return c18case{strings.Join(f, "."), nil, true, "v4/hex-in-octet"}
	}
	return valid
}

// c18v6text renders 8 groups in one of many spellings.  It returns the text and whether it is a
// valid spelling (ok=false: deliberately broken).
func c18v6text(rng *rand.Rand, g [8]int, style int) (s string, ok bool, class string) {
	ip := make(net.IP, 16)
	for i, x := range g {
		binary.BigEndian.PutUint16(ip[2*i:], uint16(x))
	}
	hexg := func(x int) string {
		switch rng.Intn(6) {
		case 0:
			return fmt.Sprintf("%04x", x)
		case 1:
			return fmt.Sprintf("%X", x)
		case 2:
			return fmt.Sprintf("%04X", x)
		case 3:
			if x < 0x100 {
				return fmt.Sprintf("%03x", x)
			}
		}
		return fmt.Sprintf("%x", x)
	}
	plain := func(lo, hi int) string {
		var p []string
		for i := lo; i < hi; i++ {
			p = append(p, hexg(g[i]))
		}
		return strings.Join(p, ":")
	}
	// zero runs (maximal), any length >= 1
	type run struct{ a, b int }
	var runs []run
	for i := 0; i < 8; {
		if g[i] != 0 {
			i++
			continue
		}
		j := i
		for j < 8 && g[j] == 0 {
			j++
		}
		runs = append(runs, run{i, j})
		i = j
	}
	switch style {
	case 0: // Go's own canonical text
		return c18addr16(ip).String(), true, "v6/canonical"
	case 1:
		return plain(0, 8), true, "v6/expanded"
	case 2: // compress an arbitrary zero run, or part of one
		if len(runs) == 0 {
			return plain(0, 8), true, "v6/expanded"
		}
		rn := runs[rng.Intn(len(runs))]
		a, b := rn.a, rn.b
		if rng.Intn(2) == 0 { // only part of the run
			a = rn.a + rng.Intn(rn.b-rn.a)
			b = a + 1 + rng.Intn(rn.b-a)
		}
		return plain(0, a) + "::" + plain(b, 8), true, fmt.Sprintf("v6/compress-len%d", b-a)
	case 3: // dotted tail
		tail := fmt.Sprintf("%d.%d.%d.%d", g[6]>>8, g[6]&0xff, g[7]>>8, g[7]&0xff)
		var before []run
		for _, rn := range runs {
			if rn.a < 6 {
				if rn.b > 6 {
					rn.b = 6
				}
				before = append(before, rn)
			}
		}
		if len(before) > 0 && rng.Intn(3) != 0 {
			rn := before[rng.Intn(len(before))]
			if rn.b == 6 {
				return plain(0, rn.a) + "::" + tail, true, "v6/dotted-tail-compressed"
			}
			return plain(0, rn.a) + "::" + plain(rn.b, 6) + ":" + tail, true, "v6/dotted-tail-compressed"
		}
		return plain(0, 6) + ":" + tail, true, "v6/dotted-tail"
	case 4: // "::" that stands for no group at all
		a := rng.Intn(9)
		return plain(0, a) + "::" + plain(a, 8), false, "v6/bad-empty-ellipsis"
	case 5: // two ellipses
		if len(runs) < 2 {
			return "1::2::3", false, "v6/bad-two-ellipses"
		}
		return plain(0, runs[0].a) + "::" + plain(runs[0].b, runs[1].a) + "::" + plain(runs[1].b, 8), false, "v6/bad-two-ellipses"
	case 6:
		return plain(0, 8) + ":" + hexg(g[0]), false, "v6/bad-nine-groups"
	case 7:
		return plain(0, 7), false, "v6/bad-seven-groups"
	case 8:
		k := rng.Intn(8)
		var p []string
		for i := 0; i < 8; i++ {
			if i == k {
				p = append(p, fmt.Sprintf("%05x", g[i]))
			} else {
				p = append(p, hexg(g[i]))
			}
		}
		return strings.Join(p, ":"), false, "v6/bad-five-digits"
	case 9:
		base := c18addr16(ip).String()
		return base + []string{"%eth0", "%", "%1", "%25eth0"}[rng.Intn(4)], false, "v6/zone"
	case 10:
		base := c18addr16(ip).String()
		if rng.Intn(2) == 0 {
			return "[" + base + "]", false, "v6/brackets"
		}
		return "[" + base + "]:" + strconv.Itoa(rng.Intn(65536)), false, "v6/brackets-port"
	case 11:
		return plain(0, 8) + ":", false, "v6/bad-trailing-colon"
	case 12:
		return ":" + plain(0, 8), false, "v6/bad-leading-colon"
	case 13:
		k := rng.Intn(8)
		var p []string
		for i := 0; i < 8; i++ {
			if i == k {
				p = append(p, []string{"g", "-1", "0x1", " 1"}[rng.Intn(4)])
			} else {
				p = append(p, hexg(g[i]))
			}
		}
		return strings.Join(p, ":"), false, "v6/bad-group"
	case 14: // dotted quad in the wrong place or broken
		tail := fmt.Sprintf("%d.%d.%d.%d", g[6]>>8, g[6]&0xff, g[7]>>8, g[7]&0xff)
		switch rng.Intn(5) {
		case 0:
			return plain(0, 5) + ":" + tail, false, "v6/bad-dotted-early"
		case 1:
			return plain(0, 7) + ":" + tail, false, "v6/bad-dotted-late"
		case 2:
			return plain(0, 6) + ":" + tail + ":" + hexg(1), false, "v6/bad-dotted-not-last"
		case 3:
			return plain(0, 6) + ":0" + tail, false, "v6/bad-dotted-leading-zero"
		}
		return plain(0, 6) + ":" + fmt.Sprintf("%d.%d.%d", g[6]>>8, g[6]&0xff, g[7]>>8), false, "v6/bad-dotted-short"
	}
	return plain(0, 8), true, "v6/expanded"
}

func c18v6(rng *rand.Rand, mask int) c18case {
	var g [8]int
	for i := range g {
		if mask&(1<<uint(i)) != 0 {
			continue
		}
		if rng.Intn(3) == 0 {
			g[i] = 1 + rng.Intn(0xffff)
		} else {
			g[i] = c18groupVals[rng.Intn(len(c18groupVals))]
		}
	}
	if rng.Intn(12) == 0 { // IPv4-mapped and near misses
		g = [8]int{0, 0, 0, 0, 0, []int{0xffff, 0xfffe, 0}[rng.Intn(3)], rng.Intn(65536), rng.Intn(65536)}
		if rng.Intn(6) == 0 {
			g[6], g[7] = 0, 0
		}
	}
	style := rng.Intn(15)
	if rng.Intn(3) == 0 {
		style = rng.Intn(4)
	}
	s, ok, class := c18v6text(rng, g, style)
	c := c18case{s: s, known: true, class: class}
	if ok {
		c.want = make([]byte, 16)
		for i, x := range g {
			binary.BigEndian.PutUint16(c.want[2*i:], uint16(x))
		}
	}
	return c
}

var c18specials = []c18case{
	{"", nil, true, "special/empty"},
	{"0.0.0.0", c18mapped(0, 0, 0, 0), true, "special/unspecified"},
	{"::", make([]byte, 16), true, "special/unspecified"},
	{"::0", make([]byte, 16), true, "special/unspecified"},
	{"0::", make([]byte, 16), true, "special/unspecified"},
	{"0::0", make([]byte, 16), true, "special/unspecified"},
	{"0:0:0:0:0:0:0:0", make([]byte, 16), true, "special/unspecified"},
	{"::0.0.0.0", make([]byte, 16), true, "special/unspecified"},
	{"::ffff:0.0.0.0", c18mapped(0, 0, 0, 0), true, "special/unspecified"},
	{"::ffff:0:0", c18mapped(0, 0, 0, 0), true, "special/unspecified"},
	{"0:0:0:0:0:ffff:0.0.0.0", c18mapped(0, 0, 0, 0), true, "special/unspecified"},
	{"::1", append(make([]byte, 15), 1), true, "special/loopback"},
	{"127.0.0.1", c18mapped(127, 0, 0, 1), true, "special/loopback"},
	{"::ffff:1.2.3.4", c18mapped(1, 2, 3, 4), true, "special/mapped"},
	{"::FFFF:102:304", c18mapped(1, 2, 3, 4), true, "special/mapped"},
	{"1:2:3:4:5:6:7::", []byte{0, 1, 0, 2, 0, 3, 0, 4, 0, 5, 0, 6, 0, 7, 0, 0}, true, "special/ellipsis-one-group"},
	{"::2:3:4:5:6:7:8", []byte{0, 0, 0, 2, 0, 3, 0, 4, 0, 5, 0, 6, 0, 7, 0, 8}, true, "special/ellipsis-one-group"},
	{"1::3:4:5:6:7:8", []byte{0, 1, 0, 0, 0, 3, 0, 4, 0, 5, 0, 6, 0, 7, 0, 8}, true, "special/ellipsis-one-group"},
	{"1:2:3:4:5:6:7:8::", nil, true, "special/bad"},
	{"::1:2:3:4:5:6:7:8", nil, true, "special/bad"},
	{":", nil, true, "special/bad"},
	{":::", nil, true, "special/bad"},
	{"::::", nil, true, "special/bad"},
	{"1:::2", nil, true, "special/bad"},
	{".", nil, true, "special/bad"},
	{"...", nil, true, "special/bad"},
	{"%", nil, true, "special/bad"},
	{"1", nil, true, "special/bad"},
	{"1234", nil, true, "special/bad"},
	{"::%", nil, true, "special/bad"},
	{"::%eth0", nil, true, "special/bad"},
	{"::1.2.3.4", []byte{0, 0, 0, 0, 0, 0, 0, 0, 0, 0, 0, 0, 1, 2, 3, 4}, true, "special/compat"},
	{"1::1.2.3.4", []byte{0, 1, 0, 0, 0, 0, 0, 0, 0, 0, 0, 0, 1, 2, 3, 4}, true, "special/compat"},
	{"1:2:3:4:5:6:7:1.2.3.4", nil, true, "special/bad"},
	{"1:2:3:4:5:6:7::1.2.3.4", nil, true, "special/bad"},
	{"1:2:3:4:5:6::1.2.3.4", nil, true, "special/bad"},
	{"1:2:3:4:5::1.2.3.4", []byte{0, 1, 0, 2, 0, 3, 0, 4, 0, 5, 0, 0, 1, 2, 3, 4}, true, "special/compat"},
	{"::ffff:1.2.3.4.5", nil, true, "special/bad"},
	{"::ffff:1.2.3", nil, true, "special/bad"},
	{"::ffff:256.2.3.4", nil, true, "special/bad"},
	{"::ffff:01.2.3.4", nil, true, "special/bad"},
	{"::12345", nil, true, "special/bad"},
	{"::00001", nil, true, "special/bad"},
	{"::0001", append(make([]byte, 15), 1), true, "special/loopback"},
	{"1.2.3.4:1", nil, true, "special/bad"},
	{"[::1]:1", nil, true, "special/bad"},
	{"localhost", nil, true, "special/bad"},
	{"1.2.3.04", nil, true, "special/bad"},
	{"1.2.3.00", nil, true, "special/bad"},
	{"0.0.0.00", nil, true, "special/bad"},
	{"00.0.0.0", nil, true, "special/bad"},
	{"255.255.255.255", c18mapped(255, 255, 255, 255), true, "special/broadcast"},
	{"ffff:ffff:ffff:ffff:ffff:ffff:ffff:ffff", bytes.Repeat([]byte{0xff}, 16), true, "special/all-ones"},
	{"１.2.3.4", nil, true, "special/bad"},
	{"1.2.3.4\x00", nil, true, "special/bad"},
}

const c18alphabet = "0123456789abcdefABCDEF::::....%[]g -/x"

func c18garbage(rng *rand.Rand, seedCases []c18case) c18case {
	switch rng.Intn(3) {
	case 0:
		n := rng.Intn(24)
		b := make([]byte, n)
		for i := range b {
			b[i] = c18alphabet[rng.Intn(len(c18alphabet))]
		}
		return c18case{string(b), nil, false, "garbage/alphabet"}
	case 1:
		n := rng.Intn(20)
		b := make([]byte, n)
		rng.Read(b)
		return c18case{string(b), nil, false, "garbage/bytes"}
	}
	base := []byte(seedCases[rng.Intn(len(seedCases))].s)
	for k := 0; k <= rng.Intn(3); k++ {
		if len(base) == 0 {
			base = append(base, c18alphabet[rng.Intn(len(c18alphabet))])
			continue
		}
		p := rng.Intn(len(base))
		switch rng.Intn(4) {
		case 0:
			base = append(base[:p], base[p+1:]...)
		case 1:
			base = append(base[:p], append([]byte{c18alphabet[rng.Intn(len(c18alphabet))]}, base[p:]...)...)
		case 2:
			base[p] = c18alphabet[rng.Intn(len(c18alphabet))]
		case 3:
			base = append(base[:p], append([]byte{base[p]}, base[p:]...)...)
		}
	}
	return c18case{string(base), nil, false, "garbage/mutation"}
}

func c18unspecified(ip []byte) bool {
	if len(ip) != 16 {
		return false
	}
	return bytes.Equal(ip, make([]byte, 16)) || bytes.Equal(ip, c18mapped(0, 0, 0, 0))
}

func c18realAddr(s string) (out string) {
	defer func() {
		if e := recover(); e != nil {
			out = "panic"
		}
	}()
	a := clientAddr(s)
	if a == nil {
		return "nil-addr"
	}
	if a.Network() != "snowflake" {
		return "network:" + a.Network()
	}
	return a.String()
}

func c18hexOrNil(b []byte) string {
	if b == nil {
		return "nil"
	}
	return vh.Hex(b)
}

func c18checkAddr(r *vh.Run, c c18case) {
	real := c18realAddr(c.s)
	line := "c18 addr " + vh.Hex([]byte(c.s))
	resClass := "empty"
	if strings.HasPrefix(real, "[") {
		resClass = "v6"
	} else if real != "" {
		resClass = "v4"
	}
	r.Case("addr/"+c.class+"->"+resClass, line, real != "")
	modelHex := r.Model(line)
	r.Compare("clientAddr", line+fmt.Sprintf(" (%q)", c.s), vh.Hex([]byte(real)), modelHex)
	pl := "c18 parse " + vh.Hex([]byte(c.s))
	in := net.ParseIP(c.s)
	r.Compare("ParseIP", pl+fmt.Sprintf(" (%q)", c.s), c18hexOrNil(in), r.Model(pl))

	// ---- oracle: the property on the real code, without the Lean model
	q := fmt.Sprintf("clientAddr(%q)", c.s)
	if real == "panic" || real == "nil-addr" || strings.HasPrefix(real, "network:") {
		r.OracleFail("clientAddr-"+strings.SplitN(real, ":", 2)[0], q, real, "clientAddr must return a ClientMapAddr for every input")
		return
	}
	expect := []byte(in) // what the input denotes
	if c.known {
		expect = c.want
	}
	if len(expect) == 4 {
		expect = c18mapped(int(expect[0]), int(expect[1]), int(expect[2]), int(expect[3]))
	}
	if real == "" {
		if c.s != "" && expect != nil && !c18unspecified(expect) {
			r.OracleFail("clientAddr-valid-address-dropped", q, real, "a valid, specified client_ip must be reported")
		}
		return
	}
	if c.s == "" || expect == nil {
		r.OracleFail("clientAddr-invalid-input-reported", q, real, "absent / unparseable client_ip must give the empty address")
		return
	}
	if c18unspecified(expect) {
		r.OracleFail("clientAddr-unspecified-reported", q, real, "an unspecified client_ip must give the empty address")
		return
	}
	if !strings.HasSuffix(real, ":1") {
		r.OracleFail("clientAddr-no-stub-port", q, real, "result must end in the stub port :1")
		return
	}
	host := strings.TrimSuffix(real, ":1")
	if strings.HasPrefix(host, "[") && strings.HasSuffix(host, "]") {
		host = host[1 : len(host)-1]
		if !strings.Contains(host, ":") {
			r.OracleFail("clientAddr-host-malformed", q, real, "brackets around a host without colon")
			return
		}
	} else if strings.Contains(host, ":") {
		r.OracleFail("clientAddr-host-malformed", q, real, "IPv6 host must be bracketed")
		return
	}
	back, err := netip.ParseAddr(host)
	if err != nil || back.Zone() != "" {
		r.OracleFail("clientAddr-host-malformed", q, real, "host part of the result is not an IP address")
		return
	}
	b16 := back.As16()
	if !bytes.Equal(b16[:], expect) {
		r.OracleFail("clientAddr-wrong-address", q, real, fmt.Sprintf("result denotes %v, input denotes %v", net.IP(b16[:]), net.IP(expect)))
	}
	if hs, ps, err := net.SplitHostPort(real); err != nil || ps != "1" || hs != host {
		r.OracleFail("clientAddr-host-malformed", q, real, "net.SplitHostPort does not give back host and stub port")
	}
}

// ---------------------------------------------------------------------------------------------
// ring map

func c18id(k uint64) turbotunnel.ClientID {
	var id turbotunnel.ClientID
	binary.BigEndian.PutUint64(id[:], k)
	return id
}

func c18addrVal(a net.Addr) string {
	if a == nil {
		return "0"
	}
	return a.String()
}

type c18op struct {
	set bool
	k   uint64
	v   int
}

// c18runRing runs one operation sequence on a fresh real map; canonical line as printed by the model.
func c18runRing(capacity int, ops []c18op) (line string, outs []string, m *clientIDMap) {
	defer func() {
		if e := recover(); e != nil {
			line = fmt.Sprintf("panic: %v", e)
		}
	}()
	m = newClientIDMap(capacity)
	for _, op := range ops {
		if op.set {
			m.Set(c18id(op.k), ClientMapAddr(strconv.Itoa(op.v)))
		} else {
			a, ok := m.Get(c18id(op.k))
			switch {
			case !ok && a == nil:
				outs = append(outs, "none")
			case !ok:
				outs = append(outs, "notok:"+c18addrVal(a))
			default:
				outs = append(outs, c18addrVal(a))
			}
		}
	}
	var es []string
	for _, e := range m.entries {
		es = append(es, fmt.Sprintf("%d:%s", binary.BigEndian.Uint64(e.clientID[:]), c18addrVal(e.addr)))
	}
	o, e := ".", "."
	if len(outs) > 0 {
		o = strings.Join(outs, ",")
	}
	if len(es) > 0 {
		e = strings.Join(es, ",")
	}
	return fmt.Sprintf("%s len=%d oldest=%d entries=%s", o, len(m.current), m.oldest, e), outs, m
}

func c18ringLine(capacity int, ops []c18op) string {
	var sb strings.Builder
	fmt.Fprintf(&sb, "c18 ring %d", capacity)
	for _, op := range ops {
		if op.set {
			fmt.Fprintf(&sb, " s%d=%d", op.k, op.v)
		} else {
			fmt.Fprintf(&sb, " g%d", op.k)
		}
	}
	return sb.String()
}

// c18ringOracle evaluates the property on the real map for one operation sequence, against an
// independent reference (log of all sets; a get sees the newest set of its key among the last
// `capacity` sets).  key == "" means the property holds.
func c18ringOracle(capacity int, ops []c18op) (key, real, detail, realLine string) {
	realLine, outs, m := c18runRing(capacity, ops)
	if strings.HasPrefix(realLine, "panic") {
		return "ring-panic", realLine, "Set/Get must not panic", realLine
	}
	type rec struct {
		k uint64
		v int
	}
	var log []rec
	gi := 0
	for _, op := range ops {
		if op.set {
			log = append(log, rec{op.k, op.v})
			continue
		}
		got := outs[gi]
		gi++
		want := "none"
		lo := len(log) - capacity
		if lo < 0 {
			lo = 0
		}
		for j := len(log) - 1; j >= lo; j-- {
			if log[j].k == op.k {
				want = strconv.Itoa(log[j].v)
				break
			}
		}
		if got == want {
			continue
		}
		key, detail = "ring-wrong-value", "Get returned a value that was never stored"
		switch {
		case got == "none":
			key, detail = "ring-forgot-within-capacity", "the id was set among the last `capacity` sets but Get reports it absent"
		default:
			if want == "none" {
				key, detail = "ring-remembers-beyond-capacity", "the id was not set among the last `capacity` sets but Get reports a value"
			}
			for _, e := range log {
				if strconv.Itoa(e.v) == got && e.k != op.k {
					key, detail = "ring-other-clients-address", "Get returned the address stored for a different ClientID"
				} else if strconv.Itoa(e.v) == got && want != "none" {
					key, detail = "ring-stale-value", "Get returned an older address of the same ClientID"
				}
			}
		}
		return key, fmt.Sprintf("get #%d of id %d: got %s want %s", gi, op.k, got, want), detail, realLine
	}
	if len(m.current) > capacity || len(m.entries) != capacity {
		return "ring-size-exceeds-capacity", fmt.Sprintf("len(current)=%d len(entries)=%d capacity=%d", len(m.current), len(m.entries), capacity),
			"the map must never remember more than `capacity` ClientIDs", realLine
	}
	return "", "", "", realLine
}

func c18ringCase(r *vh.Run, rng *rand.Rand, capacity, nops int, pool uint64, class string) {
	ops := make([]c18op, 0, nops)
	val := 0
	for i := 0; i < nops; i++ {
		k := uint64(rng.Int63n(int64(pool)))
		if rng.Intn(40) == 0 {
			k = 0 // the all-zero ClientID, which is also the key of a never-written slot
		}
		if rng.Intn(5) < 3 {
			// addresses repeat: the same client re-presents its ClientID from the same address (a second carrier),
			// and different clients can share an address
			v := 0
			switch {
			case val > 0 && rng.Intn(3) == 0:
				v = 1 + rng.Intn(val)
			case val > 0 && rng.Intn(4) == 0:
				v = val
			default:
				val++
				v = val
			}
			ops = append(ops, c18op{true, k, v})
		} else {
			ops = append(ops, c18op{false, k, 0})
		}
	}
	line := c18ringLine(capacity, ops)
	key, real, detail, realLine := c18ringOracle(capacity, ops)
	r.Case(class, line, nops > 0)
	r.Compare("ring", line, realLine, r.Model(line))
	if key == "" {
		return
	}
	// shrink: drop operations while the same failure class persists (bounded effort)
	if len(ops) <= 400 {
		for changed := true; changed; {
			changed = false
			for i := len(ops) - 1; i >= 0; i-- {
				cand := append(append([]c18op{}, ops[:i]...), ops[i+1:]...)
				if k2, r2, d2, _ := c18ringOracle(capacity, cand); k2 == key {
					ops, real, detail, changed = cand, r2, d2, true
				}
			}
		}
	}
	r.OracleFail(key, c18ringLine(capacity, ops), real, detail)
}

// ---------------------------------------------------------------------------------------------

func TestVerifC18ServerLib(t *testing.T) {
	r := vh.Start("C18")
	defer r.Finish()
	rng := r.Rng

	// 1. clientAddr
	{
		irng := rand.New(rand.NewSource(r.Seed + 77))
		var cs []string
		for i := 0; i < r.N(300, 3000); i++ {
			switch irng.Intn(3) {
			case 0:
				cs = append(cs, c18v4(irng).s)
			case 1:
				cs = append(cs, c18v6(irng, irng.Intn(256)).s)
			default:
				cs = append(cs, c18garbage(irng, []c18case{c18v4(irng), c18v6(irng, irng.Intn(256))}).s)
			}
		}
		r.Independent("clientAddr", "clientAddr", cs, c18realAddr)
	}
	var pool []c18case
	for _, c := range c18specials {
		c18checkAddr(r, c)
		pool = append(pool, c)
	}
	for rep := 0; rep < r.N(4, 60); rep++ {
		for mask := 0; mask < 256; mask++ { // every pattern of zero groups
			c := c18v6(rng, mask)
			c18checkAddr(r, c)
			if len(pool) < 4000 {
				pool = append(pool, c)
			}
		}
	}
	for i := 0; i < r.N(1500, 40000); i++ {
		c := c18v4(rng)
		c18checkAddr(r, c)
		if len(pool) < 6000 {
			pool = append(pool, c)
		}
	}
	for i := 0; i < r.N(2500, 80000); i++ {
		c18checkAddr(r, c18garbage(rng, pool))
	}

	// 2. net.IP.String / IsUnspecified / IsLoopback on raw byte slices (4, 16 and odd lengths)
	for i := 0; i < r.N(1500, 40000); i++ {
		n := []int{4, 4, 16, 16, 16, 16, 16, 16, 16, 16, 16, 16, 0, 3, 5, 15, 17}[rng.Intn(17)]
		ip := make(net.IP, n)
		if n == 16 {
			mask := rng.Intn(256)
			for g := 0; g < 8; g++ {
				if mask&(1<<uint(g)) == 0 {
					binary.BigEndian.PutUint16(ip[2*g:], uint16(c18groupVals[rng.Intn(len(c18groupVals))]))
					if rng.Intn(3) == 0 {
						binary.BigEndian.PutUint16(ip[2*g:], uint16(rng.Intn(65536)))
					}
				}
			}
			if rng.Intn(8) == 0 {
				copy(ip, c18mapped(rng.Intn(256), rng.Intn(2)*rng.Intn(256), 0, rng.Intn(3)))
			}
			if rng.Intn(30) == 0 {
				copy(ip, append(make([]byte, 15), byte(rng.Intn(3))))
			}
		} else {
			rng.Read(ip)
			if rng.Intn(5) == 0 && n >= 1 {
				ip[0] = 127
			}
			if rng.Intn(10) == 0 {
				for j := range ip {
					ip[j] = 0
				}
			}
		}
		line := "c18 render " + vh.Hex(ip)
		str := ip.String()
		r.Case(fmt.Sprintf("render/len%d/colon=%v/dcolon=%v", n, strings.Contains(str, ":"), strings.Contains(str, "::")), line, n > 0)
		r.Compare("IP.String", line, vh.Hex([]byte(str)), r.Model(line))
		pl := "c18 pred " + vh.Hex(ip)
		r.Compare("IP.predicates", pl, fmt.Sprintf("unspec=%v loopback=%v", ip.IsUnspecified(), ip.IsLoopback()), r.Model(pl))
		if n == 4 || n == 16 { // oracle: Go's own text parses back to the same address
			back := net.ParseIP(str)
			if back == nil || !back.Equal(ip) {
				r.OracleFail("render-does-not-parse-back", line, str, "net.ParseIP(ip.String()) must be the same address")
			}
		}
	}

	// 3. ring map
	if len(clientIDAddrMap.entries) != clientIDAddrMapCapacity || clientIDAddrMapCapacity <= 0 {
		r.OracleFail("global-map-capacity", "clientIDAddrMap", fmt.Sprintf("len(entries)=%d const=%d", len(clientIDAddrMap.entries), clientIDAddrMapCapacity),
			"the server's map must have the positive capacity clientIDAddrMapCapacity")
	}
	for rep := 0; rep < r.N(60, 1500); rep++ {
		for capacity := 0; capacity <= 8; capacity++ {
			nops := rng.Intn(6*capacity + 12)
			pool := uint64(1 + rng.Intn(2*capacity+3))
			c18ringCase(r, rng, capacity, nops, pool, fmt.Sprintf("ring/cap%d", capacity))
		}
	}
	for rep := 0; rep < r.N(2, 12); rep++ {
		capacity := clientIDAddrMapCapacity
		nops := 2*capacity + rng.Intn(capacity)
		if capacity > 20000 { // keep one line manageable if the constant is ever raised
			capacity, nops = 20000, 45000
		}
		pool := uint64(capacity/2 + rng.Intn(capacity))
		c18ringCase(r, rng, capacity, nops, pool, "ring/cap-const")
	}
}
